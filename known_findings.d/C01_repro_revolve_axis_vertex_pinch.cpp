// Observation made by the C17 harness (belongs to C01): Revolve of a profile that touches the axis with ONE vertex
// yields a surface pinched at that vertex; V-E+F is odd and Genus() = 1 - chi/2 is truncated.
// build: g++ -std=c++17 -I/repo/include C01_revolve_axis_vertex_pinch.cpp /verif/build/asan-*/libmanifold.a -fsanitize=address,undefined
#include <cstdio>
#include "manifold/manifold.h"
using namespace manifold;
int main() {
  Polygons tri = {{{0, 0}, {2, -1}, {2, 1}}};  // touches the axis at (0,0) only
  Manifold m = Manifold::Revolve(tri, 8, 360.0);
  long chi = (long)m.NumVert() - (long)m.NumEdge() + (long)m.NumTri();
  printf("Status=%d V=%zu E=%zu F=%zu chi=%ld Genus()=%d\n", (int)m.Status(), m.NumVert(), m.NumEdge(), m.NumTri(), chi, m.Genus());
  return chi % 2 != 0;
}
