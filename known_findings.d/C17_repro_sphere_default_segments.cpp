// C17 finding: Sphere's default segment count divides the Quality default by four with truncation.
// build: g++ -std=c++17 -I/repo/include C17_sphere_default_segments.cpp /verif/build/asan-*/libmanifold.a -fsanitize=address,undefined
#include <cstdio>
#include "manifold/manifold.h"
using namespace manifold;
int main() {
  for (int k : {5, 7, 10, 13}) {  // documented: "always rounded up to the nearest factor of four"
    Quality::SetCircularSegments(k);
    Manifold s = Manifold::Sphere(1.0);  // default circularSegments
    Manifold e = Manifold::Sphere(1.0, k);  // explicit argument: rounded up
    printf("SetCircularSegments(%2d): default sphere %4zu tris, Sphere(1,%2d) %4zu tris  %s\n", k, s.NumTri(), k, e.NumTri(),
           s.NumTri() == e.NumTri() ? "" : "<- rounded down instead of up");
  }
  Quality::SetCircularSegments(3);  // valid (>= 3) per SetCircularSegments
  puts("SetCircularSegments(3); Sphere(1.0) ...");
  fflush(stdout);
  // n = 3/4 = 0 -> Subdivide(-1). Before commit bfd6818e this asked for 2^64-240 bytes (ASan:
  // allocation-size-too-big); since bfd6818e the negative count is clamped and the octahedron comes back.
  Manifold s = Manifold::Sphere(1.0);
  printf("returned %zu tris\n", s.NumTri());
  Quality::ResetToDefaults();
}
