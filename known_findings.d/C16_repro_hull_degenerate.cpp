// C16 finding: Hull of points that span no volume is not empty.
// Documented (src/manifold.cpp, Manifold::Hull(points)): "If the given points are fewer than 4, or they are all
// coplanar, an empty Manifold will be returned."  Observed: a zero-volume tetrahedron / flat fan with NoError.
// build: g++ -std=c++17 -I/repo/include C16_hull_degenerate.cpp /verif/build/asan-*/libmanifold.a -fsanitize=address,undefined
#include <cstdio>
#include "manifold/manifold.h"
using namespace manifold;
int main() {
  int bad = 0;
  auto t = [&](const char* name, std::vector<vec3> p) {
    Manifold h = Manifold::Hull(p);
    printf("%-18s IsEmpty=%d NumTri=%zu Status=%d Volume=%g\n", name, h.IsEmpty(), h.NumTri(), (int)h.Status(), h.Volume());
    bad += !h.IsEmpty();
  };
  t("two points", {{1, 6, -1}, {2, -6, -3}});
  t("three points", {{0, 0, 0}, {1, 0, 0}, {0, 1, 0}});
  t("same point x5", {{0, 0, 0}, {0, 0, 0}, {0, 0, 0}, {0, 0, 0}, {0, 0, 0}});
  t("collinear x6", {{0, 0, 0}, {1, 2, -3}, {2, 4, -6}, {3, 6, -9}, {-1, -2, 3}, {5, 10, -15}});
  t("coplanar x4", {{0, -12, -24}, {0, 0, 0}, {18, 6, 24}, {18, -18, -24}});
  t("coplanar grid 5x5", [] { std::vector<vec3> p; for (int i = 0; i < 5; i++) for (int j = 0; j < 5; j++) p.push_back({(double)i, (double)j, 0}); return p; }());
  printf("%s\n", bad ? "DEFECT: non-empty hull of a point set without volume" : "ok");
  return bad ? 1 : 0;
}
