// C10 reproducer: a ring with a single point makes Triangulate() throw std::length_error.
// IsConvex() lets the ring pass (all its NaN comparisons are false), TriangulateConvex() then
// computes poly.size() - 2 in size_t (polygon.cpp:213) = 2^64-1 triangles and
// HalfedgeTriangulation::ReserveTriangles() asks std::vector for that many halfedges.
// Build: g++ -std=c++17 -fsanitize=address,undefined -I/repo/include repro_c10_one_point_ring.cpp \
//        /verif/build/asan-<hash>/libmanifold.a -o repro_one && ./repro_one
#include <cstdio>
#include <exception>
#include "manifold/polygon.h"
using namespace manifold;
int main() {
  Polygons polys = {{{2, -2}}};
  try {
    std::vector<ivec3> t = Triangulate(polys);  // allowConvex defaults to true
    printf("returned %zu triangles\n", t.size());
  } catch (const std::exception& e) {
    printf("exception: %s\n", e.what());
    return 1;
  }
  return 0;
}
