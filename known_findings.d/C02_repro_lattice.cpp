// Reproducers for the open C02 lattice findings (public API only).
//   g++ -std=c++17 -I/repo/include C02_repro_lattice.cpp /verif/build/asan-*/libmanifold.a -fsanitize=address,undefined -lpthread
// Every line prints the volume the library returns and the exact volume of the
// voxel-set result; all operands are integer boxes built with Cube(size).Translate(corner).
#include <cstdio>

#include "manifold/manifold.h"
using namespace manifold;
static Manifold B(int x0, int x1, int y0, int y1, int z0, int z1) {
  return Manifold::Cube(vec3(x1 - x0, y1 - y0, z1 - z0)).Translate(vec3(x0, y0, z0));
}
// force evaluation now (the checks evaluate every step eagerly; a lazily built expression is
// re-associated / re-ordered by the CSG tree and may take a different path through the kernel)
static Manifold F(const Manifold& m) { (void)m.Status(); return m; }
static int bad = 0;
static void show(const char* what, const Manifold& m, double expect) {
  double v = m.Volume();
  printf("%-64s volume %.12g  expected %g  %s\n", what, v, expect, std::fabs(v - expect) > 1e-9 ? "WRONG" : "ok");
  if (std::fabs(v - expect) > 1e-9) bad++;
}
int main() {
  {  // family 1: second operand = union of two boxes touching along an edge
    Manifold X = B(0, 3, 0, 1, 0, 1), P = B(0, 3, 1, 2, 1, 2), Q = B(1, 2, 0, 1, 0, 1);
    show("P+Q (touch along the edge 1<=x<=2, y=1, z=1)", P + Q, 4);
    show("X ^ F(P+Q)   [= Q]", X ^ F(P + Q), 1);
    show("F(P+Q) ^ X   (operands swapped: right)", F(P + Q) ^ X, 1);
    show("(P+Q) ^ X built lazily (the tree evaluates X ^ (P+Q))", (P + Q) ^ X, 1);
    show("(X^P) + (X^Q)   (component-wise: right)", (X ^ P) + (X ^ Q), 1);
    Manifold X2 = B(1, 3, 0, 2, 1, 2), P2 = B(0, 1, 0, 2, 0, 1), Q2 = B(1, 2, 1, 2, 1, 2);
    show("X2 - F(P2+Q2)", X2 - F(P2 + Q2), 3);
    show("(X2 - P2) - Q2   (one at a time: right)", (X2 - P2) - Q2, 3);
  }
  {  // family 2: an earlier union keeps a vertex inside a straight edge (0.6667,*,*)
    Manifold a = B(0, 2, 0, 3, 2, 3), b = B(0, 3, 1, 3, 2, 3), X = B(0, 3, 1, 2, 2, 3);
    Manifold Y = F(a + b);
    show("Y = a+b (L-shaped)", Y, 8);
    show("X + Y, X a box inside Y   [7 instead of 8]", X + Y, 8);
    show("Y + X", Y + X, 8);
    // the minimal form found by the shrinker: a UNIT box inside the L-shaped union
    Manifold a2 = B(0, 2, 0, 3, 0, 1), b2 = B(0, 3, 1, 3, 0, 1), U = B(0, 1, 1, 2, 0, 1);
    show("U + F(a2+b2), U a unit sub-box   [7 instead of 8]", U + F(a2 + b2), 8);
    show("F(a+b) + c, c = [0,1]x[0,1]x[2,3] inside a   [7 instead of 8]", Y + B(0, 1, 0, 1, 2, 3), 8);
    Manifold A = B(2, 3, 0, 3, 0, 2), s1 = B(2, 3, 1, 3, 1, 2), s2 = B(2, 3, 0, 1, 1, 2);
    show("F(A + s1) + s2, s1 and s2 sub-boxes of A", F(A + s1) + s2, 6);
    MeshGL64 g = Y.GetMeshGL64();
    for (size_t i = 0; i < g.vertProperties.size(); i += g.numProp)
      if (g.vertProperties[i] != std::floor(g.vertProperties[i]) || g.vertProperties[i + 1] != std::floor(g.vertProperties[i + 1]))
        printf("    Y has the off-lattice vertex (%.17g, %.17g, %.17g)\n", g.vertProperties[i], g.vertProperties[i + 1], g.vertProperties[i + 2]);
  }
  {  // family 3: the intersection of face-touching boxes is a non-empty zero-thickness sheet
    Manifold A = B(1, 2, 2, 3, 0, 1), Bq = B(2, 3, 1, 3, 0, 1);
    Manifold S = A ^ Bq;
    printf("A ^ B for face-touching A, B: %zu triangles, volume %g (a regularised result would be empty)\n", S.NumTri(), S.Volume());
    show("A + F(F(A^B)^B)", A + F(F(A ^ Bq) ^ Bq), 1);
  }
  printf("%d wrong result(s)\n", bad);
  return bad ? 1 : 0;
}
