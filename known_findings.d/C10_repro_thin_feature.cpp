// C10 reproducer: an exactly simple polygon (a comb with one needle tooth) whose needle is
// 0.8*epsilon wide, with one vertex moved < epsilon/2 off an edge: Triangulate(eps=1e-5)
// returns a clockwise triangle of height 0.1 (polygon size 2). Every vertex is farther than
// epsilon from every non-incident edge EXCEPT across the needle; with epsilon = 1e-6 (needle
// 8 epsilon wide) the result is correct.
#include <cstdio>
#include "manifold/polygon.h"
using namespace manifold;
int main() {
  Polygons P = {{{0, 0}, {1.2885258675775915, -1.5296081487045678}, {1.5179670898832767, -1.3363292685679291},
                 {1.3893603810823589, -1.1836542113133661}, {0.87370871275713347, -0.57153060314105564},
                 {1.4855527849645602, -0.056120235132684604}, {1.4855491040033744, -0.056115028509102327},
                 {0.95456449738886606, -0.50341302050566028}, {0.87370445661817131, -0.57152361502047599},
                 {0.22944122230568517, 0.19327888013663871}}};
  int bad = 0;
  for (double eps : {1e-5, 1e-6}) {
    auto t = Triangulate(P, eps, false);
    int cw = 0;
    for (auto& tr : t) {
      vec2 a = P[0][tr[0]], b = P[0][tr[1]], c = P[0][tr[2]];
      double cross = (b.x - a.x) * (c.y - a.y) - (b.y - a.y) * (c.x - a.x);
      if (cross < -1e-3) { cw++; printf("  eps=%g: triangle (%d,%d,%d) clockwise, 2*area=%g\n", eps, tr[0], tr[1], tr[2], cross); }
    }
    printf("eps=%g: %zu triangles, %d clockwise\n", eps, t.size(), cw);
    if (eps == 1e-5) bad += cw;
  }
  return bad ? 1 : 0;
}
