// Reproducer (public API only): C08 "the OBJ writer/reader round-trips positions
// and triangles exactly".
//   default writer: std::fixed << setprecision(19) => small coordinates lose bits
//   MANIFOLD_OBJ_HEX_FLOAT=1: writer emits %.13a which the reader's regex rejects
#include <cstdio>
#include <cstdlib>
#include <cstring>
#include <sstream>
#include "manifold/manifold.h"
using namespace manifold;

static void trip(const char* label, double scale) {
  Manifold t = Manifold::Tetrahedron().Scale(vec3(scale)).Translate(vec3(scale * 0.123456789, 0, 0));
  MeshGL64 g = t.GetMeshGL64();
  {
    std::stringstream ss;
    WriteOBJ(ss, g);
    MeshGL64 r = ReadOBJ(ss);
    size_t diff = 0;
    for (size_t i = 0; i < g.vertProperties.size() && i < r.vertProperties.size(); i++)
      if (memcmp(&g.vertProperties[i], &r.vertProperties[i], 8)) diff++;
    printf("%s scale=%g free WriteOBJ/ReadOBJ: verts %zu->%zu tris %zu->%zu coordinates differing in bits: %zu of %zu\n", label, scale, g.vertProperties.size() / 3,
           r.vertProperties.size() / 3, g.triVerts.size() / 3, r.triVerts.size() / 3, diff, g.vertProperties.size());
    if (diff) {
      for (size_t i = 0; i < g.vertProperties.size(); i++)
        if (memcmp(&g.vertProperties[i], &r.vertProperties[i], 8)) {
          printf("   e.g. wrote %.17g read %.17g\n", g.vertProperties[i], r.vertProperties[i]);
          break;
        }
    }
  }
  {
    std::stringstream ss;
    t.WriteOBJ(ss);
    if (scale == 1.0) {
      std::string s = ss.str();
      printf("--- first lines ---\n%.*s---\n", 260, s.c_str());
    }
    Manifold r = Manifold::ReadOBJ(ss);
    printf("%s scale=%g Manifold::WriteOBJ/ReadOBJ: status=%d tris %zu->%zu\n", label, scale, (int)r.Status(), t.NumTri(), r.NumTri());
  }
}

int main(int argc, char** argv) {
  for (double s : {1.0, 1e-3, 1e-6, 1e-12, 1e6, 1e12}) trip("fixed", s);
  setenv("MANIFOLD_OBJ_HEX_FLOAT", "1", 1);
  for (double s : {1.0, 1e-6}) trip("hexfloat", s);
  return 0;
}
