// C10 reproducer: with the default epsilon (-1) the convex fast path is taken for a
// NON-convex polygon. TriangulateIdxHalfedgesImpl passes the raw epsilon (-1) to IsConvex
// (polygon.cpp:966), so the guard "std::abs(det) < epsilon && dot(lastEdge, edge) < 0"
// (polygon.cpp:197) can never fire: a vertex duplicated within epsilon/4 at a reflex corner
// turns the reflex turn into two "left" turns and IsConvex returns true. allowConvex=false
// gives a correct result for the same input.
#include <cstdio>
#include "manifold/polygon.h"
using namespace manifold;
int main() {
  Polygons P = {{{48843217.52083144, 46067153.334387645}, {48843217.5208315, 46067153.334386885},  // duplicate, 7.6e-7 apart
                 {53162295.121012546, 58323491.955824204}, {42479499.553156964, 69159223.96413626},
                 {37359711.3354374, 57040666.4688677}, {31546547.793406602, 40323713.52956332},
                 {33277976.3086707, 33388689.47378018}, {42479499.553156964, 16558814.682690393},
                 {61125417.12358323, 33488677.58206858}}};
  int bad = 0;
  for (int allowConvex = 0; allowConvex < 2; allowConvex++) {
    auto t = Triangulate(P, -1, allowConvex);  // default epsilon = 1e-12 * 6.9e7 = 6.9e-5
    int cw = 0;
    for (auto& tr : t) {
      vec2 a = P[0][tr[0]], b = P[0][tr[1]], c = P[0][tr[2]];
      double cross = (b.x - a.x) * (c.y - a.y) - (b.y - a.y) * (c.x - a.x);
      if (cross < -1.0) { cw++; printf("  allowConvex=%d: triangle (%d,%d,%d) clockwise, 2*area=%g\n", allowConvex, tr[0], tr[1], tr[2], cross); }
    }
    printf("allowConvex=%d: %zu triangles, %d clockwise\n", allowConvex, t.size(), cw);
    bad += cw;
  }
  return bad ? 1 : 0;
}
