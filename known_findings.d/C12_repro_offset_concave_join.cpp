// Reproducer for the open C12 finding (keys offset:concave-join-collapse:*).
// Public API only. Build against any variant archive, e.g.
//   g++ -std=c++17 -O1 -fsanitize=address,undefined -DMANIFOLD_PAR=-1 -I/repo/include \
//       C12_repro_offset_concave_join.cpp /verif/build/asan-<hash>/libmanifold.a -lpthread -o repro && ./repro
// Exit code 1 = defect present.
//
// Root cause: src/boolean2_offset.cpp, OffsetContour(), concave-join branch
// (`if (!convex) { out.push_back(endPrev); out.push_back(startNext); continue; }`):
// the original vertex V is not emitted. The comment claims V "only changes the
// corner's winding multiplicity"; that holds only while both translated edges
// still reach their mutual crossing point. Once |delta|*tan(turn/2) consumes
// an adjacent edge, the connector endPrev->startNext re-links the ring across
// the vanished edge and the inverted part keeps POSITIVE winding, so the final
// Positive fill keeps it.
// Proposed patch: emit V between the two points (as Clipper2 does):
//       out.push_back(endPrev);
//   +   out.push_back(V);
//       out.push_back(startNext);
#include <cmath>
#include <cstdio>

#include "manifold/cross_section.h"
using namespace manifold;

int main() {
  int bad = 0;
  // 1. inset deeper than the inradius must be empty
  for (JoinType jt : {JoinType::Round, JoinType::Miter, JoinType::Square, JoinType::Bevel}) {
    CrossSection r = CrossSection::Square({1.0, 1.0}).Offset(-2.0, jt, 2.0, 16);
    Rect b = r.Bounds();
    printf("Square(1).Offset(-2, join %d): area %g (expected 0), %zu contour(s), bounds [%g,%g]x[%g,%g]\n", (int)jt, r.Area(), r.NumContour(), b.min.x,
           b.max.x, b.min.y, b.max.y);
    if (!r.IsEmpty()) bad++;
  }
  // 2. dilation that closes a hole must not leave a hole
  CrossSection frame = CrossSection::Square({10, 10}, true) - CrossSection::Square({1, 1}, true);
  CrossSection r = frame.Offset(3.0, JoinType::Miter, 2.0, 0);
  printf("frame.Offset(3, Miter): area %g (expected 256), %zu contour(s) (expected 1)\n", r.Area(), r.NumContour());
  if (std::fabs(r.Area() - 256.0) > 1e-9 || r.NumContour() != 1) bad++;
  printf(bad ? "DEFECT PRESENT (%d checks failed)\n" : "ok\n", bad);
  return bad ? 1 : 0;
}
