// How far off its own source face can a triangle of A end up in A op A.Translate(t), |t| ~ k*tolerance ?
#include <cstdio>
#include <cmath>
#include <random>
#include "manifold/manifold.h"
using namespace manifold;
typedef long double LD;
struct V { LD x, y, z; };
static V sub(V a, V b) { return {a.x - b.x, a.y - b.y, a.z - b.z}; }
static LD dot(V a, V b) { return a.x * b.x + a.y * b.y + a.z * b.z; }
static V cross(V a, V b) { return {a.y * b.z - a.z * b.y, a.z * b.x - a.x * b.z, a.x * b.y - a.y * b.x}; }

int main(int argc, char** argv) {
  double rad = 2.4943313444152042;
  Manifold s0 = Manifold::Sphere(rad, 8);
  MeshGL64 g = s0.GetMeshGL64();
  g.faceID.resize(g.triVerts.size() / 3);
  for (size_t t = 0; t < g.faceID.size(); t++) g.faceID[t] = t;
  uint32_t id = Manifold::ReserveIDs(1);
  g.runOriginalID = {id};
  g.runIndex = {0, g.triVerts.size()};
  Manifold a(g);
  double tol = a.GetTolerance();
  printf("tol=%g eps=%g\n", tol, a.GetEpsilon());
  std::mt19937_64 rng(1);
  std::uniform_real_distribution<double> U(-1, 1);
  for (double k : {0.3, 0.6, 1.0, 1.5, 2.0, 3.0, 5.0, 10.0, 30.0, 100.0, 1000.0}) {
    LD worst = 0, worstPlane = 0;
    for (int rep = 0; rep < 200; rep++) {
      vec3 t(U(rng), U(rng), U(rng));
      t = la::normalize(t) * (k * tol);
      for (int op = 0; op < 3; op++) {
        Manifold r = a.Boolean(a.Translate(t), (OpType)op);
        MeshGL64 o = r.GetMeshGL64();
        for (size_t run = 0; run < o.runOriginalID.size(); run++) {
          mat3x4 T = o.GetRunTransform(run);
          for (size_t tri = o.runIndex[run] / 3; tri < o.runIndex[run + 1] / 3; tri++) {
            size_t st = o.faceID[tri];
            V p[3];
            for (int j = 0; j < 3; j++) {
              size_t v = g.triVerts[3 * st + j];
              vec3 q = T * vec4(g.vertProperties[3 * v], g.vertProperties[3 * v + 1], g.vertProperties[3 * v + 2], 1.0);
              p[j] = {q.x, q.y, q.z};
            }
            V n = cross(sub(p[1], p[0]), sub(p[2], p[0]));
            LD nn = sqrtl(dot(n, n));
            for (int j = 0; j < 3; j++) {
              size_t v = o.triVerts[3 * tri + j];
              V q{o.vertProperties[v * o.numProp], o.vertProperties[v * o.numProp + 1], o.vertProperties[v * o.numProp + 2]};
              LD d = fabsl(dot(sub(q, p[0]), n)) / nn;
              worstPlane = std::max(worstPlane, d / o.tolerance);
            }
          }
        }
      }
    }
    printf("|t| = %6.1f tol : worst plane distance of an output vertex to its source triangle's plane = %.3Lf tol\n", k, worstPlane);
  }
}
