// Reproducer (public API only) for C07: vertex properties of a Boolean result do not
// equal the source's (globally affine) property field at the vertex position.
//   original O: a box with one property channel f(p) = a.p + b (continuous, affine everywhere)
//   C = O - O.Rotate(r)            (fine)
//   R = C op C.Translate(t), |t| = a few tolerances
// Every exported corner of R must carry f(T_run^-1 v); the program prints the worst deviation
// in units of |a|*tolerance.
#include <cstdio>
#include <cmath>
#include <random>
#include "manifold/manifold.h"
using namespace manifold;

static vec3 a(0.7, -1.1, 0.4);
static double b = 0.3;

static long double worstErr(const Manifold& r, vec3* where = nullptr) {
  MeshGL64 o = r.GetMeshGL64();
  long double worst = 0;
  for (size_t run = 0; run < o.runOriginalID.size(); run++) {
    mat3x4 T = o.GetRunTransform(run);
    mat3 Li = la::inverse(mat3(T));
    for (size_t i = o.runIndex[run]; i < o.runIndex[run + 1]; i++) {
      size_t v = o.triVerts[i];
      vec3 q(o.vertProperties[o.numProp * v], o.vertProperties[o.numProp * v + 1], o.vertProperties[o.numProp * v + 2]);
      vec3 p = Li * (q - T[3]);
      long double e = fabsl((long double)la::dot(a, p) + b - (long double)o.vertProperties[o.numProp * v + 3]);
      long double ratio = e / (la::length(a) * o.tolerance);
      if (ratio > worst) { worst = ratio; if (where) *where = q; }
    }
  }
  return worst;
}

int main(int argc, char** argv) {
  MeshGL64 g0 = Manifold::Cube(vec3(1.3, 0.9, 2.1), true).GetMeshGL64();
  MeshGL64 g;
  g.numProp = 4;
  for (size_t v = 0; v < g0.vertProperties.size() / 3; v++) {
    vec3 p(g0.vertProperties[3 * v], g0.vertProperties[3 * v + 1], g0.vertProperties[3 * v + 2]);
    for (int k = 0; k < 3; k++) g.vertProperties.push_back(p[k]);
    g.vertProperties.push_back(la::dot(a, p) + b);
  }
  g.triVerts = g0.triVerts;
  Manifold O(g);
  std::mt19937_64 rng(argc > 1 ? atoi(argv[1]) : 1);
  std::uniform_real_distribution<double> U(-1, 1);
  int shown = 0;
  for (int rep = 0; rep < 400 && shown < 3; rep++) {
    vec3 rot(180 * U(rng), 180 * U(rng), 180 * U(rng));
    Manifold C = O - O.Rotate(rot.x, rot.y, rot.z);
    long double e0 = worstErr(C);
    double tol = C.GetTolerance();
    for (int k = 0; k < 6; k++) {
      vec3 t = la::normalize(vec3(U(rng), U(rng), U(rng))) * (tol * (1 + 2 * k));
      for (int op = 0; op < 3; op++) {
        Manifold R = C.Boolean(C.Translate(t), (OpType)op);
        vec3 w;
        long double e = worstErr(R, &w);
        if (e > 100) {
          printf("rot=(%.17g,%.17g,%.17g) t=(%.17g,%.17g,%.17g) op=%d tol=%g: worst property error = %.4Lg |a| tol (operand C: %.3Lg) at (%.17g,%.17g,%.17g); |t|=%.2f tol\n", rot.x, rot.y,
                 rot.z, t.x, t.y, t.z, op, tol, e, e0, w.x, w.y, w.z, la::length(t) / tol);
          shown++;
          k = 6;
          break;
        }
      }
    }
  }
  if (!shown) printf("no gross deviation found\n");
  return 0;
}
