// C16 findings in Manifold::Impl::Minkowski (src/minkowski.cpp). B always contains the origin.
// build: g++ -std=c++17 -I/repo/include C16_minkowski.cpp /verif/build/asan-*/libmanifold.a -fsanitize=address,undefined
#include <cstdio>
#include "manifold/manifold.h"
using namespace manifold;
static void box(const char* n, const Manifold& m) {
  Box b = m.BoundingBox();
  printf("  %-10s vol=%-8.4g bbox=[%g,%g,%g]..[%g,%g,%g] genus=%d\n", n, m.Volume(), b.min.x, b.min.y, b.min.z, b.max.x, b.max.y, b.max.z, m.Genus());
}
int main() {
  int bad = 0;
  // non-convex L-prism around the origin: [-1,1]^3 minus the quadrant x>0.2,y>0.2 ; the origin is 0.2 inside
  Manifold L = Manifold::Cube({2, 2, 2}, true) - Manifold::Cube({2, 2, 3}).Translate({0.2, 0.2, -1.5});
  {  // (1) Sum, A convex NOT containing the origin, B non-convex: operands are swapped and B itself is unioned in
    Manifold A = Manifold::Cube({1, 1, 1}).Translate({10, 0, 0});
    Manifold S = A.MinkowskiSum(L);
    puts("(1) Cube[10..11]x[0..1]^2 (+) L : every point of the sum has x >= 9");
    box("sum", S);
    if (S.BoundingBox().min.x < 8.9) { puts("  DEFECT: the sum contains B itself (points near the origin, 9 away from A, reach(B)=1.74)"); bad++; }
  }
  {  // (2) Sum, both non-convex, B larger than A: only dA (+) dB is added, the interior of B+a is missing
    Manifold A = L.Scale(vec3(0.1)).Translate({5, 0, 0});
    Manifold B = L.Scale(vec3(2.0));
    Manifold S = A.MinkowskiSum(B);
    puts("(2) small L at x=5 (+) big L : the sum contains a+B for a in A, so its volume is at least vol(B)");
    box("B", B); box("sum", S);
    if (S.Volume() < B.Volume()) { puts("  DEFECT: sum is a hollow shell (volume below vol(B)); e.g. a+b with b deep inside B is outside"); bad++; }
  }
  {  // (3) Difference, A convex, B non-convex: operands are swapped, the result is B eroded by A
    Manifold A = Manifold::Cube({1, 1, 1}, true);
    Manifold B = L.Scale(vec3(3.0));
    Manifold D = A.MinkowskiDifference(B);
    puts("(3) unit cube (-) big L : the erosion lies inside A (here it must be empty)");
    box("A", A); box("diff", D);
    if (!D.IsEmpty()) { puts("  DEFECT: result is not inside A (it is B eroded by A)"); bad++; }
  }
  {  // (4) Difference, both non-convex, B larger than A: A - (dA (+) dB) keeps points p whose p-B sticks out of A
    Manifold A = L.Scale(vec3(0.3));
    Manifold B = L.Scale(vec3(2.0));
    Manifold D = A.MinkowskiDifference(B);
    puts("(4) small L (-) big L : no translate of -B fits into A, so the erosion is empty");
    box("A", A); box("diff", D);
    if (!D.IsEmpty()) { puts("  DEFECT: erosion by a larger solid is not empty"); bad++; }
  }
  printf("%d defect(s)\n", bad);
  return bad ? 1 : 0;
}
