// Reproducer for the open C02 finding "chained-with-ancestor": (A ^ B) - B must be empty, but keeps a wedge.
//   g++ -std=c++17 -I/repo/include C02_repro_ancestor.cpp /verif/build/asan-*/libmanifold.a -fsanitize=address,undefined -lpthread
#include <cstdio>

#include "manifold/manifold.h"
using namespace manifold;
int main() {
  Manifold A = Manifold::Cylinder(0.75812964860309306, 0.94269131898869896, 0.88525987556320573, 7, true)
                   .Scale({1.2702232992966516, 0.5616230082599708, 1.1699919348507752})
                   .Rotate(16.464941784869382, 138.64931546087189, 135.39356208088776);
  Polygons poly = {{{1.9886868273499312, -0.0914224021280233}, {1.5549281504177181, 0.39002003810614805},
                    {1.0995466164866716, -0.078537043562448575}, {1.430155787888743, -0.34860291291491108}}};
  Manifold B = Manifold::Revolve(poly, 11, 329.55880961663985)
                   .Rotate(157.1312423436936, 172.99450280744952, -29.539514529635994)
                   .Translate({1.2166615627179225, 0.63911023697905356, -0.26749408319148893});
  Manifold I = A ^ B;
  Manifold R = I - B;
  printf("vol A=%.9g B=%.9g A^B=%.9g\n", A.Volume(), B.Volume(), I.Volume());
  printf("(A^B)-B: status %d tris %zu volume %.9g (expect empty / 0), tolerance %.3g\n", (int)R.Status(), R.NumTri(), R.Volume(), R.GetTolerance());
  Manifold R2 = I ^ B;
  printf("(A^B)^B: volume %.9g (expect %.9g)\n", R2.Volume(), I.Volume());
  Manifold R3 = I + B;
  printf("(A^B)+B: volume %.9g (expect %.9g)\n", R3.Volume(), B.Volume());
  Manifold R4 = I - A;
  printf("(A^B)-A: volume %.9g (expect 0)\n", R4.Volume());
  Box bb = R.BoundingBox();
  printf("bbox of (A^B)-B: (%g,%g,%g)-(%g,%g,%g)\n", bb.min.x, bb.min.y, bb.min.z, bb.max.x, bb.max.y, bb.max.z);
}
