// property error of A op A.Translate(t) in units of |grad f| * tol, vs |t|
#include <cstdio>
#include <cmath>
#include <random>
#include "manifold/manifold.h"
using namespace manifold;
int main(int argc, char** argv) {
  double rad = 2.4943313444152042;
  for (int shape = 0; shape < 2; shape++) {
  Manifold s0 = shape == 0 ? Manifold::Sphere(rad, 8) : Manifold::Cube(vec3(1.3, 0.9, 2.1), true).Refine(2).Rotate(13, 27, 41);
  MeshGL64 g0 = s0.GetMeshGL64();
  MeshGL64 g;
  g.numProp = 4;
  vec3 a(0.7, -1.1, 0.4); double b = 0.3;
  for (size_t v = 0; v < g0.vertProperties.size() / 3; v++) {
    vec3 p(g0.vertProperties[3 * v], g0.vertProperties[3 * v + 1], g0.vertProperties[3 * v + 2]);
    for (int k = 0; k < 3; k++) g.vertProperties.push_back(p[k]);
    g.vertProperties.push_back(la::dot(a, p) + b);
  }
  g.triVerts = g0.triVerts;
  g.faceID.resize(g.triVerts.size() / 3);
  for (size_t t = 0; t < g.faceID.size(); t++) g.faceID[t] = t;
  uint32_t id = Manifold::ReserveIDs(1);
  g.runOriginalID = {id};
  g.runIndex = {0, g.triVerts.size()};
  Manifold A(g);
  double tol = A.GetTolerance();
  printf("shape %d tol=%g eps=%g\n", shape, tol, A.GetEpsilon());
  std::mt19937_64 rng(1);
  std::uniform_real_distribution<double> U(-1, 1);
  for (double k : {0.3, 1.0, 2.0, 3.0, 5.0, 10.0, 30.0, 100.0, 1000.0, 1e5}) {
    long double worst = 0; vec3 wt; int wop = 0;
    for (int rep = 0; rep < 300; rep++) {
      vec3 t(U(rng), U(rng), U(rng));
      t = la::normalize(t) * (k * tol);
      for (int op = 0; op < 3; op++) {
        Manifold r = A.Boolean(A.Translate(t), (OpType)op);
        MeshGL64 o = r.GetMeshGL64();
        for (size_t run = 0; run < o.runOriginalID.size(); run++) {
          mat3x4 T = o.GetRunTransform(run);
          vec3 tr = T[3];
          for (size_t i = o.runIndex[run]; i < o.runIndex[run + 1]; i++) {
            size_t v = o.triVerts[i];
            long double px = (long double)o.vertProperties[4 * v] - tr.x, py = (long double)o.vertProperties[4 * v + 1] - tr.y, pz = (long double)o.vertProperties[4 * v + 2] - tr.z;
            long double e = fabsl(a.x * px + a.y * py + a.z * pz + b - (long double)o.vertProperties[4 * v + 3]);
            long double ratio = e / (la::length(a) * o.tolerance);
            if (ratio > worst) { worst = ratio; wt = t; wop = op; }
          }
        }
      }
    }
    printf("|t| = %8.1f tol : worst property error = %.3Lf |grad f| tol   (op %d t=(%.17g,%.17g,%.17g))\n", k, worst, wop, wt.x, wt.y, wt.z);
  }
  }
}
