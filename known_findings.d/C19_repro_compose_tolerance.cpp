// Reproducer: after Compose (CsgLeafNode::Compose, src/csg_tree.cpp:242-250,
// 267-268) a Manifold's tolerance is BELOW its epsilon. Public API only.
#include <cstdio>
#include "manifold/manifold.h"
using namespace manifold;
int main() {
  Manifold a = Manifold::Cube({1, 1, 1});
  Manifold b = a.Translate({3, 0, 0});  // lazy transform: applied inside Compose
  Manifold c = Manifold::Compose({a, b});
  printf("a       : tolerance %.17g epsilon %.17g\n", a.GetTolerance(), a.GetEpsilon());
  printf("compose : tolerance %.17g epsilon %.17g  %s\n", c.GetTolerance(), c.GetEpsilon(),
         c.GetTolerance() < c.GetEpsilon() ? "<-- tolerance < epsilon" : "ok");
  Manifold r = c.Refine(2);
  printf("refined : tolerance %.17g epsilon %.17g  %s\n", r.GetTolerance(), r.GetEpsilon(),
         r.GetTolerance() < r.GetEpsilon() ? "<-- tolerance < epsilon" : "ok");
  Manifold i = c ^ Manifold::Cube({1, 1, 1}).Rotate(10, 20, 30).Translate({0.3, 0.3, 0.3});
  printf("boolean : tolerance %.17g epsilon %.17g  %s\n", i.GetTolerance(), i.GetEpsilon(),
         i.GetTolerance() < i.GetEpsilon() ? "<-- tolerance < epsilon" : "ok");
  return c.GetTolerance() < c.GetEpsilon();
}
