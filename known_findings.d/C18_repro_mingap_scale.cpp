// Reproducer: Manifold::MinGap is wrong for small triangles (absolute 1e-15
// threshold on the squared triangle normal in src/tri_dist.h).
// A cube and a small cube hovering over the interior of its top face: the
// closest features are a vertex of B and the interior of a face of A, so the
// gap is exactly the vertical clearance. Public API only.
#include <cstdio>
#include "manifold/manifold.h"
using namespace manifold;
static double gapAtScale(double s) {
  // unit configuration, then everything scaled by s
  Manifold A = Manifold::Cube({1, 1, 1}, true);
  // B: small cube rotated so that one corner points straight down, hovering 0.1 above the
  // interior of one of A's top triangles (away from the face diagonal and edges)
  Manifold B = Manifold::Cube({0.2, 0.2, 0.2}, true).Rotate(45, 35.264389682754654, 0);
  Box bb = B.BoundingBox();
  B = B.Translate({0.25 , -0.2, 0.5 + 0.1 - bb.min.z});
  return A.Scale(vec3(s)).MinGap(B.Scale(vec3(s)), 10 * s) / s;
}
int main() {
  int bad = 0;
  for (double s : {1.0, 1e-2, 1e-3, 3e-4, 1e-4, 1e-5, 1e-6}) {
    double g = gapAtScale(s);
    printf("scale %-8g MinGap/scale = %.17g  (expected 0.1)%s\n", s, g, fabs(g - 0.1) > 1e-9 ? "   <-- WRONG" : "");
    if (fabs(g - 0.1) > 1e-9) bad++;
  }
  return bad ? 1 : 0;
}
