// C03 finding (sanitizer): CsgLeafNode::Compose computes per-node meshID offsets as
// int(i) * int(meshIDCounter_): signed overflow once (#nodes x global ID counter) >= 2^31.
// The counter grows with every mesh ever created in the process; ReserveIDs() moves it directly.
//   g++ -std=c++17 -I/repo/include C03_repro_meshid_overflow.cpp /verif/build/asan-*/libmanifold.a -fsanitize=address,undefined -lpthread
#include <cstdio>
#include <set>
#include <vector>

#include "manifold/manifold.h"
using namespace manifold;
int main(int argc, char** argv) {
  uint32_t reserve = argc > 1 ? (uint32_t)atol(argv[1]) : 3000000u;
  uint32_t first = Manifold::ReserveIDs(reserve);  // same effect as a long-lived process that created ~3e6 meshes
  printf("ID counter moved from %u by %u\n", first, reserve);
  std::vector<Manifold> parts;
  for (int i = 0; i < 1000; i++) parts.push_back(Manifold::Cube(vec3(1.0)).Translate(vec3(2.0 * i, 0.0, 0.0)));
  Manifold u = Manifold::BatchBoolean(parts, OpType::Add);  // bounding boxes disjoint => one Compose of 1000 nodes
  MeshGL64 g = u.GetMeshGL64();
  std::set<uint32_t> ids(g.runOriginalID.begin(), g.runOriginalID.end());
  printf("status %d, %zu tris (expect 12000), volume %g (expect 1000), %zu runs, %zu distinct originalIDs (expect 1000)\n",
         (int)u.Status(), u.NumTri(), u.Volume(), g.runOriginalID.size(), ids.size());
  return 0;
}
