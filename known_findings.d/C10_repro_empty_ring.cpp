// C10 reproducer: an empty ring in the input of Triangulate() is dereferenced.
//   allowConvex=true : IsConvex() reads poly[0] / poly[size()-1] of the empty ring (polygon.cpp:188)
//   allowConvex=false: EarClip::Initialize() reads poly.begin()->idx of the empty ring (polygon.cpp:656-657)
// Build: g++ -std=c++17 -fsanitize=address,undefined -I/repo/include repro_c10_empty_ring.cpp \
//        /verif/build/asan-<hash>/libmanifold.a -o repro_empty && ./repro_empty 0   (or 1)
#include <cstdio>
#include <cstdlib>
#include "manifold/polygon.h"
using namespace manifold;
int main(int argc, char** argv) {
  bool allowConvex = argc > 1 && atoi(argv[1]) != 0;
  Polygons polys = {{}, {{0, 0}, {1, 0}, {0, 1}}};  // one empty ring, one triangle
  std::vector<ivec3> t = Triangulate(polys, -1, allowConvex);
  printf("returned %zu triangles\n", t.size());
  return 0;
}
