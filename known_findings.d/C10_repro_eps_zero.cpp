// C10 reproducer: explicit epsilon = 0 (or any value below the float-error floor
// kPrecision * scale) is used literally by the ear clipper, although polygon.cpp:338 says
// "Working epsilon: max of float error and input value" (polygon.cpp:690 only replaces
// NEGATIVE values). A rectangle with two rectangular holes, all coordinates multiples of
// 1/16, is then triangulated with a clockwise triangle of height 0.15.
// Build: g++ -std=c++17 -I/repo/include C10_repro_eps_zero.cpp /verif/build/asan-<hash>/libmanifold.a -fsanitize=address,undefined
#include <cstdio>
#include "manifold/polygon.h"
using namespace manifold;
int main() {
  Polygons P = {
      {{-0.75, -0.8125}, {-0.75, -0.75}, {-0.5, -0.75}, {-0.5, -0.8125}},        // hole (CW)
      {{-1, -0.625}, {-1, -1}, {-0.4375, -1}, {-0.4375, -0.625}},                // outer (CCW)
      {{-0.9375, -0.8125}, {-0.8125, -0.8125}, {-0.8125, -0.875}, {-0.9375, -0.875}}};  // hole (CW)
  std::vector<vec2> pos;
  for (auto& r : P) for (auto& v : r) pos.push_back(v);
  int bad = 0;
  for (double eps : {0.0, 1e-30, -1.0}) {
    auto t = Triangulate(P, eps, false);
    int cw = 0;
    for (auto& tr : t) {
      vec2 a = pos[tr[0]], b = pos[tr[1]], c = pos[tr[2]];
      double cross = (b.x - a.x) * (c.y - a.y) - (b.y - a.y) * (c.x - a.x);
      if (cross < 0) { cw++; printf("  eps=%g: triangle (%d,%d,%d) is clockwise, 2*area=%g\n", eps, tr[0], tr[1], tr[2], cross); }
    }
    printf("eps=%g: %zu triangles, %d clockwise\n", eps, t.size(), cw);
    if (eps >= 0) bad += cw;
  }
  return bad ? 1 : 0;
}
