// C17 finding: partial Revolve with default segments can get zero divisions and silently returns an empty solid.
// build: g++ -std=c++17 -I/repo/include C17_revolve_default_partial.cpp /verif/build/asan-*/libmanifold.a -fsanitize=address,undefined
#include <cstdio>
#include "manifold/manifold.h"
using namespace manifold;
int main() {
  Polygons sq = {{{0.1, 0}, {0.5, 0}, {0.5, 0.5}, {0.1, 0.5}}};
  Manifold a = Manifold::Revolve(sq, 0, 45.0);   // GetCircularSegments(0.5)=4 ; 4*45/360 = 0.5 -> 0 divisions
  Manifold b = Manifold::Revolve(sq, 3, 45.0);   // explicit segments: fine
  printf("default segments: Status=%d IsEmpty=%d NumTri=%zu Volume=%g\n", (int)a.Status(), a.IsEmpty(), a.NumTri(), a.Volume());
  printf("3 segments      : Status=%d IsEmpty=%d NumTri=%zu Volume=%g (analytic wedge %g)\n", (int)b.Status(), b.IsEmpty(), b.NumTri(), b.Volume(),
         45.0 / 360 * 3.14159265358979 * (0.25 - 0.01) * 0.5);
  puts(a.IsEmpty() ? "DEFECT: valid arguments, NoError, empty result" : "ok");
  return a.IsEmpty();
}
