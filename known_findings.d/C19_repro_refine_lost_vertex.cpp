// Reproducer: RefineToTolerance / RefineToLength of a tangent-bearing mesh
// deletes ORIGINAL vertices. A tetrahedron smoothed with two slightly
// sharpened edges gets one quad marked (MarkQuads, src/smoothing.cpp:309-363:
// the edge between input vertices 1 and 3 gets tangent w = -1). Both ends of
// that diagonal have valence 3, so the quad shares TWO edges with the third
// triangle at that vertex; non-uniform subdivision then produces the corner
// triangle (v, a, b) from the quad pattern and (v, b, a) from the triangle
// pattern, CreateHalfedges drops the opposed pair, the vertex is stranded and
// Impl::Refine (src/smoothing.cpp:1149-1151) removes it. Public API only.
#include <cmath>
#include <cstdio>
#include "manifold/manifold.h"
using namespace manifold;
int main() {
  MeshGL64 in = Manifold::Tetrahedron().GetMeshGL64();
  std::vector<Smoothness> sharp{{0, 0.62963171287230557}, {6, 0.53363165093787346}};
  Manifold s = Manifold::Smooth(in, sharp);
  int lost = 0;
  for (int mode = 0; mode < 3; mode++) {
    Manifold r = mode == 0 ? s.RefineToTolerance(0.1) : (mode == 1 ? s.RefineToLength(0.9) : s.Refine(3));
    MeshGL64 o = r.GetMeshGL64();
    printf("%s: status %d, %zu verts, %zu tris\n", mode == 0 ? "RefineToTolerance(0.1)" : (mode == 1 ? "RefineToLength(0.9)" : "Refine(3)"), (int)r.Status(), r.NumVert(), r.NumTri());
    for (size_t k = 0; k < 4; k++) {
      double best = 1e9;
      for (size_t i = 0; i < o.vertProperties.size() / 3; i++) {
        double dx = o.vertProperties[3 * i] - in.vertProperties[3 * k], dy = o.vertProperties[3 * i + 1] - in.vertProperties[3 * k + 1], dz = o.vertProperties[3 * i + 2] - in.vertProperties[3 * k + 2];
        best = std::min(best, std::sqrt(dx * dx + dy * dy + dz * dz));
      }
      printf("   input vertex %zu (%g,%g,%g): nearest output vertex at distance %.6g%s\n", k, in.vertProperties[3 * k], in.vertProperties[3 * k + 1], in.vertProperties[3 * k + 2], best, best > 0 ? "   <-- LOST" : "");
      if (best > 0) lost++;
    }
  }
  // Second instance: a 4-sided pyramid. SmoothOut marks two quads whose diagonals
  // both end at the apex (valence 4 - 2 diagonals = 2 edges left); RefineToLength loses the apex.
  {
    Manifold pyr = Manifold::Cylinder(2.7162423252411627, 1.4652513608433604, 0, 4, false);
    Manifold r = pyr.SmoothOut(52.5, 0).RefineToLength(1.0956216485112105);
    MeshGL64 o = r.GetMeshGL64();
    double best = 1e9;
    for (size_t i = 0; i < o.vertProperties.size() / o.numProp; i++) {
      double dx = o.vertProperties[o.numProp * i], dy = o.vertProperties[o.numProp * i + 1], dz = o.vertProperties[o.numProp * i + 2] - 2.7162423252411627;
      best = std::min(best, std::sqrt(dx * dx + dy * dy + dz * dz));
    }
    printf("pyramid.SmoothOut(52.5,0).RefineToLength(1.0956): %zu verts; apex (0,0,2.716): nearest output vertex at distance %.6g%s\n", r.NumVert(), best, best > 0 ? "   <-- LOST" : "");
    if (best > 0) lost++;
  }
  return lost ? 1 : 0;
}
