// Reproducer (public API only) for C07 (refinements keep provenance): CsgLeafNode::Compose always
// allocates a zero-filled halfedgeTangent_ array, so every Compose / BatchBoolean / bbox-disjoint Add
// result looks "smooth" to Refine: new vertices are placed by Bezier interpolation with zero tangents
// (not at the linear positions their linearly interpolated properties belong to) and
// SetNormalsAndCoplanar relabels the library face IDs.
#include <cstdio>
#include <cmath>
#include <set>
#include "manifold/manifold.h"
using namespace manifold;
static void show(const char* n, const Manifold& m) {
  MeshGL64 g = m.GetMeshGL64();
  std::set<uint64_t> s(g.faceID.begin(), g.faceID.end());
  printf("%-34s tris %4zu exported tangent floats %5zu  distinct faceIDs %zu:", n, g.triVerts.size() / 3, g.halfedgeTangent.size(), s.size());
  for (auto f : s) printf(" %llu", (unsigned long long)f);
  // property channel 0 was set to x: after any linear refinement it must still equal x at every vertex
  double worst = 0;
  if (g.numProp > 3)
    for (size_t v = 0; v < g.vertProperties.size() / g.numProp; v++) worst = std::max(worst, std::fabs(g.vertProperties[v * g.numProp + 3] - g.vertProperties[v * g.numProp]));
  printf("   max |prop - x| = %.3g\n", worst);
}
int main() {
  Manifold a = Manifold::Cube(vec3(1.0)).SetProperties(1, [](double* p, vec3 pos, const double*) { p[0] = pos.x; });
  Manifold b = a.Translate({3, 0, 0});  // property stays "x of the original"; use a alone for the property check
  show("a", a);
  show("a.Refine(3)", a.Refine(3));
  Manifold e = Manifold() + a;  // Add with an empty operand
  show("(empty + a)", e);
  show("(empty + a).Refine(3)", e.Refine(3));
  Manifold c = Manifold::Compose({a, a.Translate({0, 3, 0})});
  show("Compose({a, a+3y})", c);
  show("Compose({a, a+3y}).Refine(3)", c.Refine(3));
  return 0;
}
