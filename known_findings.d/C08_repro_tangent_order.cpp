// Reproducer (public API only): C08 "same tangent on every directed edge / Refine
// gives the same surface before and after the trip" fails for a smoothed
// multi-run Manifold: GetMeshGL64 reorders triangles into runs but copies
// halfedgeTangent in internal triangle order.
#include <cstdio>
#include <cstring>
#include <map>
#include <array>
#include "manifold/manifold.h"
using namespace manifold;

static const char* Err(Manifold::Error e) {
  switch (e) {
    case Manifold::Error::NoError: return "NoError";
    case Manifold::Error::InvalidTangents: return "InvalidTangents";
    case Manifold::Error::NotManifold: return "NotManifold";
    default: return "other";
  }
}

int main() {
  Manifold a = Manifold::Cube(vec3(1.0), true);
  Manifold b = Manifold::Sphere(0.6, 12).Translate({0.5, 0.3, 0.2});
  Manifold u = (a + b).SmoothOut(50, 0.2);  // two runs, tangents present
  MeshGL64 g = u.GetMeshGL64();
  printf("runs=%zu tris=%zu tangents=%zu\n", g.runOriginalID.size(), g.triVerts.size() / 3, g.halfedgeTangent.size() / 4);
  Manifold u2(g);
  printf("re-import status=%s\n", Err(u2.Status()));
  MeshGL64 g2 = u2.GetMeshGL64();
  // tangent per directed edge keyed by endpoint position bits
  auto key = [](const MeshGL64& m, size_t v) {
    std::array<uint64_t, 3> k;
    memcpy(k.data(), &m.vertProperties[v * m.numProp], 24);
    return k;
  };
  std::map<std::array<uint64_t, 6>, std::array<double, 4>> t1;
  for (size_t t = 0; t < g.triVerts.size() / 3; t++)
    for (int i = 0; i < 3; i++) {
      auto a0 = key(g, g.triVerts[3 * t + i]), a1 = key(g, g.triVerts[3 * t + (i + 1) % 3]);
      std::array<uint64_t, 6> k{a0[0], a0[1], a0[2], a1[0], a1[1], a1[2]};
      std::array<double, 4> tv;
      for (int j = 0; j < 4; j++) tv[j] = g.halfedgeTangent[4 * (3 * t + i) + j];
      t1[k] = tv;
    }
  size_t diff = 0, tot = 0;
  if (g2.halfedgeTangent.size() == g2.triVerts.size() * 4)
    for (size_t t = 0; t < g2.triVerts.size() / 3; t++)
      for (int i = 0; i < 3; i++) {
        auto a0 = key(g2, g2.triVerts[3 * t + i]), a1 = key(g2, g2.triVerts[3 * t + (i + 1) % 3]);
        std::array<uint64_t, 6> k{a0[0], a0[1], a0[2], a1[0], a1[1], a1[2]};
        tot++;
        auto it = t1.find(k);
        if (it == t1.end() || memcmp(it->second.data(), &g2.halfedgeTangent[4 * (3 * t + i)], 32)) diff++;
      }
  printf("directed edges with a different tangent after the trip: %zu of %zu\n", diff, tot);
  // the exported tangent of an edge should be (nearly) along that edge for a weakly smoothed mesh:
  // count exported tangents pointing "backwards" relative to their own edge
  size_t back = 0;
  for (size_t t = 0; t < g.triVerts.size() / 3; t++)
    for (int i = 0; i < 3; i++) {
      size_t v0 = g.triVerts[3 * t + i], v1 = g.triVerts[3 * t + (i + 1) % 3];
      double d = 0;
      for (int j = 0; j < 3; j++) d += (g.vertProperties[v1 * g.numProp + j] - g.vertProperties[v0 * g.numProp + j]) * g.halfedgeTangent[4 * (3 * t + i) + j];
      if (d < 0) back++;
    }
  printf("exported tangents pointing against their own edge: %zu\n", back);
  Manifold r1 = u.Refine(3), r2 = u2.Refine(3);
  printf("Refine(3): original status=%s tris=%zu vol=%.17g | round-tripped status=%s tris=%zu vol=%.17g\n", Err(r1.Status()), r1.NumTri(), r1.Volume(), Err(r2.Status()),
         r2.NumTri(), r2.Volume());
  // single-run control
  Manifold s = Manifold::Sphere(0.6, 12).SmoothOut(50, 0.2);
  Manifold s2(s.GetMeshGL64());
  printf("control (single original run): vol %.17g vs %.17g\n", s.Refine(3).Volume(), s2.Refine(3).Volume());
  return 0;
}
