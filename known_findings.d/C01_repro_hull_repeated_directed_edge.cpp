// Side finding of the C08 harness (belongs to C01/C16): Manifold::Hull of point sets with exact duplicates and many
// coplanar points (a cube and its own RefineToLength copy) sometimes returns a NoError Manifold whose export has a
// repeated directed edge (not a closed 2-manifold); re-importing that export changes the triangle count.
#include <cstdio>
#include <map>
#include <random>
#include "manifold/manifold.h"
using namespace manifold;
static int dupEdges(const Manifold& m) {
  MeshGL64 g = m.GetMeshGL64();
  std::map<std::pair<uint64_t, uint64_t>, int> e;
  int dup = 0;
  for (size_t t = 0; t < g.triVerts.size() / 3; t++)
    for (int i = 0; i < 3; i++)
      if (++e[{g.triVerts[3 * t + i], g.triVerts[3 * t + (i + 1) % 3]}] > 1) dup++;
  return dup;
}
int main() {
  std::mt19937_64 rng(5);
  std::uniform_real_distribution<double> U(0, 1);
  int found = 0;
  for (int rep = 0; rep < 3000 && found < 3; rep++) {
    vec3 s(0.5 + 1.5 * U(rng), 0.5 + 1.5 * U(rng), 0.5 + 1.5 * U(rng));
    vec3 rot(360 * U(rng) - 180, 360 * U(rng) - 180, 360 * U(rng) - 180), tr(2 * U(rng) - 1, 2 * U(rng) - 1, 2 * U(rng) - 1);
    Manifold c = Manifold::Cube(s, true).Rotate(rot.x, rot.y, rot.z).Translate(tr);
    double len = 0.15 + 0.4 * U(rng);
    Manifold r = c.RefineToLength(len);
    Manifold other = Manifold::Cylinder(1 + U(rng), 0.5 + U(rng), 0.5 + U(rng), 5 + (int)(8 * U(rng))).Translate({3 + 2 * U(rng), 0, 0});
    Manifold h = Manifold::Hull({Manifold::Compose({c, other}), r});
    int d = dupEdges(h);
    if (h.Status() == Manifold::Error::NoError && d > 0) {
      printf("rep %d: Hull({Compose({cube,cyl}), cube.RefineToLength(%.17g)}) exports %d repeated directed edges (tris %zu, genus %d); cube size (%.17g,%.17g,%.17g) rot (%.17g,%.17g,%.17g) tr (%.17g,%.17g,%.17g)\n", rep,
             len, d, h.NumTri(), h.Genus(), s.x, s.y, s.z, rot.x, rot.y, rot.z, tr.x, tr.y, tr.z);
      found++;
    }
    Manifold h2 = r.Hull();
    int d2 = dupEdges(h2);
    if (d2 > 0) { printf("rep %d: cube.RefineToLength(%g).Hull() exports %d repeated directed edges\n", rep, len, d2); found++; }
  }
  if (!found) printf("none found\n");
}
