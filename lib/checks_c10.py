"""C10 — Triangulate returns a correct triangulation of epsilon-valid polygons."""

# Same options as vcheck's SAN_ENV except for the allocator tuning: the
# triangulator allocates a tree/hash node per vertex and edge, and with the
# default 256 MB quarantine + release-to-OS the harness spends >90% of its time
# in madvise/page faults on a loaded machine (measured: 54 s -> 4.4 s per 300
# cases). A 16 MB quarantine still covers every free made inside one call.
_ASAN = ("abort_on_error=0:detect_leaks=0:allocator_may_return_null=1:max_allocation_size_mb=4096:exitcode=97:"
         "handle_abort=1:detect_stack_use_after_return=0:malloc_context_size=4:quarantine_size_mb=16:"
         "allocator_release_to_os_interval_ms=-1")

CHECK = {
    "id": "C10",
    "level": "exploration",
    "rule": ("stage valid: case = one polygon set that is epsilon-valid by construction (exactly simple star / x-monotone / "
             "spiral / comb / needle-comb / convex contours under a random orientation-preserving affine map; holes and "
             "islands inside inscribed discs of their parent, nesting depth <= 4; or rectilinear faces on an integer grid "
             "with rectangular holes/islands sharing exact coordinates; 1-3 faces in disjoint regions; every set is re-checked "
             "with exact arithmetic before use; scale "
             "1e-9..1e9; then only perturbations that stay within epsilon of that set: collinear vertices exact or < eps/2 "
             "off the edge, duplicates within eps/4), epsilon in {default -1, the default value passed explicitly, 0, up to "
             "min(1e-3*size, 1% of the smallest contour clearance / mean contour width)}; cases whose epsilon cannot be kept "
             "below that bound are skipped and counted. Each set is tagged with a regime: eps-zero (explicit epsilon 0), "
             "thin-feature (two contour edges sharing no vertex are closer than 4*epsilon, e.g. a needle narrower than "
             "epsilon) or general; violation keys carry the regime. Both allowConvex settings, through Triangulate or TriangulateIdx "
             "(permuted / gapped index labels), must EACH satisfy: indices are input indices; count = V-2+2h-2(o-1); every "
             "input edge exactly once in input direction, its reverse absent, every other directed edge as often as its "
             "reverse; every triangle CCW within epsilon in the library's own meaning (utils.h CCW with tol=2*eps as in "
             "polygon.cpp CheckGeometry, most lenient vertex rotation, plus the oracle's rounding error); area sum = polygon "
             "area within eps*perimeter + rounding. stage reuse: a sequence of 3..seqLen unrelated sets (valid and garbage, "
             "alternating large/small) through one PolygonTriangulator vs a fresh EarClip and a fresh PolygonTriangulator: "
             "halfedges, contourEnd, epsilon bit-identical; valid members also get the full oracle and the halfedge "
             "pairing check. stage garbage: arbitrary finite input (lattice, random, mutated valid sets, extreme magnitudes, "
             "collinear/identical points, star polygons, overlapping copies, repeated indices; any epsilon incl. 0 and "
             "DBL_MAX): call returns, indices are input indices, exceptions other than the documented "
             "geometryErr/topologyErr are reported. stage rings: enumerated ring-size configurations with 0/1/2-point "
             "rings x epsilon x allowConvex. distinct_nontrivial = distinct signatures (valid: shape list, log2 V, holes, "
             "outers, depth, epsilon class, perturbed; reuse: hash of the sequence; garbage: kind, log2 V, epsilon class; "
             "rings: configuration; corpus: entry name) over cases where the library returned triangles and every oracle clause was decided."),
    "min_nontrivial": {"quick": 3000, "thorough": 20000},
    "exhaustive": {"quick": False, "thorough": False},
    "stages": [
        {"name": "valid", "variant": "asan", "harness": "c10_triangulate.cpp",
         "cases": {"quick": 20000, "thorough": 150000},
         "params": {"mode": "valid", "maxVerts": {"quick": 600, "thorough": 3000}},
         "env": {"ASAN_OPTIONS": _ASAN}, "case_timeout": 120},
        {"name": "reuse", "variant": "asan", "harness": "c10_triangulate.cpp",
         "cases": {"quick": 2000, "thorough": 3000},
         "params": {"mode": "reuse", "maxVerts": {"quick": 400, "thorough": 2000}, "seqLen": {"quick": 10, "thorough": 16},
                    "minRing": 2},
         "env": {"ASAN_OPTIONS": _ASAN}, "case_timeout": 120},
        {"name": "garbage", "variant": "asan", "harness": "c10_triangulate.cpp",
         "cases": {"quick": 12000, "thorough": 60000},
         "params": {"mode": "garbage", "maxVerts": {"quick": 300, "thorough": 3000}, "minRing": 2},
         "env": {"ASAN_OPTIONS": _ASAN}, "case_timeout": 120},
        {"name": "corpus", "variant": "asan", "harness": "c10_triangulate.cpp",
         "cases": {"quick": 220, "thorough": 220},
         "params": {"mode": "corpus"}, "env": {"ASAN_OPTIONS": _ASAN}, "case_timeout": 300},
        {"name": "rings", "variant": "asan", "harness": "c10_triangulate.cpp",
         "cases": {"quick": 72, "thorough": 72},
         "params": {"mode": "rings"}, "case_timeout": 60, "max_crashes": 40},
    ],
    "assumptions": [
        "epsilon-validity of the 'valid' workload holds by construction (exactly simple, mutually disjoint contours; perturbations < epsilon); "
        "epsilon is kept <= 1% of the smallest contour clearance and mean contour width so that which contours count as holes/outers in V-2+2h-2(o-1) is not in doubt",
        "'counter-clockwise within epsilon' is read as the library publishes it: CCW(p0,p1,p2, 2*epsilon) >= 0 (polygon.cpp CheckGeometry), "
        "evaluated on the longest edge; triangles between the tol=epsilon and tol=2*epsilon readings are counted, not decided",
        "effective epsilon for epsilon<0 is 1e-12 * max|coordinate| (Rect::Scale()*kPrecision, polygon.cpp:690)",
        "exceptions on invalid input: only manifold::geometryErr / topologyErr (MANIFOLD_DEBUG builds) are documented; none exist in the -DNDEBUG build under test",
        "the regimes eps-zero and thin-feature are inside the property's quantifier (exactly valid sets are epsilon-valid for every epsilon) and are tested, "
        "but they are keyed separately because the library is known to fail there (open findings)",
        "garbage and reuse stages exclude rings with < 2 points (they crash, see known findings); those are enumerated in stage 'rings'",
        "g++ -fsanitize=address,undefined build of /repo's working tree, -DNDEBUG, MANIFOLD_PAR=-1; ASan quarantine reduced to 16 MB for these stages",
    ],
}

TEXT = {
    "text": ("Held on the executions observed: for constructed epsilon-valid polygon sets (nesting to depth 4, several outers, "
             "collinear / duplicate-within-epsilon vertices, needle teeth down to 1e-12 of the contour size, scales 1e-9..1e9, "
             "default, zero and explicit epsilon) every result of Triangulate / TriangulateIdx with allowConvex on and off has "
             "exactly V-2+2h-2(o-1) triangles over input indices, uses every input edge once in input direction, pairs every "
             "other edge with its reverse, is CCW within epsilon and sums to the polygon area; one reused PolygonTriangulator "
             "gives bit-identical halfedges to fresh ones over sequences of unrelated inputs; arbitrary finite garbage returns "
             "with in-range indices under ASan+UBSan. Open findings (reproducers in known_findings.d): empty rings are dereferenced (UB); a "
             "lone 1-point ring throws std::length_error with allowConvex=true; explicit epsilon 0 is used literally and gives "
             "clockwise triangles on simple grid-aligned inputs; with default epsilon the convex fast path can be taken for a "
             "non-convex polygon with a duplicated vertex; needles/slits narrower than epsilon give grossly clockwise triangles."),
    "note": ("Sampling, not proof. Trusts the harness's generators (validity by construction) and oracle. Regularised outputs of "
             "CrossSection Booleans and the repo's polygon corpus are not part of this workload. Termination is observed through "
             "the driver's watchdog only."),
    "technique": "runtime monitoring: generated epsilon-valid and hostile polygon workloads with an independent triangulation oracle and a differential reuse check, under ASan+UBSan",
    "design_ref": "DESIGN.md 4 C10",
}
