"""C10 — Triangulate returns a correct triangulation of epsilon-valid polygons."""

_ASAN = ("abort_on_error=0:detect_leaks=0:allocator_may_return_null=1:max_allocation_size_mb=4096:exitcode=97:"
         "handle_abort=1:detect_stack_use_after_return=0:malloc_context_size=12:quarantine_size_mb=64")

CHECK = {
    "id": "C10",
    "level": "exploration",
    "rule": "TBD",
    "min_nontrivial": {"quick": 1000, "thorough": 5000},
    "exhaustive": {"quick": False, "thorough": False},
    "stages": [
        {"name": "valid", "variant": "asan", "harness": "c10_triangulate.cpp",
         "cases": {"quick": 20000, "thorough": 400000},
         "params": {"mode": "valid", "maxVerts": {"quick": 600, "thorough": 6000}},
         "env": {"ASAN_OPTIONS": _ASAN}, "case_timeout": 120},
        {"name": "reuse", "variant": "asan", "harness": "c10_triangulate.cpp",
         "cases": {"quick": 2000, "thorough": 40000},
         "params": {"mode": "reuse", "maxVerts": {"quick": 400, "thorough": 3000}, "seqLen": {"quick": 10, "thorough": 20}},
         "env": {"ASAN_OPTIONS": _ASAN}, "case_timeout": 120},
        {"name": "garbage", "variant": "asan", "harness": "c10_triangulate.cpp",
         "cases": {"quick": 20000, "thorough": 400000},
         "params": {"mode": "garbage", "maxVerts": {"quick": 300, "thorough": 3000}, "minRing": 3},
         "env": {"ASAN_OPTIONS": _ASAN}, "case_timeout": 60},
        {"name": "rings", "variant": "asan", "harness": "c10_triangulate.cpp",
         "cases": {"quick": 72, "thorough": 72},
         "params": {"mode": "rings"}, "case_timeout": 60, "max_crashes": 40},
    ],
    "assumptions": [],
}
TEXT = {"text": "TBD", "note": "TBD", "technique": "runtime monitoring", "design_ref": "DESIGN.md 4 C10"}
