CHECK = {
    "id": "C06", "level": "exploration",
    "rule": ("case = one round: a fresh pool of shared lazy Manifold expressions (sharing sub-expressions, pending lazy transforms on op and "
             "leaf nodes, BatchBoolean), CrossSections with pending transforms and one ExecutionContext-observed expression; T in {2,3,4,8} "
             "threads released by a barrier each run a seeded program of the operations the statement allows (const queries incl. the first "
             "forcing call, copy/assign FROM shared objects, new expressions sharing sub-expressions, ReserveIDs, CrossSection queries and "
             "derivations, Status() through the shared context, Progress()/Cancelled() polling, Cancel() from another thread) with seeded "
             "yields. Oracles: ThreadSanitizer report blocks (deduplicated by the innermost /repo frames of the two stacks), agreement of "
             "every thread's observation of the same (object, getter) with all others and with a post-join observation, watchdog for "
             "deadlock. distinct_nontrivial = distinct (thread count, pool shape, canceller, observed-set size) signatures."),
    "min_nontrivial": {"quick": 40, "thorough": 150},
    "stages": [
        {"name": "tsan", "variant": "tsan", "harness": "c06_threads.cpp",
         "cases": {"quick": 400, "thorough": 5000}, "params": {"steps": {"quick": 14, "thorough": 24}},
         "case_timeout": 300, "max_workers": 6},
        {"name": "asan", "variant": "asan", "harness": "c06_threads.cpp",
         "cases": {"quick": 300, "thorough": 3000}, "params": {"steps": {"quick": 14, "thorough": 24}},
         "case_timeout": 300, "max_workers": 6},
    ],
    "assumptions": ["gcc ThreadSanitizer sees every synchronisation of the serial-backend build (std::mutex, std::atomic, shared_ptr atomic free functions via libstdc++'s mutex pool)",
                    "a race needs both accesses to execute without a happens-before edge, not the bad interleaving itself; fresh pools + barriers provide that"],
}
TEXT = {
    "text": ("Held on the executions observed: thousands of rounds of 2-8 client threads hammer freshly built shared lazy objects with exactly "
             "the operations the statement permits, in a build where ThreadSanitizer sees all synchronisation; any report block whose stacks are "
             "in library code is a violation, as is any disagreement between threads about the same object or a hang (watchdog, retried once)."),
    "note": "Interleavings are sampled by the OS scheduler plus seeded yields; TSan's happens-before analysis does not need the bad interleaving to occur. The parallel backend's internal regions are not part of this check (C04/C13).",
    "technique": "runtime monitoring: ThreadSanitizer on a multi-threaded client stress workload + cross-thread agreement oracle + deadlock watchdog",
    "design_ref": "DESIGN.md 4 C06",
}
