"""C12 — Offset, Hull, Decompose and Simplify of CrossSections mean what they say."""

_ASAN = ("abort_on_error=0:detect_leaks=0:allocator_may_return_null=1:max_allocation_size_mb=4096:"
         "exitcode=97:handle_abort=1:detect_stack_use_after_return=0:malloc_context_size=12:"
         "quarantine_size_mb=32")
_ENV = {"ASAN_OPTIONS": _ASAN}
_H = "c12_offset.cpp"

CHECK = {
    "id": "C12", "level": "exploration",
    "rule": (
        "Oracle = brute-force signed point-to-region distance (long-double point-segment distance + the exact "
        "winding classifier of harness/c11_geom2d.h) on ToPolygons() of the input and of the result. Inputs are "
        "regularised by construction (star-shaped rings, scaled-copy holes and nested islands, side-by-side "
        "components with gaps 1e-6..1, orthogonal staircases, a corner zoo of spikes/notches with half-angles "
        "1e-4..1.5 rad, collinear and near-straight vertices, rectangles, regular polygons; scales 1e-6..1e6, "
        "rotations, offsets) AND verified by an exact test (all non-adjacent edges farther apart than 64*eps, winding "
        "0 right / 1 left of every edge) before and after the constructor; ~20% are Boolean results that passed the "
        "C11 oracle and the same separation test. OFFSET (delta over 15 decades relative to the input size, both "
        "signs and 0; Round/Miter/Square/Bevel; miter limits 2..1e6, <2, negative, NaN, inf; circularSegments "
        "0,1,2,-5,3..1e5): guard band B = 8*E + 64*DBL_EPSILON*S + straightSlack, E = max(result.GetTolerance(), "
        "eps(S)), S = maxAbs(input)+reach, eps(L) = 1001*12.37*2^-53*2^ceil(log2 L); straightSlack = "
        "2|delta|(1-cos turn) over corners whose vertex is within 8*eps(edge) of its neighbours' chord (Offset "
        "treats them as straight); inputs with such a corner turning > 90 deg (sub-eps spike) are rejected; when "
        "round-join chords are shorter than 1.5*E, B += 2|delta| (documented transitive merge). Round joins: chordal "
        "band c = |delta|(1-cos(pi/n)), n = circularSegments if >= 3 else Quality::GetCircularSegments(|delta|), "
        "clamped to [3,32768]; delta>0: signed distance s <= delta-c-B => must be inside, s >= delta+B => must be "
        "outside; delta<0: s <= -|delta|-B => inside, s >= -|delta|+c+B => outside. All joins: delta>0: points of the "
        "input (s < -B) and of every edge's outward rectangle of height delta (shrunk by B) must be inside, points "
        "with s >= Dmax+B outside; delta<0 mirrored (points outside the input and in inward edge rectangles must be "
        "outside, points deeper than Dmax+B inside); Dmax = |delta|*sqrt(2/max(2/L^2-8e-15,1.9e-12)), L = miter "
        "limit if finite and >= 2 else 2. Monotone: a second delta with the same join parameters, no sample in "
        "Offset(smaller) \\ Offset(larger) farther than max(B)+c1+c2 from both boundaries. Regularised: no deep "
        "crossing, winding in {0,1}. Samples: both normals of input edges at |delta|-c-kB, |delta|+kB, random "
        "fractions of |delta|, kB (k in 2,10,100,1e4); circles of those radii and of Dmax around input vertices; "
        "along corner bisectors to Dmax; around result edges and vertices at kB; 7x7 stratified. Witnesses in the "
        "'collapse regime' (some concave join consumes at least half of an adjacent input edge: |delta|*tan(turn/2) "
        ">= len/2) are keyed offset:concave-join-collapse:*. HULL (point sets: uniform, lattice, circle, collinear, "
        "near-collinear with noise 1e-17..1e-6, duplicates, points on polygon edges, needle, gaussian, 0..10000 "
        "points, scales 1e-6..1e6; Hull(SimplePolygon), Hull(Polygons), cs.Hull(), Hull(vector)): every output "
        "vertex equals an input point (operator== on both coordinates), one contour, no reflex vertex deeper than B "
        "(exact orientation), turning number 1, positive area, every input point inside/on (exact) or within "
        "B = max(tolerance, eps)+64*DBL_EPSILON*scale; empty result only if all points are within 4B of a line. "
        "DECOMPOSE: multiset of contours preserved up to cyclic rotation (a missing contour is tolerated only if "
        "|area| <= bbox*tolerance), sum of Area() of the parts equals Area() of the whole within 1e-12*sum|areas|, "
        "exactly one outline per part, every hole vertex farther than the band from the outline is inside it, no "
        "smaller outline contains the hole, #parts == #outlines. SIMPLIFY (tolerance 0 = GetTolerance() of the "
        "materialised input, explicit 1e-9..3 x size, negative, via SetTolerance): every output ring is a cyclic "
        "in-order subsequence (bit-equal vertices) of a distinct input ring, >= 3 vertices, and for tolerance > 0 no "
        "vertex of a ring with > 3 vertices is closer than tolerance*(1-1e-9) to the line through its neighbours. "
        "distinct_nontrivial = distinct (parameters, input bit pattern) tuples with >= 10 decided points (offset), "
        "non-degenerate point sets (hull), >= 2 contours (decompose), a removed or a checked vertex (simplify)."),
    "min_nontrivial": {"quick": 4000, "thorough": 16000},
    "exhaustive": {"quick": False, "thorough": False},
    "stages": [
        {"name": "offset", "variant": "asan", "harness": _H, "env": _ENV,
         "cases": {"quick": 3000, "thorough": 12000}, "params": {"mode": "offset"}, "case_timeout": 600},
        {"name": "hull", "variant": "asan", "harness": _H, "env": _ENV,
         "cases": {"quick": 3000, "thorough": 12000}, "params": {"mode": "hull"}, "case_timeout": 300},
        {"name": "decompose", "variant": "asan", "harness": _H, "env": _ENV,
         "cases": {"quick": 2000, "thorough": 8000}, "params": {"mode": "decompose"}, "case_timeout": 300},
        {"name": "simplify", "variant": "asan", "harness": _H, "env": _ENV,
         "cases": {"quick": 3000, "thorough": 12000}, "params": {"mode": "simplify"}, "case_timeout": 300},
    ],
    "assumptions": [
        "'regularized cross-sections' is read as eps-valid: inputs whose contours come closer than 64*eps to each other, "
        "or that contain a spike narrower than 8*eps(edge), are not generated / are rejected (counted), because Offset "
        "documents such corners as below its resolution (boolean2_offset.cpp:169-182)",
        "for delta<0 the 'all join types' clauses are read symmetrically on the complement (result inside the input, "
        "outside every inward edge rectangle, holes of the result within the miter-limit distance of the complement)",
        "the miter-limit distance for every join type is L*|delta| with L = miter limit if finite and >= 2 else 2, "
        "enlarged by the rounding of the unit normals (8e-15 on 1+cos) and capped at ~1.03e6*|delta|",
        "Hull, Decompose and Simplify are decided up to the tolerance the result reports (Hull: containment and "
        "convexity within max(GetTolerance(), eps); Decompose: eps-sliver contours may be dropped); Simplify is called "
        "on a materialised value so that tolerance 0 means GetTolerance() of that value",
        "harness/c11_geom2d.h (exact orientation, long-double distances) is correct; coordinates stay within 1e-12..1e12",
        "g++ -O1 -fsanitize=address,undefined build of /repo's working tree, -DNDEBUG, MANIFOLD_PAR=-1, ASan quarantine "
        "reduced to 32 MB per worker",
    ],
}

TEXT = {
    "text": ("Held on the executions observed, except for the open finding: Offset is compared point-wise with the exact "
             "delta-neighbourhood / erosion of verified regularised inputs (round joins up to the chordal error of the "
             "segment count actually used; every join type: contains the input dilated along its edges, stays within the "
             "miter-limit distance, monotone in delta, regularised) for both signs of delta over 15 decades, all join types, "
             "valid and invalid miter limits and segment counts; Hull (bit-equal vertices, convex, contains all inputs), "
             "Decompose (contour multiset, area sum, one outline per part, holes in their smallest containing outline) and "
             "Simplify (in-order subsequence, no vertex closer than the tolerance to its neighbours' chord) are checked on "
             "every case. OPEN FINDING: whenever a concave join consumes half or more of an adjacent input edge (inset "
             "deeper than a part is wide, dilation closing a hole or notch, large delta next to a reflex corner) Offset can "
             "return a wrong region, e.g. "
             "Square(1).Offset(-2) has area 2 instead of 0 (keys offset:concave-join-collapse:*)."),
    "note": ("Trusts harness/c11_geom2d.h and g++'s sanitizers; sampling, not proof. Points inside the explicit bands "
             "(8*eps + chordal error + documented straight-corner and arc-merge slack) never decide. In the collapse regime "
             "all fill witnesses share three coarse keys, so a second defect confined to that regime would be masked by the "
             "open finding until it is fixed."),
    "technique": "runtime monitoring: generated workloads + brute-force point-region distance oracle on public output under ASan+UBSan",
    "design_ref": "DESIGN.md 4 C12",
}
