#!/bin/sh
# Lead's confirmation of a seeded change.
# usage: seed_confirm.sh <seeded-name> <worktree-with-change-applied> <check> [<check>...]
# Expects /verif/seeded/<name>/{patch.diff,demo.cpp,build.sh}. Writes confirm.log + ctest.log there.
NAME=$1; WT=$2; shift 2
D=/verif/seeded/$NAME
LOG=$D/confirm.log
: > "$LOG"
echo "repo HEAD $(git -C /repo rev-parse --short=8 HEAD)" >> "$LOG"
if git -C "$WT" diff --quiet -- src include bindings; then
  git -C "$WT" apply "$D/patch.diff" && echo "patch applied" >> "$LOG" || { echo "patch does not apply" >> "$LOG"; exit 2; }
else
  git -C "$WT" diff -- src include bindings | cmp -s - "$D/patch.diff" && echo "patch applied" >> "$LOG" || echo "worktree diff differs from patch.diff" >> "$LOG"
fi
cmake -G Ninja -S "$WT" -B "$WT/_build" -DCMAKE_BUILD_TYPE=RelWithDebInfo -DMANIFOLD_TEST=ON -DMANIFOLD_CBIND=ON \
  -DMANIFOLD_PAR=OFF -DCMAKE_CXX_FLAGS=-Wno-error -DFETCHCONTENT_SOURCE_DIR_GOOGLETEST=/usr/src/googletest \
  -DFETCHCONTENT_FULLY_DISCONNECTED=ON > "$D/ctest.log" 2>&1 \
  && cmake --build "$WT/_build" -j12 >> "$D/ctest.log" 2>&1 && echo "test build ok" >> "$LOG" || echo "test build FAILED" >> "$LOG"
ctest --test-dir "$WT/_build" -j12 --timeout 900 2>&1 | tail -4 >> "$LOG"
rm -rf "$WT/_build"
out=$(sh "$D/build.sh" "$WT" 2>&1); rc=$?
echo "demo on changed tree: exit $rc : $(echo "$out" | tail -1)" >> "$LOG"
out=$(sh "$D/build.sh" /repo 2>&1); rc=$?
echo "demo on unchanged tree: exit $rc : $(echo "$out" | tail -1)" >> "$LOG"
for c in "$@"; do
  out=$(cd /verif && VERIF_REPO="$WT" ./vcheck run "$c" --tier quick 2>&1); rc=$?
  echo "check $c quick: exit $rc" >> "$LOG"
  echo "$out" | grep -E 'key=|KNOWN-FINDING|VIOLATION|quick:' | cut -c1-240 | head -40 >> "$LOG"
done
echo DONE >> "$LOG"
