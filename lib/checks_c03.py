"""C03 — a CSG expression denotes one solid however it is built, shared or evaluated."""

CHECK = {
    "id": "C03",
    "level": "exploration",
    "rule": ("dags: a case = one seeded expression DAG (3..maxLeaves eps-valid leaves in general position; Boolean, "
             "BatchBoolean(2..5) and transform-chain nodes; an already used sub-expression is reused only through its "
             "own fresh generic transform) evaluated under 10 histories (root-only with temporaries dropped / all "
             "handles kept alive, all-eager with varied forcing calls, shared node forced first / last / its parents "
             "forced as they are built, Boolean() vs operators vs compound assignment vs BatchBoolean, batches flat / "
             "nested left / nested right / chunked, transform chains step by step vs one composed matrix). rewrites: "
             "each block of 8 consecutive cases runs the 8 families once (rotated pseudo-randomly per block): subtraction chains (a-b)-c.. vs a-(b+c..), nested vs flat "
             "unions/intersections, bbox-disjoint operands (Compose path) incl. integer boxes whose bounding boxes "
             "touch exactly, empty operands in positive and negative positions, transform chains over a shared "
             "sub-expression, >1000 children in one BatchBoolean, a very deep compound-assignment chain with mixed "
             "ops, a += chain of thousands of leaves plus destruction of deep never-evaluated trees. "
             "distinct_nontrivial = distinct (family, expression shape) signatures among DAGs whose result is "
             "non-empty and for which at least one sample point was decided."),
    "min_nontrivial": {"quick": 100, "thorough": 1000},
    "exhaustive": {"quick": False, "thorough": False},
    "stages": [
        {"name": "dags", "variant": "asan", "harness": "c03_csg_laziness.cpp",
         "cases": {"quick": 160, "thorough": 2500},
         "params": {"maxLeaves": {"quick": 10, "thorough": 24}, "extraHistories": {"quick": 1, "thorough": 3}},
         "case_timeout": 600},
        {"name": "rewrites", "variant": "asan", "harness": "c03_csg_laziness.cpp",
         "cases": {"quick": 64, "thorough": 200},
         "params": {"bigN": {"quick": 1001, "thorough": 1300}, "deepN": {"quick": 400, "thorough": 1000},
                    "chainN": {"quick": 3000, "thorough": 6000}},
         "case_timeout": 900},
        # parallel library (real TBB, MANIFOLD_PAR=1): BatchBoolean's task_group path and the Par branch of Compose
        {"name": "dags-par", "variant": "tbb", "harness": "c03_csg_laziness.cpp", "tiers": ("thorough",),
         "cases": {"quick": 0, "thorough": 400},
         "params": {"maxLeaves": 24, "extraHistories": 2},
         "case_timeout": 600},
        {"name": "rewrites-par", "variant": "tbb", "harness": "c03_csg_laziness.cpp", "tiers": ("thorough",),
         "cases": {"quick": 0, "thorough": 80},
         "params": {"bigN": 1300, "deepN": 1000, "chainN": 6000},
         "case_timeout": 900},
    ],
    "assumptions": [
        "the denotation is computed by the harness alone: leaf meshes as exported once by the library, moved by the "
        "harness with the accumulated affine map in long double (triangles flipped under mirrors), classified by the "
        "solid-angle winding number of harness/common/oracles.h and folded with Boolean algebra",
        "a result point counts as inside iff its rounded winding number is exactly 1 and outside iff exactly 0; "
        "non-integral windings are skipped",
        "guard band tau = largest GetTolerance() among the histories' results + 8 ulp x largest |coordinate|; samples "
        "within tau of ANY placed leaf surface are skipped and counted",
        "volume agreement bound 2 tau x (total placed-leaf area) + 1e-12 scale^3 (the C02 bound)",
        "leaves are eps-valid by construction and every leaf and every reuse carries its own random rotation "
        "(general position); the touching-boxes family uses integer boxes on purpose (bounding boxes touch exactly)",
        "g++ -O1 -fsanitize=address,undefined build of /repo's working tree, -DNDEBUG, MANIFOLD_PAR=-1 ; the "
        "thorough tier repeats both stages on the real-TBB build (MANIFOLD_PAR=1, -O2) so that BatchBoolean's "
        "task_group path runs",
    ],
}

TEXT = {
    "text": ("Held on the executions observed: seeded expression DAGs over eps-valid leaves in general position and the "
             "rewrites named in the statement are evaluated by the library under >= 8 histories each (laziness, sharing, "
             "use_count, construction style, forcing order and forcing call varied) and every history's exported result is "
             "compared, point by point, with a denotation computed independently from the leaf meshes by winding-number "
             "classification and Boolean algebra; Status must be the same and volumes must agree within the tolerance bound. "
             "Sampling, not proof."),
    "note": ("Trusts the harness's winding-number oracle and its own affine algebra. DAG size is bounded (<= 24 leaves, "
             "<= 64 placed leaves; a few cases with 1000-20000 leaves). Serial build only: the parallel BatchBoolean "
             "task_group path is covered by C04/C06 variants, not here."),
    "technique": "runtime monitoring: differential evaluation histories against an independently computed denotation, under ASan+UBSan",
    "design_ref": "DESIGN.md 4 C03",
}
