"""C19 - refinement keeps the surface; simplification only removes redundancy."""

_TRI_SPACE = 2600          # sorted triples n0>=n1>=n2 in 1..24 : C(26,3)
_QUAD_Q = 12
_QUAD_SPACE = _QUAD_Q ** 4  # all quadruples in 1..12

CHECK = {
    "id": "C19",
    "level": "exploration",
    "rule": ("five stages. patterns_tri: case idx = idx-th sorted edge-division triple (n0>=n1>=n2, 1..24; all 2600 enumerated, "
             "EXHAUSTIVE for that bound): Partition::GetPartition's pattern is checked in its own frame (every vertex index used, "
             "boundary vertices at j/n of their edge in order, every sub-triangle positively oriented in barycentric space, areas "
             "sum to the whole, every directed edge once, interior edges paired, unpaired edges = exactly the boundary cycle) and, "
             "for every distinct order of the triple and all 8 edge-direction masks, Partition::Reindex's output in the caller's "
             "frame (same edge checks against the caller's boundary cycle, interior indices exactly the promised range). "
             "patterns_quad: idx = idx-th quadruple in 1..12 (all 20736 enumerated, EXHAUSTIVE for that bound), same checks in the "
             "unit square, 16 direction masks. refine_flat: seeded DSL program, an eps-valid tangent-free value M, one of "
             "Refine(n)/RefineToLength/RefineToTolerance (and a second round on the result): topology oracle, n*n count, every "
             "input vertex position present, volume/area equal within rounding bounds, P point classifications. refine_smooth: "
             "M.SmoothOut / CalculateNormals.SmoothByNormals / Manifold::Smooth(export, sharpened edges) then a Refine*: topology "
             "oracle and every input vertex position present. simplify: own polyhedron (box, prism, frustum/cone, star prism, "
             "hull, tetrahedron, box+-box, drilled box, two components; random pose/scale; optional affine properties) with "
             "conditioning minSin >= 0.1, Refine(n) (redundant vertices known), then Simplify(t) or SetTolerance(t) with t <= "
             "1e-3 * (minEdge/n) * minSin (also t = 0, t < epsilon, t < tolerance, t < 0). distinct_nontrivial = distinct "
             "signatures: one per pattern tuple that passed; (op, producing operation, log4 output size, n, has-properties) for "
             "flat refinements that decided >=1 point and grew the mesh; (op, smoother, producing operation, size) for smooth "
             "refinements that grew the mesh; (op, polyhedron family, n, decade of t/tMax, has-properties) for simplifications "
             "that removed triangles."),
    # both pattern spaces (23336 tuples) + a floor for the three sampled stages
    "min_nontrivial": {"quick": _TRI_SPACE + _QUAD_SPACE + 150, "thorough": _TRI_SPACE + _QUAD_SPACE + 400},
    # the check as a whole samples; the two pattern stages alone are exhaustive for their bounds
    # (stage key "exhaustive" below, counters *_space_fully_enumerated_by_this_run in the evidence)
    "exhaustive": {"quick": False, "thorough": False},
    "stages": [
        {"name": "patterns_tri", "variant": "asan", "harness": "c19_refine_simplify.cpp",
         "cases": {"quick": _TRI_SPACE, "thorough": _TRI_SPACE}, "exhaustive": True,
         "case_timeout": 120},
        {"name": "patterns_quad", "variant": "asan", "harness": "c19_refine_simplify.cpp",
         "cases": {"quick": _QUAD_SPACE, "thorough": _QUAD_SPACE}, "exhaustive": True,
         "params": {"maxQuadDiv": _QUAD_Q},
         "case_timeout": 120},
        {"name": "refine_flat", "variant": "asan", "harness": "c19_refine_simplify.cpp",
         "cases": {"quick": 1200, "thorough": 12000},
         "params": {"steps": {"quick": 6, "thorough": 9}, "maxTris": {"quick": 400, "thorough": 1500},
                    "maxOutTris": {"quick": 12000, "thorough": 40000}, "points": {"quick": 12, "thorough": 16}},
         "case_timeout": 300},
        {"name": "refine_smooth", "variant": "asan", "harness": "c19_refine_simplify.cpp",
         "cases": {"quick": 1200, "thorough": 12000},
         "params": {"steps": {"quick": 6, "thorough": 9}, "maxTris": {"quick": 400, "thorough": 1500},
                    "maxOutTris": {"quick": 12000, "thorough": 40000}},
         "case_timeout": 300},
        {"name": "simplify", "variant": "asan", "harness": "c19_refine_simplify.cpp",
         "cases": {"quick": 1500, "thorough": 15000},
         "params": {"maxRefine": {"quick": 5, "thorough": 7}},
         "case_timeout": 300},
    ],
    "assumptions": [
        "class Partition is reached by #include \"subdivision.cpp\" into the harness TU (no source change); the harness "
        "binary therefore runs its own compilation of src/subdivision.cpp (same flags) instead of the archive's object",
        "pattern geometry is judged in the reference triangle (0,0),(1,0),(0,1) / unit square with 1e-12 absolute "
        "slack on barycentric coordinates and 1e-11 relative on the area sum",
        "'original vertex retained / does not move' is decided by coordinate equality (== on doubles, so -0 equals +0) "
        "between exported vertex positions; 'on the interpolated surface' for tangent-bearing refinement is NOT checked "
        "(no independent Bezier oracle), only topology and fixed originals",
        "flat refinement: volume within 1e-12*sum(edge products), area within 1e-13*sum(perimeter)*S (>=100x the rounding "
        "of double barycentric placement), classification points closer than 1e-9*S to the surface or with non-integral "
        "solid-angle sums are skipped",
        "simplification: t <= 1e-3*(minEdge/n)*minSin where minSin is the smallest sine over dihedral angles of non-flat "
        "edges and angles between feature edges at a vertex of the polyhedron (polyhedra with minSin < 0.1 are skipped); "
        "Hausdorff distance is sampled (all output vertices -> original surface; polyhedron corners, <=400 refined "
        "vertices, 60 random face points -> output) with bound max(t, tolerance) + 1e-11*S",
        "g++ -O1 -fsanitize=address,undefined build of /repo's working tree, -DNDEBUG, MANIFOLD_PAR=-1 (serial)",
    ],
}

TEXT = {
    "text": ("Held on the executions observed. Exhaustively for all sorted edge-division triples up to 24 and all quadruples up "
             "to 12: each subdivision pattern uses every vertex, puts boundary vertices at their divisions, has only positively "
             "oriented sub-triangles whose areas sum to the whole, pairs every interior edge, and Reindex maps it into the "
             "caller's frame for every order of the divisions and every edge direction. On sampled eps-valid solids: "
             "Refine(n)/RefineToLength/RefineToTolerance without tangents keep volume, area and point classification, keep "
             "every input vertex, leave no vertex unreferenced and give exactly n*n times the triangles; with tangents "
             "(SmoothOut, SmoothByNormals, Manifold::Smooth) the result is a closed manifold and every input vertex position "
             "is still present. On redundantly tessellated polyhedra with t at least 1000x below the feature size, "
             "Simplify/SetTolerance never grow the triangle count, keep the sampled Hausdorff distance and volume within t, "
             "SetTolerance reports max(t, epsilon), and no value has tolerance below epsilon. Sampling apart from the two "
             "pattern spaces."),
    "note": ("Not checked: that new vertices of tangent-bearing refinement lie on the interpolated Bezier surface (no independent "
             "oracle), property interpolation values, quads above 12 divisions. Hausdorff distance is sampled, not exact. "
             "Trusts the harness oracles and g++'s sanitizers; serial build only."),
    "technique": "runtime monitoring: exhaustive enumeration of internal subdivision patterns + differential oracles on public output under ASan+UBSan",
    "design_ref": "DESIGN.md 4 C19",
}
