"""C19 - refinement keeps the surface; simplification only removes redundancy."""


def _tri_space(n):  # sorted triples n0>=n1>=n2 in 1..n : C(n+2,3)
    return n * (n + 1) * (n + 2) // 6


_TRI_N = {"quick": 24, "thorough": 32}       # the property's bound is 24; thorough goes beyond it
_QUAD_Q = {"quick": 12, "thorough": 16}
_TRI_SPACE = {t: _tri_space(n) for t, n in _TRI_N.items()}      # 2600 / 5984
_QUAD_SPACE = {t: q ** 4 for t, q in _QUAD_Q.items()}           # 20736 / 65536

CHECK = {
    "id": "C19",
    "level": "exploration",
    "rule": ("five stages. patterns_tri: case idx = idx-th sorted edge-division triple (n0>=n1>=n2, 1..24 quick / 1..32 thorough; all 2600 / 5984 "
             "enumerated, EXHAUSTIVE for that bound): Partition::GetPartition's pattern is checked in its own frame (every vertex index used, "
             "boundary vertices at j/n of their edge in order, every sub-triangle positively oriented in barycentric space, areas "
             "sum to the whole, every directed edge once, interior edges paired, unpaired edges = exactly the boundary cycle) and, "
             "for every distinct order of the triple and all 8 edge-direction masks, Partition::Reindex's output in the caller's "
             "frame (same edge checks against the caller's boundary cycle, interior indices exactly the promised range). "
             "patterns_quad: idx = idx-th quadruple in 1..12 quick / 1..16 thorough (all 20736 / 65536 enumerated, EXHAUSTIVE for that bound), same checks in the "
             "unit square, 16 direction masks. refine_flat: seeded DSL program, an eps-valid tangent-free value M, one of "
             "Refine(n)/RefineToLength/RefineToTolerance (and a second round on the result): topology oracle, n*n count, every "
             "input vertex position present, volume/area equal within rounding bounds, P point classifications. refine_smooth: "
             "M.SmoothOut / CalculateNormals.SmoothByNormals / Manifold::Smooth(export, sharpened edges) then a Refine*: topology "
             "oracle and every input vertex position present. simplify: own polyhedron (box, prism, frustum/cone, star prism, "
             "hull, tetrahedron, box+-box, drilled box, two components; random pose/scale; optional affine properties) with "
             "conditioning minSin >= 0.1, Refine(n) (redundant vertices known), then Simplify(t) or SetTolerance(t) with t <= "
             "1e-3 * (minEdge/n) * minSin (0.02 * (minEdge/n) * minSin when minSin >= 0.7) (also t = 0, t < epsilon, t < tolerance, t < 0). distinct_nontrivial = distinct "
             "signatures: one per pattern tuple that passed; (op, producing operation, log4 output size, n, has-properties) for "
             "flat refinements that decided >=1 point and grew the mesh; (op, smoother, producing operation, size) for smooth "
             "refinements that grew the mesh; (op, polyhedron family, n, decade of t/tMax, has-properties) for simplifications "
             "that removed triangles."),
    # both pattern spaces (23336 / 71520 tuples) + a floor for the three sampled stages
    "min_nontrivial": {"quick": _TRI_SPACE["quick"] + _QUAD_SPACE["quick"] + 150,
                       "thorough": _TRI_SPACE["thorough"] + _QUAD_SPACE["thorough"] + 400},
    # the check as a whole samples; the two pattern stages alone are exhaustive for their bounds
    # (stage key "exhaustive" below, counters *_space_fully_enumerated_by_this_run in the evidence)
    "exhaustive": {"quick": False, "thorough": False},
    "stages": [
        {"name": "patterns_tri", "variant": "asan", "harness": "c19_refine_simplify.cpp",
         "cases": dict(_TRI_SPACE), "exhaustive": True,
         "params": {"maxTriDiv": dict(_TRI_N)},
         "case_timeout": 120},
        {"name": "patterns_quad", "variant": "asan", "harness": "c19_refine_simplify.cpp",
         "cases": dict(_QUAD_SPACE), "exhaustive": True,
         "params": {"maxQuadDiv": dict(_QUAD_Q)},
         "case_timeout": 120},
        {"name": "refine_flat", "variant": "asan", "harness": "c19_refine_simplify.cpp",
         "cases": {"quick": 600, "thorough": 6000},
         "params": {"steps": {"quick": 6, "thorough": 9}, "maxTris": {"quick": 400, "thorough": 1500},
                    "maxOutTris": {"quick": 12000, "thorough": 40000}, "points": {"quick": 12, "thorough": 16}},
         "case_timeout": 300},
        {"name": "refine_smooth", "variant": "asan", "harness": "c19_refine_simplify.cpp",
         "cases": {"quick": 600, "thorough": 6000},
         "params": {"steps": {"quick": 6, "thorough": 9}, "maxTris": {"quick": 400, "thorough": 1500},
                    "maxOutTris": {"quick": 12000, "thorough": 40000}},
         "case_timeout": 300},
        {"name": "simplify", "variant": "asan", "harness": "c19_refine_simplify.cpp",
         "cases": {"quick": 800, "thorough": 8000},
         "params": {"maxRefine": {"quick": 5, "thorough": 7}},
         "case_timeout": 300},
    ],
    "assumptions": [
        "class Partition is reached by #include \"subdivision.cpp\" into the harness TU (no source change); the harness "
        "binary therefore runs its own compilation of src/subdivision.cpp (same flags) instead of the archive's object",
        "pattern geometry is judged in the reference triangle (0,0),(1,0),(0,1) / unit square with 1e-12 absolute "
        "slack on barycentric coordinates and 1e-11 relative on the area sum",
        "'original vertex retained / does not move' is decided by coordinate equality (== on doubles, so -0 equals +0) "
        "between exported vertex positions; 'on the interpolated surface' for tangent-bearing refinement is NOT checked "
        "(no independent Bezier oracle), only topology and fixed originals",
        "flat refinement: volume within 1e-12*sum(edge products), area within 1e-13*sum(perimeter)*S (>=100x the rounding "
        "of double barycentric placement), classification points closer than 1e-9*S to the surface or with non-integral "
        "solid-angle sums are skipped",
        "simplification: t <= 1e-3*(minEdge/n)*minSin (0.02*(minEdge/n)*minSin for polyhedra with minSin >= 0.7) where minSin is the smallest sine over dihedral angles of non-flat "
        "edges and angles between feature edges at a vertex of the polyhedron (polyhedra with minSin < 0.1 are skipped); "
        "Hausdorff distance is sampled (all output vertices -> original surface; polyhedron corners, <=400 refined "
        "vertices, 60 random face points -> output) with bound max(t, tolerance) + 1e-11*S",
        "g++ -O1 -fsanitize=address,undefined build of /repo's working tree, -DNDEBUG, MANIFOLD_PAR=-1 (serial)",
    ],
}

TEXT = {
    "text": ("Held on the executions observed. Exhaustively for all sorted edge-division triples up to 24 (32 in the thorough tier) and all "
             "quadruples up to 12 (16): each subdivision pattern uses every vertex, puts boundary vertices at their divisions, has only positively "
             "oriented sub-triangles whose areas sum to the whole, pairs every interior edge, and Reindex maps it into the "
             "caller's frame for every order of the divisions and every edge direction. On sampled eps-valid solids: "
             "Refine(n)/RefineToLength/RefineToTolerance without tangents keep volume, area and point classification, keep "
             "every input vertex, leave no vertex unreferenced and give exactly n*n times the triangles; with tangents "
             "(SmoothOut, SmoothByNormals, Manifold::Smooth) the result is a closed manifold and every input vertex position "
             "is still present. On redundantly tessellated polyhedra with t at least 1000x below the feature size, "
             "Simplify/SetTolerance never grow the triangle count, keep the sampled Hausdorff distance and volume within t, "
             "SetTolerance reports max(t, epsilon), and no value has tolerance below epsilon. Sampling apart from the two "
             "pattern spaces."),
    "note": ("Not checked: that new vertices of tangent-bearing refinement lie on the interpolated Bezier surface (no independent "
             "oracle), property interpolation values, quads above 12 (16) divisions. Hausdorff distance is sampled, not exact. "
             "Trusts the harness oracles and g++'s sanitizers; serial build only."),
    "technique": "runtime monitoring: exhaustive enumeration of internal subdivision patterns + differential oracles on public output under ASan+UBSan",
    "design_ref": "DESIGN.md 4 C19",
}

# development knob (mutation testing on a loaded machine): VERIF_C19_STAGES=a,b restricts the run to
# those stages; the non-trivial floor then makes a silent run exit 2, never 0.
import os as _os
if _os.environ.get("VERIF_C19_STAGES"):
    CHECK["stages"] = [s for s in CHECK["stages"] if s["name"] in _os.environ["VERIF_C19_STAGES"].split(",")]
