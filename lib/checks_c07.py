"""C07 - every output triangle traces back to its source face and interpolated properties."""

CHECK = {
    "id": "C07",
    "level": "exploration",
    "rule": ("cases = seeded programs (<=10 steps quick, <=16 thorough) restricted to the operations the statement names: "
             "Boolean (general / coincident / few-epsilon placement), BatchBoolean, Compose, Split, SplitByPlane, TrimByPlane, "
             "Translate/Rotate/Scale/Mirror/general affine Transform (mirrors, shear), Refine(n), RefineToLength, Simplify, "
             "SetTolerance, AsOriginal, and self-Booleans of one value under two transforms (repeated instances). Originals: "
             "primitives (OriginalID) and MeshGL64/MeshGL imports with 0..6 property channels (global affine field, continuous "
             "per-vertex random field, or per-corner random field with a seam on every edge), face IDs absent / per triangle / "
             "arbitrary pairs, reserved or library-assigned IDs, baked under a generic (possibly mirroring) transform. Every value "
             "of every step is observed (values downstream of a Simplify/SetTolerance are outside the statement's program class: "
             "for them only the run table, the instance transforms and 'lies on the transformed source surface' are checked). "
             "distinct_nontrivial = number of distinct (producing operation, number of non-empty runs "
             "capped at 6, back-side run present, mirrored run present, repeated instance present, properties present, log16 "
             "triangle-count bucket) signatures among non-empty NoError values on which every triangle was checked."),
    "min_nontrivial": {"quick": 60, "thorough": 120},
    "exhaustive": {"quick": False, "thorough": False},
    "stages": [
        {"name": "programs", "variant": "asan", "harness": "c07_provenance.cpp",
         "cases": {"quick": 640, "thorough": 1200},  # 8000 cases produce witnesses that could not be triaged in time, see DESIGN.md 9.5
         "params": {"steps": {"quick": 10, "thorough": 14}, "maxTris": {"quick": 1500, "thorough": 4000}},
         "case_timeout": 300},
    ],
    "assumptions": [
        "the source mesh of an original is the MeshGL64 the user imported when he supplied face IDs, otherwise the original Manifold's own GetMeshGL64() (whose faceID field is the library's coplanar grouping); for the anonymous cube the library creates inside SplitByPlane/TrimByPlane it is Cube({2,2,2},true).GetMeshGL64()",
        "'same orientation' is read against the outward normal of the transformed solid (T^-T n), i.e. a mirroring run transform does not count as a flip; decided only when the output triangle and the source triangle it lies on both have altitude > 8x the distance bound",
        "distance bound B = max(exported tolerance, largest Simplify/SetTolerance argument applied upstream mapped through later transforms by their Frobenius norm) + 64 ulp of the coordinate scale; property bound = (largest per-triangle or fitted gradient on the face, mapped to world space) * B + 2 * fit residual + 1e-12 * max|value|",
        "a face's property field counts as affine when a least-squares affine fit over all its triangle corners has residual <= 1e-6 of the largest value (always true for a single-triangle face); other faces are counted and skipped",
        "the expected instance list (original ID, composed transform) is composed by the harness from the matrices it passed to the API; a run must match a distinct expected instance within 1e-9 relative + B on the source's bounding-box corners",
        "witness keys: a distance or property error between 1x and 4x its bound is keyed ':marginal(...)' (reported, but a different key from gross errors); gross property/geometry errors downstream of a Boolean whose operands were placed a few epsilons apart carry ':few-epsilon-ancestry:'; every witness downstream of a Refine whose operand exported a tangent array (nothing in this workload creates tangents) carries the prefix 'phantom-tangents:'",
        "orientation passes if ANY source triangle of the face that the output triangle lies on (all three vertices within B) has the required orientation: a coplanar face may hold coincident triangles of both orientations",
        "g++ -fsanitize=address,undefined build of /repo's working tree, -DNDEBUG, MANIFOLD_PAR=-1",
    ],
}

TEXT = {
    "text": ("Held on the executions observed: for every triangle of every value produced by seeded programs of Booleans, batch "
             "Booleans, Compose, splits, plane cuts, (mirroring) transforms, refinements, simplifications and AsOriginal over originals "
             "with 0-6 property channels, user or library face IDs and reserved IDs, an independent long-double oracle confirmed that "
             "(run original ID, run transform, face ID) names registered source triangles, that the triangle's vertices lie within "
             "tolerance of their union, that it is oriented like the source face (opposite for back-side runs), that each property "
             "value equals the source's affine field at the pulled-back position (zero for channels the source lacks), that the run "
             "table is contiguous, covering, sorted with empty runs trailing, and that each run's transform is the one the harness "
             "composed for a distinct instance. Sampling, not proof."),
    "note": ("Trusts the harness's geometry (point-triangle distance, affine fits in long double) and its bookkeeping of expected "
             "transforms; orientation and property samples inside the guard band or on non-affine faces are counted and skipped; "
             "programs and mesh sizes are bounded; smoothing (tangents) is outside this property's workload."),
    "technique": "runtime monitoring: program fuzzing with an independent provenance/interpolation oracle on the public MeshGL64 output under ASan+UBSan",
    "design_ref": "DESIGN.md 4 C07",
}
