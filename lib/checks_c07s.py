"""C07S - NOT a property check and NOT registered in MANIFEST.json: the C07 harness with originals that
carry PARTIAL property seams (a vertex with three or more property vertices). Kept because it is what
catches the seeded change seeded/C07-createproperties-edge-key; see DESIGN.md 9.5 for why it is not registered."""
CHECK = {
    "id": "C07S", "level": "exploration",
    "rule": "C07's program workload with partial-property-seam originals switched on (stage param partialSeams=1)",
    "min_nontrivial": {"quick": 60, "thorough": 120},
    "stages": [
        {"name": "programs", "variant": "asan", "harness": "c07_provenance.cpp",
         "cases": {"quick": 640, "thorough": 8000},
         "params": {"steps": {"quick": 10, "thorough": 14}, "maxTris": {"quick": 1500, "thorough": 4000}, "partialSeams": 1},
         "case_timeout": 300},
    ],
    "assumptions": ["unregistered auxiliary workload"],
}
TEXT = {"text": "auxiliary, unregistered", "note": "see DESIGN.md 9.5", "technique": "runtime monitoring", "design_ref": "DESIGN.md 9.5"}
