"""C11 — CrossSections are regularised; 2D Booleans compute the set operation."""

# vcheck's sanitizer options with a smaller free-list quarantine: the default 256 MB per
# process makes 16 parallel workers spend most of their time in page faults.
_ASAN = ("abort_on_error=0:detect_leaks=0:allocator_may_return_null=1:max_allocation_size_mb=4096:"
         "exitcode=97:handle_abort=1:detect_stack_use_after_return=0:malloc_context_size=12:"
         "quarantine_size_mb=32")
_ENV = {"ASAN_OPTIONS": _ASAN}
_H = "c11_crosssection.cpp"

CHECK = {
    "id": "C11", "level": "exploration",
    "rule": (
        "Oracle = exact integer winding numbers (orientation predicate: double filter + exact floating-point "
        "expansion) of the INPUT contours, folded through the fill rule (Positive: w>0, EvenOdd: w odd; these are "
        "the two rules the public API offers) or the set formula on the operands' ToPolygons(), versus the winding "
        "number of ToPolygons() of the result, at sample points farther than the guard band B from every input "
        "edge AND every result edge (own long-double point-segment distance). B = 4*E + drift + 64*DBL_EPSILON*scale, "
        "E = max(result.GetTolerance(), eps(scale)), eps(L) = 1001*12.37*2^-53*2^ceil(log2 L) (docs/Boolean2.md: "
        "(k+1)*alpha, k=1000; cross_section.cpp passes InferEps(a,b) as the operation epsilon), drift = largest "
        "diameter of a chain of input vertices linked by distances <= 1.01*eps (documented transitive vertex "
        "merge). Samples: along both normals of input and result edges at 2x/10x/100x/1e3x/1e5x/1e7x B (edge "
        "midpoint, random point, 3B from an endpoint), around input and result vertices, 7x7 stratified random "
        "points; points inside the band are counted (points_skipped_in_band) and never decide. Regularity of every "
        "value: result winding in {0,1} at every decided sample; no two result edges cross properly (exact "
        "predicates) with all four endpoints farther than B from the other edge's line ('deep crossing'). "
        "Stages: soup = constructors CrossSection(contours)/EvenOdd(contours) on 9 families of arbitrary contour "
        "soups (random self-intersecting, overlapping stars incl. clockwise, small-integer rings with coincident and "
        "collinear edges, exact/reversed/edge-shifted duplicates, copies shifted by k*eps, k lines within m*eps of "
        "one point, rectangles sharing coordinates, needles, inserted collinear/duplicate/back-tracking vertices) at "
        "scales 1e-4..1e4 and offsets; program = seeded programs of Boolean (method, operators, compound "
        "assignment), BatchBoolean (0..5 operands), Translate/Rotate/Scale/Mirror/Transform chains and Warp/"
        "WarpBatch (sine, fold, snap-to-grid, flatten, swirl) where every step is checked against the ToPolygons() "
        "of its own operands (all of which passed the oracle before), incl. same-operand, exact-edge-shifted and "
        "k*eps-shifted operands; transforms are checked for regularity only (their accuracy is C17's); lattice = "
        "unions of 1..5 integer rectangles on [0,N]^2 (N<=10 quick, <=16 thorough, optionally shifted by integers up "
        "to 2^20, built 5 ways incl. clockwise members under both fill rules): the result's directed unit "
        "boundary edges must equal those of the pixel model one for one, Area() == pixel count (operator==), all "
        "three ops, both operand orders (Area compared with ==; bitwise equality of canonicalised contours is "
        "counted, not demanded), BatchBoolean with 2 and 3 operands; latticepairs = EVERY ordered pair of integer "
        "rectangles on [0,4]^2 (quick: 100^2 = 10000 cases) / [0,5]^2 (thorough: 225^2 = 50625 cases), each with all "
        "three ops, both orders, BatchBoolean, and as one two-contour soup in all 4 orientation combinations under "
        "both fill rules (this sub-space is enumerated completely: counters latticepairs_enumerated == "
        "latticepairs_space_size); large1k/large10k = inputs of >= 1024 / >= 1e4 edges per constructor call (BVH "
        "broad phase): jittered-grid soups checked by the winding oracle and big lattices checked by the pixel "
        "oracle. distinct_nontrivial = number of distinct (operation kind, bit pattern of all input contours) "
        "tuples whose result is non-empty and for which the oracle decided at least one inside and one outside "
        "point (lattice stages: distinct rectangle configurations with a non-empty union)."),
    "min_nontrivial": {"quick": 20000, "thorough": 100000},
    # the check as a whole samples; only the latticepairs sub-space is exhaustive (see rule and counters)
    "exhaustive": {"quick": False, "thorough": False},
    "stages": [
        {"name": "soup", "variant": "asan", "harness": _H, "env": _ENV,
         "cases": {"quick": 5000, "thorough": 40000}, "params": {"mode": "soup"}, "case_timeout": 300},
        {"name": "program", "variant": "asan", "harness": _H, "env": _ENV,
         "cases": {"quick": 1500, "thorough": 8000},
         "params": {"mode": "program", "steps": {"quick": 8, "thorough": 14}}, "case_timeout": 300},
        {"name": "lattice", "variant": "asan", "harness": _H, "env": _ENV,
         "cases": {"quick": 20000, "thorough": 80000},
         "params": {"mode": "lattice", "maxN": {"quick": 10, "thorough": 16}}, "case_timeout": 300},
        {"name": "latticepairs", "variant": "asan", "harness": _H, "env": _ENV,
         "cases": {"quick": 10000, "thorough": 50625},
         "params": {"mode": "latticepairs", "N": {"quick": 4, "thorough": 5}}, "case_timeout": 300},
        {"name": "large1k", "variant": "asan", "harness": _H, "env": _ENV,
         "cases": {"quick": 16, "thorough": 64}, "params": {"mode": "large", "minEdges": 1024},
         "case_timeout": 900},
        {"name": "large10k", "variant": "asan", "harness": _H, "env": _ENV,
         "cases": {"quick": 8, "thorough": 24}, "params": {"mode": "large", "minEdges": 10000},
         "case_timeout": 1800},
    ],
    "assumptions": [
        "epsilon of the statement = max(GetTolerance() of the result, eps of the input bounding box per docs/Boolean2.md); "
        "the monitor decides only points farther than B = 4*epsilon + merge-chain drift + 64*DBL_EPSILON*scale from every "
        "input and result edge (never closer), so discrepancies confined to that band are not observed",
        "a 'deep crossing' needs all four endpoints farther than B from the other edge's line; shallower residual "
        "crossings are inside the band the docs grant",
        "exact orientation predicate and crossing-number classifier in harness/c11_geom2d.h are correct (finite inputs, "
        "no overflow/underflow of coordinate products: workloads stay within 1e-12..1e12)",
        "operand-order independence is decided on the region (pixel set) and on Area() with ==; identical vertex "
        "sets are only counted",
        "transform accuracy is not C11's (only the regularity clause is applied to transform results)",
        "g++ -O1 -fsanitize=address,undefined build of /repo's working tree, -DNDEBUG, MANIFOLD_PAR=-1 (serial; the "
        "BVH broad phase is reached, the TBB branches are not), ASan quarantine reduced to 32 MB per worker",
    ],
}

TEXT = {
    "text": ("Held on the executions observed: an independent exact winding-number classifier compares the fill-rule / "
             "set-formula membership computed from the input contours with ToPolygons() of every value produced by "
             "constructors (Positive and EvenOdd), Boolean/BatchBoolean, transforms and warps, at adversarial sample "
             "points outside an explicit epsilon band; every value is also checked for winding in {0,1} and for deep "
             "crossings of its own edges. Integer-lattice rectangle unions are compared exactly (unit boundary edges and "
             "Area()==pixel count, both operand orders), with every ordered pair of rectangles on a small lattice "
             "enumerated. Inputs above 1024 and 1e4 edges exercise the BVH broad phase. Sampling, not proof."),
    "note": ("Trusts harness/c11_geom2d.h (exact orientation by floating-point expansions, long-double distances) and g++'s "
             "sanitizers. Only points farther than 4*epsilon (+ documented merge-chain drift) from all input and result "
             "edges decide; serial build only (MANIFOLD_PAR=-1); contour soups are sampled from 9 generator families; "
             "only the latticepairs sub-space is exhaustive."),
    "technique": "runtime monitoring: generated workloads + independent exact 2D winding/pixel oracle on public output under ASan+UBSan",
    "design_ref": "DESIGN.md 4 C11",
}
