CHECK = {
    "id": "C11", "level": "exploration",
    "rule": "dev",
    "min_nontrivial": {"quick": 1, "thorough": 1},
    "exhaustive": {"quick": False, "thorough": False},
    "stages": [
        {"name": "soup", "variant": "asan", "harness": "c11_crosssection.cpp",
         "cases": {"quick": 5000, "thorough": 200000}, "params": {"mode": "soup"}, "case_timeout": 120},
        {"name": "program", "variant": "asan", "harness": "c11_crosssection.cpp",
         "cases": {"quick": 1500, "thorough": 40000}, "params": {"mode": "program", "steps": {"quick": 8, "thorough": 14}}, "case_timeout": 120},
        {"name": "lattice", "variant": "asan", "harness": "c11_crosssection.cpp",
         "cases": {"quick": 20000, "thorough": 200000}, "params": {"mode": "lattice", "maxN": {"quick": 10, "thorough": 16}}, "case_timeout": 120},
        {"name": "latticepairs", "variant": "asan", "harness": "c11_crosssection.cpp",
         "cases": {"quick": 10000, "thorough": 50625}, "params": {"mode": "latticepairs", "N": {"quick": 4, "thorough": 5}}, "case_timeout": 120},
        {"name": "large1k", "variant": "asan", "harness": "c11_crosssection.cpp",
         "cases": {"quick": 16, "thorough": 160}, "params": {"mode": "large", "minEdges": 1024}, "case_timeout": 600},
        {"name": "large10k", "variant": "asan", "harness": "c11_crosssection.cpp",
         "cases": {"quick": 8, "thorough": 48}, "params": {"mode": "large", "minEdges": 10000}, "case_timeout": 1200},
    ],
    "assumptions": [],
}
TEXT = {"text": "dev", "note": "dev", "technique": "runtime monitoring", "design_ref": "DESIGN.md 4 C11"}
