"""C18 - measurements and queries agree with their brute-force definitions."""

CHECK = {
    "id": "C18",
    "level": "exploration",
    "rule": ("case = a seeded DSL program (common/dsl.h; only constructions that keep eps-validity by construction: "
             "primitives, hulls, extrusions/revolutions, imports of primitives with properties, generic-position "
             "Booleans/Splits/Trims, transforms incl. mirrors and affine maps, Compose of bounding-box-disjoint copies, "
             "a thin prism drilled through for genus; no coincident/near-degenerate regimes, no warps, no simplify) and "
             "1-2 of its eps-valid values as objects. Per object: counts, Volume, SurfaceArea, BoundingBox, 2*Q winding "
             "points, Q ray segments, 3 slice heights x Q points, 2*Q projection points, Decompose, 3 MinGap partners "
             "(Q = param 'queries'). distinct_nontrivial = number of distinct signatures (producing operation, "
             "min(genus,3), min(components,3), log4 triangle bucket, MinGap decided?, a slice point inside?, a "
             "projection point in shadow?) over objects for which the oracle DECIDED >=1 winding point with one inside, "
             ">=1 generic ray with >=1 ray having crossings, >=1 slice point and >=1 projection point."),
    "min_nontrivial": {"quick": 40, "thorough": 120},
    "exhaustive": {"quick": False, "thorough": False},
    "stages": [
        {"name": "objects", "variant": "asan", "harness": "c18_measure.cpp",
         "cases": {"quick": 800, "thorough": 8000},
         "params": {"steps": {"quick": 7, "thorough": 10},
                    "maxTris": {"quick": 600, "thorough": 1500},
                    "queries": {"quick": 16, "thorough": 24},
                    "maxPairs": {"quick": 400000, "thorough": 1000000}},
         "case_timeout": 300},
    ],
    "assumptions": [
        "oracles (harness/c18_measure.cpp, common/oracles.h) share no code with the library: long-double sums, "
        "solid-angle winding numbers, Moeller-Trumbore over all triangles, all-pairs triangle-triangle distance "
        "(9 edge-edge + 6 vertex-triangle, 0 if a segment crosses the other triangle; box lower bound only prunes), "
        "even-odd-free signed 2D winding of the returned polygons",
        "guard bands: points/ray ends closer than 1e-9*S to the surface (S = max |coordinate|), rays within 1e-9*S "
        "of any mesh edge, slice heights within 1e-9*S of a vertex height, projection points within 1e-9*S of a "
        "projected edge, solid-angle sums farther than 0.01 from an integer, MinGap pairs whose surfaces do not cross "
        "but come closer than 1e-6*S are counted as skipped and never decide",
        "tolerances: Volume/SurfaceArea 1e-12*sum(edge products) (>=500x the a-priori double rounding bound of the "
        "library's Kahan sum); BoundingBox bit-equal; MinGap 1e-8*S+1e-9*d; ray hit position 1e-9*S/|cos(ray,normal)| "
        "(hits with |cos|<1e-3 compare existence/order only)",
        "RayHit.faceID and RayHit.normal are not part of the property and are not compared",
        "g++ -O1 -fsanitize=address,undefined build of /repo's working tree, -DNDEBUG, MANIFOLD_PAR=-1 (serial)",
    ],
}

TEXT = {
    "text": ("Held on the executions observed: for eps-valid-by-construction solids of any genus and several components "
             "produced by seeded programs (Booleans, splits, hulls, extrusions, transforms, Compose), Volume/SurfaceArea equal "
             "long-double sums over the export within 1e-12 relative to the sum of term magnitudes, BoundingBox is bit-equal "
             "to the tight box, NumVert/NumTri/NumProp/IsEmpty match the export, WindingNumber equals the solid-angle winding "
             "number at generic points, RayCast returns exactly the Moeller-Trumbore crossings (count, order, parameter, "
             "position on the segment) with parity equal to the change of insideness, Slice has the 3D winding of (x,y,z) as "
             "its 2D winding, Project's positive-fill region is exactly the set of (x,y) whose vertical line meets the "
             "surface, Decompose returns the union-find components (each connected, triangle counts and volumes summing to "
             "the whole), and MinGap equals the all-pairs triangle distance clamped to searchLength, 0 when surfaces cross or "
             "one solid contains the other. Sampling, not proof."),
    "note": ("Trusts the harness oracles (long double arithmetic, bands listed in the evidence assumptions) and g++'s sanitizers. "
             "Queries are sampled (bounded mesh size <= ~2.4k/6k triangles quick/thorough); non-generic queries (on edges, "
             "vertices, touching solids) are outside the property and are counted as skipped. Serial build only."),
    "technique": "runtime monitoring: differential testing of query results against brute-force oracles on the exported mesh, under ASan+UBSan",
    "design_ref": "DESIGN.md 4 C18",
}
