"""C16 — Hull is the convex hull; Minkowski sum/difference are dilation and erosion."""

CHECK = {
    "id": "C16",
    "level": "exploration",
    "rule": ("stage hull: case = one seeded input (72% point clouds of 4..1e5 points from eleven families: uniform, ball, "
             "cospherical, integer lattice block, tight clusters with exact duplicates, co-circular rings, cube surface, "
             "nearly flat facet under an apex, simplex lattice, collinear points on cone/cylinder/hyperboloid rulings, shell+core; 12% of them thin slabs/needles; 28% one Manifold "
             "via Hull() or several via Hull(vector), a third of the latter together with a RefineToLength copy of the "
             "first operand = exact duplicates plus collinear/coplanar points; one leaf kind is a Boolean result) under identity/scaled/rotated/anisotropic/far-translated placement. "
             "stage degen: case idx%4 selects single point / lattice line / lattice plane / fewer than 4 points, all on "
             "small-integer coordinates so 'spans no volume' is exact. stage mink: case idx%8 enumerates "
             "{Sum,Difference} x {A convex?} x {B convex?}; operands are primitives, hulls or extruded concave polygons "
             "under a generic linear map, B contains the origin with a verified margin, A is placed at / near / far from the "
             "origin, B is smaller or larger than A. distinct_nontrivial counts distinct signatures of cases in which the "
             "oracle decided something on a non-empty result: hull = (input kind, family, log2 #points, log4 #triangles); "
             "degen = (family, size class) when the hull was empty as required; mink = (op, convexity combination, regime, "
             "operand kinds, placement of A) with at least 10 sample points decided outside every guard band. In "
             "Minkowski violation keys the convexity combination is the library's own IsConvex() verdict (it selects the "
             "branch of minkowski.cpp) and the regime is a coordinate-free fact about the operands (origin not in A; B's "
             "box not smaller than A's in any axis)."),
    "min_nontrivial": {"quick": 120, "thorough": 300},
    "exhaustive": {"quick": False, "thorough": False},
    "stages": [
        {"name": "hull", "variant": "asan", "harness": "c16_hull_minkowski.cpp",
         "cases": {"quick": 4000, "thorough": 30000},
         "params": {"mode": "hull", "bigEvery": {"quick": 400, "thorough": 1500},
                    "midEvery": {"quick": 25, "thorough": 25}},
         "case_timeout": 300},
        {"name": "degen", "variant": "asan", "harness": "c16_hull_minkowski.cpp",
         "cases": {"quick": 400, "thorough": 2000},
         "params": {"mode": "degen"},
         "case_timeout": 120},
        {"name": "mink", "variant": "asan", "harness": "c16_hull_minkowski.cpp",
         "cases": {"quick": 96, "thorough": 640},
         "params": {"mode": "mink"},
         "case_timeout": 600},
        # a non-convex A with more than 1000 triangles (internal batch size) swept by a small convex B
        {"name": "minkbig", "variant": "asan", "harness": "c16_hull_minkowski.cpp",
         "cases": {"quick": 4, "thorough": 32},
         "params": {"mode": "mink", "bigA": 1},
         "case_timeout": 1800},
    ],
    "assumptions": [
        "epsilon of the Hull clauses is QuickHull's own working epsilon, eps_hull = 1e-7 * max|input coordinate| "
        "(src/quickhull.cpp defaultEps(), m_epsilon = epsilon*scale); Manifold::GetEpsilon() of the result (~1e-12*extent) "
        "is far smaller than what QuickHull is written to guarantee and is not used. 'Within epsilon' is decided at "
        "10*eps_hull: QuickHull applies its eps test per face plane at the moment a face is replaced, so a dropped point "
        "that is at most eps above each of the planes meeting at a vertex/edge of the partial hull can be eps/sin(half "
        "angle) from the solid; excesses between 1 and 10 eps_hull are counted (advisory_* counters, largest seen 2.3) "
        "and not reported. Per (face, point) the threshold is 10*eps_hull*(1+1e-6) + 32*2^-52*scale*(1+|p-v0|/altitude(face)) "
        "(plane rounding, library double vs oracle long double); a point is reported only if it is also classified outside "
        "the hull by the winding-number oracle and farther than that threshold from its surface; a face whose plane has "
        "points of the solid itself above it (zero-thickness fold inside a coplanar facet) is set aside and counted",
        "'contains within epsilon' and 'convex' are decided against face planes (the weakest reading: the distance to the "
        "solid is never smaller than the height above a face plane); triangles of exactly zero area have no plane and "
        "are skipped and counted",
        "thick inputs contain four points of a tetrahedron whose width exceeds 900*eps_hull; thin slabs (thickness "
        "1e-12..1e-4 of the extent) get no verdict on emptiness, containment or convexity, only on closedness and "
        "vertex provenance (and memory safety)",
        "for clouds above 3e7 (point,face) pairs the containment clause is checked on all points x sampled faces and "
        "sampled points x all faces (counted in hulls_checked_by_sampled_pairs); edge convexity is always complete",
        "Minkowski: guard band tau = 1e-6*extent + 100*max(GetTolerance of A, B, result) around every surface; a sample "
        "decides only if its winding number is within 0.01 of 0 or 1 and it is farther than tau from the surface it is "
        "classified against; reach(B) = max vertex norm of B (exact for a polyhedron)",
        "violation keys of the Hull clauses end in the generator family, except that the families containing exactly "
        "collinear triples on the hull boundary by construction (rings, rulings, lattice-block, simplex-lattice, "
        "cube-surface, Manifold inputs with a refined copy or a Boolean-result leaf) share the class "
        "'collinear-by-construction', on which the open QuickHull findings are keyed; the other families (uniform, ball, "
        "cospherical, clusters, flat facet, shell+core, plain Manifold inputs) keep every clause fully sensitive",
        "an edge is reported as concave only if, besides the plane test at 10*eps_hull, the segment between the two "
        "wing-tip vertices leaves the solid (winding number 0 and farther than the threshold from the surface): a "
        "flipped coplanar triangle (zero-thickness fold inside a flat facet) is counted, not judged",
        "the Minkowski stage reads Manifold::Impl::IsConvex() of both operands through the internal headers only to "
        "label violation keys; no verdict depends on it",
        "g++ -fsanitize=address,undefined build of the tree, -DNDEBUG, MANIFOLD_PAR=-1 (serial); every run is also a "
        "memory/UB monitor of quickhull.cpp and minkowski.cpp",
    ],
}

TEXT = {
    "text": ("Held on the executions observed, except for the open findings listed in known_findings.d/C16.json. For every "
             "generated input the exported hull is checked by an independent oracle: closed manifold (C01 clauses), "
             "genus 0, positive volume, every vertex equal to an input point, bounding box equal to the input's, every edge convex and every input point "
             "on or below every face plane within QuickHull's epsilon (confirmed on the solid by winding number and "
             "brute-force distance), non-empty on volume-spanning input and empty on exactly degenerate lattice input. "
             "Minkowski sum/difference are checked point-wise with a winding-number classifier: a+b inside the sum for "
             "sampled a in A, b in B; no vertex or sampled point of the sum farther from A than max|b|; the difference "
             "inside A and p-b inside A for sampled p in the difference and b in B (interior samples and all vertices "
             "of B), for all four convexity combinations. Sampling, not proof."),
    "note": ("Trusts the harness's winding-number/distance oracles (long double) and g++'s sanitizers. Operands of the "
             "Minkowski stage are tiny (<= 32 triangles each) because the non-convex path is quadratic; inputs are "
             "sampled, thin/near-degenerate clouds are only monitored for memory safety, closedness and vertex "
             "provenance. PAR builds are not covered by this check (C04 covers schedule independence)."),
    "technique": "runtime monitoring: generated workloads with independent geometric oracles on the public output under ASan+UBSan",
    "design_ref": "DESIGN.md 4 C16",
}
