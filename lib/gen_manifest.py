#!/usr/bin/env python3
"""Regenerate MANIFEST.json from lib/checks.py (single source of truth)."""
import json, os, sys, subprocess
HERE = os.path.dirname(os.path.abspath(__file__))
sys.path.insert(0, HERE)
from checks import CHECKS, MANIFEST_TEXT, NOT_YET  # noqa
VERIF = os.path.dirname(HERE)

def repo_commits(prefix):
    out = subprocess.run(["git", "-C", "/repo", "log", "--format=%H %s"], capture_output=True, text=True).stdout
    return [l.split()[0] for l in out.splitlines() if l.split(" ", 1)[1].startswith(prefix)]

m = {
    "version": 1,
    "setup_cmd": "./vcheck setup",
    "hooks": {
        "guard": "MANIFOLD_VERIF",
        "enable": "vcheck compiles /repo/src/*.cpp and /repo/bindings/c/*.cpp directly with -DMANIFOLD_VERIF (all variants, see DESIGN.md 2.1)",
        "baseline_off_cmd": "./vcheck baseline-off",
        "source_commits": repo_commits("verif hook:"),
        "add_only": True,
    },
    "engines": [
        {"name": "vcheck", "path": "vcheck", "serves_properties": sorted(CHECKS),
         "kind_free_text": "driver: builds sanitizer/shim variants of /repo's working tree, runs seeded harness processes, attributes sanitizer deaths to journalled cases, matches known findings, writes evidence"},
    ],
    "checks": [],
    "not_applicable": [],
    "notes": "Runtime monitoring and sanitizers only. Every verdict is 'held on what was observed'. See DESIGN.md.",
}
REG = [l.strip() for l in open(os.path.join(HERE, "registered.txt")) if l.strip() and not l.startswith("#")]
m["engines"][0]["serves_properties"] = sorted(REG)
for pid in sorted(CHECKS):
    if pid not in REG:
        continue
    t = MANIFEST_TEXT[pid]
    m["checks"].append({
        "property_id": pid,
        "quick_cmd": "./vcheck run %s --tier quick" % pid,
        "thorough_cmd": "./vcheck run %s --tier thorough" % pid,
        "evidence_file": "evidence/%s.json" % pid,
        "replay_cmd_template": "./vcheck replay {path}",
        "engine": "vcheck",
        "level_claimed": {"category": CHECKS[pid]["level"], "text": t["text"], "design_ref": t["design_ref"]},
        "level_note": t["note"],
        "technique": t["technique"],
    })
for pid in sorted(NOT_YET):
    if pid not in REG:
        m["not_applicable"].append({"property_id": pid, "reason": NOT_YET[pid]})
json.dump(m, open(os.path.join(VERIF, "MANIFEST.json"), "w"), indent=1)
print("MANIFEST.json: %d checks, %d not_applicable" % (len(m["checks"]), len(m["not_applicable"])))
