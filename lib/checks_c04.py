_grp = {"seedgroup": "c04"}
def _p(**kw):
    d = dict(_grp); d.update(kw); return d
CHECK = {
    "id": "C04", "level": "exploration",
    "rule": ("case idx -> profile idx%13 (Boolean of curved solids, dense coplanar/duplicate geometry, BatchBoolean/Compose/Decompose, "
             "Refine/SmoothOut, Simplify/SetTolerance, normals/curvature/SetProperties, LevelSet, Hull, Minkowski, MeshGL import/Merge, "
             "CrossSection Booleans/Offset/Simplify/Hull + Triangulate + Extrude, Slice/Project/Split*, random DSL program) with seeded "
             "parameters and sizes above the 1e4/1e5 (stage huge: 1e6 halfedge) thresholds; the SAME program (shared seed group) runs in "
             "the serial build, under `schedules` adversarial shim schedules (virtual workers 1..16) and on real oneTBB in arenas of "
             "1,2,3,4,8,16 threads; all canonical hashes (every MeshGL64 field, original IDs by rank; Polygons; triangle lists) must be "
             "equal within a stage and across stages. distinct_nontrivial = distinct shim schedule decision traces + distinct "
             "(profile, case, arena size) executions."),
    "min_nontrivial": {"quick": 100, "thorough": 1000},
    # two seed groups (different programs and sizes): compare only within a group
    "cross_stage_equal": [["ser", "shim", "tbb"], ["serhuge", "shimhuge", "tbbhuge"]],
    "stages": [
        {"name": "ser", "variant": "ser", "harness": "c04_determinism.cpp",
         "cases": {"quick": 26, "thorough": 78}, "params": _p(scale=1, schedules=1), "case_timeout": 900},
        {"name": "shim", "variant": "shim", "harness": "c04_determinism.cpp",
         "cases": {"quick": 26, "thorough": 78}, "params": _p(scale=1, schedules={"quick": 5, "thorough": 24}), "case_timeout": 1800},
        {"name": "tbb", "variant": "tbb", "harness": "c04_determinism.cpp", "max_workers": 4,
         "cases": {"quick": 26, "thorough": 78}, "params": _p(scale=1, schedules={"quick": 4, "thorough": 10}), "case_timeout": 1800},
        {"name": "serhuge", "variant": "ser", "harness": "c04_determinism.cpp", "tiers": ["thorough"],
         "cases": 26, "params": {"seedgroup": "c04huge", "scale": 2, "schedules": 1}, "case_timeout": 1800},
        {"name": "shimhuge", "variant": "shim", "harness": "c04_determinism.cpp", "tiers": ["thorough"],
         "cases": 26, "params": {"seedgroup": "c04huge", "scale": 2, "schedules": 6}, "case_timeout": 3600},
        {"name": "tbbhuge", "variant": "tbb", "harness": "c04_determinism.cpp", "tiers": ["thorough"], "max_workers": 3,
         "cases": 26, "params": {"seedgroup": "c04huge", "scale": 2, "schedules": 6}, "case_timeout": 3600},
    ],
    "assumptions": ["the shim produces only legal oneTBB schedules (DESIGN.md 2.2)",
                    "all variants use the same compiler, -O2 and -ffp-contract=off, so bit differences can only come from execution order"],
}
TEXT = {
    "text": ("Held on the executions observed: each program's complete export is hashed in the serial build, under dozens of "
             "adversarial schedules of the instrumented TBB shim (chunks run in arbitrary order on 1..16 virtual workers, so AtomicAdd "
             "cursors, combinable merge order, heap ties and reduction shapes all vary) and on real oneTBB at six arena sizes; every hash "
             "must agree within and across builds. Programs are sized above every serial/parallel threshold."),
    "note": "Schedules are sampled. The shim runs chunks whole, so effects that need two chunks to interleave inside a chunk (data races) are only reachable in the real-TBB stage, without a race detector (real TBB is uninstrumented; see DESIGN.md 2.7).",
    "technique": "runtime monitoring: differential bit-hash oracle across serial build, adversarial scheduler shim and real TBB",
    "design_ref": "DESIGN.md 4 C04, 2.2",
}
