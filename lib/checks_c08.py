"""C08 - MeshGL export and re-import is lossless."""

CHECK = {
    "id": "C08",
    "level": "exploration",
    "rule": ("stage harvest: cases = seeded programs over the public API (common/dsl.h, all op families except Minkowski/LevelSet) "
             "enriched with the workloads the statement names (imports with per-face property seams and merge vectors, "
             "SmoothOut before and after Booleans/Compose, CalculateNormals, subtraction => back-side runs, instanced originals); "
             "EVERY value of the final pool is round-tripped: MeshGL64 and MeshGL export -> Manifold -> export compared as canonical "
             "triangle/tangent multisets, Refine before/after, merge-vector topology, Merge() after stripping, and (35% of values) "
             "OBJ in both writer modes at both API levels. stage obj: idx enumerates exponent -12..12 x 4 shapes; the shape is "
             "rotated/translated generically and scaled by 10^exponent, then OBJ-tripped in both modes. distinct_nontrivial = number "
             "of distinct (producing operation, single/multi-run, tangents, back-side, normals flag, property seams, properties, "
             "log16 triangle bucket) signatures among non-empty NoError values tripped, plus (exponent, shape) pairs of the obj stage."),
    "min_nontrivial": {"quick": 60, "thorough": 150},
    "exhaustive": {"quick": False, "thorough": False},
    "stages": [
        {"name": "harvest", "variant": "asan", "harness": "c08_roundtrip.cpp",
         "cases": {"quick": 160, "thorough": 3000},
         "params": {"steps": {"quick": 9, "thorough": 14}, "maxTris": {"quick": 1500, "thorough": 6000}},
         "case_timeout": 300},
        {"name": "obj", "variant": "asan", "harness": "c08_roundtrip.cpp",
         "cases": {"quick": 75, "thorough": 500},
         "case_timeout": 120},
    ],
    "assumptions": [
        "'same mesh up to renumbering' = equal sorted multisets of canonical triangles (corner = position bits + property bits, rotation-normalised, tagged with originalID, runTransform bits, runFlags, faceID); all face IDs of the exported mesh count as user supplied for the re-import",
        "channels flagged as normals are compared as directions (both sides normalised) within 8 ulp: the second export renormalises them",
        "'Refine gives the same surface' = same Status, triangle and vertex counts, volume/area within 1e-9 relative and vertex sets within 1e-9 x scale (not bitwise: vertex numbering may legitimately change the lerp direction)",
        "32-bit path: the float export is compared with its own re-export bit-for-bit (float -> double -> float is exact); positions of the float export are within 1 float ulp of the double export; the float export's tolerance must cover the largest rounding displacement actually applied",
        "Merge(): only exports whose distinct vertex positions are pairwise farther apart than twice the merge tolerance are used (closer vertices may legitimately be fused)",
        "Manifold::WriteOBJ/ReadOBJ is only exercised on values without property-split vertices (OBJ cannot carry merge vectors)",
        "g++ -fsanitize=address,undefined build of /repo's working tree, -DNDEBUG, MANIFOLD_PAR=-1",
    ],
}

TEXT = {
    "text": ("Held on the executions observed, except for the open known findings listed in the evidence: every value produced by seeded programs "
             "(multi-run Boolean results, instanced originals, back-side runs, property seams, CalculateNormals, tangents from SmoothOut "
             "before and after Booleans) was exported, re-imported and re-exported through MeshGL64 and MeshGL and compared field by "
             "field up to renumbering (positions, triangles, run IDs/transforms/flags, face IDs, corner properties, tangents per "
             "directed edge, Status, tolerance, Refine before/after), the exported merge vectors were checked to restore a closed "
             "manifold on their own, Merge() was checked to rebuild them after stripping, and the OBJ writer/reader was tripped in "
             "both writer modes over coordinates from 1e-12 to 1e12. Sampling, not proof."),
    "note": "Trusts the harness's canonicalisation and the topology checker of harness/common/oracles.h; programs and mesh sizes are bounded.",
    "technique": "runtime monitoring: differential round-trip oracle (canonical multisets of bits) on program-generated values under ASan+UBSan",
    "design_ref": "DESIGN.md 4 C08",
}
