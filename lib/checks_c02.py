"""C02 — Booleans compute the regularised set operation on the operand solids."""

CHECK = {
    "id": "C02",
    "level": "exploration",
    "rule": ("lattice-pairs: a case = a block of 16 ordered pairs (A,B) of integer boxes on [0,3]^3 (216 boxes), all three "
             "OpTypes each; quick = seeded sample of pairs, thorough = case idx k covers pairs 16k..16k+15 so that ALL "
             "46 656 ordered pairs x 3 ops are run (`exhaustive` refers to this sub-space only; counter "
             "lattice_pairs_enumerated must read 46656). lattice-progs: a case = one seeded eager CSG program "
             "(Boolean/BatchBoolean, <=6 Booleans) over boxes on [0,N]^3, N<=6, operands reused (whole copies) and "
             "endpoints biased to coincide; a result becomes an operand only if it passed the oracle. lattice-touch: "
             "cases 0..5 enumerate, for six fixed edge-touching (P,Q), X -/^ (P+Q) and X -/^ (Q+P) over every box X that "
             "touches one of them along an edge and shares volume with the other; every other case = 24 seeded programs "
             "X op (P+Q) / (P+Q) op X with P,Q touching along an edge or at a vertex. A wrong lattice result is shrunk "
             "(sub-expressions replaced by a child / by the box they denote, BatchBoolean unrolled, boxes shrunk, "
             "coordinates rank-compressed) and keyed by operation + class of the operand meshes of the shrunk failing "
             "step (box, solid, solid[redundant-verts], solid[nonmanifold-contact], solid[double-wall], flat-sheet) + "
             "set relation of the operand solids. general: a "
             "case = one pair of eps-valid-by-construction operands (Cube/Tetrahedron/Sphere/Cylinder/Hull/Extrude of "
             "a star-shaped polygon/Revolve, each under its own random rotation, optional scale/mirror/shear) => "
             "A+B, A-B, A^B, (reversed +,^ in half the cases), Split, SplitByPlane, TrimByPlane, with probability "
             "0.35 a BatchBoolean of 3..8 such operands and with probability 0.5 a chain of 1..2 further Booleans on a "
             "result that passed at all its samples (the other operand of a chained step is a fresh generic operand, or "
             "with probability 0.3 one of the two original operands again = coincident by ancestry, keyed "
             "`chained-with-ancestor`). distinct_nontrivial = distinct signatures among cases whose "
             "result was non-empty and whose oracle decided at least one point: lattice pairs (op, contact type of the "
             "pair, triangle bucket); lattice programs (N, op/operand-kind sequence); touch (op, side, contact types); "
             "general (operand kinds, op kind, reversed flag / batch size / chain parent kind)."),
    "min_nontrivial": {"quick": 150, "thorough": 600},
    "exhaustive": {"quick": False, "thorough": True},
    "stages": [
        # unions / differences of more than 1000 lattice operands in one batch (chunked BatchUnion, Compose of disjoint sets)
        {"name": "lattice-bigbatch", "variant": "asan", "harness": "c02_bigbatch.cpp",
         "cases": {"quick": 24, "thorough": 400}, "params": {"maxOperands": {"quick": 1300, "thorough": 1900}},
         "case_timeout": 900},
        {"name": "lattice-pairs", "variant": "asan", "harness": "c02_boolean.cpp",
         "cases": {"quick": 150, "thorough": 2916},
         "params": {"block": 16, "exhaustive": {"quick": 0, "thorough": 1}},
         "case_timeout": 300},
        {"name": "lattice-progs", "variant": "asan", "harness": "c02_boolean.cpp",
         "cases": {"quick": 1200, "thorough": 20000},
         "params": {"maxN": {"quick": 4, "thorough": 6}, "depth": 6},
         "case_timeout": 300},
        {"name": "lattice-touch", "variant": "asan", "harness": "c02_boolean.cpp",
         "cases": {"quick": 200, "thorough": 3000},
         "params": {"per": 24},
         "case_timeout": 300},
        {"name": "general", "variant": "asan", "harness": "c02_boolean.cpp",
         "cases": {"quick": 400, "thorough": 2500},
         "params": {"sharedTris": {"quick": 12, "thorough": 16}, "ownTris": {"quick": 12, "thorough": 16},
                    "strata": 4, "detail": {"quick": 1, "thorough": 3}},
         "case_timeout": 600},
        # parallel library (real TBB, MANIFOLD_PAR=1): operands of >= 1e4 triangles cross the autoPolicy thresholds
        {"name": "general-par", "variant": "tbb", "harness": "c02_boolean.cpp", "tiers": ("thorough",),
         "cases": {"quick": 0, "thorough": 150},
         "params": {"sharedTris": 10, "ownTris": 10, "strata": 3, "detail": 8, "pBatch": 0.2, "pChain": 0.3},
         "case_timeout": 1200},
    ],
    "assumptions": [
        "the solid-angle winding-number classifier and brute-force point-triangle distance in harness/common/oracles.h "
        "(long double) are correct; samples whose winding is not within 0.01 of an integer are skipped",
        "an operand point counts as inside when its rounded winding number is > 0; a RESULT must have winding exactly 1 "
        "where the set formula says inside and exactly 0 elsewhere (a result is a solid)",
        "guard band tau = result GetTolerance() (max over the results sharing a sample set) + 8 ulp x largest |coordinate|; "
        "every sample within tau of ANY input surface (or of the cutting plane) is skipped and counted",
        "lattice exactness: all triangles in integer axis-aligned planes (coordinates may be off their plane by at most the "
        "result's GetTolerance(), counted) + winding at every voxel centre and one "
        "quarter-offset point per voxel (with a one-voxel shell) + |Volume() - voxel count| <= 1e-9; vertices at "
        "non-integer positions inside a lattice plane do not change the solid and are only counted",
        "operands are eps-valid by construction (primitives, hulls, extrusions of star-shaped polygons, revolutions of "
        "polygons strictly right of the axis; every operand under its own random rotation => general position)",
        "g++ -O1 -fsanitize=address,undefined build of /repo's working tree, -DNDEBUG, MANIFOLD_PAR=-1",
    ],
}

TEXT = {
    "text": ("Held on the executions observed, except for the listed open findings: every Boolean / BatchBoolean / Split / "
             "SplitByPlane / TrimByPlane result on generated operands is exported and classified by an independent "
             "solid-angle winding-number oracle against the set formula on the exported operands (adversarial points at "
             "+-{2,10,100} tau off the operand and result surfaces plus stratified random points, guard band around both "
             "input surfaces), volumes are checked against inclusion-exclusion / commutativity within the bound the "
             "statement implies, and integer-lattice operands (all 46 656 ordered box pairs on [0,3]^3 x 3 ops at the "
             "thorough tier, plus seeded CSG programs) are compared EXACTLY with a voxel model. Sampling outside the "
             "enumerated lattice sub-space."),
    "note": ("Trusts the harness's winding-number/distance oracles and voxel model. General-position operands are "
             "sampled (<= ~1500 triangles per operand in the serial ASan build; PAR paths are not exercised here). Known "
             "wrong lattice results are listed in known_findings.d/C02.json keyed by their shrunk coincidence relation."),
    "technique": "runtime monitoring: generated workloads + independent geometric oracle (winding number, voxel model) under ASan+UBSan",
    "design_ref": "DESIGN.md 4 C02",
}
