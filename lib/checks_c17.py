"""C17 — constructors and transforms produce the solid their parameters define."""

CHECK = {
    "id": "C17",
    "level": "exploration",
    "rule": ("stage ctor: case idx%8 selects Cube / Sphere / Cylinder(x2) / Extrude(x2) / Revolve(x2, one in 64 is "
             "Tetrahedron) with seeded arguments (sizes 1e-3..1e3, centre flags, cones both ways, default and explicit "
             "segment counts, twist/scaleTop/nDivisions, partial angles, polygons right of / crossing / touching the axis, "
             "holes), about one in ten cases passes documented invalid arguments; 60-80 sample points per case, a third "
             "of them placed 1e-6..1e-1 (relative) beyond either edge of the faceting band. stage levelset: min/max "
             "combinations of exact sphere/box SDFs (30% scaled by a Lipschitz factor), levels, clipping and enclosing "
             "bounds, with and without tolerance. stage xform: case idx%8 selects Translate / Rotate / Rotate by "
             "multiples of 90 / Scale (with negative components) / Mirror / Transform / affine Warp / nonlinear Warp on "
             "a constructed base solid, 35% of the cases chain 2-3 operations. stage quality: case idx%6 selects which "
             "of SetMinCircularAngle / SetMinCircularEdgeLength / SetCircularSegments / ResetToDefaults are exercised, "
             "then GetCircularSegments and the default segment count of Cylinder / Sphere / Revolve are compared with "
             "the documented model. distinct_nontrivial counts distinct signatures (constructor, argument classes such "
             "as centre flag / cone kind / twist / scale kind / placement / segment bucket; transform kind x base kind x "
             "reflection; quality setting combination x constructor x segment bucket) of cases in which at least 5 "
             "points were decided on each side of the band (3 inside for Revolve/LevelSet, 20 in total for transforms)."),
    "min_nontrivial": {"quick": 150, "thorough": 300},
    "exhaustive": {"quick": False, "thorough": False},
    "stages": [
        {"name": "ctor", "variant": "asan", "harness": "c17_constructors.cpp",
         "cases": {"quick": 2400, "thorough": 20000}, "params": {"mode": "ctor"}, "case_timeout": 120},
        {"name": "levelset", "variant": "asan", "harness": "c17_constructors.cpp",
         "cases": {"quick": 48, "thorough": 320}, "params": {"mode": "levelset"}, "case_timeout": 300},
        {"name": "xform", "variant": "asan", "harness": "c17_constructors.cpp",
         "cases": {"quick": 800, "thorough": 8000}, "params": {"mode": "xform"}, "case_timeout": 120},
        {"name": "quality", "variant": "asan", "harness": "c17_constructors.cpp",
         "cases": {"quick": 600, "thorough": 4000}, "params": {"mode": "quality"}, "case_timeout": 120},
    ],
    "assumptions": [
        "faceting bands as derived in the header of harness/c17_constructors.cpp: Cube/Tetrahedron exact; Sphere inside "
        "R*(1-1.5*(pi/N)^2) for N>=8 segments (in-radius deficit measured <= 1.3624*(pi/N)^2 for every n<=64 on the "
        "unchanged tree; the design's cos^2(pi/N) is too tight and is not used) and R/sqrt(3) for the octahedron; "
        "Cylinder/cone: regular n-gon section, r(z)*cos(pi/n); Extrude: chord/diagonal bound delta (0 for untwisted "
        "uniformly scaled extrusions); Revolve: radial factor in [cos(dphi/2),1]; LevelSet: L*(tetDiam+0.75*|spacing|)",
        "only documented invalid arguments are claimed to give InvalidConstruction: Cube with a negative or all-zero "
        "size, Cylinder with radiusLow<0 or radiusLow==0 and radiusHigh<=0, Sphere with radius<=0; arguments the code "
        "rejects without documenting it (height<=0, empty cross-section, nothing right of the revolve axis) are only "
        "observed (undocumented_* counters)",
        "Quality model: segments = min(360/minAngle, 2*pi*r/minLength) rounded up to a multiple of four, at least 4, "
        "with either truncation-then-round-up (the code) or plain round-up accepted; SetCircularSegments(k>=3) forces "
        "exactly k; Sphere rounds its count up to a multiple of four (documented 'always rounded up'); a partial "
        "Revolve with default segments uses at least one division",
        "Warp never re-orients triangles (documented as unchecked): orientation-reversing warp functions are only "
        "observed (observed_reflecting_warp_* counters: the result is inside-out), affine Warps used for verdicts "
        "have positive determinant",
        "a Revolve whose profile touches the axis with a single vertex has odd Euler characteristic (pinched "
        "surface); that is C01's clause and is counted here, not judged (odd_euler_characteristic_observed_*)",
        "Warp with a nonlinear function: only the documented vertex map is checked (vertex set bit-equal to f(vertices), "
        "triangle count unchanged); affine Warp is treated like Transform",
        "points decide only if the winding number is within 0.01 of an integer; rounding band tau = 1e-9*extent; "
        "transform samples must be farther than 1e-7*extent from both surfaces",
        "g++ -fsanitize=address,undefined build of the tree, -DNDEBUG, MANIFOLD_PAR=-1 (serial)",
    ],
}

TEXT = {
    "text": ("Held on the executions observed, except for the open findings in known_findings.d/C17.json. Sample points "
             "are classified against the exported mesh by an independent winding-number oracle and compared with the "
             "analytic membership predicate of each constructor outside an explicit, derived faceting band; documented "
             "invalid arguments must give InvalidConstruction; segment counts are read off the mesh (ring vertex counts). "
             "Transforms are checked by classifying p in T(M) against the preimage in M, by |det| volume scaling, positive "
             "signed volume under reflections, bit-exact signed permutation for multiples of 90 degrees and bit-exact "
             "vertex images for Warp. Quality settings are compared with the documented model and restored after every "
             "case. Sampling, not proof."),
    "note": ("Trusts the harness's winding-number oracle (long double), the band derivations stated in the harness "
             "header (the Sphere band constant 1.5 is calibrated against a measurement on the unchanged tree for "
             "n<=64), and g++'s sanitizers. LevelSet grids are small (<= ~40^3) because of the ASan build."),
    "technique": "runtime monitoring: parameter sweeps with analytic oracles on the public output under ASan+UBSan",
    "design_ref": "DESIGN.md 4 C17",
}
