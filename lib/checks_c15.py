CHECK = {
    "id": "C15", "level": "fault_enumeration",
    "rule": ("case = one context-observed workload (deferred tree with a shared sub-expression / BatchBoolean via Status(), Refine, "
             "RefineToLength, RefineToTolerance, Hull, MinkowskiSum/Difference x convexity, FromMeshGL 32/64, Smooth, LevelSet) on "
             "seeded operands. Run 0 counts the N cancellation checks made through the context (hook H1) and records the reference "
             "hash and the Progress() trace; then Cancel() is injected AT the k-th check for every k<=N (all k when N<=maxPoints, "
             "else the first maxPoints/2, the last 20 and seeded others). distinct_nontrivial = distinct (entry point, size class) "
             "signatures plus distinct call sites (function containing the check) at which a cancel was injected."),
    "min_nontrivial": {"quick": 25, "thorough": 40},
    "stages": [
        {"name": "serial", "variant": "asan", "harness": "c15_cancel.cpp", "cxxflags": ["-rdynamic"],
         "cases": {"quick": 96, "thorough": 800},
         "params": {"maxPoints": {"quick": 160, "thorough": 300}},
         "case_timeout": 600},
        {"name": "shim", "variant": "shim", "harness": "c15_cancel.cpp", "cxxflags": ["-rdynamic"],
         "cases": {"quick": 64, "thorough": 500},
         "params": {"maxPoints": {"quick": 160, "thorough": 300}, "big": "1"},
         "case_timeout": 900},
    ],
    "assumptions": ["hook H1 calls the probe at every IsCancelled(ctx) with non-null ctx; Cancel() from inside the probe takes effect at that very check",
                    "evaluation is deterministic for a fixed schedule seed, so the k-th check of run k is the k-th check of run 0 (verified: a mismatch is reported)"],
}
TEXT = {
    "text": ("Fault enumeration: for every workload the monitor counts the cancellation checks of an uncancelled run and then re-runs "
             "the workload once per check index with Cancel() injected exactly there (through the public Cancel()), comparing the "
             "outcome by canonical mesh hash with all-or-nothing semantics, re-observing operands, a sibling expression sharing the "
             "possibly poisoned sub-node under a fresh context, later evaluations through the cancelled context, and a rebuild with "
             "a fresh context; Progress() is sampled at every check for monotonicity/range/final value. Serial (ASan+UBSan) and the "
             "adversarial TBB shim (chunk-level checks). Every site reached is enumerated; sites never reached by the workloads are not."),
    "note": "Enumerates check indices of the generated workloads, not all programs; real-thread cancellation timing between checks is equivalent to a cancel at the next check and is covered by that.",
    "technique": "runtime monitoring with fault injection at a hook: cancel at the k-th cancellation check for every k, differential oracle against the uncancelled run",
    "design_ref": "DESIGN.md 4 C15, 3 H1",
}
