"""Check specifications: stages (variant, harness, case counts per tier, params)."""

CHECKS = {}

CHECKS["C01"] = {
    "id": "C01",
    "level": "exploration",
    "rule": ("cases = seeded programs (<=12 steps quick, <=24 thorough) over the public Manifold API from "
             "common/dsl.h (all regimes incl. coincident/near-degenerate/eps-invalid); every value produced by "
             "every step is observed. distinct_nontrivial = number of distinct (operation kind, producing "
             "operation of its first operand, log4 triangle-count bucket) signatures among observed values "
             "that are non-empty with Status NoError."),
    "min_nontrivial": {"quick": 60, "thorough": 150},
    "stages": [
        {"name": "mixed", "variant": "asan", "harness": "c01_topology.cpp",
         "cases": {"quick": 480, "thorough": 5000},
         "params": {"steps": {"quick": 12, "thorough": 24}, "maxTris": {"quick": 3000, "thorough": 12000}},
         "case_timeout": 300},
        {"name": "smooth", "variant": "asan", "harness": "c01_topology.cpp",
         "cases": {"quick": 240, "thorough": 2500},
         "params": {"profile": "smooth", "steps": {"quick": 10, "thorough": 16},
                    "maxTris": {"quick": 2000, "thorough": 8000}},
         "case_timeout": 300},
        {"name": "touch", "variant": "asan", "harness": "c01_topology.cpp",
         "cases": {"quick": 1200, "thorough": 12000},
         "params": {"profile": "touch", "steps": {"quick": 4, "thorough": 6}, "maxTris": 3000},
         "case_timeout": 300},
    ],
    "assumptions": ["the topology checker in harness/common/oracles.h implements the clauses of C01 literally",
                    "g++ -fsanitize=address,undefined build of /repo's working tree, -DNDEBUG, MANIFOLD_PAR=-1"],
}

# ---------------------------------------------------------------------------
# Texts for MANIFEST.json (lib/gen_manifest.py)
MANIFEST_TEXT = {}
NOT_YET = {("C%02d" % i): "check not built yet in this round (planned, see DESIGN.md section 4); not claimed until its monitor is silent on the unchanged tree"
           for i in range(1, 21)}

MANIFEST_TEXT["C01"] = {
    "text": ("Held on the executions observed: an independent topology checker (directed-edge multiset, merge-vector union-find, "
             "index/finite/referenced checks, V/E/F/genus recount) runs on the export of EVERY value produced by every step of "
             "seeded programs over the whole public API, in an ASan+UBSan build, including coincident, near-degenerate and "
             "eps-invalid operands, the Boolean->Smooth->RefineTo* chains, and imports of touching (even-manifold) inputs: wedges "
             "sharing an edge / cones sharing an apex with high-valence fans in shuffled triangle order. Sampling, not proof."),
    "note": "Trusts the harness's topology checker and g++'s sanitizers; programs are sampled (bounded length and mesh size). All stages use the serial backend: the PAR-only code paths (partitioned CreateHalfedges, parallel CleanupTopology) are exercised by C04's programs under the shim and real TBB, where a topology change would show as a hash difference against the serial build, not by this check.",
    "technique": "runtime monitoring: program-fuzzing with an invariant oracle on public output under ASan+UBSan",
    "design_ref": "DESIGN.md 4 C01",
}

# ---------------------------------------------------------------------------
# per-property modules lib/checks_cNN.py define CHECK (spec) and TEXT (manifest text)
import glob as _glob, importlib as _importlib, os as _os
for _f in sorted(_glob.glob(_os.path.join(_os.path.dirname(_os.path.abspath(__file__)), "checks_c*.py"))):
    _m = _importlib.import_module(_os.path.basename(_f)[:-3])
    CHECKS[_m.CHECK["id"]] = _m.CHECK
    MANIFEST_TEXT[_m.CHECK["id"]] = _m.TEXT
