"""C09 — malformed input gives an error Status, never undefined behaviour."""

# Labels (site heads, the part before '/') whose mutants are known to crash the
# pinned tree (see known_findings.d/C09.json). They are still generated, but
# deferred to the end of their case and executed in only a fraction of cases so
# that the driver's per-worker crash cap is not reached. Empty it when /repo
# has the fixes.
HOT = []

CHECK = {
    "id": "C09",
    "level": "exploration",
    "rule": ("one case = N structure-aware mutants (mesh stage: one mutation kind, 15% a second one, applied to a valid "
             "MeshGL64/MeshGL export and fed to one of 10 entry variants; poly stage: polygon-set / point-set / OBJ-text "
             "mutants; args stage: one op with 1-2 arguments replaced by a special value). distinct_nontrivial = number of "
             "distinct (site label, outcome) pairs for which the library call returned and an oracle decided: rejected "
             "(Status != NoError, emptiness + stickiness program run) or accepted (export passed the topology check)."),
    "min_nontrivial": {"quick": 400, "thorough": 1500},
    "exhaustive": {"quick": False, "thorough": False},
    "stages": [
        {"name": "mesh", "variant": "asan", "harness": "c09_malformed.cpp",
         "cases": {"quick": 400, "thorough": 14000},
         "params": {"mode": "mesh", "mutants": 40, "hot": ",".join(HOT), "hotPerCase": {"quick": 0.3, "thorough": 0.02}},
         "case_timeout": 60},
        {"name": "poly", "variant": "asan", "harness": "c09_malformed.cpp",
         "cases": {"quick": 160, "thorough": 5000},
         "params": {"mode": "poly", "mutants": 40, "hot": ",".join(HOT), "hotPerCase": {"quick": 0.3, "thorough": 0.02}},
         "case_timeout": 60},
        {"name": "args", "variant": "asan", "harness": "c09_malformed.cpp",
         "cases": {"quick": 200, "thorough": 6000},
         "params": {"mode": "args", "mutants": 40, "hot": ",".join(HOT), "hotPerCase": {"quick": 0.3, "thorough": 0.02}},
         "case_timeout": 60},
    ],
    "assumptions": [
        "g++ -O1 -fsanitize=address,undefined -fno-sanitize-recover=all build of /repo's working tree, -DNDEBUG, MANIFOLD_PAR=-1",
        "termination is decided by the driver's watchdog (60 s without journal progress, retried alone with 600 s)",
        "arguments that are valid but merely too large (segments > 64..4096, Refine n > 12, edge lengths implying > 3e4 cells, numProp > 2e5) are counted as resource_bound_not_executed and excluded",
    ],
}

TEXT = {
    "text": "placeholder",
    "note": "placeholder",
    "technique": "runtime monitoring: structure-aware mutation fuzzing under ASan+UBSan with status-stickiness and usable-result oracles",
    "design_ref": "DESIGN.md 4 C09",
}
