"""C09 — malformed input gives an error Status, never undefined behaviour."""

# Labels whose mutants are known to break the pinned tree (see
# known_findings.d/C09.json: R1..R22). They are still generated, but never
# stacked with a second mutation, deferred to the end of their case and executed
# in only a fraction of the cases (param hotPerCase), so that the driver's
# per-worker crash cap is not reached and a known crash costs no other mutant.
# Forms: "<family>:<head>" or "<family>:<head>/<kind>" (prefix of the site label
# at a '/'), "*/<variant>" (suffix). Set C09_HOT= (empty) or delete entries once
# /repo has the fixes: nothing else needs to change.
import os as _os
_HOT_DEFAULT = [
    # mesh stage
    "*/merge32", "*/merge64", "mesh:triVerts-index/tv-idx-rand-valid", "mesh:numProp/numProp-0", "mesh:runIndex", "mesh:tangent-length", "mesh:triVerts-length",
    "mesh:tolerance/tol-nan", "mesh:tolerance/tol-inf", "mesh:position/pos-huge", "mesh:merge/merge-rand-valid",
    "mesh:merge/merge-all-to-one", "mesh:merge/merge-cycle",
    # poly stage
    "poly:empty-ring", "poly:all-rings-empty", "poly:ring-1pt", "poly:only-1pt", "poly:ring-2pt", "poly:only-2pt",
    "poly:nan-pt", "poly:all-nan", "poly:inf-pt", "poly:huge", "poly:spike", "poly:dup-all", "poly:dup-consecutive",
    "poly:on-axis", "poly:denormal", "obj:idx-overflow-int",
    # args stage
    "arg:SmoothByNormals.normalIdx", "arg:SmoothByNormals.all", "arg:RefineToLength.length", "arg:RefineToTolerance.tolerance",
    "arg:SetProperties.numProp", "arg:SetProperties.out", "arg:LevelSet.edgeLength", "arg:LevelSet.min.x", "arg:LevelSet.max.x",
    "arg:LevelSet.min.z", "arg:LevelSet.level", "arg:LevelSet.tolerance", "arg:CS.Warp.out", "arg:CS.Offset.delta",
    "arg:Extrude.twist", "arg:Extrude.height", "arg:Extrude.nDivisions", "arg:Extrude.scaleTopX", "arg:Extrude.scaleTopY",
    "arg:Cylinder.radiusHigh", "arg:Cylinder.radiusLow", "arg:Cylinder.height", "arg:CS.Square.x", "arg:CS.Square.y",
    "arg:Revolve.degrees", "pts:nan", "arg:SmoothOut.minSmoothness", "arg:SmoothOut.minSharpAngle", "arg:SetTolerance.tolerance", "arg:Simplify.tolerance",
]
# The defects behind the HOT list are fixed in /repo (see known_findings.json), so the throttle is
# off by default; C09_HOT=<labels> re-enables it (e.g. when checking an older tree).
HOT = [h for h in _os.environ.get("C09_HOT", "").split(",") if h]

CHECK = {
    "id": "C09",
    "level": "exploration",
    "rule": ("one case = N structure-aware mutants (mesh stage: one mutation kind, 15% a second one, applied to a valid "
             "MeshGL64/MeshGL export and fed to one of 10 entry variants; poly stage: polygon-set / point-set / OBJ-text "
             "mutants; args stage: one op with 1-2 arguments replaced by a special value). distinct_nontrivial = number of "
             "distinct (site label, outcome) pairs for which the library call returned and an oracle decided: rejected "
             "(Status != NoError, emptiness + stickiness program run) or accepted (export passed the topology check)."),
    "min_nontrivial": {"quick": 400, "thorough": 1500},
    "exhaustive": {"quick": False, "thorough": False},
    "stages": [
        {"name": "mesh", "variant": "asan", "harness": "c09_malformed.cpp",
         "cases": {"quick": 400, "thorough": 1400},
         "params": {"mode": "mesh", "mutants": 40, "hot": ",".join(HOT), "hotPerCase": {"quick": 0.12, "thorough": 0.05}},
         "case_timeout": 180},
        {"name": "poly", "variant": "asan", "harness": "c09_malformed.cpp",
         "cases": {"quick": 160, "thorough": 500},
         "params": {"mode": "poly", "mutants": 40, "hot": ",".join(HOT), "hotPerCase": {"quick": 0.12, "thorough": 0.05}},
         "case_timeout": 180},
        {"name": "args", "variant": "asan", "harness": "c09_malformed.cpp",
         "cases": {"quick": 200, "thorough": 600},
         "params": {"mode": "args", "mutants": 40, "hot": ",".join(HOT), "hotPerCase": {"quick": 0.12, "thorough": 0.05}},
         "case_timeout": 180},
    ],
    "assumptions": [
        "g++ -O1 -fsanitize=address,undefined -fno-sanitize-recover=all build of /repo's working tree, -DNDEBUG, MANIFOLD_PAR=-1",
        "termination is decided by the driver's watchdog (180 s without journal progress, retried alone with 1800 s)",
        "arguments that are valid but merely too large (segments > 64..4096, Refine n > 12, edge lengths implying > 3e4 cells, numProp or property index > 2000) are counted as resource_bound_not_executed and excluded",
    ],
}

TEXT = {
    "text": ("Held on the executions observed, EXCEPT for the open findings listed in known_findings.d/C09.json (R1..R22: the "
             "pinned tree reads/writes out of bounds, divides by zero, overflows or throws on 20+ classes of malformed "
             "input; every class has a standalone reproducer and a proposed validate-and-return-Error patch, and with "
             "those patches applied 12 000 mutants ran clean). Monitors: ASan+UBSan, catch-all for escaping exceptions, "
             "watchdog for non-termination; every rejected value (Status != NoError) is checked to be empty and is fed to "
             "a random program over every Manifold-returning method, whose results must all keep a non-NoError Status "
             "(stickiness); every accepted value is exported and must pass the independent closed-2-manifold/finite "
             "check. Workload: structure-aware mutants of valid MeshGL64/MeshGL exports (lengths, indices, numProp, run "
             "tables in every length combination, flags, tangents, merge vectors, non-finite/extreme values, bit flips) "
             "through the constructors, ExecutionContext::FromMeshGL/Smooth, Manifold::Smooth and Merge(); polygon sets, "
             "point sets and OBJ text; one or two special values (neg, 0, -0, denormal, NaN, +-Inf, DBL_MAX, INT_MIN/MAX) in "
             "every numeric argument of 44 operations. Sampling, not proof."),
    "note": ("Trusts g++'s sanitizers and the harness oracles. Uninitialised reads are only seen when they lead to a crash "
             "(no MSan). Termination = 180 s watchdog. Valid-but-huge requests are counted as resource_bound and not run. "
             "While the findings are open their mutation kinds are throttled (param hot) and witnessed as KNOWN-FINDING; "
             "C bindings are C20's. No libFuzzer stage (would need driver support for a second main)."),
    "technique": "runtime monitoring: structure-aware mutation fuzzing under ASan+UBSan with status-stickiness and usable-result oracles",
    "design_ref": "DESIGN.md 4 C09",
}
