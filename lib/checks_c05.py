CHECK = {
    "id": "C05", "level": "exploration",
    "rule": ("case = one history: a seeded program (25 steps quick, 50 thorough) over a growing pool of live Manifolds (whole public API via "
             "common/dsl.h) or CrossSections; every object starts being observed at a seeded delay (possibly after objects were derived "
             "from it while it was lazy); after EVERY later step every observed object is re-observed getter by getter, in random order "
             "(GetMeshGL64 hash of all fields, NumVert/Edge/Tri/Prop/PropVert, BoundingBox, GetTolerance, Status, OriginalID, IsEmpty, Genus, "
             "GetEpsilon; ToPolygons, Area, NumVert, NumContour, Bounds, GetTolerance, IsEmpty) and compared bit-for-bit with its first "
             "observation; copies/assignments are compared with their originals. distinct_nontrivial = distinct (operation kind of the step, "
             "pool-size bucket) signatures after which re-observation happened."),
    "min_nontrivial": {"quick": 60, "thorough": 120},
    "stages": [
        {"name": "manifold", "variant": "asan", "harness": "c05_values.cpp",
         "cases": {"quick": 320, "thorough": 2000},
         "params": {"steps": {"quick": 25, "thorough": 50}, "maxTris": {"quick": 1500, "thorough": 6000}}, "case_timeout": 600},
        {"name": "cross", "variant": "asan", "harness": "c05_values.cpp",
         "cases": {"quick": 480, "thorough": 3000},
         "params": {"mode": "cross", "steps": {"quick": 25, "thorough": 50}}, "case_timeout": 600},
    ],
    "assumptions": ["observations are compared by a 128-bit hash of the raw bytes of every exported field"],
}
TEXT = {
    "text": ("Held on the histories observed: a monitor shadows every live object of a generated history and re-observes all of them "
             "after every step through every public getter (individually, in random order, first observation deliberately delayed so that "
             "lazy evaluation, cached transforms and copy-on-write buffers are exercised while shared), demanding bit-identity with the "
             "first observation and between copies and originals; runs under ASan+UBSan so a write through a shared, later freed buffer also trips."),
    "note": "Histories are sampled (bounded length/mesh size). Hash collisions (128 bit) are ignored.",
    "technique": "runtime monitoring: history monitor with shadow state, bit-identity oracle on repeated observations, ASan+UBSan",
    "design_ref": "DESIGN.md 4 C05",
}
