#!/usr/bin/env python3
"""Regenerate DESIGN.md section 9.4 (seeded changes and which checks catch them) from seeded/*/meta.json."""
import json, glob, os, re
rows = []
for d in sorted(glob.glob('/verif/seeded/*/')):
    mp = d + 'meta.json'
    if not os.path.exists(mp):
        continue
    try:
        m = json.load(open(mp))
    except ValueError:
        continue
    name = os.path.basename(d.rstrip('/'))
    conf = m.get("confirmed_by_lead", {})
    checks = conf.get("verif_checks", {})
    def short(x, n):
        x = re.sub(r"\s+", " ", str(x or "")).replace("|", "/")
        return x[:n] + ("…" if len(x) > n else "")
    caught = ", ".join("%s %s" % (c, "**caught**" if v.get("caught") else "missed") for c, v in sorted(checks.items())) or "(confirmation pending)"
    keys = "; ".join(k for c, v in sorted(checks.items()) if v.get("caught") for k in v.get("violation_keys", [])[:2])
    rows.append("| `%s` | %s | %s | %s | %s |" % (name, short(m.get("summary"), 230), short(m.get("needs_to_manifest"), 260),
                                              "tests " + short(conf.get("repo_test_suite"), 40) + "; demo changed: " + short(conf.get("demo_on_changed_tree"), 30) + " / unchanged: " + short(conf.get("demo_on_unchanged_tree"), 30),
                                              caught + (" — " + short(keys, 200) if keys else "")))
txt = """
### 9.4 Seeded breaking changes (independent sub-agents) and which checks catch them

Each change was written by a fresh sub-agent that saw only the property text
and its own scratch worktree (nothing from /verif). Each was confirmed in a
scratch worktree by the lead: patch applies, the repository's 552 tests pass,
the agent's demonstration fails with the change and passes without it, then the
relevant check(s) were run with `VERIF_REPO=<worktree> ./vcheck run <id> --tier quick`.
Details per change: `seeded/<name>/{patch.diff, demo.cpp, build.sh, meta.json, confirm.log}`.

| change | what was changed | needs, to manifest | confirmation | checks |
|---|---|---|---|---|
""" + "\n".join(rows) + "\n"
manual = open('/verif/lib/seeded_manual.md').read() if os.path.exists('/verif/lib/seeded_manual.md') else ""
txt += manual
p = '/verif/DESIGN.md'
s = open(p).read()
if "### 9.4 Seeded breaking changes" in s:
    a = s.index("### 9.4 Seeded breaking changes")
    s = s[:a - 1] + txt
else:
    s += txt
open(p, 'w').write(s)
print("rows", len(rows))
