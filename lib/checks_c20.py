"""C20 — the C binding is a faithful, memory-safe image of the C++ API (DESIGN.md 4 C20)."""

# LeakSanitizer is switched on for this check only. The driver replaces the
# whole ASAN_OPTIONS string of a stage that sets it, so the defaults are
# repeated here. The harness leaves through _exit(0) (vh.h), so the at-exit
# leak pass never runs; it calls __lsan_do_recoverable_leak_check() after
# every case instead and reports `lsan:leak:<function>` itself.
# quarantine_size_mb=16 (default 256): page faults are very expensive on this
# VM and a 256 MB quarantine makes every allocation touch fresh pages; 16 MB
# still holds every object freed within one program (objects here are small),
# so use-after-free within a case is still caught.
_ASAN = ("abort_on_error=0:detect_leaks=1:leak_check_at_exit=0:allocator_may_return_null=1:"
         "max_allocation_size_mb=4096:exitcode=97:handle_abort=1:"
         "detect_stack_use_after_return=0:malloc_context_size=12:quarantine_size_mb=16")

CHECK = {
    "id": "C20",
    "level": "exploration",
    "rule": ("mirror stage: one case = one generated program of C API calls: every entry of the mirror table "
             "(122 entries covering all 298 functions declared in manifoldc.h) once in a seeded order plus `extra` "
             "random entries, over growing pools of twin values (C twin built only through manifoldc.h, C++ twin by "
             "the C++ call the C function names, same generated arguments). After every step the twins are compared: "
             "meshes field by field through the C accessors into exact-size heap buffers (runOriginalID by dense rank "
             "for exported meshes, exactly for caller-supplied IDs), scalars bit-equal, polygons point by point, enums "
             "through tables written from the header names. Every C object lives in alloc_X / exact malloc(X_size) / "
             "canary-framed storage and is deleted or destructed exactly once; LeakSanitizer runs after every case. "
             "distinct_nontrivial = number of distinct (C function, outcome class) signatures, outcome class in "
             "{nonempty, empty, err-<Status>, hit/miss, ...}, registered only when the comparison with the C++ twin "
             "was decided. emptyacc stage: one array accessor per case on an empty array (known UBSan finding)."),
    "min_nontrivial": {"quick": 200, "thorough": 250},
    "exhaustive": {"quick": False, "thorough": False},
    "stages": [
        {"name": "mirror", "variant": "asan", "harness": "c20_cbind.cpp",
         "cases": {"quick": 224, "thorough": 1600},
         "params": {"extra": {"quick": 40, "thorough": 60}},
         "env": {"ASAN_OPTIONS": _ASAN},
         "case_timeout": 300},
        {"name": "emptyacc", "variant": "asan", "harness": "c20_cbind.cpp",
         "cases": {"quick": 21, "thorough": 21},
         "env": {"ASAN_OPTIONS": _ASAN},
         "max_workers": 7, "max_crashes": 30,
         "case_timeout": 60},
    ],
    "assumptions": [
        "the C++ API is the reference: the check decides equality of the C result with the C++ result, not correctness of either",
        "original IDs of a C twin and its C++ twin differ by construction; they are compared by dense rank, which is exact because within a step all C-side work precedes all C++-side work (order-isomorphic ID assignment)",
        "LeakSanitizer has no false positives but can miss a leak whose address is still in a dead stack slot or register at the time of the check; checks run after every case and once more at worker end",
        "array accessors are called only for non-empty arrays in the mirror stage (the empty case is the emptyacc stage)",
        "inputs stay inside the domain where the C++ call itself is defined (no out-of-range normalIdx / halfedge indices, no malformed run tables beyond a wrong runIndex length): out-of-domain inputs are C09's subject",
        "the smoothing/refine wrappers (smooth_out, smooth_by_normals, refine*, smooth*/ec_smooth*) only receive primitives, non-degenerate affine images of primitives and caller-built primitive meshes, and the Quality segment count is 0 or >= 4: three crashes of the CORE library on other geometry (SmoothOut of a partial Revolve, RefineToTolerance of a zero-thickness solid, Sphere(r,0) with 1..3 global segments) reproduce in pure C++ and are not the binding's",
        "g++ -O1 -fsanitize=address,undefined build of /repo's working tree incl. bindings/c, -DNDEBUG, MANIFOLD_PAR=-1",
    ],
}

TEXT = {
    "text": ("Held on the executions observed: every function declared in manifoldc.h (the set is recomputed from the header "
             "and cross-checked with nm on the linked archive at every run; a function the table does not reach makes the run "
             "inconclusive and is named) is executed next to the C++ call it names on the same generated arguments, in generated "
             "programs of a few hundred calls, and the results are compared bit for bit; objects are placement-constructed into "
             "storage of exactly manifold_*_size() bytes (ASan red zones, explicit canaries, two-object aggregates for the "
             "pair-returning functions), ended exactly once, with LeakSanitizer after every program; callbacks assert the "
             "context pointer and use argument-order-sensitive functions. Sampling, not proof."),
    "note": ("Trusts g++'s ASan/UBSan/LSan, the harness's own enum tables (written from the header names) and the C++ API as the "
             "reference. Opaque handles are never cast by the harness. Error codes unreachable through the C API "
             "(TransformWrongLength, FaceIDWrongLength, ResultTooLarge, ...) are covered only by the white-box table test of "
             "conv.cpp's converters. One open finding: array accessors on empty arrays call memcpy(dst, NULL, 0)."),
    "technique": "runtime monitoring: differential (twin) execution of generated API programs under ASan+UBSan+LSan with canary-framed storage",
    "design_ref": "DESIGN.md 4 C20",
}
