"""C14 — spatial indices report exactly the overlapping pairs."""

# vcheck's SAN_ENV with allocator tuning only (default quarantine + release-to-OS
# makes the many small Collider allocations page-fault bound on a loaded machine)
_ASAN = ("abort_on_error=0:detect_leaks=0:allocator_may_return_null=1:max_allocation_size_mb=4096:exitcode=97:"
         "handle_abort=1:detect_stack_use_after_return=0:malloc_context_size=4:quarantine_size_mb=16:"
         "allocator_release_to_os_interval_ms=-1")

CHECK = {
    "id": "C14",
    "level": "exploration",
    "rule": ("stage exh: case = one block of the finite space {axis x,y,z} x {n=2..5 leaves} x {sorted Morton multisets over "
             "code values 0..3} x {each leaf one of the 10 closed intervals on {0,1,2,3} along the axis, other axes [0,0]}; "
             "every collider answers all 10 interval queries, 7 point queries and the self-collision query, then the 10 "
             "interval queries again after a mirror Transform, after UpdateBoxes (boxes rotated by one leaf) and on an "
             "untouched copy; thorough enumerates every block (exh_configs_enumerated == exh_configs_total), quick a "
             "strided 5% sample. stages collider/par-collider: case = one random leaf set (coordinate style x Morton style, "
             "codes stable-sorted as sort.cpp does) queried with boxes, points and the self-collision flag after "
             "construction, 1-3 rounds of axis-aligned Transform / UpdateBoxes, and on an untouched copy. stage bvh2d: "
             "BVHBuildFromBoxes+BVHCollisions+CollidePairs on random Box2 sets, and CollectIntersectionPairs (sweep path "
             "and BVH path on the same edges). stage tree2d: BuildTwoDTree+QueryTwoDTree. Oracle everywhere: all-pairs "
             "scan with the harness's own closed-interval tests, sorted multiset equality (missing/extra/duplicate). "
             "distinct_nontrivial = distinct signatures (exh: block id; collider: coord style, Morton style, log2 n, log2 "
             "distinct codes; bvh2d: box style, edge style, log2 size, eps>0, any overlap; tree2d: style, log2 n, hit "
             "density) over cases in which the brute-force scan found at least one overlapping pair and every comparison "
             "matched."),
    "min_nontrivial": {"quick": 600, "thorough": 18000},
    "exhaustive": {"quick": False, "thorough": True},
    "stages": [
        {"name": "exh", "variant": "asan", "harness": "c14_spatial.cpp",
         "cases": {"quick": 900, "thorough": 17940},
         "params": {"mode": "exh"}, "env": {"ASAN_OPTIONS": _ASAN}, "case_timeout": 300},
        {"name": "collider", "variant": "asan", "harness": "c14_spatial.cpp",
         "cases": {"quick": 2000, "thorough": 5000},
         "params": {"mode": "collider", "maxLeaves": {"quick": 3000, "thorough": 100000},
                    "pairBudget": {"quick": 150000, "thorough": 300000}},
         "env": {"ASAN_OPTIONS": _ASAN}, "case_timeout": 300},
        {"name": "bvh2d", "variant": "asan", "harness": "c14_spatial.cpp",
         "cases": {"quick": 700, "thorough": 3000},
         "params": {"mode": "bvh2d", "maxBoxes": {"quick": 2500, "thorough": 12000}},
         "env": {"ASAN_OPTIONS": _ASAN}, "case_timeout": 300},
        {"name": "tree2d", "variant": "asan", "harness": "c14_spatial.cpp",
         "cases": {"quick": 3000, "thorough": 20000},
         "params": {"mode": "tree2d", "maxPoints": {"quick": 3000, "thorough": 30000}},
         "env": {"ASAN_OPTIONS": _ASAN}, "case_timeout": 300},
        # real-TBB build: crosses the parallel thresholds (radix tree > 1e4 internal nodes, BuildInternalBoxes > 1e3,
        # Collisions / BVHCollisions > 512 queries, CollectIntersectionPairs' PairsRecorder path)
        {"name": "par-collider", "variant": "tbb", "harness": "c14_spatial.cpp",
         "cases": {"quick": 16, "thorough": 32},
         "params": {"mode": "collider", "par": 1, "minLeaves": 10500, "maxLeaves": {"quick": 20000, "thorough": 40000},
                    "pairBudget": 1000000},
         "max_workers": 4, "case_timeout": 600},
        {"name": "par-bvh2d", "variant": "tbb", "harness": "c14_spatial.cpp",
         "cases": {"quick": 16, "thorough": 32},
         "params": {"mode": "bvh2d", "par": 1, "maxBoxes": {"quick": 14000, "thorough": 30000}},
         "max_workers": 4, "case_timeout": 600},
    ],
    "assumptions": [
        "leaf Morton codes are sorted ascending and boxes permuted with them (the precondition sort.cpp establishes); >= 2 leaves",
        "leaf and query boxes are finite with min <= max (plus the documented empty query Box()); Transform matrices are axis-aligned",
        "the harness's closed-interval overlap tests are the documented meaning of Box::DoesOverlap (box: 3 axes; point: XY projection)",
        "for CollectIntersectionPairs an overlapping pair may be unreported only if the two edges share an endpoint index (the documented filter); the filter's own geometry is not re-derived",
        "g++ -fsanitize=address,undefined build of /repo's working tree, -DNDEBUG, MANIFOLD_PAR=-1 (serial) unless a stage says otherwise",
    ],
}

TEXT = {
    "text": ("Held on the executions observed: every (query, leaf) list recorded from Collider::Collisions (box, point and "
             "self-collision queries; after construction, after axis-aligned Transform, after UpdateBoxes and on an untouched "
             "copy), from BVHBuildFromBoxes/BVHCollisions/CollidePairs, from CollectIntersectionPairs (both paths) and from "
             "QueryTwoDTree equals an independent all-pairs scan as a multiset (no pair missing, extra or repeated), under "
             "ASan+UBSan. The thorough tier enumerates the whole small space described in the rule (exhaustive for that "
             "sub-space only); everything else is sampling."),
    "note": ("Trusts the harness's brute-force scan and g++'s sanitizers. Random leaf sets are bounded (n <= 1e5 thorough). "
             "The exhaustive claim covers only n<=5 leaves over the 4-value lattice with 4 Morton code values."),
    "technique": "runtime monitoring: differential testing of internal spatial indices against an all-pairs oracle, incl. an exhaustively enumerated small space, under ASan+UBSan",
    "design_ref": "DESIGN.md 4 C14",
}
