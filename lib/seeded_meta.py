#!/usr/bin/env python3
"""Fold the lead's confirmation log (confirm.log written by the confirmation script) into each seeded/<id>/meta.json."""
import json, glob, os, re
for d in sorted(glob.glob('/verif/seeded/*/')):
    mp, cp = d + 'meta.json', d + 'confirm.log'
    if not (os.path.exists(mp) and os.path.exists(cp)):
        continue
    try:
        m = json.load(open(mp))
    except ValueError:
        m = {"raw_meta": open(mp).read()}
    if m.get("confirmed_by_lead", {}).get("note"):
        continue  # hand-corrected entry (its confirm.log is stale); do not overwrite
    log = open(cp).read()
    def grab(pat):
        r = re.search(pat, log)
        return r.group(1).strip() if r else None
    checks = {}
    for c, ex in re.findall(r"check (C\d+) quick: exit (\d+)", log):
        keys = re.findall(r"key=(\S.*?) stage=", log.split("check %s quick" % c, 1)[1].split("\ncheck ", 1)[0])
        checks[c] = {"exit": int(ex), "caught": ex == "1", "violation_keys": sorted(set(keys))[:12]}
    m["confirmed_by_lead"] = {
        "how": "scratch worktree of /repo at " + (grab(r"repo HEAD (\S+)") or "?") + ": git apply patch.diff; cmake --build + ctest of the repository suite; demo build.sh on the changed tree and on /repo; VERIF_REPO=<worktree> ./vcheck run <check> --tier quick",
        "repo_test_suite": grab(r"(\d+% tests passed[^\n]*)"),
        "demo_on_changed_tree": grab(r"demo on changed tree: ([^\n]*)"),
        "demo_on_unchanged_tree": grab(r"demo on unchanged tree: ([^\n]*)"),
        "verif_checks": checks,
    }
    json.dump(m, open(mp, 'w'), indent=1)
    print(os.path.basename(d.rstrip('/')), {c: v["caught"] for c, v in checks.items()})
