CHECK = {
    "id": "C13", "level": "exploration",
    "rule": ("stage shim/shimasan: case = (algorithm of parallel.h instantiated with ExecutionPolicy::Par, length from a list "
             "around every threshold (0,1,2,1e4+-1,2e4+-1,65536+-1,...) or random, content mode), compared element-wise with the "
             "std:: algorithm, repeated under `schedules` adversarial TBB schedules of the shim (seeded split depth, leaf order, "
             "worker assignment, reduce body-split timing, scan steal/ready order); distinct_nontrivial counts distinct "
             "(algorithm, schedule decision trace hash) pairs. stage tbb: same cases on real oneTBB at arena concurrency "
             "1,2,3,4,8,16 (distinct = algorithm#length). stage conc*: 2-3 real threads on DisjointSets / HashTableD with seeded "
             "yields, compared with a sequential union-find / key set (distinct = size/thread/partition signature)."),
    "min_nontrivial": {"quick": 500, "thorough": 5000},
    "stages": [
        {"name": "shim", "variant": "shim", "harness": "c13_parallel.cpp",
         "cases": {"quick": 1600, "thorough": 8000},
         "params": {"schedules": {"quick": 6, "thorough": 12}, "maxLen": {"quick": 140000, "thorough": 300007}},
         "case_timeout": 300},
        {"name": "shimasan", "variant": "shimasan", "harness": "c13_parallel.cpp",
         "cases": {"quick": 320, "thorough": 2000},
         "params": {"schedules": {"quick": 3, "thorough": 6}, "maxLen": {"quick": 70000, "thorough": 140000}},
         "case_timeout": 300},
        {"name": "tbb", "variant": "tbb", "harness": "c13_parallel.cpp",
         "cases": {"quick": 960, "thorough": 8000},
         "params": {"schedules": {"quick": 3, "thorough": 4}, "maxLen": {"quick": 300007, "thorough": 300007}},
         "case_timeout": 300},
        {"name": "tsanshim", "variant": "tsanshim", "harness": "c13_parallel.cpp", "tsan_advisory_only": True,
         "cases": {"quick": 240, "thorough": 1500}, "env": {"VSHIM_THREADS": "3"},
         "params": {"schedules": 1, "maxLen": {"quick": 70000, "thorough": 140000}},
         "case_timeout": 600, "max_workers": 4},
        {"name": "conc", "variant": "asan", "harness": "c13_parallel.cpp",
         "cases": {"quick": 6000, "thorough": 100000},
         "params": {"mode": "conc"}, "case_timeout": 120, "max_workers": 5},
        {"name": "conctsan", "variant": "tsan", "harness": "c13_parallel.cpp",
         "cases": {"quick": 3000, "thorough": 30000},
         "params": {"mode": "conc"}, "case_timeout": 300, "max_workers": 5},
    ],
    "assumptions": ["the shim's schedules are legal oneTBB schedules (ported from the installed 2021.8 headers, DESIGN.md 2.2)",
                    "std:: algorithms of libstdc++ are the sequential specification"],
}
TEXT = {
    "text": ("Held on the executions observed: every template of src/parallel.h is instantiated with the Par policy and compared "
             "with the std:: algorithm on inputs at and around every internal threshold, under thousands of seeded adversarial "
             "schedules of an instrumented single-thread TBB shim (every split/steal/order choice drawn from a PRNG and hashed) "
             "and on real oneTBB at six arena sizes; DisjointSets and HashTableD run under 2-3 real threads with seeded yields "
             "under ASan and ThreadSanitizer and are compared with sequential models."),
    "note": "Schedules and interleavings are sampled, not enumerated; the shim is trusted to produce only legal TBB schedules; no hook inside the CAS loops.",
    "technique": "runtime monitoring: differential oracle (std:: algorithms / sequential model) under an adversarial scheduler shim, real TBB, ASan and TSan",
    "design_ref": "DESIGN.md 4 C13, 2.2",
}
