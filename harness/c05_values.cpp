// C05 — Manifolds and CrossSections are values: deriving new objects never
// changes old ones; copies are indistinguishable from originals. History
// monitor over a growing pool of live objects (DESIGN.md §4 C05).
#include "common/dsl.h"
#include "common/oracles.h"
#include "common/vh.h"
#include "manifold/cross_section.h"

using namespace manifold;

namespace {

// One observation of a Manifold: each field may be absent (not yet observed).
enum Field { F_MESH, F_NV, F_NE, F_NT, F_NP, F_NPV, F_BBOX, F_TOL, F_STATUS, F_OID, F_EMPTY, F_GENUS, F_EPS, F_COUNT };
const char* kFieldName[] = {"GetMeshGL64", "NumVert", "NumEdge", "NumTri", "NumProp", "NumPropVert", "BoundingBox", "GetTolerance", "Status", "OriginalID", "IsEmpty", "Genus", "GetEpsilon"};

std::string getField(const Manifold& m, int f) {
  vo::Hash128 h;
  switch (f) {
    case F_MESH: h = vo::HashMesh(m.GetMeshGL64(), true); break;
    case F_NV: h.pod((uint64_t)m.NumVert()); break;
    case F_NE: h.pod((uint64_t)m.NumEdge()); break;
    case F_NT: h.pod((uint64_t)m.NumTri()); break;
    case F_NP: h.pod((uint64_t)m.NumProp()); break;
    case F_NPV: h.pod((uint64_t)m.NumPropVert()); break;
    case F_BBOX: { Box b = m.BoundingBox(); h.pod(b.min.x); h.pod(b.min.y); h.pod(b.min.z); h.pod(b.max.x); h.pod(b.max.y); h.pod(b.max.z); break; }
    case F_TOL: h.pod(m.GetTolerance()); break;
    case F_STATUS: h.pod((int)m.Status()); break;
    case F_OID: h.pod((int)m.OriginalID()); break;
    case F_EMPTY: h.pod((int)m.IsEmpty()); break;
    case F_GENUS: h.pod((int)m.Genus()); break;
    case F_EPS: h.pod(m.GetEpsilon()); break;
  }
  return h.hex();
}

struct Shadow {
  std::string val[F_COUNT];
  bool has[F_COUNT] = {false};
  int firstObsStep = -1;  // step at which observation starts
  int aliasOf = -1;       // copy / assignment of this pool index
  bool any = false;
};

enum CField { C_POLYS, C_AREA, C_NV, C_NC, C_BOUNDS, C_TOL, C_EMPTY, C_COUNT };
const char* kCFieldName[] = {"ToPolygons", "Area", "NumVert", "NumContour", "Bounds", "GetTolerance", "IsEmpty"};
std::string getCField(const CrossSection& x, int f) {
  vo::Hash128 h;
  switch (f) {
    case C_POLYS: h = vo::HashPolygons(x.ToPolygons()); break;
    case C_AREA: h.pod(x.Area()); break;
    case C_NV: h.pod((uint64_t)x.NumVert()); break;
    case C_NC: h.pod((uint64_t)x.NumContour()); break;
    case C_BOUNDS: { Rect b = x.Bounds(); h.pod(b.min.x); h.pod(b.min.y); h.pod(b.max.x); h.pod(b.max.y); break; }
    case C_TOL: h.pod(x.GetTolerance()); break;
    case C_EMPTY: h.pod((int)x.IsEmpty()); break;
  }
  return h.hex();
}
struct CShadow {
  std::string val[C_COUNT];
  bool has[C_COUNT] = {false};
  int firstObsStep = -1, aliasOf = -1;
};

std::string kindOf(const std::string& how) {
  size_t dot = how.find('.'), par = how.find('(');
  if (how.rfind("v", 0) == 0 && dot != std::string::npos && dot < par) return how.substr(dot + 1, how.find('(', dot) - dot - 1);
  return how.substr(0, par);
}

// ------------------------------------------------------------ Manifold history
void caseManifold(vh::Ctx& c) {
  vh::Rng& r = c.rng;
  vd::Config cfg;
  cfg.maxTris = (size_t)c.iparam("maxTris", 1500);
  cfg.allowMinkowski = r.chance(0.3);
  cfg.allowLevelSet = r.chance(0.3);
  vd::Gen g(r, cfg);
  int steps = (int)c.iparam("steps", 25);
  std::vector<Shadow> sh;
  std::string lastKind;
  auto fail = [&](const std::string& what, int i, int f, const std::string& extra) {
    c.violation("value-changed:" + what + ":" + kFieldName[f] + ":after-" + lastKind,
                vh::J().s("what", what).i("object", i).s("object_how", g.pool[i].how).s("field", kFieldName[f]).s("after_step", g.log.back()).s("info", extra)
                    .raw("program", g.programJson()).str());
  };
  for (int s = 0; s < steps; s++) {
    size_t before = g.pool.size();
    c.site("step");
    std::vector<int> nu = g.step();
    lastKind = kindOf(g.pool[nu[0]].how);
    c.site("observe-after-" + lastKind);
    c.count("steps");
    sh.resize(g.pool.size());
    for (size_t i = before; i < g.pool.size(); i++) {
      // first observation at a seeded delay (some immediately, some while still lazy and shared)
      sh[i].firstObsStep = s + (r.chance(0.4) ? 0 : (int)r.range(1, 6));
      const std::string& how = g.pool[i].how;
      if (how.rfind("copy(v", 0) == 0 || how.rfind("assign(v", 0) == 0) sh[i].aliasOf = atoi(how.c_str() + how.find("(v") + 2);
    }
    // (re-)observe every live object whose observation has started
    for (size_t i = 0; i < g.pool.size(); i++) {
      if (sh[i].firstObsStep > s) continue;
      // random order, random subset of getters on first contact; all known ones afterwards
      int order[F_COUNT];
      for (int f = 0; f < F_COUNT; f++) order[f] = f;
      for (int f = F_COUNT; f > 1; f--) std::swap(order[f - 1], order[r.below((uint64_t)f)]);
      for (int q = 0; q < F_COUNT; q++) {
        int f = order[q];
        if (!sh[i].has[f]) {
          if (!r.chance(0.5)) continue;  // observe this getter later
          sh[i].val[f] = getField(g.pool[i].m, f);
          sh[i].has[f] = true;
          c.count("first_observations");
        } else {
          std::string now = getField(g.pool[i].m, f);
          c.count("reobservations");
          if (now != sh[i].val[f]) {
            fail("object", (int)i, f, "first observed " + sh[i].val[f] + " now " + now);
            return;
          }
        }
        // copies are indistinguishable from the original
        int a = sh[i].aliasOf;
        if (a >= 0 && sh[i].has[f] && sh[a].has[f]) {
          c.count("copy_comparisons");
          if (sh[i].val[f] != sh[a].val[f]) {
            fail("copy-differs-from-original", (int)i, f, "copy " + sh[i].val[f] + " original(v" + std::to_string(a) + ") " + sh[a].val[f]);
            return;
          }
        }
      }
      sh[i].any = true;
    }
    c.sig(lastKind + "#" + std::to_string(std::min<size_t>(g.pool.size() / 8, 6)));
  }
  if (c.idx % 61 == 0) c.sample(vh::J().i("idx", c.idx).raw("program", g.programJson(10)).str());
}

// ------------------------------------------------------------ CrossSection history
void caseCross(vh::Ctx& c) {
  vh::Rng& r = c.rng;
  int steps = (int)c.iparam("steps", 25);
  std::vector<CrossSection> pool;
  std::vector<std::string> log;
  std::vector<CShadow> sh;
  std::string lastKind;
  auto add = [&](CrossSection x, const std::string& how) {
    pool.push_back(std::move(x));
    log.push_back("x" + std::to_string(pool.size() - 1) + " = " + how);
  };
  auto progJson = [&] {
    std::string s = "[";
    for (size_t i = 0; i < log.size(); i++) s += (i ? ",\"" : "\"") + vh::jesc(log[i]) + "\"";
    return s + "]";
  };
  for (int s = 0; s < steps; s++) {
    size_t before = pool.size();
    c.site("cs-step");
    int op = pool.size() < 2 ? (int)r.below(3) : (int)r.below(16);
    int ia = pool.empty() ? 0 : (int)r.below(pool.size());
    std::string A = "x" + std::to_string(ia);
    switch (op) {
      case 0: { vec2 d(r.uni(0.3, 3), r.uni(0.3, 3)); bool ce = r.chance(0.5); add(CrossSection::Square(d, ce), "Square((" + vd::fmt(d.x) + "," + vd::fmt(d.y) + ")," + (ce ? "true" : "false") + ")"); lastKind = "Square"; break; }
      case 1: { double rad = r.uni(0.3, 2); int seg = (int)r.range(3, 24); add(CrossSection::Circle(rad, seg), "Circle(" + vd::fmt(rad) + "," + std::to_string(seg) + ")"); lastKind = "Circle"; break; }
      case 2: { int n = (int)r.range(3, 10); double rad = r.uni(0.5, 2); bool hole = r.chance(0.4); add(CrossSection(vd::StarPolygon(r, n, rad, hole)), "CrossSection(star" + std::to_string(n) + (hole ? "+hole" : "") + ")"); lastKind = "ctor"; break; }
      case 3: case 4: { int ib = (int)r.below(pool.size()); OpType ot = (OpType)r.below(3); CrossSection b = pool[ib].Translate({r.uni(-0.5, 0.5), r.uni(-0.5, 0.5)}); add(pool[ia].Boolean(b, ot), A + ".Boolean(x" + std::to_string(ib) + ".Translate(..)," + std::to_string((int)ot) + ")"); lastKind = "Boolean"; break; }
      case 5: { vec2 t(r.uni(-2, 2), r.uni(-2, 2)); add(pool[ia].Translate(t), A + ".Translate(" + vd::fmt(t.x) + "," + vd::fmt(t.y) + ")"); lastKind = "Translate"; break; }
      case 6: { double d = r.chance(0.3) ? 90.0 * r.range(-3, 3) : r.uni(-360, 360); add(pool[ia].Rotate(d), A + ".Rotate(" + vd::fmt(d) + ")"); lastKind = "Rotate"; break; }
      case 7: { vec2 sc(r.uni(0.1, 10), r.uni(0.1, 10)); if (r.chance(0.2)) sc.x = -sc.x; add(pool[ia].Scale(sc), A + ".Scale(" + vd::fmt(sc.x) + "," + vd::fmt(sc.y) + ")"); lastKind = "Scale"; break; }
      case 8: { vec2 ax(r.uni(-1, 1), r.uni(-1, 1)); add(pool[ia].Mirror(ax), A + ".Mirror(" + vd::fmt(ax.x) + "," + vd::fmt(ax.y) + ")"); lastKind = "Mirror"; break; }
      case 9: { mat2x3 m; for (int cc = 0; cc < 3; cc++) for (int k = 0; k < 2; k++) m[cc][k] = (cc == k ? 1.0 : 0.0) + r.uni(-0.5, 0.5); add(pool[ia].Transform(m), A + ".Transform(random)"); lastKind = "Transform"; break; }
      case 10: { double amp = r.uni(0.01, 0.2); add(pool[ia].Warp([amp](vec2& p) { p.x += amp * sin(p.y * 2); }), A + ".Warp(x+=" + vd::fmt(amp) + "*sin(2y))"); lastKind = "Warp"; break; }
      case 11: { double d = r.uni(-0.3, 0.5); int jt = (int)r.below(4); add(pool[ia].Offset(d, (CrossSection::JoinType)jt, 2.0, (int)r.range(0, 12)), A + ".Offset(" + vd::fmt(d) + ",jt" + std::to_string(jt) + ")"); lastKind = "Offset"; break; }
      case 12: { double t = r.uni(0, 0.05); add(pool[ia].Simplify(t), A + ".Simplify(" + vd::fmt(t) + ")"); lastKind = "Simplify"; break; }
      case 13: { add(pool[ia].Hull(), A + ".Hull()"); lastKind = "Hull"; break; }
      case 14: { auto parts = pool[ia].Decompose(); if (parts.empty()) add(pool[ia].SetTolerance(r.uni(0, 0.01)), A + ".SetTolerance(..)"); else for (size_t i = 0; i < parts.size() && i < 2; i++) add(parts[i], A + ".Decompose()[" + std::to_string(i) + "]"); lastKind = "Decompose"; break; }
      default: { if (r.chance(0.5)) { CrossSection cp(pool[ia]); add(cp, "copy(x" + std::to_string(ia) + ")"); } else { CrossSection cp; cp = pool[ia]; add(cp, "assign(x" + std::to_string(ia) + ")"); } lastKind = "copy"; break; }
    }
    c.count("cs_steps");
    sh.resize(pool.size());
    for (size_t i = before; i < pool.size(); i++) {
      sh[i].firstObsStep = s + (r.chance(0.4) ? 0 : (int)r.range(1, 6));
      const std::string& how = log[i];
      size_t p = how.find("copy(x");
      if (p == std::string::npos) p = how.find("assign(x");
      if (p != std::string::npos) sh[i].aliasOf = atoi(how.c_str() + how.find("(x", p) + 2);
    }
    c.site("cs-observe-after-" + lastKind);
    for (size_t i = 0; i < pool.size(); i++) {
      if (sh[i].firstObsStep > s) continue;
      int order[C_COUNT];
      for (int f = 0; f < C_COUNT; f++) order[f] = f;
      for (int f = C_COUNT; f > 1; f--) std::swap(order[f - 1], order[r.below((uint64_t)f)]);
      for (int q = 0; q < C_COUNT; q++) {
        int f = order[q];
        if (!sh[i].has[f]) {
          if (!r.chance(0.5)) continue;
          sh[i].val[f] = getCField(pool[i], f);
          sh[i].has[f] = true;
          c.count("cs_first_observations");
        } else {
          std::string now = getCField(pool[i], f);
          c.count("cs_reobservations");
          if (now != sh[i].val[f]) {
            c.violation(std::string("cs-value-changed:object:") + kCFieldName[f],
                        vh::J().i("object", (long)i).s("object_how", log[i]).s("field", kCFieldName[f]).s("after_step", log.back()).s("first", sh[i].val[f]).s("now", now).raw("program", progJson()).str());
            return;
          }
        }
        int a = sh[i].aliasOf;
        if (a >= 0 && sh[i].has[f] && sh[a].has[f]) {
          c.count("cs_copy_comparisons");
          if (sh[i].val[f] != sh[a].val[f]) {
            c.violation(std::string("cs-value-changed:copy-differs-from-original:") + kCFieldName[f],
                        vh::J().i("object", (long)i).s("object_how", log[i]).s("field", kCFieldName[f]).s("copy", sh[i].val[f]).s("original", sh[a].val[f]).raw("program", progJson()).str());
            return;
          }
        }
      }
    }
    c.sig("cs:" + lastKind + "#" + std::to_string(std::min<size_t>(pool.size() / 8, 6)));
  }
}

}  // namespace

void vh_case(vh::Ctx& c) {
  if (c.param("mode", "manifold") == "cross")
    caseCross(c);
  else
    caseManifold(c);
}
