// C08 — MeshGL export and re-import is lossless (DESIGN.md §4 C08).
//
// Oracle: field-wise comparison, up to renumbering of vertices and triangles,
// of g = m.GetMeshGL64() with g2 = Manifold(g).GetMeshGL64():
//   canonical multiset of triangles, each = three corners (position bits,
//   property bits) rotated to the lexicographically smallest start, tagged
//   with its run's originalID, runTransform bits, runFlags and its faceID;
//   channels flagged as normals (runFlags bit 1 => slots 3..5) are compared as
//   directions within 8 ulp instead of bitwise;
//   multiset of directed edges (start position bits, end position bits) ->
//   tangent bits; Status NoError; tolerance not smaller; Refine(n) of m and
//   of Manifold(g) give the same surface (status, counts, volume, vertex set).
// Same structure through the 32-bit MeshGL (float bits), OBJ writer/reader in
// both writer modes (positions bit-exact, triangle set identical), Merge() on
// a seam-carrying export whose merge vectors were stripped, and "the exported
// merge vectors alone restore manifoldness" (topology check that uses only the
// merge vectors).
#include <algorithm>
#include <array>
#include <cfloat>
#include <cstring>
#include <map>
#include <sstream>
#include <type_traits>

#include "common/dsl.h"
#include "common/oracles.h"
#include "common/vh.h"

using namespace manifold;

namespace {

inline uint64_t rawBits(double x) {
  uint64_t u;
  memcpy(&u, &x, 8);
  return u;
}
inline uint64_t rawBits(float x) {
  uint32_t u;
  memcpy(&u, &x, 4);
  return u;
}

// comparison levels: which tags take part in the triangle key
enum Level { L_POS = 0, L_ORIG, L_XFORM, L_FLAGS, L_FACE, L_PROPS, L_COUNT };
const char* levelName[] = {"triangle-set-over-positions", "originalID", "runTransform", "runFlags", "faceID", "property-bits"};

struct TriKey {
  std::vector<uint64_t> k;
  std::array<double, 9> nrm{};  // normal-flagged channels of the three corners (canonical order)
  bool hasN = false;
  bool operator<(const TriKey& o) const {
    if (k != o.k) return k < o.k;
    return nrm < o.nrm;
  }
};

template <class M>
size_t runOfTri(const M& m, size_t t, size_t& cursor) {
  while (cursor + 1 < m.runIndex.size() && (size_t)m.runIndex[cursor + 1] <= 3 * t) cursor++;
  return cursor;
}

template <class M>
std::vector<TriKey> canon(const M& m, int level) {
  const size_t nt = m.triVerts.size() / 3, np = m.numProp;
  std::vector<TriKey> out(nt);
  size_t cursor = 0;
  const bool haveRuns = !m.runOriginalID.empty() && m.runIndex.size() == m.runOriginalID.size() + 1;
  for (size_t t = 0; t < nt; t++) {
    size_t run = haveRuns ? runOfTri(m, t, cursor) : 0;
    const bool hasN = haveRuns && m.HasNormals(run) && np >= 6;
    std::array<std::vector<uint64_t>, 3> ck;
    std::array<std::array<double, 3>, 3> cn{};
    for (int c = 0; c < 3; c++) {
      size_t v = m.triVerts[3 * t + c];
      for (int j = 0; j < 3; j++) ck[c].push_back(rawBits(m.vertProperties[v * np + j]));
      if (level >= L_PROPS)
        for (size_t j = 3; j < np; j++) {
          if (hasN && j < 6) { cn[c][j - 3] = m.vertProperties[v * np + j]; continue; }
          ck[c].push_back(rawBits(m.vertProperties[v * np + j]));
        }
    }
    int best = 0;
    for (int r = 1; r < 3; r++) {
      bool less = false;
      for (int c = 0; c < 3; c++) {
        const auto &a = ck[(r + c) % 3], &b = ck[(best + c) % 3];
        if (a != b) { less = a < b; break; }
      }
      if (less) best = r;
    }
    TriKey& k = out[t];
    if (level >= L_ORIG) k.k.push_back(haveRuns ? m.runOriginalID[run] : 0);
    if (level >= L_XFORM) {
      if (haveRuns && m.runTransform.size() == 12 * m.runOriginalID.size())
        for (int j = 0; j < 12; j++) k.k.push_back(rawBits(m.runTransform[12 * run + j]));
      else {
        typedef typename std::remove_reference<decltype(m.vertProperties[0])>::type P;
        static const P id[12] = {1, 0, 0, 0, 1, 0, 0, 0, 1, 0, 0, 0};
        for (int j = 0; j < 12; j++) k.k.push_back(rawBits(id[j]));
      }
    }
    if (level >= L_FLAGS) k.k.push_back(haveRuns && run < m.runFlags.size() ? m.runFlags[run] : 0);
    if (level >= L_FACE) k.k.push_back(m.faceID.size() == nt ? (uint64_t)m.faceID[t] : ~0ull);
    for (int c = 0; c < 3; c++) {
      const auto& a = ck[(best + c) % 3];
      k.k.insert(k.k.end(), a.begin(), a.end());
      for (int j = 0; j < 3; j++) k.nrm[3 * c + j] = cn[(best + c) % 3][j];
    }
    k.hasN = hasN && level >= L_PROPS;
  }
  std::sort(out.begin(), out.end());
  return out;
}

bool sameDirection(const double* a, const double* b) {
  double la = std::sqrt(a[0] * a[0] + a[1] * a[1] + a[2] * a[2]), lb = std::sqrt(b[0] * b[0] + b[1] * b[1] + b[2] * b[2]);
  if (la == 0 || lb == 0) return la == lb;
  for (int j = 0; j < 3; j++)
    if (std::fabs(a[j] / la - b[j] / lb) > 8 * DBL_EPSILON) return false;
  return true;
}
bool sameDirectionF(const double* a, const double* b) {
  double la = std::sqrt(a[0] * a[0] + a[1] * a[1] + a[2] * a[2]), lb = std::sqrt(b[0] * b[0] + b[1] * b[1] + b[2] * b[2]);
  if (la == 0 || lb == 0) return la == lb;
  for (int j = 0; j < 3; j++)
    if (std::fabs(a[j] / la - b[j] / lb) > 8 * FLT_EPSILON) return false;
  return true;
}

// returns "" or the name of the first level at which the canonical multisets differ
template <class M>
std::string compareMeshes(const M& a, const M& b, bool floatNormals, std::string& info) {
  if (a.numProp != b.numProp) { info = "numProp " + std::to_string(a.numProp) + " vs " + std::to_string(b.numProp); return "numProp"; }
  if (a.triVerts.size() != b.triVerts.size()) { info = "nTri " + std::to_string(a.triVerts.size() / 3) + " vs " + std::to_string(b.triVerts.size() / 3); return "triangle-count"; }
  for (int lv = 0; lv < L_COUNT; lv++) {
    auto ka = canon(a, lv), kb = canon(b, lv);
    for (size_t i = 0; i < ka.size(); i++) {
      if (ka[i].k != kb[i].k) {
        info = "first differing canonical triangle #" + std::to_string(i) + " of " + std::to_string(ka.size());
        return levelName[lv];
      }
      if (lv == L_PROPS && (ka[i].hasN || kb[i].hasN)) {
        for (int c = 0; c < 3; c++)
          if (!(floatNormals ? sameDirectionF(&ka[i].nrm[3 * c], &kb[i].nrm[3 * c]) : sameDirection(&ka[i].nrm[3 * c], &kb[i].nrm[3 * c]))) {
            std::ostringstream o;
            o.precision(17);
            o << "normal channels (" << ka[i].nrm[3 * c] << "," << ka[i].nrm[3 * c + 1] << "," << ka[i].nrm[3 * c + 2] << ") vs (" << kb[i].nrm[3 * c] << "," << kb[i].nrm[3 * c + 1] << ","
              << kb[i].nrm[3 * c + 2] << ")";
            info = o.str();
            return "normal-channels";
          }
      }
    }
  }
  return "";
}

// multiset of (directed edge by endpoint position bits) -> tangent bits
template <class M>
std::vector<std::array<uint64_t, 10>> tangentSet(const M& m) {
  std::vector<std::array<uint64_t, 10>> out;
  const size_t nt = m.triVerts.size() / 3, np = m.numProp;
  if (m.halfedgeTangent.size() != 12 * nt) return out;
  out.resize(3 * nt);
  for (size_t t = 0; t < nt; t++)
    for (int i = 0; i < 3; i++) {
      size_t v0 = m.triVerts[3 * t + i], v1 = m.triVerts[3 * t + (i + 1) % 3];
      auto& e = out[3 * t + i];
      for (int j = 0; j < 3; j++) {
        e[j] = rawBits(m.vertProperties[v0 * np + j]);
        e[3 + j] = rawBits(m.vertProperties[v1 * np + j]);
      }
      for (int j = 0; j < 4; j++) e[6 + j] = rawBits(m.halfedgeTangent[4 * (3 * t + i) + j]);
    }
  std::sort(out.begin(), out.end());
  return out;
}

template <class M>
size_t nonEmptyRuns(const M& m) {
  size_t n = 0;
  for (size_t i = 0; i + 1 < m.runIndex.size(); i++)
    if (m.runIndex[i + 1] > m.runIndex[i]) n++;
  return n;
}

std::string opKind(const std::string& how) {
  size_t dot = how.find('.'), par = how.find('(');
  if (how.size() > 1 && how[0] == 'v' && isdigit((unsigned char)how[1]) && dot != std::string::npos && dot < par) return how.substr(dot + 1, how.find('(', dot) - dot - 1);
  return how.substr(0, par);
}

struct SurfaceBrief {
  Manifold::Error st;
  size_t nt, nv;
  double vol, area;
  std::vector<std::array<double, 3>> pts;
};
SurfaceBrief brief(const Manifold& m) {
  SurfaceBrief b;
  b.st = m.Status();
  b.nt = m.NumTri();
  b.nv = m.NumVert();
  b.vol = m.Volume();
  b.area = m.SurfaceArea();
  MeshGL64 g = m.GetMeshGL64();
  for (size_t i = 0; i < g.vertProperties.size() / g.numProp; i++) b.pts.push_back({g.vertProperties[i * g.numProp], g.vertProperties[i * g.numProp + 1], g.vertProperties[i * g.numProp + 2]});
  std::sort(b.pts.begin(), b.pts.end());
  return b;
}
// "" if the two refinements describe the same surface
std::string sameSurface(const SurfaceBrief& a, const SurfaceBrief& b, double scale) {
  if (a.st != b.st) return std::string("status ") + vo::ErrName(a.st) + " vs " + vo::ErrName(b.st);
  if (a.nt != b.nt) return "NumTri " + std::to_string(a.nt) + " vs " + std::to_string(b.nt);
  if (a.nv != b.nv) return "NumVert " + std::to_string(a.nv) + " vs " + std::to_string(b.nv);
  const double tolL = 1e-9 * scale;
  if (std::fabs(a.vol - b.vol) > 1e-9 * std::fabs(a.vol) + tolL * scale * scale) return "volume " + vd::fmt(a.vol) + " vs " + vd::fmt(b.vol);
  if (std::fabs(a.area - b.area) > 1e-9 * std::fabs(a.area) + tolL * scale) return "area " + vd::fmt(a.area) + " vs " + vd::fmt(b.area);
  // one-sided vertex-set distance both ways (sorted by x, windowed scan)
  auto oneSided = [&](const std::vector<std::array<double, 3>>& p, const std::vector<std::array<double, 3>>& q) {
    double worst = 0;
    size_t lo = 0;
    for (auto& x : p) {
      while (lo < q.size() && q[lo][0] < x[0] - tolL) lo++;
      double best = 1e300;
      for (size_t j = lo; j < q.size() && q[j][0] <= x[0] + tolL; j++) {
        double d = std::max({std::fabs(q[j][0] - x[0]), std::fabs(q[j][1] - x[1]), std::fabs(q[j][2] - x[2])});
        best = std::min(best, d);
      }
      worst = std::max(worst, best);
    }
    return worst;
  };
  if (a.pts.size() <= 20000) {
    double d = std::max(oneSided(a.pts, b.pts), oneSided(b.pts, a.pts));
    if (d > tolL) return "vertex sets differ by " + (d > 1e299 ? std::string(">window") : vd::fmt(d));
  }
  return "";
}

// ------------------------------------------------------------------ OBJ
struct ObjOutcome {
  std::string key;  // "" ok
  std::string info;
};
void setHex(bool on) {
  if (on) setenv("MANIFOLD_OBJ_HEX_FLOAT", "1", 1);
  else unsetenv("MANIFOLD_OBJ_HEX_FLOAT");
}
std::vector<std::array<uint64_t, 3>> idxTris(const MeshGL64& m) {
  std::vector<std::array<uint64_t, 3>> t(m.triVerts.size() / 3);
  for (size_t i = 0; i < t.size(); i++) {
    std::array<uint64_t, 3> a{m.triVerts[3 * i], m.triVerts[3 * i + 1], m.triVerts[3 * i + 2]};
    int best = 0;
    for (int r = 1; r < 3; r++)
      if (a[r] < a[best]) best = r;
    t[i] = {a[best], a[(best + 1) % 3], a[(best + 2) % 3]};
  }
  std::sort(t.begin(), t.end());
  return t;
}
// free functions on a MeshGL64: vertex order is kept by the reader, so compare positions in order and index triples
ObjOutcome objFree(const MeshGL64& g, bool hex) {
  ObjOutcome o;
  const char* mode = hex ? "hexfloat" : "fixed-notation";
  std::stringstream ss;
  setHex(hex);
  bool ok = WriteOBJ(ss, g);
  setHex(false);
  if (!ok) { o.key = std::string("obj:write-failed:") + mode; return o; }
  MeshGL64 r = ReadOBJ(ss);
  const size_t nv = g.vertProperties.size() / g.numProp, nvr = r.vertProperties.size() / 3;
  if (nvr != nv) {
    if (hex && nvr == 0) { o.key = "obj:hexfloat-unreadable"; o.info = "0 of " + std::to_string(nv) + " vertex lines were parsed"; return o; }
    o.key = std::string("obj:vertex-count:") + mode;
    o.info = std::to_string(nv) + " written, " + std::to_string(nvr) + " read";
    return o;
  }
  if (idxTris(g) != idxTris(r)) { o.key = std::string("obj:triangles:") + mode; o.info = std::to_string(g.triVerts.size() / 3) + " written, " + std::to_string(r.triVerts.size() / 3) + " read"; return o; }
  size_t diff = 0;
  double maxMagDiffering = 0;
  std::string eg;
  for (size_t v = 0; v < nv; v++)
    for (int j = 0; j < 3; j++) {
      double a = g.vertProperties[v * g.numProp + j], b = r.vertProperties[3 * v + j];
      if (rawBits(a) != rawBits(b)) {
        if (a == 0 && b == 0) continue;  // sign of zero: not a position difference
        if (!diff) eg = "wrote " + vd::fmt(a) + " read " + vd::fmt(b);
        diff++;
        maxMagDiffering = std::max(maxMagDiffering, std::fabs(a));
      }
    }
  if (diff) {
    // 19 digits after the point carry >= 17 significant digits only for |x| >= 1e-3
    o.key = std::string("obj:position-bits:") + mode + (!hex && maxMagDiffering >= 1e-3 ? ":magnitude>=1e-3" : "");
    o.info = std::to_string(diff) + " of " + std::to_string(3 * nv) + " coordinates differ, e.g. " + eg + "; largest |x| among them " + vd::fmt(maxMagDiffering);
  }
  return o;
}
// Manifold::WriteOBJ / Manifold::ReadOBJ; only for meshes without property-split vertices
ObjOutcome objManifold(const Manifold& m, const MeshGL64& g, bool hex) {
  ObjOutcome o;
  const char* mode = hex ? "hexfloat" : "fixed-notation";
  std::stringstream ss;
  setHex(hex);
  bool ok = m.WriteOBJ(ss);
  setHex(false);
  if (!ok) { o.key = std::string("objm:write-failed:") + mode; return o; }
  Manifold r = Manifold::ReadOBJ(ss);
  if (r.Status() != Manifold::Error::NoError || r.NumTri() == 0) {
    if (hex) {
      // is it the unreadable-hex-float defect? (no vertex line parsed)
      std::stringstream s2;
      setHex(true);
      m.WriteOBJ(s2);
      setHex(false);
      MeshGL64 rr = ReadOBJ(s2);
      if (rr.vertProperties.empty()) { o.key = "objm:hexfloat-unreadable"; o.info = std::string("status ") + vo::ErrName(r.Status()); return o; }
    }
    o.key = std::string("objm:status:") + mode;
    o.info = std::string("status ") + vo::ErrName(r.Status()) + " tris " + std::to_string(r.NumTri());
    return o;
  }
  MeshGL64 g2 = r.GetMeshGL64();
  if (g2.triVerts.size() != g.triVerts.size()) { o.key = std::string("objm:triangles:") + mode; o.info = std::to_string(g.triVerts.size() / 3) + " vs " + std::to_string(g2.triVerts.size() / 3); return o; }
  auto ka = canon(g, L_POS), kb = canon(g2, L_POS);
  size_t diff = 0;
  double maxMag = 0;
  for (size_t i = 0; i < ka.size(); i++)
    if (ka[i].k != kb[i].k) diff++;
  if (diff) {
    // classify: do the position SETS differ only on small coordinates?
    std::vector<uint64_t> pa, pb;
    for (size_t i = 0; i < g.vertProperties.size() / g.numProp; i++)
      for (int j = 0; j < 3; j++) pa.push_back(rawBits(g.vertProperties[i * g.numProp + j]));
    for (size_t i = 0; i < g2.vertProperties.size() / g2.numProp; i++)
      for (int j = 0; j < 3; j++) pb.push_back(rawBits(g2.vertProperties[i * g2.numProp + j]));
    std::sort(pa.begin(), pa.end());
    std::sort(pb.begin(), pb.end());
    std::vector<uint64_t> only;
    std::set_difference(pa.begin(), pa.end(), pb.begin(), pb.end(), std::back_inserter(only));
    for (uint64_t u : only) {
      double x;
      memcpy(&x, &u, 8);
      maxMag = std::max(maxMag, std::fabs(x));
    }
    if (only.empty()) o.key = std::string("objm:triangles:") + mode;
    else o.key = std::string("objm:position-bits:") + mode + (!hex && maxMag >= 1e-3 ? ":magnitude>=1e-3" : "");
    o.info = std::to_string(diff) + " canonical triangles differ; " + std::to_string(only.size()) + " coordinate values lost, largest |x| " + vd::fmt(maxMag);
  }
  return o;
}

bool runObj(vh::Ctx& c, const Manifold& m, const MeshGL64& g, const std::string& how, const std::string& program) {
  bool clean = true;
  for (int hex = 0; hex < 2; hex++) {
    c.site(std::string("WriteOBJ/ReadOBJ:") + (hex ? "hex" : "fixed"));
    ObjOutcome o = objFree(g, hex);
    c.count("obj_free_roundtrips");
    if (!o.key.empty()) {
      c.violation(o.key, vh::J().s("info", o.info).s("value", how).raw("mesh", vo::MeshBrief(g)).raw("program", program).str());
      clean = false;
    }
    if (g.mergeFromVert.empty()) {
      c.site(std::string("Manifold::WriteOBJ/ReadOBJ:") + (hex ? "hex" : "fixed"));
      ObjOutcome p = objManifold(m, g, hex);
      c.count("obj_manifold_roundtrips");
      if (!p.key.empty()) {
        c.violation(p.key, vh::J().s("info", p.info).s("value", how).raw("mesh", vo::MeshBrief(g)).raw("program", program).str());
        clean = false;
      }
    } else
      c.count("obj_manifold_skipped_property_split_vertices");
  }
  return clean;
}

// ------------------------------------------------------------------ one value, all trips
void roundTrip(vh::Ctx& c, const Manifold& m, const std::string& how, bool hasTangentsHint, const std::string& program) {
  const std::string kind = opKind(how);
  c.site("GetMeshGL64:" + kind);
  if (m.Status() != Manifold::Error::NoError) { c.count("values_error_status"); return; }
  MeshGL64 g = m.GetMeshGL64();
  const size_t nt = g.triVerts.size() / 3;
  if (nt == 0) { c.count("values_empty"); return; }
  c.count("values_tripped");
  const size_t runs = nonEmptyRuns(g);
  const char* runTag = runs >= 2 ? "multi-run" : "single-run";
  const bool tang = g.halfedgeTangent.size() == 12 * nt;
  bool back = false, normals = false;
  for (size_t r = 0; r < g.runOriginalID.size(); r++) {
    back = back || g.Backside(r);
    normals = normals || g.HasNormals(r);
  }
  double scale = 0;
  for (size_t i = 0; i < g.vertProperties.size() / g.numProp; i++)
    for (int j = 0; j < 3; j++) scale = std::max(scale, std::fabs(g.vertProperties[i * g.numProp + j]));
  auto viol = [&](const std::string& key, const std::string& info) {
    c.violation(key, vh::J().s("info", info).s("value", how).raw("mesh", vo::MeshBrief(g)).u("nonEmptyRuns", runs).raw("program", program).str());
  };
  bool clean = true;

  // ---- "the exported merge vectors alone suffice to restore manifoldness"
  {
    vo::TopoReport t = vo::CheckClosedManifold(g);
    c.count("merge_vector_topology_checks");
    if (!t.ok) {
      // Is it the merge vectors, or is the value itself not a closed 2-manifold? Re-check with vertices united by
      // bit-identical position instead of by the exported merge vectors: if that fails too, the defect is C01's
      // (a precondition of this property), not a round-trip defect: count the value, do not trip it.
      MeshGL64 gp = g;
      gp.mergeFromVert.clear();
      gp.mergeToVert.clear();
      std::map<std::array<uint64_t, 3>, uint64_t> firstAt;
      for (size_t v = 0; v < g.vertProperties.size() / g.numProp; v++) {
        std::array<uint64_t, 3> k{rawBits(g.vertProperties[v * g.numProp]), rawBits(g.vertProperties[v * g.numProp + 1]), rawBits(g.vertProperties[v * g.numProp + 2])};
        auto it = firstAt.find(k);
        if (it == firstAt.end()) firstAt.emplace(k, v);
        else { gp.mergeFromVert.push_back(v); gp.mergeToVert.push_back(it->second); }
      }
      if (!vo::CheckClosedManifold(gp).ok) {
        c.count("values_skipped_export_not_closed_manifold_C01");
        c.count("values_tripped", -1);
        if (c.verbose) fprintf(stderr, "C01 precondition failed for %s: %s %s\n", how.c_str(), t.why.c_str(), t.info.c_str());
        return;
      }
    }
    if (!t.ok) { viol("mergevectors:not-manifold:" + t.why, t.info); clean = false; }
    for (size_t i = 0; i < g.mergeFromVert.size() && i < g.mergeToVert.size(); i++) {
      size_t a = g.mergeFromVert[i], b = g.mergeToVert[i];
      bool same = true;
      for (int j = 0; j < 3; j++) same = same && rawBits(g.vertProperties[a * g.numProp + j]) == rawBits(g.vertProperties[b * g.numProp + j]);
      if (!same) { viol("mergevectors:merged-vertices-at-different-positions", "pair " + std::to_string(i)); clean = false; break; }
    }
  }

  // ---- 64-bit trip
  c.site("Manifold(MeshGL64):" + kind);
  Manifold m2(g);
  c.count("roundtrips64");
  if (m2.Status() != Manifold::Error::NoError) {
    viol(std::string("roundtrip64:status:") + vo::ErrName(m2.Status()), "");
    return;
  }
  MeshGL64 g2 = m2.GetMeshGL64();
  {
    std::string info;
    std::string d = compareMeshes(g, g2, false, info);
    if (!d.empty()) { viol("roundtrip64:" + d + ":" + runTag, info); clean = false; }
    // evidence only: the corner-value oracle does not depend on how property vertices are shared
    if (g2.vertProperties.size() != g.vertProperties.size()) c.count("roundtrips64_with_different_vertex_row_count");
    if (!(g2.tolerance >= g.tolerance) || !(m2.GetTolerance() >= m.GetTolerance())) {
      viol("roundtrip64:tolerance-smaller", vd::fmt(g.tolerance) + " -> " + vd::fmt(g2.tolerance));
      clean = false;
    }
  }
  bool tangentsEqual = true;
  if (tang || g2.halfedgeTangent.size() > 0) {
    c.count("tangent_comparisons");
    auto ta = tangentSet(g), tb = tangentSet(g2);
    tangentsEqual = ta == tb;
    if (!tangentsEqual) {
      size_t diff = 0;
      for (size_t i = 0; i < ta.size() && i < tb.size(); i++)
        if (ta[i] != tb[i]) diff++;
      std::string info = std::to_string(diff) + " of " + std::to_string(ta.size()) + " sorted (edge,tangent) records differ (" + std::to_string(tb.size()) + " after the trip)";
      // the statement's consequence: Refine before/after
      if (nt * 4 <= 40000) {
        c.site("Refine(2):" + kind);
        SurfaceBrief r1 = brief(m.Refine(2)), r2 = brief(m2.Refine(2));
        info += "; Refine(2): " + std::string(vo::ErrName(r1.st)) + "/" + std::to_string(r1.nt) + " tris vs " + vo::ErrName(r2.st) + "/" + std::to_string(r2.nt) + " tris, " + sameSurface(r1, r2, scale);
      }
      viol(std::string("roundtrip64:tangent-mismatch:") + runTag, info);
      clean = false;
    }
  }
  if (tangentsEqual && nt * 9 <= 30000 && (tang || c.rng.chance(0.25))) {
    int n = tang ? c.rng.range(2, 3) : 2;
    c.site("Refine(" + std::to_string(n) + "):" + kind);
    SurfaceBrief r1 = brief(m.Refine(n)), r2 = brief(m2.Refine(n));
    c.count(tang ? "refine_comparisons_with_tangents" : "refine_comparisons_faceted");
    std::string d = sameSurface(r1, r2, scale);
    if (!d.empty()) { viol(std::string("roundtrip64:refine-differs:tangents-equal:") + runTag, d); clean = false; }
  }

  // ---- 32-bit path
  {
    c.site("GetMeshGL:" + kind);
    MeshGL gf = m.GetMeshGL();
    c.count("roundtrips32");
    bool structural = gf.triVerts.size() == g.triVerts.size() && gf.numProp == g.numProp && gf.vertProperties.size() == g.vertProperties.size();
    if (!structural) { viol("roundtrip32:export-structure-differs-from-64bit", ""); clean = false; }
    else {
      double maxDisp = 0;
      bool posOK = true;
      for (size_t i = 0; i < g.vertProperties.size() / g.numProp && posOK; i++)
        for (int j = 0; j < 3; j++) {
          double x = g.vertProperties[i * g.numProp + j];
          double xf = gf.vertProperties[i * g.numProp + j];
          double d = std::fabs(xf - x);
          maxDisp = std::max(maxDisp, d);
          if (d > FLT_EPSILON * std::fabs(x) + FLT_MIN) posOK = false;
        }
      if (!posOK) { viol("roundtrip32:position-beyond-float-rounding", ""); clean = false; }
      if (!((double)gf.tolerance >= maxDisp)) {
        viol("roundtrip32:tolerance-below-float-rounding", "tolerance " + vd::fmt(gf.tolerance) + " < largest rounding displacement " + vd::fmt(maxDisp));
        clean = false;
      }
      bool idx = true;
      for (size_t i = 0; i < g.triVerts.size(); i++) idx = idx && gf.triVerts[i] == g.triVerts[i];
      if (!idx || gf.runOriginalID != g.runOriginalID || gf.runFlags != g.runFlags) { viol("roundtrip32:export-structure-differs-from-64bit", "indices/runs"); clean = false; }
    }
    // does float rounding merge distinct vertices of one triangle? then the re-import may legitimately drop it
    bool degenerateAfterRounding = false;
    for (size_t t = 0; t < nt && !degenerateAfterRounding; t++) {
      for (int a = 0; a < 3; a++) {
        size_t v0 = gf.triVerts[3 * t + a], v1 = gf.triVerts[3 * t + (a + 1) % 3];
        if (gf.vertProperties[v0 * gf.numProp] == gf.vertProperties[v1 * gf.numProp] && gf.vertProperties[v0 * gf.numProp + 1] == gf.vertProperties[v1 * gf.numProp + 1] &&
            gf.vertProperties[v0 * gf.numProp + 2] == gf.vertProperties[v1 * gf.numProp + 2])
          degenerateAfterRounding = true;
      }
    }
    c.site("Manifold(MeshGL):" + kind);
    Manifold mf(gf);
    if (mf.Status() != Manifold::Error::NoError) {
      viol(std::string("roundtrip32:status:") + vo::ErrName(mf.Status()), "");
      clean = false;
    } else {
      MeshGL gf2 = mf.GetMeshGL();
      std::string info;
      std::string d = compareMeshes(gf, gf2, true, info);
      if (!d.empty()) {
        if (degenerateAfterRounding && (d == "triangle-count" || d == levelName[L_POS])) c.count("roundtrip32_skipped_rounding_made_degenerate_triangles");
        else { viol("roundtrip32:" + d + ":" + runTag, info); clean = false; }
      }
      if (!(gf2.tolerance >= gf.tolerance)) { viol("roundtrip32:tolerance-smaller", vd::fmt(gf.tolerance) + " -> " + vd::fmt(gf2.tolerance)); clean = false; }
      if (gf.halfedgeTangent.size() == 12 * nt || !gf2.halfedgeTangent.empty()) {
        if (tangentSet(gf) != tangentSet(gf2)) {
          if (!degenerateAfterRounding) { viol(std::string("roundtrip32:tangent-mismatch:") + runTag, ""); clean = false; }
        }
      }
    }
  }

  // ---- Merge() after stripping the merge vectors of a seam-carrying export
  if (!g.mergeFromVert.empty()) {
    const size_t nv = g.vertProperties.size() / g.numProp;
    double tolM = std::max(g.tolerance, 1e-12 * scale);
    bool separated = nv <= 4000;
    if (separated) {
      // distinct positions pairwise farther apart than 2x the merge tolerance (else Merge() may legitimately fuse them)
      std::vector<std::array<double, 3>> p(nv);
      for (size_t i = 0; i < nv; i++) p[i] = {g.vertProperties[i * g.numProp], g.vertProperties[i * g.numProp + 1], g.vertProperties[i * g.numProp + 2]};
      std::sort(p.begin(), p.end());
      p.erase(std::unique(p.begin(), p.end()), p.end());
      for (size_t i = 0; i < p.size() && separated; i++)
        for (size_t j = i + 1; j < p.size() && p[j][0] - p[i][0] <= 2 * tolM; j++)
          if (std::fabs(p[j][1] - p[i][1]) <= 2 * tolM && std::fabs(p[j][2] - p[i][2]) <= 2 * tolM) { separated = false; break; }
    }
    if (!separated) c.count("merge_skipped_vertices_closer_than_tolerance");
    else {
      MeshGL64 g3 = g;
      g3.mergeFromVert.clear();
      g3.mergeToVert.clear();
      c.site("MeshGL64::Merge:" + kind);
      bool changed = g3.Merge();
      c.count("merge_trips");
      Manifold m3(g3);
      if (m3.Status() != Manifold::Error::NoError) {
        viol(std::string("merge:reimport-status:") + vo::ErrName(m3.Status()), std::string("Merge() returned ") + (changed ? "true" : "false") + ", " + std::to_string(g3.mergeFromVert.size()) + " merges rebuilt vs " + std::to_string(g.mergeFromVert.size()) + " exported");
        clean = false;
      } else {
        MeshGL64 g4 = m3.GetMeshGL64();
        auto ka = canon(g, L_POS), kb = canon(g4, L_POS);
        bool same = ka.size() == kb.size();
        for (size_t i = 0; same && i < ka.size(); i++) same = ka[i].k == kb[i].k;
        if (!same) { viol("merge:not-the-same-solid", std::to_string(ka.size()) + " vs " + std::to_string(kb.size()) + " triangles"); clean = false; }
      }
    }
  }

  // ---- OBJ (a sample of the harvested values; the obj stage stresses magnitudes)
  if (nt <= 1500 && c.rng.chance(0.35)) clean = runObj(c, m, g, how, program) && clean;

  {
    int b = 0;
    for (size_t x = nt; x > 1; x >>= 1) b++;
    c.sig(kind + "#" + runTag + (tang ? "T" : "") + (back ? "B" : "") + (normals ? "N" : "") + (g.mergeFromVert.empty() ? "" : "S") + (g.numProp > 3 ? "P" : "") + "#" + std::to_string(b / 2));
    if (runs >= 2) c.count("values_multi_run");
    if (tang) c.count("values_with_tangents");
    if (tang && runs >= 2) c.count("values_multi_run_with_tangents");
    if (back) c.count("values_with_backside_run");
    if (normals) c.count("values_with_normals_flag");
    if (!g.mergeFromVert.empty()) c.count("values_with_property_seams");
    c.maxi("max_tris", (long long)nt);
  }
}

// a cube or sphere whose every face/patch carries its own UV-like properties: property seams, split vertices
Manifold seamImport(vh::Rng& r, std::string& d) {
  Manifold base = r.chance(0.5) ? Manifold::Cube(vec3(r.uni(0.5, 2), r.uni(0.5, 2), r.uni(0.5, 2)), true) : Manifold::Sphere(r.uni(0.5, 2), 4 * r.range(1, 3));
  base = base.Rotate(r.uni(-180, 180), r.uni(-180, 180), r.uni(-180, 180)).Translate(vec3(r.uni(-1, 1), r.uni(-1, 1), r.uni(-1, 1)));
  MeshGL64 g = base.GetMeshGL64();
  const size_t nt = g.triVerts.size() / 3, nv0 = g.vertProperties.size() / 3;
  int extra = r.range(1, 4);
  MeshGL64 in;
  in.numProp = 3 + extra;
  in.triVerts.resize(3 * nt);
  // vertices are split per coplanar face (faceID of the export): one property row per (vertex, face)
  std::map<std::pair<uint64_t, uint64_t>, uint64_t> seen;
  std::vector<long> first(nv0, -1);
  for (size_t t = 0; t < nt; t++)
    for (int k = 0; k < 3; k++) {
      uint64_t v = g.triVerts[3 * t + k], f = g.faceID.empty() ? t : g.faceID[t];
      auto it = seen.find({v, f});
      if (it == seen.end()) {
        uint64_t nu = in.vertProperties.size() / in.numProp;
        for (int j = 0; j < 3; j++) in.vertProperties.push_back(g.vertProperties[3 * v + j]);
        for (int j = 0; j < extra; j++) in.vertProperties.push_back(r.uni(-1, 1) + (double)f);
        it = seen.emplace(std::make_pair(v, f), nu).first;
        if (first[v] < 0) first[v] = (long)nu;
        else { in.mergeFromVert.push_back(nu); in.mergeToVert.push_back((uint64_t)first[v]); }
      }
      in.triVerts[3 * t + k] = it->second;
    }
  if (r.chance(0.5)) {
    in.faceID.resize(nt);
    for (size_t t = 0; t < nt; t++) in.faceID[t] = g.faceID.empty() ? t : g.faceID[t];
  }
  if (r.chance(0.5)) {
    in.runOriginalID = {Manifold::ReserveIDs(1)};
    in.runIndex = {0, in.triVerts.size()};
  }
  d = "SeamImport(props=" + std::to_string(extra) + ",tris=" + std::to_string(nt) + ")";
  return Manifold(in);
}

void caseHarvest(vh::Ctx& c) {
  vd::Config cfg;
  cfg.maxTris = (size_t)c.iparam("maxTris", 1500);
  cfg.allowMinkowski = false;
  cfg.allowLevelSet = false;
  cfg.allowWarp = c.rng.chance(0.3);
  cfg.pCoincident = 0.15;
  cfg.pNearDegenerate = 0.05;
  const int steps = (int)c.iparam("steps", 9);
  vd::Gen g(c.rng, cfg);
  const int n = c.rng.range(std::max(3, steps / 2), steps);
  try {
    for (int s = 0; s < n; s++) {
      double u = c.rng.uni();
      if (u < 0.10) {
        std::string d;
        Manifold m = seamImport(c.rng, d);
        g.add(m, d, true, m.NumTri());
      } else if (u < 0.40 && g.pool.size() >= 2) {
        // the workloads the statement names: smoothing before / after Booleans, normals, seams
        int ia = g.pickBiased();
        Manifold a = g.pool[ia].m;
        std::string A = "v" + std::to_string(ia);
        int k = c.rng.range(0, 4);
        if (k == 0 && !g.pool[ia].hasTangents && g.pool[ia].trisHint <= cfg.maxTris) {
          double ang = c.rng.uni(0, 90), sm = c.rng.chance(0.5) ? 0.0 : c.rng.uni(0, 1);
          g.add(a.SmoothOut(ang, sm), A + ".SmoothOut(" + vd::fmt(ang) + "," + vd::fmt(sm) + ")", false, g.pool[ia].trisHint, true);
        } else if (k == 1) {
          int ib = g.pickIdx();
          if (g.pool[ia].trisHint + g.pool[ib].trisHint > cfg.maxTris) { g.step(); continue; }
          Box ba = a.BoundingBox(), bb = g.pool[ib].m.BoundingBox();
          double dx = ba.max.x - bb.min.x + c.rng.uni(0.1, 1.0);
          if (!std::isfinite(dx)) dx = 0;
          g.add(Manifold::Compose({a, g.pool[ib].m.Translate({dx, 0, 0})}), "Compose({" + A + ",v" + std::to_string(ib) + ".Translate(" + vd::fmt(dx) + ",0,0)})", false,
                g.pool[ia].trisHint + g.pool[ib].trisHint, g.pool[ia].hasTangents || g.pool[ib].hasTangents);
        } else if (k == 2) {
          g.add(a.CalculateNormals(0, c.rng.chance(0.5) ? 60.0 : c.rng.uni(0, 180)), A + ".CalculateNormals(0,..)", false, g.pool[ia].trisHint, g.pool[ia].hasTangents);
        } else if (k == 3) {
          int ib = g.pickIdx();
          if (g.pool[ia].trisHint + g.pool[ib].trisHint > cfg.maxTris) { g.step(); continue; }
          OpType ot = (OpType)c.rng.range(0, 2);
          vec3 t(c.rng.uni(-0.5, 0.5), c.rng.uni(-0.5, 0.5), c.rng.uni(-0.5, 0.5));
          static const char* on[] = {"Add", "Subtract", "Intersect"};
          g.add(a.Boolean(g.pool[ib].m.Translate(t), ot), A + ".Boolean(v" + std::to_string(ib) + ".Translate" + vd::fmt(t) + "," + on[(int)ot] + ")", false,
                (g.pool[ia].trisHint + g.pool[ib].trisHint) * 2);
        } else
          g.step();
      } else
        g.step();
      c.count("steps");
    }
    // harvest: every value of the pool
    const std::string program = g.programJson(40);
    for (size_t i = 0; i < g.pool.size(); i++) {
      if (g.pool[i].m.NumTri() > 6000) { c.count("values_skipped_too_large"); continue; }
      roundTrip(c, g.pool[i].m, g.pool[i].how, g.pool[i].hasTangents, program);
      c.heartbeat();
    }
  } catch (const std::exception& e) {
    c.violation(std::string("throw:") + e.what(), vh::J().s("what", e.what()).raw("program", g.programJson()).str());
    return;
  }
  if (c.idx % 41 == 0) c.sample(vh::J().i("idx", c.idx).raw("program", g.programJson(12)).str());
}

// OBJ with coordinate magnitudes 1e-12 .. 1e12: idx enumerates (exponent, shape)
void caseObj(vh::Ctx& c) {
  const int ex = (int)(c.idx % 25) - 12;
  const int shape = (int)((c.idx / 25) % 4);
  const double s = std::pow(10.0, ex);
  Manifold m;
  std::string d;
  switch (shape) {
    case 0: m = Manifold::Tetrahedron(); d = "Tetrahedron"; break;
    case 1: m = Manifold::Cube(vec3(c.rng.uni(0.5, 2), c.rng.uni(0.5, 2), c.rng.uni(0.5, 2)), true); d = "Cube"; break;
    case 2: m = Manifold::Sphere(c.rng.uni(0.5, 2), 8); d = "Sphere(8)"; break;
    default:
      m = Manifold::Cube(vec3(1.0), true) - Manifold::Sphere(0.65, 12).Translate(vec3(c.rng.uni(-0.3, 0.3), c.rng.uni(-0.3, 0.3), c.rng.uni(-0.3, 0.3)));
      d = "Cube-Sphere";
      break;
  }
  vec3 rot(c.rng.uni(-180, 180), c.rng.uni(-180, 180), c.rng.uni(-180, 180));
  vec3 t(c.rng.uni(-1, 1), c.rng.uni(-1, 1), c.rng.uni(-1, 1));
  m = m.Rotate(rot.x, rot.y, rot.z).Translate(t).Scale(vec3(s));
  d += ".Rotate" + vd::fmt(rot) + ".Translate" + vd::fmt(t) + ".Scale(1e" + std::to_string(ex) + ")";
  if (m.Status() != Manifold::Error::NoError || m.IsEmpty()) { c.count("obj_values_empty"); return; }
  MeshGL64 g = m.GetMeshGL64();
  c.count("obj_values");
  runObj(c, m, g, d, "[\"" + vh::jesc(d) + "\"]");
  c.sig("obj#" + std::to_string(ex) + "#" + std::to_string(shape));
}

}  // namespace

void vh_case(vh::Ctx& c) {
  if (c.stage == "obj") caseObj(c);
  else caseHarvest(c);
}
