// C03 — a CSG expression denotes one solid however it is built, shared or
// evaluated (DESIGN.md §4 C03).
//
// A case = one expression DAG over eps-valid leaves in general position
// (Boolean, BatchBoolean, affine-transform nodes; a sub-expression that is used
// more than once is reached through its own generic transform every time).
// The DENOTATION is computed by the harness alone: the DAG is expanded into a
// tree of *placed leaves* (leaf mesh as exported by the library once, moved by
// the harness with the accumulated transform in long double), every sample
// point is classified in every placed leaf by the solid-angle winding number,
// and the expression is folded with Boolean algebra. The same DAG is then
// evaluated by the library under >= 8 histories that differ in construction
// style (Boolean / operators / compound assignment / BatchBoolean flat, nested
// left, nested right, chunked), in which handles are kept alive (use_count),
// in how transform chains are applied (step by step or one composed matrix)
// and in when and through which call intermediates are forced. Every history
// must agree with the denotation at every sample farther than tau from every
// placed-leaf surface, all histories must have the same Status, and their
// volumes must agree within 2 tau x (total leaf area) + 1e-12 scale^3.
//
// Stages: "dags" (random DAGs) and "rewrites" (the rewrites named in the
// statement, by case index modulo 8: subtraction chains, nested vs flat
// unions/intersections, bbox-disjoint operands incl. exactly touching boxes,
// empty operands, transform chains over shared evaluated nodes, >1000
// children, very deep compound-assignment chains, destroy-without-evaluating).
#include <algorithm>
#include <functional>
#include <memory>

#include "common/oracles.h"
#include "common/vh.h"

using namespace manifold;
using vo::V3;

static const char* kOpName[3] = {"Add", "Subtract", "Intersect"};
static const char kOpChar[3] = {'+', '-', '^'};

static std::string f17(double x) {
  char b[40];
  snprintf(b, sizeof b, "%.17g", x);
  return b;
}

// ---------------------------------------------------------------- affine maps (harness side, long double)
struct Aff {
  long double a[3][4];
  static Aff I() {
    Aff r;
    for (int i = 0; i < 3; i++)
      for (int j = 0; j < 4; j++) r.a[i][j] = i == j ? 1 : 0;
    return r;
  }
  static Aff Of(const mat3x4& m) {  // m[c][r]
    Aff r;
    for (int i = 0; i < 3; i++)
      for (int j = 0; j < 4; j++) r.a[i][j] = m[j][i];
    return r;
  }
  V3 apply(V3 p) const {
    return {a[0][0] * p.x + a[0][1] * p.y + a[0][2] * p.z + a[0][3], a[1][0] * p.x + a[1][1] * p.y + a[1][2] * p.z + a[1][3],
            a[2][0] * p.x + a[2][1] * p.y + a[2][2] * p.z + a[2][3]};
  }
  // this after first
  Aff after(const Aff& f) const {
    Aff r;
    for (int i = 0; i < 3; i++)
      for (int j = 0; j < 4; j++) {
        long double s = 0;
        for (int k = 0; k < 3; k++) s += a[i][k] * f.a[k][j];
        if (j == 3) s += a[i][3];
        r.a[i][j] = s;
      }
    return r;
  }
  long double det() const {
    return a[0][0] * (a[1][1] * a[2][2] - a[1][2] * a[2][1]) - a[0][1] * (a[1][0] * a[2][2] - a[1][2] * a[2][0]) +
           a[0][2] * (a[1][0] * a[2][1] - a[1][1] * a[2][0]);
  }
};

// ---------------------------------------------------------------- leaves (eps-valid by construction)
static Polygons Star(vh::Rng& r, int n, double rad, bool hole) {
  Polygons p(1);
  for (int i = 0; i < n; i++) {
    double rr = rad * r.uni(0.55, 1.4), a = 2 * kPi * (i + r.uni(-0.2, 0.2)) / n;
    p[0].push_back({rr * cos(a), rr * sin(a)});
  }
  if (hole && n >= 5) {  // chord between outer vertices stays >= 0.44 rad from the centre
    p.emplace_back();
    int k = r.range(3, 6);
    for (int i = k - 1; i >= 0; i--) {
      double a = 2 * kPi * i / k + 0.3;
      p[1].push_back({0.25 * rad * cos(a), 0.25 * rad * sin(a)});
    }
  }
  return p;
}

static Manifold Primitive(vh::Rng& r, std::string& how, std::string& kind, bool small) {
  int k = small ? r.range(0, 2) : r.range(0, 9);
  switch (k) {
    case 0: case 1: {
      vec3 s(r.uni(0.4, 2), r.uni(0.4, 2), r.uni(0.4, 2));
      kind = "Cube";
      how = "Cube(" + f17(s.x) + "," + f17(s.y) + "," + f17(s.z) + ",center)";
      return Manifold::Cube(s, true);
    }
    case 2: kind = "Tet"; how = "Tetrahedron()"; return Manifold::Tetrahedron();
    case 3: case 4: {
      double rad = r.uni(0.4, 1.3);
      int seg = 4 * r.range(1, 4);
      kind = "Sphere";
      how = "Sphere(" + f17(rad) + "," + std::to_string(seg) + ")";
      return Manifold::Sphere(rad, seg);
    }
    case 5: {
      double h = r.uni(0.5, 2), r1 = r.uni(0.3, 1.2), r2 = r.chance(0.3) ? -1.0 : (r.chance(0.25) ? 0.0 : r.uni(0.3, 1.2));
      int seg = r.range(3, 12);
      kind = "Cylinder";
      how = "Cylinder(" + f17(h) + "," + f17(r1) + "," + f17(r2) + "," + std::to_string(seg) + ",center)";
      return Manifold::Cylinder(h, r1, r2, seg, true);
    }
    case 6: {
      int n = r.range(6, 24);
      std::vector<vec3> pts(n);
      for (auto& p : pts) p = vec3(r.uni(-1, 1), r.uni(-1, 1), r.uni(-1, 1));
      kind = "Hull";
      std::string s = "Hull({";
      for (auto& p : pts) s += "(" + f17(p.x) + "," + f17(p.y) + "," + f17(p.z) + ")";
      how = s + "})";
      return Manifold::Hull(pts);
    }
    case 7: case 8: {
      int n = r.range(3, 9);
      bool hole = r.chance(0.4);
      double rad = r.uni(0.5, 1.2);
      Polygons p = Star(r, n, rad, hole);
      double h = r.uni(0.4, 2);
      int div = r.range(0, 2);
      bool cone = p.size() == 1 && r.chance(0.2);
      double st = cone ? 0.0 : (r.chance(0.5) ? 1.0 : r.uni(0.4, 1.3));
      kind = "Extrude";
      std::string s = "Extrude({";
      for (auto& ring : p) { s += "["; for (auto& q : ring) s += "(" + f17(q.x) + "," + f17(q.y) + ")"; s += "]"; }
      how = s + "},h=" + f17(h) + ",div=" + std::to_string(div) + ",twist=0,scaleTop=" + f17(st) + ")";
      return Manifold::Extrude(p, h, div, 0.0, vec2(st));
    }
    default: {
      int n = r.range(3, 7);
      double rad = r.uni(0.3, 0.6);
      Polygons p = Star(r, n, rad, false);
      double off = rad * r.uni(1.7, 3.0);
      for (auto& q : p[0]) q.x += off;
      int seg = r.range(3, 10);
      double deg = r.chance(0.5) ? 360.0 : r.uni(30, 330);
      kind = "Revolve";
      std::string s = "Revolve({[";
      for (auto& q : p[0]) s += "(" + f17(q.x) + "," + f17(q.y) + ")";
      how = s + "]}," + std::to_string(seg) + "," + f17(deg) + ")";
      return Manifold::Revolve(p, seg, deg);
    }
  }
}

// random rotation matrix (unit quaternion), entries rounded to double: the
// library and the harness use exactly the same entries.
static mat3x4 RandRotation(vh::Rng& r) {
  long double q[4], n = 0;
  do {
    n = 0;
    for (auto& x : q) { x = r.uni(-1, 1); n += x * x; }
  } while (n < 0.05L || n > 1);
  n = sqrtl(n);
  for (auto& x : q) x /= n;
  long double w = q[0], x = q[1], y = q[2], z = q[3];
  long double R[3][3] = {{1 - 2 * (y * y + z * z), 2 * (x * y - z * w), 2 * (x * z + y * w)},
                         {2 * (x * y + z * w), 1 - 2 * (x * x + z * z), 2 * (y * z - x * w)},
                         {2 * (x * z - y * w), 2 * (y * z + x * w), 1 - 2 * (x * x + y * y)}};
  mat3x4 m;
  for (int i = 0; i < 3; i++)
    for (int j = 0; j < 3; j++) m[j][i] = (double)R[i][j];
  m[3] = vec3(0.0);
  return m;
}

struct Step {
  int kind;  // 0 Translate(v), 1 Scale(v), 2 Transform(mat)
  vec3 v;
  mat3x4 mat;
  mat3x4 asMat() const {
    if (kind == 2) return mat;
    mat3x4 m = la::identity;
    if (kind == 0) m[3] = v;
    else for (int i = 0; i < 3; i++) m[i][i] = v[i];
    return m;
  }
  std::string str() const {
    if (kind == 0) return ".Translate(" + f17(v.x) + "," + f17(v.y) + "," + f17(v.z) + ")";
    if (kind == 1) return ".Scale(" + f17(v.x) + "," + f17(v.y) + "," + f17(v.z) + ")";
    std::string s = ".Transform(";
    for (int c = 0; c < 4; c++)
      for (int k = 0; k < 3; k++) s += (c || k ? "," : "") + f17(mat[c][k]);
    return s + ")";
  }
};

// a generic transform as a chain of 1..4 steps; `spread` bounds the translation
static std::vector<Step> GenericSteps(vh::Rng& r, double spread) {
  std::vector<Step> s;
  int n = r.range(1, 4);
  bool rotated = false;
  for (int i = 0; i < n; i++) {
    Step st;
    int k = r.range(0, 3);
    if (k == 0) { st.kind = 0; st.v = vec3(r.uni(-spread, spread), r.uni(-spread, spread), r.uni(-spread, spread)); }
    else if (k == 1) {
      st.kind = 1;
      st.v = r.chance(0.5) ? vec3(r.uni(0.6, 1.6)) : vec3(r.uni(0.6, 1.6), r.uni(0.6, 1.6), r.uni(0.6, 1.6));
      if (r.chance(0.2)) st.v[r.range(0, 2)] *= -1;
    } else {
      st.kind = 2;
      st.mat = RandRotation(r);
      if (r.chance(0.3)) st.mat[3] = vec3(r.uni(-spread, spread), r.uni(-spread, spread), r.uni(-spread, spread));
      rotated = true;
    }
    s.push_back(st);
  }
  if (!rotated) {  // generic: always contains a random rotation
    Step st;
    st.kind = 2;
    st.mat = RandRotation(r);
    s.insert(s.begin() + r.below(s.size() + 1), st);
  }
  return s;
}

struct Leaf {
  Manifold m;
  std::string how, kind;
  vo::Soup soup;  // as exported once by the library (base pose of the leaf)
  bool empty = false;
};

static Leaf MakeLeaf(vh::Rng& r, double spread, bool small, double size = 1.0) {
  Leaf l;
  Manifold p = Primitive(r, l.how, l.kind, small);
  if (size != 1.0) { p = p.Scale(vec3(size)); l.how += ".Scale(" + f17(size) + ")"; }
  for (auto& st : GenericSteps(r, spread)) {
    p = st.kind == 0 ? p.Translate(st.v) : st.kind == 1 ? p.Scale(st.v) : p.Transform(st.mat);
    l.how += st.str();
  }
  l.m = p;
  l.soup = vo::MakeSoup(l.m.GetMeshGL64());
  return l;
}
static Leaf EmptyLeaf() {
  Leaf l;
  l.m = Manifold();
  l.how = "Manifold()";
  l.kind = "Empty";
  l.empty = true;
  return l;
}
static Leaf BoxLeaf(vec3 lo, vec3 size) {  // axis-aligned integer box (for exactly touching bounding boxes)
  Leaf l;
  l.m = Manifold::Cube(size).Translate(lo);
  l.how = "Cube(" + f17(size.x) + "," + f17(size.y) + "," + f17(size.z) + ").Translate(" + f17(lo.x) + "," + f17(lo.y) + "," + f17(lo.z) + ")";
  l.kind = "Box";
  l.soup = vo::MakeSoup(l.m.GetMeshGL64());
  return l;
}

// ---------------------------------------------------------------- expression DAG
enum Kind { KLeaf, KBool, KBatch, KXform };
struct Node {
  Kind kind = KLeaf;
  int op = 0;
  std::vector<int> kids;
  std::vector<Step> steps;
  int leaf = -1;
  int nParents = 0;
};
struct Dag {
  std::vector<Leaf> leaves;
  std::vector<Node> nodes;  // topological: kids before parents; root = back()
  std::string family;
  int addLeafNode(int leaf) { Node n; n.kind = KLeaf; n.leaf = leaf; nodes.push_back(n); return (int)nodes.size() - 1; }
  int addBool(int op, int a, int b) { Node n; n.kind = KBool; n.op = op; n.kids = {a, b}; nodes.push_back(n); return (int)nodes.size() - 1; }
  int addBatch(int op, std::vector<int> ks) { Node n; n.kind = KBatch; n.op = op; n.kids = std::move(ks); nodes.push_back(n); return (int)nodes.size() - 1; }
  int addXform(int k, std::vector<Step> st) { Node n; n.kind = KXform; n.kids = {k}; n.steps = std::move(st); nodes.push_back(n); return (int)nodes.size() - 1; }
  void countParents() {
    for (auto& n : nodes) n.nParents = 0;
    for (auto& n : nodes)
      for (int k : n.kids) nodes[k].nParents++;
  }
  std::string str(int i, int depth = 0) const {
    const Node& n = nodes[i];
    if (depth > 12) return "...";
    if (n.kind == KLeaf) return "L" + std::to_string(n.leaf);
    if (n.kind == KXform) {
      std::string s = "n" + std::to_string(n.kids[0]) + "{" + str(n.kids[0], depth + 1) + "}";
      for (auto& st : n.steps) s += st.kind == 0 ? ".T" : st.kind == 1 ? ".S" : ".M";
      return s;
    }
    std::string s = n.kind == KBatch ? std::string("Batch") + kOpName[n.op] + "(" : "(";
    for (size_t k = 0; k < n.kids.size(); k++) {
      if (k) s += n.kind == KBatch ? "," : std::string(" ") + kOpChar[n.op] + " ";
      if (k > 6) { s += "...x" + std::to_string(n.kids.size()); break; }
      s += str(n.kids[k], depth + 1);
    }
    return s + ")";
  }
  // shape only (for signatures)
  std::string shape(int i, int depth = 0) const {
    const Node& n = nodes[i];
    if (depth > 10) return "~";
    if (n.kind == KLeaf) return leaves[n.leaf].empty ? "0" : "l";
    if (n.kind == KXform) return "x" + shape(n.kids[0], depth + 1);
    std::string s = n.kind == KBatch ? std::string("B") + kOpChar[n.op] + "[" : std::string("(") + kOpChar[n.op];
    size_t lim = std::min<size_t>(n.kids.size(), 6);
    for (size_t k = 0; k < lim; k++) s += shape(n.kids[k], depth + 1);
    if (n.kids.size() > lim) s += "*";
    return s + (n.kind == KBatch ? "]" : ")");
  }
};

// ---------------------------------------------------------------- denotation
struct Placed {
  int leaf;
  Aff M;
  vo::Soup soup;
  long double area = 0;
};
struct TExpr {  // tree over placed leaves
  int op = -1;  // -1: placed leaf `idx`
  int idx = -1;
  std::vector<TExpr> kids;
};
struct Denotation {
  std::vector<Placed> placed;
  TExpr tree;
  bool tooBig = false;
};

static vo::Soup MoveSoup(const vo::Soup& s, const Aff& M) {
  vo::Soup o;
  o.v.resize(s.v.size());
  for (size_t i = 0; i < s.v.size(); i++) {
    o.v[i] = M.apply(s.v[i]);
    o.lo = {std::min(o.lo.x, o.v[i].x), std::min(o.lo.y, o.v[i].y), std::min(o.lo.z, o.v[i].z)};
    o.hi = {std::max(o.hi.x, o.v[i].x), std::max(o.hi.y, o.v[i].y), std::max(o.hi.z, o.v[i].z)};
    o.scale = std::max({o.scale, fabsl(o.v[i].x), fabsl(o.v[i].y), fabsl(o.v[i].z)});
  }
  o.t = s.t;
  if (M.det() < 0)
    for (auto& t : o.t) std::swap(t[1], t[2]);  // a mirror image keeps its outward orientation
  return o;
}

static TExpr Expand(const Dag& d, int i, const Aff& acc, Denotation& out, size_t cap) {
  const Node& n = d.nodes[i];
  TExpr t;
  if (out.tooBig) return t;
  if (n.kind == KLeaf) {
    if (out.placed.size() >= cap) { out.tooBig = true; return t; }
    Placed p;
    p.leaf = n.leaf;
    p.M = acc;
    if (!d.leaves[n.leaf].empty) {
      p.soup = MoveSoup(d.leaves[n.leaf].soup, acc);
      p.area = vo::SoupArea(p.soup);
    }
    t.idx = (int)out.placed.size();
    out.placed.push_back(std::move(p));
    return t;
  }
  if (n.kind == KXform) {
    Aff m = Aff::I();
    for (auto& st : n.steps) m = Aff::Of(st.asMat()).after(m);
    return Expand(d, n.kids[0], acc.after(m), out, cap);
  }
  t.op = n.op;
  for (int k : n.kids) t.kids.push_back(Expand(d, k, acc, out, cap));
  return t;
}

static bool Fold(const TExpr& t, const std::vector<char>& in) {
  if (t.op < 0) return in[t.idx] != 0;
  bool v = Fold(t.kids[0], in);
  for (size_t i = 1; i < t.kids.size(); i++) {
    bool k = Fold(t.kids[i], in);
    v = t.op == 0 ? (v || k) : t.op == 1 ? (v && !k) : (v && k);
  }
  return v;
}
// iterative-depth safe version not needed: deep chains are represented as one
// wide n-ary node in the denotation tree (see DeepChain).

// ---------------------------------------------------------------- histories
enum ForceMode { RootOnly, Eager, SharedFirst, SharedLast, ParentsInterleaved, RandomForce, SparseEager };
static const char* kForceName[] = {"root-only", "all-eager", "shared-first", "shared-last", "parents-interleaved", "random-forcing", "sparse-eager"};
struct History {
  ForceMode force = RootOnly;
  bool keepAlive = false;  // keep every intermediate handle alive until the end
  int boolStyle = 0;       // 0 Boolean(), 1 operators, 2 compound assignment on a copy, 3 BatchBoolean({a,b}), 4 per-node random
  int batchStyle = 0;      // 0 flat, 1 nested left (compound assignment), 2 nested right, 3 chunked, 4 per-node random
  int xformStyle = 0;      // 0 step by step, 1 one composed matrix, 2 per-node random
  uint64_t seed = 1;
  std::string name() const {
    static const char* bs[] = {"Boolean()", "operators", "compound-assign", "Batch2", "mixed"};
    static const char* ts[] = {"flat", "nested-left", "nested-right", "chunked", "mixed"};
    static const char* xs[] = {"chain", "composed", "mixed"};
    return std::string(kForceName[force]) + (keepAlive ? "/kept-alive" : "/temporaries") + "/bool=" + bs[boolStyle] + "/batch=" + ts[batchStyle] + "/xform=" + xs[xformStyle];
  }
  // coordinate-free class for violation keys
  std::string cls() const { return std::string(kForceName[force]) + (keepAlive ? "/kept-alive" : "/temporaries"); }
};

static void Force(vh::Ctx& c, const Manifold& m, int call) {
  switch (call % 8) {
    case 0: (void)m.Status(); break;
    case 1: (void)m.NumTri(); break;
    case 2: (void)m.GetMeshGL64(); break;
    case 3: (void)m.Volume(); break;
    case 4: (void)m.BoundingBox(); break;
    case 5: (void)m.IsEmpty(); break;
    case 6: (void)m.NumVert(); break;
    default: (void)m.GetTolerance(); break;
  }
  c.count("forcing_calls");
}

static Manifold ApplyBool(const Manifold& a, const Manifold& b, int op, int style) {
  switch (style) {
    case 1: return op == 0 ? a + b : op == 1 ? a - b : a ^ b;
    case 2: {
      Manifold t = a;  // the copy dies at the end of this scope: use_count effects
      if (op == 0) t += b; else if (op == 1) t -= b; else t ^= b;
      return t;
    }
    case 3: return Manifold::BatchBoolean({a, b}, (OpType)op);
    default: return a.Boolean(b, (OpType)op);
  }
}

static Manifold ApplyBatch(const std::vector<Manifold>& ms, int op, int style, vh::Rng& r) {
  if (ms.size() < 2) style = 0;
  switch (style) {
    case 1: {  // ((k0 op k1) op k2) ... via compound assignment: temporaries die immediately
      Manifold t = ms[0];
      for (size_t i = 1; i < ms.size(); i++) {
        if (op == 0) t += ms[i]; else if (op == 1) t -= ms[i]; else t ^= ms[i];
      }
      return t;
    }
    case 2: {
      if (op == 1) {  // k0 - (k1 + (k2 + ...))
        Manifold acc = ms.back();
        for (size_t i = ms.size() - 1; i-- > 1;) acc = ms[i] + acc;
        return ms[0] - acc;
      }
      Manifold acc = ms.back();
      for (size_t i = ms.size() - 1; i-- > 0;) acc = ms[i].Boolean(acc, (OpType)op);
      return acc;
    }
    case 3: {  // chunked: part of the operands pre-batched
      if (ms.size() < 3) return Manifold::BatchBoolean(ms, (OpType)op);
      size_t cut = 1 + r.below(ms.size() - 2);  // 1..n-2
      if (op == 1) {
        // k0 - k1..cut  - rest  ==  Batch-(k0, Batch+(k1..cut), rest...)
        std::vector<Manifold> neg(ms.begin() + 1, ms.begin() + 1 + cut), outer = {ms[0], Manifold::BatchBoolean(neg, OpType::Add)};
        for (size_t i = 1 + cut; i < ms.size(); i++) outer.push_back(ms[i]);
        return Manifold::BatchBoolean(outer, OpType::Subtract);
      }
      std::vector<Manifold> first(ms.begin(), ms.begin() + cut + 1), outer = {Manifold::BatchBoolean(first, (OpType)op)};
      for (size_t i = cut + 1; i < ms.size(); i++) outer.push_back(ms[i]);
      return Manifold::BatchBoolean(outer, (OpType)op);
    }
    default: return Manifold::BatchBoolean(ms, (OpType)op);
  }
}

static Manifold ApplyXform(const Manifold& k, const std::vector<Step>& steps, int style) {
  if (style == 1) {
    // one composed matrix, multiplied in double by the harness (4x4 product)
    double M[3][4] = {{1, 0, 0, 0}, {0, 1, 0, 0}, {0, 0, 1, 0}};
    for (auto& st : steps) {
      mat3x4 s = st.asMat();
      double N[3][4];
      for (int i = 0; i < 3; i++)
        for (int j = 0; j < 4; j++) {
          double acc = 0;
          for (int q = 0; q < 3; q++) acc += s[q][i] * M[q][j];
          if (j == 3) acc += s[3][i];
          N[i][j] = acc;
        }
      memcpy(M, N, sizeof M);
    }
    mat3x4 m;
    for (int i = 0; i < 3; i++)
      for (int j = 0; j < 4; j++) m[j][i] = M[i][j];
    return k.Transform(m);
  }
  Manifold t = k;
  for (auto& st : steps) t = st.kind == 0 ? t.Translate(st.v) : st.kind == 1 ? t.Scale(st.v) : t.Transform(st.mat);
  return t;
}

struct Result {
  Manifold::Error status = Manifold::Error::NoError;
  vo::Soup soup;
  long double vol = 0;
  double tol = 0;
  size_t nTri = 0;
};

static Result RunHistory(vh::Ctx& c, const Dag& d, const History& h) {
  vh::Rng r(h.seed);
  const size_t n = d.nodes.size();
  std::vector<Manifold> vals(n);
  std::vector<int> remaining(n);
  for (size_t i = 0; i < n; i++) remaining[i] = d.nodes[i].nParents;
  // forcing schedule: after building node i, force these (node, call)
  std::vector<std::vector<std::pair<int, int>>> after(n);
  std::vector<int> lastNeeded(n, -1);  // latest build step after which the handle is still forced
  auto sched = [&](size_t at, int node) {
    after[at].push_back({node, (int)r.below(8)});
    lastNeeded[node] = std::max(lastNeeded[node], (int)at);
  };
  std::vector<std::vector<int>> parents(n);
  for (size_t i = 0; i < n; i++)
    for (int k : d.nodes[i].kids) parents[k].push_back((int)i);
  auto isOp = [&](size_t i) { return d.nodes[i].kind != KLeaf; };
  for (size_t i = 0; i + 1 < n; i++) {
    switch (h.force) {
      case Eager: if (isOp(i)) sched(i, (int)i); break;
      case SparseEager: if (isOp(i) && i % 97 == 0) sched(i, (int)i); break;
      case SharedFirst: if (isOp(i) && d.nodes[i].nParents >= 2) sched(i, (int)i); break;
      case SharedLast:
        if (isOp(i) && d.nodes[i].nParents >= 2) {
          // after its LAST parent is built: force the first parent, then the shared node itself
          sched(parents[i].back(), parents[i].front());
          sched(parents[i].back(), (int)i);
        }
        break;
      case ParentsInterleaved:
        if (isOp(i) && d.nodes[i].nParents >= 2)
          for (int p : parents[i]) sched(p, p);  // each parent forced right after it is built
        break;
      case RandomForce:
        if (r.chance(0.3)) {
          int j = (int)r.below(i + 1);
          if (isOp(j)) sched(i, j);
        }
        break;
      default: break;
    }
  }
  for (size_t i = 0; i < n; i++) {
    const Node& nd = d.nodes[i];
    int bs = h.boolStyle == 4 ? (int)r.below(4) : h.boolStyle;
    int ts = h.batchStyle == 4 ? (int)r.below(4) : h.batchStyle;
    int xs = h.xformStyle == 2 ? (int)r.below(2) : h.xformStyle;
    switch (nd.kind) {
      case KLeaf: vals[i] = d.leaves[nd.leaf].m; break;
      case KBool: vals[i] = ApplyBool(vals[nd.kids[0]], vals[nd.kids[1]], nd.op, bs); break;
      case KBatch: {
        std::vector<Manifold> ms;
        ms.reserve(nd.kids.size());
        for (int k : nd.kids) ms.push_back(vals[k]);
        vals[i] = ApplyBatch(ms, nd.op, ts, r);
        break;
      }
      case KXform: vals[i] = ApplyXform(vals[nd.kids[0]], nd.steps, xs); break;
    }
    for (auto& f : after[i]) Force(c, vals[f.first], f.second);
    if (!h.keepAlive) {
      for (int k : nd.kids)
        if (--remaining[k] == 0 && lastNeeded[k] <= (int)i) vals[k] = Manifold();
      for (auto& f : after[i])
        if (remaining[f.first] == 0 && lastNeeded[f.first] <= (int)i && f.first != (int)i) vals[f.first] = Manifold();
    }
    if ((i & 1023) == 1023) c.heartbeat();
  }
  Result res;
  const Manifold& root = vals[n - 1];
  res.status = root.Status();
  MeshGL64 g = root.GetMeshGL64();
  res.soup = vo::MakeSoup(g);
  res.nTri = res.soup.t.size();
  res.vol = vo::SoupVolume(res.soup);
  res.tol = root.GetTolerance();
  c.count("histories_evaluated");
  return res;
}

// ---------------------------------------------------------------- samples
struct Sample {
  V3 p;
  int mult;
  char origin;
  bool usable = true;
  bool want = false;
};
static bool OutsideBox(const vo::Soup& s, V3 p, long double margin) {
  return p.x < s.lo.x - margin || p.y < s.lo.y - margin || p.z < s.lo.z - margin ||
         p.x > s.hi.x + margin || p.y > s.hi.y + margin || p.z > s.hi.z + margin;
}
static void SurfaceSamples(vh::Rng& r, const vo::Soup& s, long double tau, int nTris, char origin, std::vector<Sample>& out) {
  if (s.t.empty()) return;
  for (int n = 0; n < nTris; n++) {
    auto& tr = s.t[r.below(s.t.size())];
    V3 a = s.v[tr[0]], b = s.v[tr[1]], d = s.v[tr[2]];
    V3 nrm = vo::cross(b - a, d - a);
    long double len = vo::norm(nrm);
    if (!(len > 0)) continue;
    nrm = nrm * (1 / len);
    V3 base = r.chance(0.5) ? (a + b + d) * (1.0L / 3) : s.v[tr[r.below(3)]];
    if (r.chance(0.2)) base = (a + b) * 0.5L;
    for (int m : {2, 10, 100})
      for (int sg : {-1, 1}) {
        Sample q;
        q.p = base + nrm * (tau * (long double)(m * sg));
        q.mult = m;
        q.origin = origin;
        out.push_back(q);
      }
  }
}

// Resolve against all placed leaves: band + classification + fold.
static void Resolve(vh::Ctx& c, Sample& q, const Denotation& dn, long double tau) {
  std::vector<char> in(dn.placed.size(), 0);
  for (size_t i = 0; i < dn.placed.size(); i++) {
    const vo::Soup& s = dn.placed[i].soup;
    if (s.empty() || OutsideBox(s, q.p, tau)) continue;
    if (vo::DistToSurface(s, q.p) <= tau) { q.usable = false; c.count("skipped_in_band"); return; }
  }
  for (size_t i = 0; i < dn.placed.size(); i++) {
    const vo::Soup& s = dn.placed[i].soup;
    if (s.empty() || OutsideBox(s, q.p, 0)) continue;
    vo::Cls cl = vo::Classify(s, q.p);
    if (!cl.integral) { q.usable = false; c.count("skipped_nonintegral_winding"); return; }
    in[i] = cl.w > 0;
  }
  q.want = Fold(dn.tree, in);
}

// ---------------------------------------------------------------- the check of one DAG
static std::vector<History> StandardHistories(vh::Rng& r, bool hasShared, int extra) {
  std::vector<History> hs;
  auto add = [&](ForceMode f, bool keep, int b, int t, int x) {
    History h;
    h.force = f; h.keepAlive = keep; h.boolStyle = b; h.batchStyle = t; h.xformStyle = x; h.seed = r.next();
    hs.push_back(h);
  };
  add(RootOnly, false, 0, 0, 0);             // lazy, temporaries die: everything collapsible
  add(RootOnly, true, 1, 0, 0);              // lazy, every handle alive: nothing collapsible
  add(Eager, true, 0, 0, 0);                 // every intermediate forced
  add(Eager, false, 2, 1, 1);                // forced, compound assignment, composed matrices
  add(hasShared ? SharedFirst : RandomForce, false, 1, 2, 0);
  add(hasShared ? SharedLast : RandomForce, true, 0, 3, 1);
  add(hasShared ? ParentsInterleaved : RandomForce, false, 4, 4, 2);
  add(RootOnly, false, 3, 1, 1);             // nested-left chains of compound assignments, Batch2
  add(RootOnly, false, 2, 2, 0);             // nested right
  for (int i = 0; i < extra; i++) add((ForceMode)r.below(6), r.chance(0.5), 4, 4, 2);
  return hs;
}

struct CheckOpts {
  int leafTris = 4, ownTris = 3, strata = 3;
  size_t capPlaced = 64;
};

static bool CheckDag(vh::Ctx& c, Dag& d, const std::vector<History>& hs, const CheckOpts& o) {
  d.countParents();
  Denotation dn;
  dn.tree = Expand(d, (int)d.nodes.size() - 1, Aff::I(), dn, o.capPlaced);
  if (dn.tooBig) { c.count("dag_too_big_skipped"); return true; }
  c.site("c03:" + d.family);
  std::vector<Result> rs;
  for (auto& h : hs) {
    c.site("c03:" + d.family + ":" + h.cls());
    rs.push_back(RunHistory(c, d, h));
    c.heartbeat();
  }
  auto witness = [&](const std::string& extra) {
    std::string ls = "[";
    for (size_t i = 0; i < d.leaves.size() && i < 24; i++) ls += (i ? ",\"" : "\"") + vh::jesc(d.leaves[i].how.substr(0, 600)) + "\"";
    ls += "]";
    std::string hn = "[";
    for (size_t i = 0; i < hs.size(); i++) hn += (i ? ",\"" : "\"") + hs[i].name() + "\"";
    hn += "]";
    return vh::J().s("family", d.family).s("expression", d.str((int)d.nodes.size() - 1).substr(0, 1500)).raw("leaves", ls)
        .raw("histories", hn).s("detail", extra).str();
  };
  bool ok = true;
  // (1) Status
  for (size_t i = 1; i < rs.size(); i++)
    if (rs[i].status != rs[0].status) {
      c.violation("c03:" + d.family + ":status-differs:" + hs[i].cls(),
                  witness(std::string("history 0 ") + vo::ErrName(rs[0].status) + " vs history " + std::to_string(i) + " " + vo::ErrName(rs[i].status)));
      ok = false;
      break;
    }
  // tau: the largest result tolerance + rounding
  long double scale = 0, area = 0;
  double tol = 0;
  for (auto& p : dn.placed) { scale = std::max(scale, p.soup.scale); area += p.area; }
  for (auto& x : rs) { scale = std::max(scale, x.soup.scale); if (std::isfinite(x.tol)) tol = std::max(tol, x.tol); }
  // an empty result reports no meaningful tolerance: never use a band narrower than the leaves' own
  for (auto& l : d.leaves) { double t = l.empty ? 0.0 : l.m.GetTolerance(); if (std::isfinite(t)) tol = std::max(tol, t); }
  long double tau = (long double)tol + 8 * 2.220446049250313e-16L * scale;
  // (2) samples
  std::vector<Sample> ss;
  int per = std::max(1, (int)(o.leafTris * 12 / std::max<size_t>(12, dn.placed.size())));
  for (auto& p : dn.placed) SurfaceSamples(c.rng, p.soup, tau, dn.placed.size() > 40 ? (c.rng.chance(60.0 / dn.placed.size()) ? 1 : 0) : per, 'L', ss);
  for (auto& x : rs) SurfaceSamples(c.rng, x.soup, tau, o.ownTris, 'R', ss);
  V3 lo{1e300L, 1e300L, 1e300L}, hi{-1e300L, -1e300L, -1e300L};
  for (auto& p : dn.placed) {
    if (p.soup.empty()) continue;
    lo = {std::min(lo.x, p.soup.lo.x), std::min(lo.y, p.soup.lo.y), std::min(lo.z, p.soup.lo.z)};
    hi = {std::max(hi.x, p.soup.hi.x), std::max(hi.y, p.soup.hi.y), std::max(hi.z, p.soup.hi.z)};
  }
  if (lo.x <= hi.x) {
    V3 pad = (hi - lo) * 0.05L;
    lo = lo - pad; hi = hi + pad;
    for (int i = 0; i < o.strata; i++)
      for (int j = 0; j < o.strata; j++)
        for (int k = 0; k < o.strata; k++) {
          Sample q;
          q.p = {lo.x + (hi.x - lo.x) * (long double)((i + c.rng.uni()) / o.strata), lo.y + (hi.y - lo.y) * (long double)((j + c.rng.uni()) / o.strata),
                 lo.z + (hi.z - lo.z) * (long double)((k + c.rng.uni()) / o.strata)};
          q.mult = 0;
          q.origin = 'S';
          ss.push_back(q);
        }
  }
  size_t nres = 0;
  for (auto& q : ss) {
    Resolve(c, q, dn, tau);
    if ((++nres & 63) == 0) c.heartbeat();
  }
  long decided = 0;
  for (auto& q : ss) {
    if (!q.usable) continue;
    std::vector<int> got(rs.size(), 0), w(rs.size(), 0);
    bool skip = false;
    for (size_t i = 0; i < rs.size(); i++) {
      const vo::Soup& s = rs[i].soup;
      if (s.empty() || OutsideBox(s, q.p, 0)) { got[i] = 0; continue; }
      vo::Cls cl = vo::Classify(s, q.p);
      if (!cl.integral) { skip = true; c.count("skipped_nonintegral_winding"); break; }
      w[i] = cl.w;
      got[i] = cl.w == 1 ? 1 : cl.w == 0 ? 0 : 2;  // 2: neither the inside nor the outside of a solid
    }
    if (skip) continue;
    decided++;
    c.count("points_decided");
    c.count("history_point_comparisons", (long long)rs.size());
    bool allSame = true;
    for (size_t i = 1; i < rs.size(); i++) allSame = allSame && got[i] == got[0];
    for (size_t i = 0; i < rs.size() && ok; i++) {
      if (got[i] == (q.want ? 1 : 0)) continue;
      long double dmin = 1e300L;
      for (auto& p : dn.placed)
        if (!p.soup.empty()) dmin = std::min(dmin, vo::DistToSurface(p.soup, q.p));
      std::string sev = dmin > 1e-6L * scale ? "far" : "near-tau";
      std::string kind = allSame ? "all-histories-disagree-with-denotation" : "history-dependent:" + hs[i].cls();
      std::string gs = "[";
      for (size_t k = 0; k < rs.size(); k++) gs += (k ? "," : "") + std::to_string(w[k]);
      gs += "]";
      c.violation("c03:" + d.family + ":" + kind + ":" + (q.want ? "want-in" : "want-out") + (got[i] == 2 ? ":result-winding-not-0-or-1" : "") + ":" + sev,
                  witness("point (" + f17((double)q.p.x) + "," + f17((double)q.p.y) + "," + f17((double)q.p.z) + ") origin " + std::string(1, q.origin) +
                          " tau_multiple " + std::to_string(q.mult) + " tau " + f17((double)tau) + " dist_to_nearest_leaf_surface " + f17((double)dmin) +
                          " denotation " + (q.want ? "inside" : "outside") + " windings per history " + gs + " first offending history " + std::to_string(i)));
      ok = false;
    }
  }
  // (3) volumes
  long double bound = 2 * tau * area + 1e-12L * scale * scale * scale;
  for (size_t i = 1; i < rs.size() && ok; i++) {
    c.count("volume_pairs_compared");
    if (fabsl(rs[i].vol - rs[0].vol) > bound) {
      c.violation("c03:" + d.family + ":volume-differs:" + hs[i].cls(),
                  witness("history 0 volume " + f17((double)rs[0].vol) + " vs history " + std::to_string(i) + " " + f17((double)rs[i].vol) + " bound " + f17((double)bound)));
      ok = false;
    }
  }
  c.count("dags_checked");
  c.maxi("max_placed_leaves", (long long)dn.placed.size());
  c.maxi("max_result_tris", (long long)rs[0].nTri);
  if (decided > 0 && rs[0].nTri > 0) {
    c.count("nontrivial_dags");
    c.sig(d.family + ":" + d.shape((int)d.nodes.size() - 1));
  }
  if (rs[0].nTri == 0) c.count("empty_result_dags");
  if (c.idx % 37 == 0)
    c.sample(vh::J().s("family", d.family).i("idx", c.idx).s("expression", d.str((int)d.nodes.size() - 1).substr(0, 400)).i("histories", (long long)hs.size())
                 .i("placed_leaves", (long long)dn.placed.size()).i("points_decided", decided).i("result_tris", (long long)rs[0].nTri).d("tau", (double)tau).str());
  return ok;
}

// ---------------------------------------------------------------- random DAGs
static void RandomDag(vh::Ctx& c) {
  vh::Rng& r = c.rng;
  Dag d;
  d.family = "dag";
  const int maxLeaves = (int)c.iparam("maxLeaves", 10);
  const int nl = r.range(3, maxLeaves);
  for (int i = 0; i < nl; i++) d.leaves.push_back(r.chance(0.04) ? EmptyLeaf() : MakeLeaf(r, 0.9, false));
  std::vector<int> open;  // nodes without a parent yet
  std::vector<int> used;  // nodes that already have a parent (candidates for sharing)
  for (int i = 0; i < nl; i++) open.push_back(d.addLeafNode(i));
  std::vector<size_t> weight(d.nodes.size(), 1);  // size of each node's tree expansion
  size_t expanded = nl;
  auto pickOp = [&]() { double u = r.uni(); return u < 0.5 ? 0 : u < 0.82 ? 1 : 2; };
  auto fromOpen = [&]() {
    size_t k = r.below(open.size());
    int v = open[k];
    open.erase(open.begin() + k);
    used.push_back(v);
    return v;
  };
  // a node that already has a parent is only ever reused through its own fresh generic transform
  auto sharedUse = [&]() {
    int s = used[r.below(used.size())];
    int x = d.addXform(s, GenericSteps(r, 0.7));
    weight.push_back(weight[s]);
    expanded += weight[s];
    return x;
  };
  auto operand = [&](bool mustBeOpen) {
    if (!mustBeOpen && !used.empty() && expanded < 40 && (open.empty() || r.chance(0.3))) return sharedUse();
    return fromOpen();
  };
  for (int step = 0; step < 60 && (open.size() > 1 || d.nodes[open[0]].kind == KLeaf); step++) {
    int kind = r.range(0, 9);
    if (kind <= 4) {
      int a = operand(true);
      int b = (open.empty() && (used.size() < 2 || expanded >= 40)) ? -1 : operand(false);
      if (b < 0) { open.push_back(a); used.pop_back(); break; }
      int op = pickOp();
      int nn = r.chance(0.5) ? d.addBool(op, a, b) : d.addBool(op, b, a);
      weight.push_back(weight[a] + weight[b]);
      open.push_back(nn);
    } else if (kind <= 7) {
      if (open.size() < 2) continue;
      int k = r.range(2, std::min<int>(5, (int)open.size() + 1));
      std::vector<int> ks;
      size_t w = 0;
      for (int i = 0; i < k; i++) {
        if (open.empty() && (used.empty() || expanded >= 40)) break;
        ks.push_back(operand(i == 0));
        w += weight[ks.back()];
      }
      if (ks.size() < 2) { for (int x : ks) open.push_back(x); continue; }
      for (size_t i = ks.size() - 1; i > 0; i--) std::swap(ks[i], ks[r.below(i + 1)]);
      int nn = d.addBatch(pickOp(), ks);
      weight.push_back(w);
      open.push_back(nn);
    } else {
      int v = fromOpen();
      int nn = d.addXform(v, GenericSteps(r, 0.5));
      weight.push_back(weight[v]);
      open.push_back(nn);
    }
  }
  if (open.size() > 1) {
    std::vector<int> ks = open;
    d.addBatch(r.chance(0.7) ? 0 : 1, ks);
  } else if (open[0] != (int)d.nodes.size() - 1) {
    // the surviving open node must be the root = last node: wrap it
    d.addXform(open[0], GenericSteps(r, 0.3));
  }
  d.countParents();
  bool shared = false;
  for (auto& n : d.nodes) shared = shared || (n.nParents >= 2 && n.kind != KLeaf);
  if (shared) c.count("dags_with_shared_op_nodes");
  CheckOpts o;
  o.leafTris = (int)c.iparam("leafTris", 4);
  o.ownTris = (int)c.iparam("ownTris", 3);
  auto hs = StandardHistories(r, shared, (int)c.iparam("extraHistories", 1));
  CheckDag(c, d, hs, o);
}

// ---------------------------------------------------------------- explicit rewrites
static void Rewrites(vh::Ctx& c) {
  vh::Rng& r = c.rng;
  // every block of 8 consecutive cases contains each family once; the rotation per block is
  // pseudo-random so that a worker (cases w, w+W, w+2W, ...) does not get one family only
  const unsigned block = (unsigned)(c.idx / 8);
  const int fam = (int)((c.idx % 8 + ((block * 2654435761u) >> 13)) % 8);
  Dag d;
  CheckOpts o;
  o.leafTris = 4;
  o.ownTris = 3;
  auto leafNodes = [&](int n, double spread, bool small, double size = 1.0) {
    std::vector<int> ks;
    for (int i = 0; i < n; i++) {
      d.leaves.push_back(MakeLeaf(r, spread, small, size));
      ks.push_back(d.addLeafNode((int)d.leaves.size() - 1));
    }
    return ks;
  };
  switch (fam) {
    case 0: {  // (a-b)-c-... vs a-(b+c+...) vs BatchBoolean(Subtract): one Batch- node, every style
      d.family = "rewrite:subtract-chain";
      int n = r.range(3, 6);
      auto ks = leafNodes(n, 0.8, false);
      if (r.chance(0.5)) {  // the minuend itself a difference: negative children propagate upwards
        int inner = d.addBatch(1, {ks[0], ks[1]});
        std::vector<int> rest = {inner};
        for (int i = 2; i < n; i++) rest.push_back(ks[i]);
        if (rest.size() < 2) rest.push_back(leafNodes(1, 0.8, false)[0]);
        d.addBatch(1, rest);
      } else
        d.addBatch(1, ks);
      break;
    }
    case 1: {  // nested unions / intersections vs the flat batch
      d.family = "rewrite:nested-vs-flat";
      int n = r.range(3, 7);
      int op = r.chance(0.5) ? 0 : 2;
      auto ks = leafNodes(n, op == 2 ? 0.35 : 0.9, false);
      // a two-level nest of the same op, so that collapse has something to do
      size_t cut = 1 + r.below(ks.size() - 1);
      std::vector<int> a(ks.begin(), ks.begin() + cut), b(ks.begin() + cut, ks.end());
      int na = a.size() >= 2 ? d.addBatch(op, a) : a[0];
      std::vector<int> top = {na};
      for (int x : b) top.push_back(x);
      if (top.size() < 2) top.push_back(leafNodes(1, 0.5, false)[0]);
      d.addBatch(op, top);
      break;
    }
    case 2: {  // bbox-disjoint operands (Compose path), some overlapping, some boxes exactly touching
      d.family = "rewrite:bbox-disjoint";
      std::vector<int> ks;
      int n = r.range(3, 8);
      for (int i = 0; i < n; i++) {
        Leaf l = MakeLeaf(r, 0.3, false);
        // spread along a line: neighbours sometimes overlap, sometimes are far apart
        vec3 t(i * r.uni(1.2, 6.0), r.uni(-1, 1), r.uni(-1, 1));
        l.m = l.m.Translate(t);
        l.how += ".Translate(" + f17(t.x) + "," + f17(t.y) + "," + f17(t.z) + ")";
        l.soup = vo::MakeSoup(l.m.GetMeshGL64());
        d.leaves.push_back(l);
        ks.push_back(d.addLeafNode((int)d.leaves.size() - 1));
      }
      if (r.chance(0.6)) {  // integer boxes whose bounding boxes touch exactly (face, edge or corner), far from the rest
        d.family = "rewrite:bbox-touching-boxes";
        int m = r.range(2, 4);
        vec3 at(0, 100, 0);
        for (int i = 0; i < m; i++) {
          vec3 sz(r.range(1, 3), r.range(1, 3), r.range(1, 3));
          d.leaves.push_back(BoxLeaf(at, sz));
          ks.push_back(d.addLeafNode((int)d.leaves.size() - 1));
          int mode = r.range(0, 2);  // next box: shares a face / an edge / a corner with this one's bbox
          vec3 nx = at;
          nx.x += sz.x;
          if (mode >= 1) nx.y += sz.y; else nx.y += r.range(-1, 1);
          if (mode >= 2) nx.z += sz.z; else nx.z += r.range(-1, 1);
          at = nx;
        }
      }
      d.addBatch(0, ks);
      break;
    }
    case 3: {  // empty operands in positive and negative positions
      d.family = "rewrite:empty-operands";
      auto ks = leafNodes(r.range(2, 4), 0.7, false);
      auto empty = [&]() { d.leaves.push_back(EmptyLeaf()); return d.addLeafNode((int)d.leaves.size() - 1); };
      int e1 = empty(), e2 = empty();
      int x;
      switch (r.range(0, 5)) {
        case 0: x = d.addBool(1, ks[0], e1); break;                 // a - 0
        case 1: x = d.addBool(1, e1, ks[0]); break;                 // 0 - a
        case 2: x = d.addBool(0, e1, ks[0]); break;                 // 0 + a
        case 3: x = d.addBool(2, ks[0], e1); break;                 // a ^ 0
        case 4: x = d.addBatch(1, {ks[0], e1, ks[1], e2}); break;   // a - 0 - b - 0
        default: x = d.addBatch(0, {e1, ks[0], e2}); break;
      }
      int y = d.addXform(x, GenericSteps(r, 0.5));
      std::vector<int> top = {y};
      for (size_t i = 1; i < ks.size(); i++) top.push_back(ks[i]);
      d.addBatch(r.range(0, 2), top);
      break;
    }
    case 4: {  // transform chains over a shared sub-expression that gets evaluated in between
      d.family = "rewrite:transform-chains-on-shared";
      auto ks = leafNodes(r.range(2, 3), 0.6, false);
      int s = ks.size() == 2 ? d.addBool(r.range(0, 1), ks[0], ks[1]) : d.addBatch(r.range(0, 1), ks);
      int k = r.range(2, 4);
      std::vector<int> uses;
      for (int i = 0; i < k; i++) {
        int x = d.addXform(s, GenericSteps(r, 1.0));
        if (r.chance(0.5)) x = d.addXform(x, GenericSteps(r, 0.5));  // a chain of chains
        uses.push_back(x);
      }
      // parents of different op types so that some collapse and some do not
      int p1 = d.addBool(r.range(0, 2), uses[0], uses[1]);
      std::vector<int> top = {p1};
      for (size_t i = 2; i < uses.size(); i++) top.push_back(uses[i]);
      if (top.size() < 2) top.push_back(d.addXform(s, GenericSteps(r, 1.2)));
      d.addBatch(r.range(0, 1), top);
      break;
    }
    case 5: {  // more than 1000 children in one BatchBoolean (chunked BatchUnion)
      d.family = "rewrite:over-1000-children";
      int n = (int)c.iparam("bigN", 1001) + r.range(0, 60);
      std::vector<int> ks;
      for (int i = 0; i < n; i++) {
        Leaf l = MakeLeaf(r, 0.05, true, 0.12);
        vec3 t(r.uni(-2.2, 2.2), r.uni(-2.2, 2.2), r.uni(-2.2, 2.2));
        l.m = l.m.Translate(t);
        if (l.how.size() < 400) l.how += ".Translate(" + f17(t.x) + "," + f17(t.y) + "," + f17(t.z) + ")";
        l.soup = vo::MakeSoup(l.m.GetMeshGL64());
        d.leaves.push_back(l);
        ks.push_back(d.addLeafNode((int)d.leaves.size() - 1));
      }
      int op = r.chance(0.8) ? 0 : 1;  // union, or one minuend minus > 1000 subtrahends
      if (op == 1) {
        d.leaves.push_back(MakeLeaf(r, 0.1, false, 2.5));
        ks.insert(ks.begin(), d.addLeafNode((int)d.leaves.size() - 1));
      }
      d.addBatch(op, ks);
      o.capPlaced = 4000;
      d.countParents();
      std::vector<History> hs;
      for (int t = 0; t < 4; t++) {
        History h;
        h.force = t == 3 ? SparseEager : RootOnly;
        h.keepAlive = t == 1;
        h.batchStyle = t;  // flat, nested-left (compound), nested-right, chunked
        h.seed = r.next();
        hs.push_back(h);
      }
      CheckDag(c, d, hs, o);
      return;
    }
    case 6: {  // very deep left-leaning chain of compound assignments with mixed ops
      d.family = "rewrite:deep-mixed-chain";
      int n = (int)c.iparam("deepN", 600) + r.range(0, 50);
      // t = l0; t op1= l1; t op2= l2 ...: expressed as nested Bool nodes (left-leaning)
      d.leaves.push_back(MakeLeaf(r, 0.1, false, 1.5));
      int cur = d.addLeafNode(0);
      for (int i = 1; i < n; i++) {
        Leaf l = MakeLeaf(r, 0.05, true, 0.25);
        vec3 t(r.uni(-1.6, 1.6), r.uni(-1.6, 1.6), r.uni(-1.6, 1.6));
        l.m = l.m.Translate(t);
        if (l.how.size() < 400) l.how += ".Translate(" + f17(t.x) + "," + f17(t.y) + "," + f17(t.z) + ")";
        l.soup = vo::MakeSoup(l.m.GetMeshGL64());
        d.leaves.push_back(l);
        int ln = d.addLeafNode((int)d.leaves.size() - 1);
        int op = r.chance(0.55) ? 0 : (r.chance(0.85) ? 1 : 2);
        if (op == 2) {  // keep the solid alive: intersect with a big leaf instead of a tiny one
          d.leaves.back() = MakeLeaf(r, 0.1, false, 2.2);
        }
        cur = d.addBool(op, cur, ln);
      }
      o.capPlaced = 4000;
      d.countParents();
      std::vector<History> hs;
      for (int t = 0; t < 4; t++) {
        History h;
        h.force = t == 2 ? SparseEager : RootOnly;
        h.keepAlive = t == 1;
        h.boolStyle = t == 0 ? 2 : t == 3 ? 1 : 0;  // compound assignment / Boolean() / operators
        h.seed = r.next();
        hs.push_back(h);
      }
      // Fold() recurses over the left-leaning tree: n is bounded (<= a few thousand)
      CheckDag(c, d, hs, o);
      return;
    }
    default: {  // a huge += chain of far-apart leaves, and destruction of deep trees that were never evaluated
      d.family = "rewrite:deep-union-chain";
      int n = (int)c.iparam("chainN", 3000) + r.range(0, 100);
      if (r.chance(0.25)) {
        // a long-lived process: the global mesh-ID counter is already in the millions (every mesh
        // ever created advances it; ReserveIDs moves it directly). Compose() of ~1000 nodes then
        // computes its per-node ID offsets beyond INT_MAX. Done only in this family, where a big
        // Compose is certain, so that the behaviour of a case never depends on the cases before it.
        uint32_t cur = Manifold::ReserveIDs(0);
        if (cur < 3000000u) Manifold::ReserveIDs(3000000u - cur);
        d.family = "rewrite:deep-union-chain+reserved-ids";
        c.count("cases_with_3e6_reserved_mesh_ids");
      }
      std::vector<int> ks;
      std::vector<Leaf> protos;
      for (int i = 0; i < 6; i++) protos.push_back(MakeLeaf(r, 0.05, true, 0.3));
      for (int i = 0; i < n; i++) {
        Leaf l = protos[i % protos.size()];
        // a jittered grid: bounding boxes mostly disjoint (Compose path), neighbours occasionally overlap
        int gx = i % 16, gy = (i / 16) % 16, gz = i / 256;
        vec3 t(gx * 1.1 + r.uni(-0.3, 0.3), gy * 1.1 + r.uni(-0.3, 0.3), gz * 1.1 + r.uni(-0.3, 0.3));
        l.m = l.m.Translate(t);
        l.how = "proto" + std::to_string(i % protos.size()) + ".Translate(" + f17(t.x) + "," + f17(t.y) + "," + f17(t.z) + ")";
        l.soup = vo::MakeSoup(l.m.GetMeshGL64());
        d.leaves.push_back(l);
        ks.push_back(d.addLeafNode((int)d.leaves.size() - 1));
      }
      d.addBatch(0, ks);
      // destructor path: build deep unevaluated trees and drop them
      {
        c.site("c03:destroy-unevaluated-deep-tree");
        Manifold t = d.leaves[0].m;
        for (int i = 1; i < n; i++) {
          if (i % 3 == 0) t -= d.leaves[i].m; else if (i % 7 == 0) t ^= d.leaves[i].m; else t += d.leaves[i].m;
        }
        Manifold copy = t, moved = copy.Translate(vec3(1.0, 2.0, 3.0));  // second holder + an op node sharing impl_
        t = Manifold();
        copy = Manifold();
        moved = Manifold();
        c.count("deep_unevaluated_trees_destroyed");
      }
      o.capPlaced = (size_t)n + 200;
      o.ownTris = 6;
      d.countParents();
      std::vector<History> hs;
      for (int t = 0; t < 4; t++) {
        History h;
        h.force = t == 3 ? SparseEager : RootOnly;
        h.keepAlive = t == 2;
        h.batchStyle = t == 0 ? 1 : t == 1 ? 0 : t == 2 ? 2 : 3;  // += chain, flat, nested right, chunked
        h.seed = r.next();
        hs.push_back(h);
      }
      CheckDag(c, d, hs, o);
      return;
    }
  }
  d.countParents();
  bool shared = false;
  for (auto& n : d.nodes) shared = shared || (n.nParents >= 2 && n.kind != KLeaf);
  // every batch style x kept-alive / temporaries, plus the standard forcing histories
  std::vector<History> hs = StandardHistories(r, shared, 0);
  for (int t = 0; t < 4; t++)
    for (int keep = 0; keep < 2; keep++) {
      History h;
      h.force = (t + keep) % 2 ? RootOnly : Eager;
      h.keepAlive = keep;
      h.batchStyle = t;
      h.boolStyle = t;
      h.xformStyle = keep;
      h.seed = r.next();
      hs.push_back(h);
    }
  CheckDag(c, d, hs, o);
}

void vh_case(vh::Ctx& c) {
  try {
    if (c.stage.rfind("dags", 0) == 0) RandomDag(c);  // "dags", "dags-par"
    else if (c.stage.rfind("rewrites", 0) == 0) Rewrites(c);
    else c.inconclusive("unknown stage " + c.stage);
  } catch (const std::exception& e) {
    c.violation(std::string("throw:") + e.what(), vh::J().s("what", e.what()).s("stage", c.stage).str());
  }
}
