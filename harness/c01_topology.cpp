// C01 — every returned Manifold is a closed oriented 2-manifold or an empty
// error. Observer after EVERY step of a generated program (DESIGN.md §4 C01).
#include "common/dsl.h"
#include "common/oracles.h"
#include "common/vh.h"

using namespace manifold;

static std::string opKind(const std::string& how) {
  // "v3.Boolean(v1...,Add)" -> "Boolean:Add"; "Cube(...)" -> "Cube"
  std::string s = how;
  size_t dot = s.find('.');
  size_t par = s.find('(');
  std::string name;
  if (s.rfind("v", 0) == 0 && dot != std::string::npos && dot < par)
    name = s.substr(dot + 1, s.find('(', dot) - dot - 1);
  else
    name = s.substr(0, par);
  for (const char* t : {"Add", "Subtract", "Intersect"})
    if (s.find(std::string(",") + t + ")") != std::string::npos) name += std::string(":") + t;
  if (s.find(".first") != std::string::npos) name += ".first";
  if (s.find(".second") != std::string::npos) name += ".second";
  return name;
}

static std::string parentKind(vd::Gen& g, int i) {
  const std::string& h = g.pool[i].how;
  if (h.size() > 1 && h[0] == 'v' && isdigit((unsigned char)h[1])) {
    int n = atoi(h.c_str() + 1);
    if (n >= 0 && n < (int)g.pool.size() && n != i) return opKind(g.pool[n].how);
  }
  return "";
}

// Check one value; returns false on violation.
static bool observe(vh::Ctx& c, vd::Gen& g, int i, const std::string& parentKinds) {
  vd::Val& v = g.pool[i];
  const std::string kind = opKind(v.how);
  c.site(kind);
  Manifold::Error st = v.m.Status();
  c.count("values_observed");
  auto fail = [&](const std::string& why, const std::string& info) {
    c.violation("topo:" + why + ":" + kind,
                vh::J().s("why", why).s("info", info).s("step", v.how).s("status", vo::ErrName(st))
                    .raw("program", g.programJson()).str());
    return false;
  };
  if (st != Manifold::Error::NoError) {
    c.count("error_status_values");
    c.count(std::string("status_") + vo::ErrName(st));
    if (!v.m.IsEmpty()) return fail("error-but-not-empty", "");
    if (v.m.NumTri() != 0 || v.m.NumVert() != 0) return fail("error-but-counts-nonzero", "");
    MeshGL64 e = v.m.GetMeshGL64();
    if (!e.triVerts.empty() || !e.vertProperties.empty()) return fail("error-but-export-nonempty", "");
    return true;
  }
  MeshGL64 m = v.m.GetMeshGL64();
  vo::TopoReport t = vo::CheckClosedManifold(m);
  if (!t.ok) return fail(t.why, t.info);
  std::string rt = vo::CheckRunTable(m);
  if (!rt.empty() && rt.find("runOriginalID") == std::string::npos) {
    // index-validity part of the run table only (sortedness is C07's)
    if (rt == "runIndex-does-not-cover-triVerts" || rt == "runIndex-not-monotone" || rt == "runIndex-length")
      return fail(rt, "");
  }
  size_t nv = v.m.NumVert(), ne = v.m.NumEdge(), nt = v.m.NumTri();
  int genus = v.m.Genus();
  if (nv != t.V) return fail("NumVert-disagrees", std::to_string(nv) + " vs merged export " + std::to_string(t.V));
  if (nt != t.F) return fail("NumTri-disagrees", std::to_string(nt) + " vs " + std::to_string(t.F));
  if (ne != t.E) return fail("NumEdge-disagrees", std::to_string(ne) + " vs " + std::to_string(t.E));
  if (genus != 1 - t.chi / 2) return fail("Genus-disagrees", std::to_string(genus) + " vs " + std::to_string(1 - t.chi / 2));
  if ((nt == 0) != v.m.IsEmpty()) return fail("IsEmpty-disagrees", "");
  if (nt > 0) {
    c.count("nonempty_noerror_values");
    c.maxi("max_tris", (long long)nt);
    int bucket = 0;
    for (size_t x = nt; x > 1; x >>= 1) bucket++;
    c.sig(kind + "<-" + parentKinds + "#" + std::to_string(bucket / 2));
    c.count("edges_checked", (long long)t.E * 2);
  } else
    c.count("empty_noerror_values");
  v.trisHint = nt;
  return true;
}

// Even-manifold inputs for CleanupTopology (SplitPinchedVerts + DedupeEdges):
// W "orange-slice" wedges sharing ONE edge A-B (the edge carries 2W triangles),
// each wedge closed by two n-triangle fans at A and B (so A and B have
// high valence: DedupeEdges switches containers above 32 neighbours), or two
// n-gon cones sharing their apex (pinched vertex). Valid, touching input; the
// triangle list is shuffled and each triangle rotated (the clean-up passes are
// order sensitive). The library may reject it or must return a 2-manifold.
static Manifold touchingImport(vh::Rng& r, std::string& how) {
  MeshGL64 g;
  g.numProp = 3;
  std::vector<std::array<double, 3>> pos;
  std::vector<std::array<uint64_t, 3>> tris;
  int kind = (int)r.below(3);
  if (kind < 2) {
    int W = (int)r.range(2, 4);
    pos.push_back({0, 0, 1});
    pos.push_back({0, 0, -1});
    std::string ns;
    for (int w = 0; w < W; w++) {
      int n = r.chance(0.5) ? (int)r.range(2, 16) : (int)r.range(17, 70);
      ns += (w ? "," : "") + std::to_string(n);
      double mid = 2 * vd::kPi * w / W, half = (vd::kPi / W) * r.uni(0.3, 0.8);
      uint64_t P0 = pos.size();
      for (int i = 0; i < n; i++) {
        double t = mid - half + 2 * half * i / (n - 1);
        pos.push_back({2 * cos(t), 2 * sin(t), kind == 1 ? 0.3 * sin(3 * t) : 0.0});
      }
      auto P = [&](int i) { return P0 + (uint64_t)i; };
      tris.push_back({0, 1, P(0)});
      for (int i = 0; i + 1 < n; i++) tris.push_back({0, P(i), P(i + 1)});
      tris.push_back({0, P(n - 1), 1});
      for (int i = 0; i + 1 < n; i++) tris.push_back({1, P(i + 1), P(i)});
    }
    how = "Import(wedges sharing an edge: W=" + std::to_string(W) + ", fans=" + ns + ", shuffled)";
  } else {
    int n1 = (int)r.range(3, 50), n2 = (int)r.range(3, 50);
    pos.push_back({0, 0, 0});
    auto cone = [&](int n, double z) {
      uint64_t c0 = pos.size();
      pos.push_back({0, 0, z});
      uint64_t b0 = pos.size();
      for (int i = 0; i < n; i++) pos.push_back({cos(2 * vd::kPi * i / n), sin(2 * vd::kPi * i / n), z});
      for (int i = 0; i < n; i++) {
        uint64_t a = b0 + i, b = b0 + (i + 1) % n;
        if (z > 0) { tris.push_back({0, a, b}); tris.push_back({c0, b, a}); }
        else { tris.push_back({0, b, a}); tris.push_back({c0, a, b}); }
      }
    };
    cone(n1, 1.0);
    cone(n2, -1.0);
    how = "Import(two cones sharing their apex: n=" + std::to_string(n1) + "," + std::to_string(n2) + ", shuffled)";
  }
  for (size_t i = tris.size(); i > 1; i--) std::swap(tris[i - 1], tris[r.below(i)]);
  for (auto& q : pos)
    for (double x : q) g.vertProperties.push_back(x);
  for (auto& t : tris) {
    int rot = (int)r.below(3);
    for (int j = 0; j < 3; j++) g.triVerts.push_back(t[(j + rot) % 3]);
  }
  return Manifold(g);
}

void vh_case(vh::Ctx& c) {
  vd::Config cfg;
  cfg.maxTris = (size_t)c.iparam("maxTris", 3000);
  int steps = (int)c.iparam("steps", 12);
  std::string profile = c.param("profile", "mixed");
  if (profile == "smooth") {
    cfg.pCoincident = 0.15;
  }
  vd::Gen g(c.rng, cfg);
  bool lazy = c.rng.chance(0.3);  // observe only at the end (still every value)
  int n = c.rng.range(std::max(2, steps / 2), steps);
  std::vector<int> pending;
  try {
    if (profile == "touch") {
      std::string how;
      Manifold t = touchingImport(c.rng, how);
      int i0 = g.add(t, how, false, 300);
      c.count("touching_imports");
      if (!observe(c, g, i0, "")) return;
      if (g.pool[i0].m.Status() == Manifold::Error::NoError) c.count("touching_imports_accepted");
    }
    for (int s = 0; s < n; s++) {
      std::vector<int> nu;
      if (profile == "smooth" && g.pool.size() >= 2 && c.rng.chance(0.5)) {
        // documented weak spot: Boolean -> SmoothOut/SmoothByNormals -> RefineTo*
        int ia = g.pickBiased();
        Manifold a = g.pool[ia].m;
        std::string A = "v" + std::to_string(ia);
        if (!g.pool[ia].hasTangents) {
          double ang = c.rng.uni(0, 90);
          nu = {g.add(a.SmoothOut(ang, 0), A + ".SmoothOut(" + vd::fmt(ang) + ",0)", false, g.pool[ia].trisHint, true)};
        } else if (g.pool[ia].trisHint < cfg.maxTris) {
          Box bb = a.BoundingBox();
          double sz = la::length(bb.Size());
          if (!std::isfinite(sz) || sz <= 0) sz = 1;
          int k = c.rng.range(0, 2);
          if (k == 0) { double len = sz / c.rng.uni(2, 10); nu = {g.add(a.RefineToLength(len), A + ".RefineToLength(" + vd::fmt(len) + ")", false, g.pool[ia].trisHint * 6)}; }
          else if (k == 1) { double tol = sz / c.rng.uni(20, 200); nu = {g.add(a.RefineToTolerance(tol), A + ".RefineToTolerance(" + vd::fmt(tol) + ")", false, g.pool[ia].trisHint * 6)}; }
          else { int q = c.rng.range(2, 3); nu = {g.add(a.Refine(q), A + ".Refine(" + std::to_string(q) + ")", false, g.pool[ia].trisHint * q * q)}; }
        } else
          nu = g.step();
      } else
        nu = g.step();
      c.count("steps");
      for (int i : nu) pending.push_back(i);
      if (!lazy) {
        for (int i : pending) {
          if (!observe(c, g, i, parentKind(g, i))) return;
        }
        pending.clear();
      }
    }
    for (int i : pending)
      if (!observe(c, g, i, parentKind(g, i))) return;
  } catch (const std::exception& e) {
    c.violation(std::string("throw:") + e.what(), vh::J().s("what", e.what()).raw("program", g.programJson()).str());
    return;
  }
  if (c.idx % 97 == 0) c.sample(vh::J().i("idx", c.idx).raw("program", g.programJson(14)).str());
}
