// C18 — measurements and queries agree with their brute-force definitions
// (DESIGN.md §4 C18). Objects are eps-valid-by-construction values of seeded
// DSL programs (primitives, hulls, extrusions/revolutions, generic-position
// Booleans/Splits of those, transforms, Compose of disjoint copies, a thin
// cylinder subtracted for genus). Every query of the public API named in the
// property is compared against an all-triangles / all-pairs computation in
// long double on the exported MeshGL64. Every numeric comparison has an
// explicit guard band; samples inside a band are counted and never decide.
#include <cfloat>

#include "common/dsl.h"
#include "common/oracles.h"
#include "common/vh.h"

using namespace manifold;
typedef long double LD;
using vo::cross;
using vo::dot;
using vo::norm;
using vo::V3;

namespace {

// ------------------------------------------------------------------ helpers
inline LD clamp01(LD x) { return x < 0 ? 0 : (x > 1 ? 1 : x); }

inline LD PointSegDist2(V3 p, V3 a, V3 b) {
  V3 ab = b - a;
  LD e = dot(ab, ab);
  LD t = e > 0 ? clamp01(dot(p - a, ab) / e) : 0;
  V3 q = a + ab * t - p;
  return dot(q, q);
}

// Squared distance between segments [p1,q1] and [p2,q2] (Ericson 5.1.9), made
// exact for (near-)parallel segments by also taking the four endpoint-segment
// distances (for parallel segments the minimum is attained at an endpoint).
inline LD SegSegDist2(V3 p1, V3 q1, V3 p2, V3 q2) {
  V3 d1 = q1 - p1, d2 = q2 - p2, r = p1 - p2;
  LD a = dot(d1, d1), e = dot(d2, d2), f = dot(d2, r);
  LD s = 0, t = 0;
  if (a > 0 && e > 0) {
    LD c = dot(d1, r), b = dot(d1, d2);
    LD denom = a * e - b * b;
    s = denom > 0 ? clamp01((b * f - c * e) / denom) : 0;
    t = (b * s + f) / e;
    if (t < 0) {
      t = 0;
      s = clamp01(-c / a);
    } else if (t > 1) {
      t = 1;
      s = clamp01((b - c) / a);
    }
  }
  V3 w = (p1 + d1 * s) - (p2 + d2 * t);
  LD best = dot(w, w);
  best = std::min(best, PointSegDist2(p1, p2, q2));
  best = std::min(best, PointSegDist2(q1, p2, q2));
  best = std::min(best, PointSegDist2(p2, p1, q1));
  best = std::min(best, PointSegDist2(q2, p1, q1));
  return best;
}

// Does segment [p,q] cross triangle (a,b,c)? Non-coplanar case only: the
// coplanar case is covered by the edge-edge / vertex-triangle distances.
inline bool SegTriCross(V3 p, V3 q, V3 a, V3 b, V3 c) {
  V3 n = cross(b - a, c - a);
  LD sp = dot(n, p - a), sq = dot(n, q - a);
  if ((sp > 0 && sq > 0) || (sp < 0 && sq < 0)) return false;
  if (sp == sq) return false;  // both zero: coplanar
  LD t = sp / (sp - sq);
  V3 x = p + (q - p) * t;
  LD d1 = dot(n, cross(b - a, x - a)), d2 = dot(n, cross(c - b, x - b)), d3 = dot(n, cross(a - c, x - c));
  return d1 >= 0 && d2 >= 0 && d3 >= 0;
}

// Independent triangle-triangle squared distance: 0 if they intersect, else
// the minimum over the 9 edge-edge and 6 vertex-triangle distances.
inline LD TriTriDist2(const V3* A, const V3* B) {
  for (int i = 0; i < 3; i++) {
    if (SegTriCross(A[i], A[(i + 1) % 3], B[0], B[1], B[2])) return 0;
    if (SegTriCross(B[i], B[(i + 1) % 3], A[0], A[1], A[2])) return 0;
  }
  LD best = 1e300L;
  for (int i = 0; i < 3; i++)
    for (int j = 0; j < 3; j++) best = std::min(best, SegSegDist2(A[i], A[(i + 1) % 3], B[j], B[(j + 1) % 3]));
  for (int i = 0; i < 3; i++) {
    best = std::min(best, vo::PointTriDist2(A[i], B[0], B[1], B[2]));
    best = std::min(best, vo::PointTriDist2(B[i], A[0], A[1], A[2]));
  }
  return best;
}

struct BoxD {
  double lo[3], hi[3];
};
inline BoxD TriBox(const V3* T) {
  BoxD b;
  const LD* p[3] = {&T[0].x, &T[1].x, &T[2].x};
  for (int k = 0; k < 3; k++) {
    LD mn = std::min({p[0][k], p[1][k], p[2][k]}), mx = std::max({p[0][k], p[1][k], p[2][k]});
    b.lo[k] = (double)mn;
    b.hi[k] = (double)mx;
  }
  return b;
}
inline double BoxBoxDist2(const BoxD& a, const BoxD& b) {
  double s = 0;
  for (int k = 0; k < 3; k++) {
    double d = std::max({0.0, a.lo[k] - b.hi[k], b.lo[k] - a.hi[k]});
    s += d * d;
  }
  return s;
}

struct PairDist {
  LD d2 = 1e300L;
  bool surfacesCross = false;
  long pairsExact = 0, pairsPruned = 0;
};
// min over all triangle pairs; `cap2` is an initial upper bound (squared) above
// which the value is irrelevant (the result is clamped to the search length).
PairDist AllPairsDist(const vo::Soup& A, const vo::Soup& B, LD cap2) {
  PairDist r;
  r.d2 = cap2;
  std::vector<BoxD> bb(B.t.size());
  std::vector<std::array<V3, 3>> bt(B.t.size());
  for (size_t j = 0; j < B.t.size(); j++) {
    bt[j] = {B.v[B.t[j][0]], B.v[B.t[j][1]], B.v[B.t[j][2]]};
    bb[j] = TriBox(bt[j].data());
  }
  for (size_t i = 0; i < A.t.size(); i++) {
    V3 at[3] = {A.v[A.t[i][0]], A.v[A.t[i][1]], A.v[A.t[i][2]]};
    BoxD ab = TriBox(at);
    for (size_t j = 0; j < B.t.size(); j++) {
      // lower bound from the boxes, shrunk a little for the double rounding of the boxes
      double lb = BoxBoxDist2(ab, bb[j]) * (1 - 1e-12);
      if ((LD)lb > r.d2) {
        r.pairsPruned++;
        continue;
      }
      r.pairsExact++;
      LD d2 = TriTriDist2(at, bt[j].data());
      if (d2 < r.d2) r.d2 = d2;
      if (d2 == 0) {
        r.surfacesCross = true;
        return r;
      }
    }
  }
  return r;
}

// one representative vertex per connected component (merge vectors applied)
std::vector<uint32_t> ComponentReps(const MeshGL64& m, size_t* nComp = nullptr) {
  size_t nv = m.vertProperties.size() / m.numProp;
  vo::UF uf(nv);
  for (size_t i = 0; i < m.mergeFromVert.size(); i++) uf.unite((uint32_t)m.mergeFromVert[i], (uint32_t)m.mergeToVert[i]);
  for (size_t t = 0; t < m.triVerts.size() / 3; t++) {
    uf.unite((uint32_t)m.triVerts[3 * t], (uint32_t)m.triVerts[3 * t + 1]);
    uf.unite((uint32_t)m.triVerts[3 * t], (uint32_t)m.triVerts[3 * t + 2]);
  }
  std::vector<char> ref(nv, 0);
  for (auto v : m.triVerts) ref[v] = 1;
  std::vector<uint32_t> reps;
  std::vector<char> seen(nv, 0);
  for (size_t i = 0; i < nv; i++) {
    if (!ref[i]) continue;
    uint32_t f = uf.find((uint32_t)i);
    if (!seen[f]) {
      seen[f] = 1;
      reps.push_back((uint32_t)i);
    }
  }
  if (nComp) *nComp = reps.size();
  return reps;
}

struct P2 {
  LD x, y;
};
inline LD Orient2(P2 a, P2 b, P2 c) { return (b.x - a.x) * (c.y - a.y) - (b.y - a.y) * (c.x - a.x); }
inline LD PointSegDist2D2(P2 p, P2 a, P2 b) {
  LD dx = b.x - a.x, dy = b.y - a.y, e = dx * dx + dy * dy;
  LD t = e > 0 ? clamp01(((p.x - a.x) * dx + (p.y - a.y) * dy) / e) : 0;
  LD qx = a.x + dx * t - p.x, qy = a.y + dy * t - p.y;
  return qx * qx + qy * qy;
}
// signed winding number of p w.r.t. the closed polylines; *minD2 = squared
// distance to the nearest polyline edge.
int Winding2D(const Polygons& polys, P2 p, LD* minD2) {
  int w = 0;
  LD md = 1e300L;
  for (auto& poly : polys) {
    size_t n = poly.size();
    for (size_t i = 0; i < n; i++) {
      P2 a{poly[i].x, poly[i].y}, b{poly[(i + 1) % n].x, poly[(i + 1) % n].y};
      md = std::min(md, PointSegDist2D2(p, a, b));
      if (a.y <= p.y) {
        if (b.y > p.y && Orient2(a, b, p) > 0) ++w;
      } else {
        if (b.y <= p.y && Orient2(a, b, p) < 0) --w;
      }
    }
  }
  if (minD2) *minD2 = md;
  return w;
}

std::string v3s(V3 p) {
  char b[120];
  snprintf(b, sizeof b, "[%.17g,%.17g,%.17g]", (double)p.x, (double)p.y, (double)p.z);
  return b;
}
std::string v3s(vec3 p) { return v3s(vo::toV3(p)); }

std::string opKind(const std::string& how) {
  size_t dot = how.find('.'), par = how.find('(');
  std::string name;
  if (how.rfind("v", 0) == 0 && dot != std::string::npos && dot < par)
    name = how.substr(dot + 1, how.find('(', dot) - dot - 1);
  else
    name = how.substr(0, par);
  for (const char* t : {"Add", "Subtract", "Intersect"})
    if (how.find(std::string(",") + t + ")") != std::string::npos) name += std::string(":") + t;
  return name;
}

struct Obj {
  Manifold m;
  MeshGL64 mesh;
  vo::Soup soup;
  LD S = 0;     // max |coordinate|
  LD size = 0;  // bbox diagonal
  std::string how;
  size_t nComp = 0;
};

struct Checker {
  vh::Ctx& c;
  vd::Gen& g;
  Obj& o;
  bool ok = true;

  void fail(const std::string& key, vh::J detail) {
    ok = false;
    c.violation(key, detail.s("object", o.how).raw("mesh", vo::MeshBrief(o.mesh)).raw("program", g.programJson()).str());
  }

  V3 randInBox(LD expand) {
    V3 lo = o.soup.lo, hi = o.soup.hi;
    V3 ctr = (lo + hi) * 0.5L, half = (hi - lo) * (0.5L * expand);
    // a flat box still gets some thickness
    LD minHalf = o.size * 0.05L;
    half = {std::max(half.x, minHalf), std::max(half.y, minHalf), std::max(half.z, minHalf)};
    return {ctr.x + half.x * (LD)c.rng.uni(-1, 1), ctr.y + half.y * (LD)c.rng.uni(-1, 1), ctr.z + half.z * (LD)c.rng.uni(-1, 1)};
  }
  // a point offset from a random surface point along the triangle normal
  V3 nearSurface() {
    auto& tr = o.soup.t[c.rng.below(o.soup.t.size())];
    V3 a = o.soup.v[tr[0]], b = o.soup.v[tr[1]], cc = o.soup.v[tr[2]];
    LD u = c.rng.uni(), v = c.rng.uni();
    if (u + v > 1) {
      u = 1 - u;
      v = 1 - v;
    }
    V3 p = a + (b - a) * u + (cc - a) * v;
    V3 n = cross(b - a, cc - a);
    LD nn = norm(n);
    if (nn > 0) {
      LD off = o.size * powl(10.0L, (LD)c.rng.uni(-6, -0.7)) * (c.rng.chance(0.5) ? 1 : -1);
      p = p + n * (off / nn);
    }
    return p;
  }
  // double-rounded copy (the value actually passed to the library)
  static V3 rd(V3 p) { return {(LD)(double)p.x, (LD)(double)p.y, (LD)(double)p.z}; }

  // ---------------------------------------------------------------- counts
  void counts() {
    c.site("counts");
    const size_t nt = o.mesh.triVerts.size() / 3;
    if (o.m.NumTri() != nt) fail("counts:NumTri", vh::J().u("lib", o.m.NumTri()).u("export", nt));
    if (o.m.NumProp() + 3 != o.mesh.numProp) fail("counts:NumProp", vh::J().u("lib", o.m.NumProp()).u("exportNumProp", o.mesh.numProp));
    if (o.m.IsEmpty() != (nt == 0)) fail("counts:IsEmpty", vh::J().bo("lib", o.m.IsEmpty()).u("exportTris", nt));
    vo::TopoReport t = vo::CheckClosedManifold(o.mesh);
    if (t.ok || nt == 0) {
      size_t V = nt == 0 ? 0 : t.V;
      if (o.m.NumVert() != V) fail("counts:NumVert", vh::J().u("lib", o.m.NumVert()).u("exportMerged", V));
      c.count("count_checks");
    } else
      c.count("skipped_export_not_closed");
  }

  // ---------------------------------------------------------------- volume, area, bbox
  void measures() {
    c.site("Volume");
    LD sumV = 0, magV = 0, sumA = 0, magA = 0;
    for (auto& tr : o.soup.t) {
      V3 a = o.soup.v[tr[0]], b = o.soup.v[tr[1]], cc = o.soup.v[tr[2]];
      sumV += dot(a, cross(b, cc));
      LD e1 = norm(b - a), e2 = norm(cc - a);
      magV += e1 * e2 * std::max({norm(a), norm(b), norm(cc)});
      sumA += norm(cross(b - a, cc - a));
      magA += e1 * e2;
    }
    sumV /= 6;
    magV /= 6;
    sumA /= 2;
    magA /= 2;
    // Bound: each library term (a . ((b-a) x (c-a)) / 6 in double) carries at most
    // ~16u |b-a||c-a||a| rounding error (u = 1.1e-16; subtractions are exactly
    // rounded, one cross, one dot, one division), the Kahan sum adds <= 2u|sum| +
    // O(n u^2) sum|terms|. 1e-12 * sum(|b-a||c-a|max|v|)/6 is >= 500x that and
    // does not shrink for sliver triangles (it uses edge products, not |term|).
    // The oracle's own error (long double, u = 5.4e-20) is <= 1e-4 of the bound.
    double V = o.m.Volume(), Ar = o.m.SurfaceArea();
    LD tolV = 1e-12L * magV, tolA = 1e-12L * magA;
    c.count("volume_checks");
    if (!(fabsl((LD)V - sumV) <= tolV))
      fail("measure:volume", vh::J().d("lib", V).d("exportSum", (double)sumV).d("tol", (double)tolV));
    c.site("SurfaceArea");
    if (!(fabsl((LD)Ar - sumA) <= tolA))
      fail("measure:area", vh::J().d("lib", Ar).d("exportSum", (double)sumA).d("tol", (double)tolA));
    c.site("BoundingBox");
    Box bb = o.m.BoundingBox();
    c.count("bbox_checks");
    bool eq = bb.min.x == (double)o.soup.lo.x && bb.min.y == (double)o.soup.lo.y && bb.min.z == (double)o.soup.lo.z &&
              bb.max.x == (double)o.soup.hi.x && bb.max.y == (double)o.soup.hi.y && bb.max.z == (double)o.soup.hi.z;
    if (!eq) fail("bbox:not-tight", vh::J().s("libMin", v3s(bb.min)).s("libMax", v3s(bb.max)).s("exportMin", v3s(o.soup.lo)).s("exportMax", v3s(o.soup.hi)));
  }

  // ---------------------------------------------------------------- WindingNumber
  // min squared distance from (x,y) to any projected mesh edge
  LD minProjEdgeDist2(P2 p) {
    LD md = 1e300L;
    for (auto& tr : o.soup.t)
      for (int k = 0; k < 3; k++) {
        V3 a = o.soup.v[tr[k]], b = o.soup.v[tr[(k + 1) % 3]];
        md = std::min(md, PointSegDist2D2(p, {a.x, a.y}, {b.x, b.y}));
      }
    return md;
  }

  int windingDecided = 0, windingInside = 0;
  void winding(int nPts) {
    c.site("WindingNumber");
    std::vector<vec3> pts;
    for (int i = 0; i < nPts; i++) {
      int k = c.rng.range(0, 9);
      V3 p = k < 4 ? randInBox(1.1L) : (k < 9 ? nearSurface() : randInBox(2.5L));
      pts.push_back(vo::toVec3(p));
    }
    std::vector<int> lib = o.m.WindingNumber(pts);
    if (lib.size() != pts.size()) {
      fail("winding:result-length", vh::J().u("lib", lib.size()).u("asked", pts.size()));
      return;
    }
    const LD band = 1e-9L * o.S;
    for (size_t i = 0; i < pts.size(); i++) {
      V3 p = vo::toV3(pts[i]);
      c.count("winding_points");
      if (vo::DistToSurface(o.soup, p) < band) {
        c.count("winding_skipped_in_band");
        continue;
      }
      // the library counts crossings of the vertical line through p; a line that
      // passes within rounding distance of a mesh edge is not a generic query
      if (minProjEdgeDist2({p.x, p.y}) < (1e-13L * o.S) * (1e-13L * o.S)) {
        c.count("winding_skipped_vertical_line_on_edge");
        continue;
      }
      vo::Cls cl = vo::Classify(o.soup, p);
      if (!cl.integral) {
        c.count("winding_skipped_nonintegral");
        continue;
      }
      windingDecided++;
      if (cl.w != 0) windingInside++;
      c.count("winding_decided");
      if (cl.w != 0) c.count("winding_decided_inside");
      if (lib[i] != cl.w) {
        fail("winding:mismatch", vh::J().s("point", v3s(p)).i("lib", lib[i]).i("solidAngle", cl.w));
        return;
      }
    }
    // the single-point path must agree with the batch path on the same point
    if (!pts.empty()) {
      size_t i = c.rng.below(pts.size());
      std::vector<int> one = o.m.WindingNumber({pts[i]});
      if (one.size() != 1 || one[0] != lib[i])
        fail("winding:batch-vs-single", vh::J().s("point", v3s(pts[i])).i("batch", lib[i]).i("single", one.empty() ? -99 : one[0]));
    }
  }

  // ---------------------------------------------------------------- RayCast
  int raysDecided = 0, raysWithHits = 0;
  void rays(int nRays) {
    const LD band = 1e-9L * o.S;
    for (int r = 0; r < nRays; r++) {
      c.site("RayCast");
      V3 a, b;
      int k = c.rng.range(0, 5);
      if (k == 0) {
        a = randInBox(2.0L);
        b = randInBox(2.0L);
      } else if (k <= 3) {
        a = randInBox(1.3L);
        b = randInBox(1.3L);
      } else {
        a = nearSurface();
        b = randInBox(1.5L);
      }
      vec3 o3 = vo::toVec3(a), e3 = vo::toVec3(b);
      a = vo::toV3(o3);
      b = vo::toV3(e3);
      V3 d = b - a;
      LD len = norm(d);
      c.count("rays");
      if (len < 0.05L * o.size) {
        c.count("rays_skipped_short");
        continue;
      }
      std::vector<RayHit> hits = o.m.RayCast(o3, e3);
      // --- generic? endpoints away from the surface, ray away from every edge
      if (vo::DistToSurface(o.soup, a) < band || vo::DistToSurface(o.soup, b) < band) {
        c.count("rays_skipped_endpoint_in_band");
        continue;
      }
      bool nearEdge = false;
      std::vector<std::pair<LD, LD>> oh;  // (t, |cos(angle to normal)|)
      for (auto& tr : o.soup.t) {
        V3 p0 = o.soup.v[tr[0]], p1 = o.soup.v[tr[1]], p2 = o.soup.v[tr[2]];
        if (SegSegDist2(a, b, p0, p1) < band * band || SegSegDist2(a, b, p1, p2) < band * band || SegSegDist2(a, b, p2, p0) < band * band) {
          nearEdge = true;
          break;
        }
        // Moeller-Trumbore
        V3 e1 = p1 - p0, e2 = p2 - p0, pv = cross(d, e2);
        LD det = dot(e1, pv);
        if (det == 0) continue;
        V3 tv = a - p0;
        LD u = dot(tv, pv) / det;
        V3 qv = cross(tv, e1);
        LD v = dot(d, qv) / det, t = dot(e2, qv) / det;
        if (u > 0 && v > 0 && u + v < 1 && t > 0 && t < 1) {
          V3 n = cross(e1, e2);
          oh.push_back({t, fabsl(dot(n, d)) / (norm(n) * len)});
        }
      }
      if (nearEdge) {
        c.count("rays_skipped_near_edge_or_vertex");
        continue;
      }
      raysDecided++;
      c.count("rays_decided");
      std::sort(oh.begin(), oh.end());
      auto detail = [&]() {
        std::vector<double> lt, ot;
        for (auto& h : hits) lt.push_back(h.distance);
        for (auto& h : oh) ot.push_back((double)h.first);
        return vh::J().s("origin", v3s(a)).s("endpoint", v3s(b)).raw("libT", vh::jarr(lt)).raw("oracleT", vh::jarr(ot));
      };
      for (size_t i = 0; i < hits.size(); i++) {
        if (!(hits[i].distance >= 0 && hits[i].distance <= 1)) {
          fail("raycast:distance-out-of-range", detail());
          return;
        }
        if (i && hits[i].distance < hits[i - 1].distance) {
          fail("raycast:unsorted", detail());
          return;
        }
      }
      if (hits.size() != oh.size()) {
        fail(hits.size() < oh.size() ? "raycast:missed-crossing" : "raycast:extra-hit", detail());
        return;
      }
      if (!oh.empty()) raysWithHits++;
      c.count("ray_hits_compared", (long long)oh.size());
      for (size_t i = 0; i < oh.size(); i++) {
        if (oh[i].second < 1e-3L) {
          c.count("ray_hits_grazing_position_not_compared");
          continue;
        }
        // the crossing point is the solution of a 3x3 system whose conditioning
        // is 1/|cos(ray,normal)|: 1e-9*S/|cos| is >= 1e3 x the double rounding.
        LD tolP = 1e-9L * (o.S + norm(a) + norm(b)) / oh[i].second, tolT = tolP / len;
        V3 want = a + d * oh[i].first, got = vo::toV3(hits[i].position);
        if (fabsl((LD)hits[i].distance - oh[i].first) > tolT) {
          fail("raycast:distance", detail().i("hit", (long long)i).d("tol", (double)tolT));
          return;
        }
        if (norm(got - want) > tolP || sqrtl(PointSegDist2(got, a, b)) > tolP) {
          fail("raycast:position-off-segment", detail().i("hit", (long long)i).s("libPos", v3s(got)).s("oraclePos", v3s(want)).d("tol", (double)tolP));
          return;
        }
      }
      // parity vs the change of insideness (solid-angle classifier at both ends)
      vo::Cls ca = vo::Classify(o.soup, a), cb = vo::Classify(o.soup, b);
      if (ca.integral && cb.integral) {
        c.count("ray_parity_checks");
        if (ca.w != cb.w) c.count("ray_parity_checks_with_change");
        bool odd = hits.size() % 2 != 0, change = ((ca.w - cb.w) % 2) != 0;
        if (odd != change) {
          fail("raycast:parity", detail().i("windingOrigin", ca.w).i("windingEnd", cb.w));
          return;
        }
      } else
        c.count("ray_parity_skipped_nonintegral");
    }
  }

  // ---------------------------------------------------------------- Slice
  int sliceDecided = 0, sliceInside = 0;
  void slices(int nZ, int nPts) {
    const LD band = 1e-9L * o.S;
    for (int s = 0; s < nZ; s++) {
      c.site("Slice");
      LD lo = o.soup.lo.z, hi = o.soup.hi.z;
      double z = c.rng.chance(0.85) ? (double)(lo + (hi - lo) * (LD)c.rng.uni()) : (double)(c.rng.chance(0.5) ? hi + (hi - lo) * (LD)c.rng.uni(0.01, 0.5) + band * 10 : lo - (hi - lo) * (LD)c.rng.uni(0.01, 0.5) - band * 10);
      c.count("slices");
      bool generic = true;
      for (auto& v : o.soup.v)
        if (fabsl(v.z - (LD)z) < band) {
          generic = false;
          break;
        }
      Polygons polys = o.m.Slice(z);
      if (!generic) {
        c.count("slices_skipped_z_near_vertex");
        continue;
      }
      for (auto& poly : polys)
        for (auto& v : poly)
          if (!std::isfinite(v.x) || !std::isfinite(v.y)) {
            fail("slice:non-finite", vh::J().d("z", z));
            return;
          }
      c.count("slices_generic");
      for (int i = 0; i < nPts; i++) {
        V3 p;
        if (!polys.empty() && c.rng.chance(0.4)) {
          auto& poly = polys[c.rng.below(polys.size())];
          if (poly.empty()) continue;
          vec2 q = poly[c.rng.below(poly.size())];
          LD off = o.size * powl(10.0L, (LD)c.rng.uni(-5, -1));
          LD ang = (LD)c.rng.uni(0, 6.283185307179586);
          p = {q.x + off * cosl(ang), q.y + off * sinl(ang), (LD)z};
        } else {
          p = randInBox(1.1L);
          p.z = (LD)z;
        }
        p = rd(p);
        c.count("slice_points");
        if (vo::DistToSurface(o.soup, p) < band) {
          c.count("slice_points_skipped_in_band");
          continue;
        }
        LD d2;
        int w2 = Winding2D(polys, {p.x, p.y}, &d2);
        if (d2 < (band / 2) * (band / 2)) {
          c.count("slice_points_skipped_in_band");
          continue;
        }
        vo::Cls cl = vo::Classify(o.soup, p);
        if (!cl.integral) {
          c.count("slice_points_skipped_nonintegral");
          continue;
        }
        sliceDecided++;
        if (cl.w) sliceInside++;
        c.count("slice_points_decided");
        if (cl.w) c.count("slice_points_decided_inside");
        if (w2 != cl.w) {
          fail("slice:winding", vh::J().d("z", z).s("point", v3s(p)).i("winding2D", w2).i("winding3D", cl.w).u("polys", polys.size()));
          return;
        }
      }
    }
  }

  // ---------------------------------------------------------------- Project
  int projDecided = 0, projInside = 0;
  void project(int nPts) {
    c.site("Project");
    Polygons polys = o.m.Project();
    for (auto& poly : polys)
      for (auto& v : poly)
        if (!std::isfinite(v.x) || !std::isfinite(v.y)) {
          fail("project:non-finite", vh::J());
          return;
        }
    const LD band = 1e-9L * o.S;
    for (int i = 0; i < nPts; i++) {
      P2 p;
      if (!polys.empty() && c.rng.chance(0.4)) {
        auto& poly = polys[c.rng.below(polys.size())];
        if (poly.empty()) continue;
        vec2 q = poly[c.rng.below(poly.size())];
        LD off = o.size * powl(10.0L, (LD)c.rng.uni(-5, -1));
        LD ang = (LD)c.rng.uni(0, 6.283185307179586);
        p = {(LD)(double)(q.x + off * cosl(ang)), (LD)(double)(q.y + off * sinl(ang))};
      } else {
        V3 q = rd(randInBox(1.15L));
        p = {q.x, q.y};
      }
      c.count("project_points");
      // shadow membership: the vertical line through p meets the solid iff it
      // crosses the surface; count strict containments in projected triangles
      int up = 0, down = 0;
      LD md = 1e300L;
      for (auto& tr : o.soup.t) {
        P2 a{o.soup.v[tr[0]].x, o.soup.v[tr[0]].y}, b{o.soup.v[tr[1]].x, o.soup.v[tr[1]].y}, cc{o.soup.v[tr[2]].x, o.soup.v[tr[2]].y};
        md = std::min({md, PointSegDist2D2(p, a, b), PointSegDist2D2(p, b, cc), PointSegDist2D2(p, cc, a)});
        LD ar = Orient2(a, b, cc);
        if (ar == 0) continue;
        LD s1 = Orient2(a, b, p), s2 = Orient2(b, cc, p), s3 = Orient2(cc, a, p);
        if (ar > 0 && s1 > 0 && s2 > 0 && s3 > 0) up++;
        if (ar < 0 && s1 < 0 && s2 < 0 && s3 < 0) down++;
      }
      if (md < band * band) {
        c.count("project_points_skipped_near_projected_edge");
        continue;
      }
      if (up != down) {  // cannot happen for a closed surface away from edges: the oracle does not decide
        c.count("project_points_oracle_inconsistent");
        continue;
      }
      LD d2;
      int w2 = Winding2D(polys, p, &d2);
      if (d2 < band * band) {
        c.count("project_points_skipped_near_projected_edge");
        continue;
      }
      projDecided++;
      if (up) projInside++;
      c.count("project_points_decided");
      if (up) c.count("project_points_decided_in_shadow");
      if (w2 == up) c.count("project_winding_equals_layer_count");
      if ((w2 > 0) != (up > 0)) {
        char pb[80];
        snprintf(pb, sizeof pb, "[%.17g,%.17g]", (double)p.x, (double)p.y);
        fail(up > 0 ? "project:shadow-point-not-covered" : "project:covers-point-outside-shadow",
             vh::J().s("point", pb).i("winding2D", w2).i("surfaceLayersAbove", up).u("polys", polys.size()));
        return;
      }
    }
  }

  // ---------------------------------------------------------------- Decompose
  void decompose() {
    c.site("Decompose");
    std::vector<Manifold> parts = o.m.Decompose();
    c.count("decompose_checks");
    if (o.nComp > 1) c.count("decompose_checks_multi_component");
    if (parts.size() != o.nComp) {
      fail("decompose:count", vh::J().u("lib", parts.size()).u("unionFind", o.nComp));
      return;
    }
    LD sum = 0, mag = 0;
    size_t tris = 0;
    for (auto& p : parts) {
      if (p.Status() != Manifold::Error::NoError) {
        fail("decompose:part-error", vh::J().s("status", vo::ErrName(p.Status())));
        return;
      }
      MeshGL64 pm = p.GetMeshGL64();
      size_t k = 0;
      ComponentReps(pm, &k);
      if (k != 1) {
        fail("decompose:part-not-connected", vh::J().u("componentsInPart", k));
        return;
      }
      vo::Soup ps = vo::MakeSoup(pm);
      sum += vo::SoupVolume(ps);
      tris += ps.t.size();
      for (auto& tr : ps.t) {
        V3 a = ps.v[tr[0]], b = ps.v[tr[1]], cc = ps.v[tr[2]];
        mag += norm(b - a) * norm(cc - a) * std::max({norm(a), norm(b), norm(cc)}) / 6;
      }
      // the library's own Volume of the part is covered by measures() on other objects;
      // here use it as the summand the property speaks about
      LD pv = p.Volume();
      if (fabsl(pv - vo::SoupVolume(ps)) > 1e-12L * mag) {
        fail("decompose:part-volume", vh::J().d("lib", (double)pv).d("exportSum", (double)vo::SoupVolume(ps)));
        return;
      }
    }
    if (tris != o.soup.t.size()) {
      fail("decompose:tri-sum", vh::J().u("parts", tris).u("whole", o.soup.t.size()));
      return;
    }
    LD whole = vo::SoupVolume(o.soup);
    if (fabsl(sum - whole) > 2e-12L * mag + 1e-300L) fail("decompose:volume-sum", vh::J().d("parts", (double)sum).d("whole", (double)whole).d("tol", (double)(2e-12L * mag)));
  }

  // ---------------------------------------------------------------- MinGap
  int gapDecided = 0;
  // own test for "the closed mesh has no self-crossing": no edge of a triangle
  // crosses a triangle it shares no vertex position with (sweep over x).
  bool selfCrossFree() {
    auto& s = o.soup;
    const size_t n = s.t.size();
    std::vector<BoxD> bb(n);
    std::vector<uint32_t> ord(n);
    for (size_t i = 0; i < n; i++) {
      V3 t[3] = {s.v[s.t[i][0]], s.v[s.t[i][1]], s.v[s.t[i][2]]};
      bb[i] = TriBox(t);
      ord[i] = (uint32_t)i;
    }
    std::sort(ord.begin(), ord.end(), [&](uint32_t x, uint32_t y) { return bb[x].lo[0] < bb[y].lo[0]; });
    for (size_t ii = 0; ii < n; ii++) {
      const size_t i = ord[ii];
      for (size_t jj = ii + 1; jj < n; jj++) {
        const size_t j = ord[jj];
        if (bb[j].lo[0] > bb[i].hi[0]) break;
        if (BoxBoxDist2(bb[i], bb[j]) > 0) continue;
        bool share = false;
        for (int a = 0; a < 3 && !share; a++)
          for (int b = 0; b < 3; b++) {
            V3 p = s.v[s.t[i][a]], q = s.v[s.t[j][b]];
            if (s.t[i][a] == s.t[j][b] || (p.x == q.x && p.y == q.y && p.z == q.z)) share = true;
          }
        if (share) continue;
        V3 A[3] = {s.v[s.t[i][0]], s.v[s.t[i][1]], s.v[s.t[i][2]]}, B[3] = {s.v[s.t[j][0]], s.v[s.t[j][1]], s.v[s.t[j][2]]};
        for (int k = 0; k < 3; k++)
          if (SegTriCross(A[k], A[(k + 1) % 3], B[0], B[1], B[2]) || SegTriCross(B[k], B[(k + 1) % 3], A[0], A[1], A[2])) return false;
      }
    }
    return true;
  }

  void mingap(int nOthers, size_t maxPairs) {
    for (int q = 0; q < nOthers; q++) {
      c.site("MinGap");
      // the other solid: a fresh convex primitive in a random pose
      Manifold b;
      std::string bd;
      LD rB = o.size * (LD)c.rng.uni(0.08, 0.5);
      int k = c.rng.range(0, 3);
      if (k == 0) {
        b = Manifold::Cube(vec3((double)rB * c.rng.uni(0.5, 1.5), (double)rB * c.rng.uni(0.5, 1.5), (double)rB * c.rng.uni(0.5, 1.5)), true);
        bd = "Cube";
      } else if (k == 1) {
        b = Manifold::Sphere((double)rB * 0.7, 4 * c.rng.range(1, 3));
        bd = "Sphere";
      } else if (k == 2) {
        b = Manifold::Tetrahedron().Scale(vec3((double)rB * 0.6));
        bd = "Tetrahedron";
      } else {
        b = Manifold::Cylinder((double)rB * 1.5, (double)rB * 0.5, (double)rB * c.rng.uni(0.1, 0.6), c.rng.range(3, 9), true);
        bd = "Cylinder";
      }
      vec3 rot(c.rng.uni(-180, 180), c.rng.uni(-180, 180), c.rng.uni(-180, 180));
      // direction and distance regime relative to the object
      V3 dir{(LD)c.rng.normalish(), (LD)c.rng.normalish(), (LD)c.rng.normalish()};
      LD dn = norm(dir);
      if (dn < 1e-3L) dir = {1, 0, 0}, dn = 1;
      int regime = c.rng.range(0, 5);
      LD f = regime <= 1 ? (LD)c.rng.uni(0.0, 0.6) : (regime <= 4 ? (LD)c.rng.uni(0.5, 1.6) : (LD)c.rng.uni(2, 4));
      V3 ctr = (o.soup.lo + o.soup.hi) * 0.5L;
      V3 tr = ctr + dir * ((o.size / 2 + rB) * f / dn);
      if (regime == 0) {  // start from a surface point: crossing or contained
        tr = nearSurface();
      }
      b = b.Rotate(rot.x, rot.y, rot.z).Translate(vo::toVec3(tr));
      bd += ".Rotate" + vd::fmt(rot) + ".Translate" + vd::fmt(vo::toVec3(tr)) + " r=" + vd::fmt((double)rB);
      double searchLength = (double)(o.size * powl(10.0L, (LD)c.rng.uni(-2, 1)));
      bool swap = c.rng.chance(0.3);
      double lib = swap ? b.MinGap(o.m, searchLength) : o.m.MinGap(b, searchLength);
      c.count("mingap_queries");
      MeshGL64 bm = b.GetMeshGL64();
      vo::Soup bs = vo::MakeSoup(bm);
      if (bs.t.empty() || o.soup.t.size() * bs.t.size() > maxPairs) {
        c.count("mingap_skipped_too_many_pairs");
        continue;
      }
      LD SS = std::max(o.S, bs.scale);
      LD cap = (LD)searchLength * 1.001L + 1e-6L * SS;
      PairDist pd = AllPairsDist(o.soup, bs, cap * cap);
      c.count("mingap_pairs_exact", pd.pairsExact);
      c.count("mingap_pairs_pruned_by_box_bound", pd.pairsPruned);
      LD dmin = sqrtl(pd.d2);
      bool intersect = pd.surfacesCross;
      if (!intersect) {
        if (dmin < 1e-6L * SS) {  // (nearly) touching: whether the solids "intersect" is not decidable
          c.count("mingap_skipped_nearly_touching");
          continue;
        }
        // surfaces do not cross: every component lies wholly inside or outside the other solid
        bool undec = false;
        for (uint32_t v : ComponentReps(bm)) {
          vo::Cls cl = vo::Classify(o.soup, bs.v[v]);
          if (!cl.integral) undec = true;
          else if (cl.w != 0) intersect = true;
        }
        for (uint32_t v : ComponentReps(o.mesh)) {
          vo::Cls cl = vo::Classify(bs, o.soup.v[v]);
          if (!cl.integral) undec = true;
          else if (cl.w != 0) intersect = true;
        }
        if (undec && !intersect) {
          c.count("mingap_skipped_containment_undecided");
          continue;
        }
      }
      LD expect = intersect ? 0 : std::min(dmin, (LD)searchLength);
      // library: squared distances in double from coordinates of size S: absolute
      // error of the distance ~ u*S, up to ~1e-8*S for near-parallel edge pairs at
      // near-zero distance (tri_dist.h clamps t from an ill-conditioned quotient).
      LD tol = 1e-8L * SS + 1e-9L * expect;
      gapDecided++;
      c.count("mingap_decided");
      if (intersect && !pd.surfacesCross) c.count("mingap_decided_contained_without_crossing");
      c.count(intersect ? "mingap_decided_intersecting" : (dmin > (LD)searchLength ? "mingap_decided_clamped" : "mingap_decided_gap"));
      if (!(fabsl((LD)lib - expect) <= tol)) {
        std::string key = intersect ? (pd.surfacesCross ? "mingap:crossing-but-nonzero" : "mingap:contained-but-nonzero")
                                    : (dmin > (LD)searchLength ? "mingap:not-clamped-to-searchLength" : ((LD)lib > expect ? "mingap:larger-than-min-pair-distance" : "mingap:smaller-than-min-pair-distance"));
        // coordinate-free circumstance that matters for this routine: tri_dist.h treats a
        // triangle whose squared normal (4*area^2) is <= 1e-15 ABSOLUTE as degenerate
        bool tiny = false;
        for (const vo::Soup* sp : {&o.soup, &bs})
          for (auto& t3 : sp->t) {
            V3 nn = cross(sp->v[t3[1]] - sp->v[t3[0]], sp->v[t3[2]] - sp->v[t3[0]]);
            if (dot(nn, nn) <= 1e-15L) tiny = true;
          }
        // one key for every manifestation (too large, 0 for disjoint solids, ...) in that regime
        if (tiny) key = "mingap:wrong-value:some-triangle-normal-sq<=1e-15";
        fail(key, vh::J().s("other", bd).bo("swappedReceiver", swap).d("searchLength", searchLength).d("lib", lib).d("expected", (double)expect).d("minPairDist", (double)dmin).bo("intersect", intersect).d("tol", (double)tol));
        return;
      }
    }
  }
};

bool makeObj(vh::Ctx& c, vd::Gen& g, int idx, size_t maxTris, Obj& o) {
  vd::Val& v = g.pool[idx];
  c.site("materialise:" + opKind(v.how));
  if (v.m.Status() != Manifold::Error::NoError) return false;
  if (v.m.NumTri() > maxTris) return false;
  o.m = v.m;
  o.how = "v" + std::to_string(idx) + " = " + v.how;
  o.mesh = v.m.GetMeshGL64();
  o.soup = vo::MakeSoup(o.mesh);
  if (o.soup.t.empty()) return false;
  o.S = o.soup.scale;
  o.size = norm(o.soup.hi - o.soup.lo);
  if (!(o.size > 0) || !(o.S > 0) || !std::isfinite((double)o.size)) return false;
  ComponentReps(o.mesh, &o.nComp);
  return true;
}

}  // namespace

void vh_case(vh::Ctx& c) {
  vd::Config cfg;
  cfg.maxTris = (size_t)c.iparam("maxTris", 600);
  cfg.allowSmooth = false;     // tangents are C19's subject
  cfg.allowSimplify = false;   // results not eps-valid by construction
  cfg.allowMinkowski = false;  // idem
  cfg.allowWarp = false;       // idem
  cfg.allowLevelSet = false;   // size
  cfg.pCoincident = 0;
  cfg.pNearDegenerate = 0;
  const int steps = (int)c.iparam("steps", 7);
  const int nq = (int)c.iparam("queries", 16);
  const size_t maxPairs = (size_t)c.iparam("maxPairs", 400000);
  vd::Gen g(c.rng, cfg);
  int n = c.rng.range(1, steps);
  for (int s = 0; s < n; s++) g.step();

  auto usable = [&](int i) {
    return g.pool[i].epsValid && g.pool[i].m.Status() == Manifold::Error::NoError && !g.pool[i].m.IsEmpty();
  };
  std::vector<int> cand;
  for (int i = 0; i < (int)g.pool.size(); i++)
    if (usable(i)) cand.push_back(i);
  if (cand.empty()) {
    c.count("cases_without_usable_object");
    return;
  }
  int base = c.rng.chance(0.7) ? cand.back() : c.rng.pick(cand);
  // finishers that keep eps-validity by construction
  if (c.rng.chance(0.35) && g.pool[base].trisHint < cfg.maxTris) {  // genus: drill a thin prism through
    Manifold a = g.pool[base].m;
    Box bb = a.BoundingBox();
    vec3 sz = bb.Size();
    double diag = la::length(sz), mn = std::min({sz.x, sz.y, sz.z});
    if (std::isfinite(diag) && diag > 0 && mn > 0) {
      double rad = mn * c.rng.uni(0.05, 0.25);
      int seg = c.rng.range(3, 8);
      vec3 rot(c.rng.uni(-180, 180), c.rng.uni(-180, 180), c.rng.uni(-180, 180));
      vec3 t = bb.Center() + vec3(c.rng.uni(-0.2, 0.2) * sz.x, c.rng.uni(-0.2, 0.2) * sz.y, c.rng.uni(-0.2, 0.2) * sz.z);
      Manifold drill = Manifold::Cylinder(3 * diag, rad, rad, seg, true).Rotate(rot.x, rot.y, rot.z).Translate(t);
      base = g.add(a - drill, "v" + std::to_string(base) + " - Cylinder(" + vd::fmt(3 * diag) + "," + vd::fmt(rad) + "," + vd::fmt(rad) + "," + std::to_string(seg) + ",true).Rotate" + vd::fmt(rot) + ".Translate" + vd::fmt(t),
                   true, g.pool[base].trisHint * 2 + 8 * seg);
    }
  }
  if (c.rng.chance(0.35)) {  // several components: Compose with disjoint translated copies
    int k = c.rng.range(1, 2);
    std::vector<Manifold> parts{g.pool[base].m};
    Box acc = g.pool[base].m.BoundingBox();
    std::string d = "Compose({v" + std::to_string(base);
    size_t tris = g.pool[base].trisHint;
    for (int i = 0; i < k; i++) {
      int j = c.rng.pick(cand);
      Manifold bj = g.pool[j].m;
      Box bb = bj.BoundingBox();
      int ax = c.rng.range(0, 2);
      vec3 t(c.rng.uni(-0.3, 0.3), c.rng.uni(-0.3, 0.3), c.rng.uni(-0.3, 0.3));
      t[ax] = acc.max[ax] - bb.min[ax] + la::length(acc.Size()) * c.rng.uni(0.02, 0.3);
      if (!std::isfinite(t[ax])) continue;
      Manifold moved = bj.Translate(t);
      parts.push_back(moved);
      acc = acc.Union(moved.BoundingBox());
      d += ",v" + std::to_string(j) + ".Translate" + vd::fmt(t);
      tris += g.pool[j].trisHint;
    }
    base = g.add(Manifold::Compose(parts), d + "})", true, tris);
  }
  if (c.rng.chance(0.15)) {  // "after any transforms": uniform scaling over 12 decades, generic rotation
    double f = pow(10.0, c.rng.uni(-6, 6));
    vec3 rot(c.rng.uni(-180, 180), c.rng.uni(-180, 180), c.rng.uni(-180, 180));
    base = g.add(g.pool[base].m.Rotate(rot.x, rot.y, rot.z).Scale(vec3(f)), "v" + std::to_string(base) + ".Rotate" + vd::fmt(rot) + ".Scale(" + vd::fmt(f) + ")", true, g.pool[base].trisHint);
  }
  std::vector<int> chosen{base};
  if (c.rng.chance(0.4)) {
    int other = c.rng.pick(cand);
    if (other != base) chosen.push_back(other);
  }
  for (int idx : chosen) {
    Obj o;
    if (!makeObj(c, g, idx, 4 * cfg.maxTris, o)) {
      c.count("objects_skipped_empty_or_too_big");
      continue;
    }
    c.count("objects");
    c.maxi("max_tris", (long long)o.soup.t.size());
    Checker k{c, g, o};
    if (!k.selfCrossFree()) {
      // the DSL's eps-valid flag is by construction, but e.g. a strongly twisted
      // extrusion of a non-convex polygon crosses itself: outside the quantifier
      c.count("objects_skipped_self_crossing");
      c.sample(vh::J().s("note", "object flagged eps-valid by the DSL has crossing non-adjacent triangles: not checked").i("idx", c.idx).s("object", o.how).str(), 4);
      continue;
    }
    k.counts();
    if (k.ok) k.measures();
    if (k.ok) k.winding(nq * 2);
    if (k.ok) k.rays(nq);
    if (k.ok) k.slices(3, nq);
    if (k.ok) k.project(nq * 2);
    if (k.ok) k.decompose();
    if (k.ok) k.mingap(3, maxPairs);
    if (!k.ok) return;
    int genus = o.m.Genus();
    if (o.nComp > 1) c.count("objects_multi_component");
    if (genus > 0 && o.nComp == 1) c.count("objects_genus_positive");
    if (k.windingDecided > 0 && k.windingInside > 0 && k.raysDecided > 0 && k.raysWithHits > 0 && k.sliceDecided > 0 && k.projDecided > 0) {
      int bucket = 0;
      for (size_t x = o.soup.t.size(); x > 1; x >>= 1) bucket++;
      c.count("objects_nontrivial");
      c.sig(opKind(g.pool[idx].how) + "#g" + std::to_string(std::min(genus, 3)) + "#c" + std::to_string(std::min<size_t>(o.nComp, 3)) + "#t" + std::to_string(bucket / 2) +
            "#gap" + std::to_string(k.gapDecided > 0) + "#si" + std::to_string(k.sliceInside > 0) + "#pi" + std::to_string(k.projInside > 0));
    }
    if (c.idx % 53 == 0)
      c.sample(vh::J().i("idx", c.idx).s("object", o.how).u("tris", o.soup.t.size()).i("genus", genus).u("components", o.nComp)
                   .i("windingDecided", k.windingDecided).i("raysDecided", k.raysDecided).i("slicePointsDecided", k.sliceDecided)
                   .i("projectPointsDecided", k.projDecided).i("minGapDecided", k.gapDecided).raw("program", g.programJson(10)).str());
  }
}
