// C12 — Offset, Hull, Decompose and Simplify of CrossSections mean what they
// say (DESIGN.md §4 C12).   geom2d-rev: 1
//
// Oracle: brute-force point-to-region distance (point-segment distance in long
// double + the exact winding classifier of c11_geom2d.h) applied to
// ToPolygons() of the input and of the result.
//
// Guard band of the Offset clauses (samples inside it never decide):
//   B = 8*E + 64*DBL_EPSILON*S + straightSlack (+ 2|delta| when round-join chords are shorter than 1.5*E)
//   S = maxAbs(input) + reach,  reach = Dmax for Miter joins, 2|delta| otherwise
//   E = max(result.GetTolerance(), eps(S)), eps(L) = 1001*12.37*u*2^ceil(log2 L)
//       (Offset regularises its raw rings with ApplyFillRule at InferEps(rings)
//       and stores max(input tolerance, InferEps(result)) as the tolerance)
//   straightSlack: Offset treats a corner whose vertex lies within eps(edge
//       length) of the chord through its neighbours as straight
//       (boolean2_offset.cpp:169-182); the lateral error of that is
//       |delta|*(1-cos(turn)), granted per input (0 for almost every input).
//       Inputs with a sub-eps REVERSAL spike (same test, turn > 90 deg) are
//       rejected as not eps-valid (counted).
//   chordal band (Round joins only): c = |delta|*(1-cos(pi/segments)),
//       segments = circularSegments if >= 3 else
//       Quality::GetCircularSegments(|delta|), clamped to [3, 32768]
//   Dmax = |delta|*sqrt(2/max(2/L^2 - 8e-15, 1.9e-12)), L = miter limit if
//       finite and >= 2 else 2 (the rounding of the unit normals is granted)
//
// Stages (param "mode"): offset, hull, decompose, simplify.
#include <cfloat>
#include <set>

#include "c11_geom2d.h"
#include "common/vh.h"
#include "manifold/cross_section.h"

using namespace manifold;
using g2::ld;
using g2::Seg;

namespace {

const ld PI = 3.14159265358979323846264338327950288L;

static void tmark(const char* what) {
  static const bool on = getenv("VERIF_TIMING") != nullptr;
  if (!on) return;
  static clock_t last = clock();
  clock_t now = clock();
  fprintf(stderr, "[t] %-28s %.3fs\n", what, (double)(now - last) / CLOCKS_PER_SEC);
  last = now;
}

// ----------------------------------------------------------------- inputs
SimplePolygon reversed(SimplePolygon r) {
  std::reverse(r.begin(), r.end());
  return r;
}
// star-shaped about ctr: simple by construction (strictly increasing angles)
SimplePolygon starRing(vh::Rng& g, int n, double rmin, double rmax, vec2 ctr, double phase, std::vector<double>* radii = nullptr,
                       std::vector<double>* angles = nullptr) {
  SimplePolygon r;
  for (int i = 0; i < n; i++) {
    const double a = phase + 6.283185307179586 * (i + g.uni(-0.35, 0.35)) / n;
    const double rad = g.uni(rmin, rmax);
    if (radii) radii->push_back(rad);
    if (angles) angles->push_back(a);
    r.push_back(vec2(ctr.x + rad * std::cos(a), ctr.y + rad * std::sin(a)));
  }
  return r;
}
SimplePolygon scaledAbout(const SimplePolygon& r, vec2 ctr, double f) {
  SimplePolygon q;
  for (auto& v : r) q.push_back(ctr + f * (v - ctr));
  return q;
}

struct Shape {
  Polygons polys;
  std::string family;
};

// corner zoo on a regular polygon: outward spikes and inward notches of chosen
// apex angle on distinct edges (validated afterwards by an exact simplicity test)
SimplePolygon zooRing(vh::Rng& g) {
  const int n = g.range(3, 8);
  const double ph = g.uni(0, 6.28);
  SimplePolygon base;
  for (int i = 0; i < n; i++) base.push_back(vec2(std::cos(ph + 6.283185307179586 * i / n), std::sin(ph + 6.283185307179586 * i / n)));
  SimplePolygon out;
  for (int i = 0; i < n; i++) {
    const vec2 a = base[i], b = base[(i + 1) % n];
    out.push_back(a);
    const vec2 e = b - a;
    const double len = std::hypot(e.x, e.y);
    const vec2 t = e / len, nrm(t.y, -t.x);  // outward (right of a CCW edge)
    const int what = g.range(0, 5);
    if (what == 0) {  // collinear vertices
      int k = g.range(1, 3);
      for (int q = 1; q <= k; q++) out.push_back(a + e * ((double)q / (k + 1)));
    } else if (what == 1 || what == 2) {  // spike (outward) or notch (inward)
      static const double halfAngles[] = {1e-4, 1e-3, 0.01, 0.1, 0.3, 0.7, 1.2, 1.5};
      const double ha = halfAngles[g.below(8)];
      const double hb = len * g.uni(0.02, 0.12);          // half base
      double h = hb / std::tan(ha);
      const double hmax = what == 1 ? 3.0 : 0.12 * len;
      if (h > hmax) h = hmax;                             // blunt it: keeps the zoo simple
      const vec2 m = a + e * g.uni(0.4, 0.6);
      const double sgn = what == 1 ? 1.0 : -1.0;
      out.push_back(m - hb * t);
      out.push_back(m + sgn * h * nrm + g.uni(-0.5, 0.5) * hb * t);
      out.push_back(m + hb * t);
    } else if (what == 3) {  // near-straight corner
      static const double dev[] = {1e-12, 1e-9, 1e-6, 1e-3};
      out.push_back(a + e * 0.5 + (g.chance(0.5) ? 1 : -1) * dev[g.below(4)] * len * nrm);
    }
  }
  return out;
}

Shape makeShape(vh::Rng& g, int forced = -1, bool place = true) {
  Shape s;
  const int fam = forced >= 0 ? forced : g.range(0, 7);
  switch (fam) {
    case 0: {
      s.family = "star";
      s.polys.push_back(starRing(g, g.range(3, 20), 0.3, 1.0, vec2(0, 0), g.uni(0, 6.28)));
      break;
    }
    case 1: {
      s.family = "star+hole";
      SimplePolygon o = starRing(g, g.range(3, 16), 0.4, 1.0, vec2(0, 0), g.uni(0, 6.28));
      s.polys.push_back(o);
      s.polys.push_back(reversed(scaledAbout(o, vec2(0, 0), g.uni(0.1, 0.8))));
      break;
    }
    case 2: {
      s.family = "multi";
      const int k = g.range(2, 4);
      double x = 0;
      for (int i = 0; i < k; i++) {
        const double rmax = g.uni(0.3, 1.0);
        static const double gaps[] = {1e-6, 1e-3, 0.05, 0.3, 1.0};
        if (i) x += rmax + gaps[g.below(5)];
        const vec2 ctr(x, g.uni(-0.2, 0.2));
        SimplePolygon o = starRing(g, g.range(3, 10), 0.3 * rmax, rmax, ctr, g.uni(0, 6.28));
        s.polys.push_back(o);
        if (g.chance(0.3)) s.polys.push_back(reversed(scaledAbout(o, ctr, g.uni(0.2, 0.7))));
        x += rmax;
      }
      break;
    }
    case 3: {
      s.family = "nested";
      SimplePolygon o = starRing(g, g.range(3, 12), 0.5, 1.0, vec2(0, 0), g.uni(0, 6.28));
      double f = 1;
      const int depth = g.range(2, 5);
      for (int d = 0; d < depth; d++) {
        s.polys.push_back(d % 2 ? reversed(scaledAbout(o, vec2(0, 0), f)) : scaledAbout(o, vec2(0, 0), f));
        f *= g.uni(0.4, 0.85);
      }
      break;
    }
    case 4: {
      s.family = "ortho";
      // staircase / comb: x-monotone orthogonal polygon with collinear and reflex corners
      const int k = g.range(2, 7);
      SimplePolygon r;
      r.push_back(vec2(0, 0));
      double x = 0;
      std::vector<std::pair<double, double>> tops;
      for (int i = 0; i < k; i++) {
        const double w = g.uni(0.1, 0.5), h = g.chance(0.3) && !tops.empty() ? tops.back().second : g.uni(0.2, 1.0);
        tops.push_back({x + w, h});
        x += w;
      }
      r.push_back(vec2(x, 0));
      for (int i = k - 1; i >= 0; i--) {
        const double xr = tops[i].first, xl = i ? tops[i - 1].first : 0.0, h = tops[i].second;
        r.push_back(vec2(xr, h));
        r.push_back(vec2(xl, h));
      }
      s.polys.push_back(r);
      break;
    }
    case 5: {
      s.family = "zoo";
      s.polys.push_back(zooRing(g));
      break;
    }
    case 6: {
      s.family = "rect";
      const double w = g.uni(0.05, 2), h = g.uni(0.05, 2);
      s.polys.push_back({{0, 0}, {w, 0}, {w, h}, {0, h}});
      break;
    }
    default: {
      s.family = "circle";
      const int n = g.range(3, 64);
      SimplePolygon r;
      for (int i = 0; i < n; i++) r.push_back(vec2(std::cos(6.283185307179586 * i / n), std::sin(6.283185307179586 * i / n)));
      s.polys.push_back(r);
      break;
    }
  }
  if (!place) return s;
  // placement: scale over many decades, rotation, moderate translation
  double sc = 1;
  const int m = g.range(0, 4);
  if (m == 1) sc = std::pow(10.0, g.uni(-6, 6));
  else if (m == 2) sc = std::ldexp(1.0, g.range(-10, 10));
  const double ang = (s.family == "ortho" || s.family == "rect") && g.chance(0.6) ? 0.0 : g.uni(0, 6.28);
  vec2 t(0, 0);
  if (g.chance(0.3)) t = vec2(g.uni(-1, 1), g.uni(-1, 1)) * (sc * std::pow(10.0, g.uni(-1, 2)));
  const double cs = std::cos(ang), sn = std::sin(ang);
  for (auto& r : s.polys)
    for (auto& v : r) {
      const double x = v.x, y = v.y;
      v = ang == 0 ? vec2(sc * x + t.x, sc * y + t.y) : vec2(sc * (cs * x - sn * y) + t.x, sc * (sn * x + cs * y) + t.y);
    }
  return s;
}

// Exact validation that a contour set is a regularised region "by construction":
// every pair of non-adjacent edges is farther apart than sep, adjacent edges
// are non-degenerate, and the winding number is 0 or 1 on both sides of every
// edge midpoint (outer rings CCW, holes CW, proper nesting).
bool validRegion(const Polygons& P, double sep) {
  std::vector<Seg> S;
  std::vector<std::pair<int, int>> id;  // ring, index
  for (size_t r = 0; r < P.size(); r++) {
    const size_t n = P[r].size();
    if (n < 3) return false;
    for (size_t i = 0; i < n; i++) {
      const vec2 a = P[r][i], b = P[r][(i + 1) % n];
      if (g2::distPt(a, b) <= sep) return false;
      S.push_back({a, b});
      id.push_back({(int)r, (int)i});
    }
  }
  for (size_t i = 0; i < S.size(); i++)
    for (size_t j = i + 1; j < S.size(); j++) {
      bool adjacent = false;
      if (id[i].first == id[j].first) {
        const int n = (int)P[id[i].first].size();
        const int d = std::abs(id[i].second - id[j].second);
        adjacent = d == 1 || d == n - 1;
      }
      if (adjacent) {
        // the far endpoints must stay clear of the other edge
        const bool jFollows = (id[j].second == (id[i].second + 1) % (int)P[id[i].first].size());
        const Seg& first = jFollows ? S[i] : S[j];
        const Seg& second = jFollows ? S[j] : S[i];
        if (g2::distSeg(second.b, first.a, first.b) <= sep || g2::distSeg(first.a, second.a, second.b) <= sep) return false;
        continue;
      }
      // segment-segment distance: zero if they cross, else min endpoint distance
      const int o1 = g2::orient(S[i].a, S[i].b, S[j].a), o2 = g2::orient(S[i].a, S[i].b, S[j].b);
      const int o3 = g2::orient(S[j].a, S[j].b, S[i].a), o4 = g2::orient(S[j].a, S[j].b, S[i].b);
      if (o1 * o2 <= 0 && o3 * o4 <= 0) return false;
      const ld d = std::min(std::min(g2::distSeg(S[j].a, S[i].a, S[i].b), g2::distSeg(S[j].b, S[i].a, S[i].b)),
                            std::min(g2::distSeg(S[i].a, S[j].a, S[j].b), g2::distSeg(S[i].b, S[j].a, S[j].b)));
      if (d <= sep) return false;
    }
  for (const Seg& s : S) {
    const vec2 m = 0.5 * (s.a + s.b);
    const double len = std::hypot(s.b.x - s.a.x, s.b.y - s.a.y);
    const vec2 nrm((s.b.y - s.a.y) / len, -(s.b.x - s.a.x) / len);
    const double h = 0.25 * sep;  // closer than any other edge can be (adjacent edges: > sep/2 at the midpoint)
    const int wr = g2::windingSegs(S, m + h * nrm), wl = g2::windingSegs(S, m - h * nrm);
    if (wr != 0 || wl != 1) return false;  // interior on the left of every edge
  }
  return true;
}

// C11 regularity oracle on a value (deep crossing + winding 0/1 at samples)
bool c11Regular(vh::Ctx& c, const Polygons& P, double band) {
  const std::vector<Seg> S = g2::segsOf(P);
  if (g2::deepCrossing(S, band).found) return false;
  g2::Sampler sm(c.rng);
  sm.aroundEdges(S, band, 30, {2, 10, 100, 1e4});
  for (auto& p : sm.pts) {
    if (g2::distToSegs(p, S) <= band) continue;
    const int w = g2::windingSegs(S, p);
    if (w != 0 && w != 1) return false;
  }
  return true;
}

const char* jtName(JoinType jt) {
  return jt == JoinType::Round ? "round" : jt == JoinType::Miter ? "miter" : jt == JoinType::Square ? "square" : "bevel";
}

// ----------------------------------------------------------------- offset
struct OffsetParams {
  double delta;
  JoinType jt;
  double miterLimit;
  int segments;
};
struct OffsetEval {
  Polygons polys;
  std::vector<Seg> segs;
  double tol = 0;
  ld B = 0, chord = 0, Dmax = 0;
  int segUsed = 0;
  bool collapse = false, arcChain = false;
};

struct InputInfo {
  Polygons polys;
  std::vector<Seg> segs;
  double scale = 0;
  bool subEpsSpike = false;
  ld straightTurn1mCos = 0;  // max (1 - cos turn) over corners Offset may treat as straight
};

InputInfo analyseInput(const Polygons& P) {
  InputInfo in;
  in.polys = P;
  in.segs = g2::segsOf(P);
  in.scale = g2::maxAbs(P);
  for (const auto& r : P) {
    const size_t n = r.size();
    for (size_t i = 0; i < n; i++) {
      const vec2 Pp = r[(i + n - 1) % n], V = r[i], N = r[(i + 1) % n];
      const ld e1x = (ld)V.x - Pp.x, e1y = (ld)V.y - Pp.y, e2x = (ld)N.x - V.x, e2y = (ld)N.y - V.y;
      const ld l1 = hypotl(e1x, e1y), l2 = hypotl(e2x, e2y);
      if (l1 == 0 || l2 == 0) continue;
      const ld v2x = (ld)N.x - Pp.x, v2y = (ld)N.y - Pp.y;
      const ld area = fabsl(e1x * v2y - e1y * v2x);
      const ld base = std::max(l1, hypotl(v2x, v2y));
      const double epsl = g2::epsFromScale((double)std::max(l1, l2));
      if (2 * area <= 8 * base * epsl) {  // library: 2*area <= base*eps  (8x margin)
        const ld dot = e1x * e2x + e1y * e2y;
        if (dot < 0) in.subEpsSpike = true;
        else {
          const ld sn = (e1x * e2y - e1y * e2x) / (l1 * l2), cs = dot / (l1 * l2);
          in.straightTurn1mCos = std::max(in.straightTurn1mCos, sn * sn / (1 + cs));
        }
      }
    }
  }
  return in;
}

// "Collapse regime": some concave join consumes at least half of an adjacent
// input edge (a concave join with turn angle t consumes |delta|*tan(t/2) of
// each adjacent edge, and its connector spans |delta|*sin(t) <= twice that
// along them). Outside this regime every translated edge keeps its middle and
// no join connector reaches past a neighbouring vertex; inside it the raw
// offset ring re-connects across vanished or overrun edges (hole closing up,
// part thinner than 2|delta| vanishing, notch filling in, near-straight reflex
// corner next to a short edge). Witnesses found in this regime are keyed
// coarsely ("offset:concave-join-collapse:...") because they share one root
// cause (OffsetContour's concave join omits the original vertex).
bool edgeConsumed(const InputInfo& in, double delta) {
  const ld ad = fabsl((ld)delta);
  const int sgn = delta >= 0 ? 1 : -1;
  for (const auto& r : in.polys) {
    const size_t n = r.size();
    std::vector<ld> cons(n, 0);
    for (size_t i = 0; i < n; i++) {
      const vec2 Pp = r[(i + n - 1) % n], V = r[i], N = r[(i + 1) % n];
      const ld e1x = (ld)V.x - Pp.x, e1y = (ld)V.y - Pp.y, e2x = (ld)N.x - V.x, e2y = (ld)N.y - V.y;
      const ld l1 = hypotl(e1x, e1y), l2 = hypotl(e2x, e2y);
      if (l1 == 0 || l2 == 0) continue;
      const int o = g2::orient(Pp, V, N);
      if (o * sgn >= 0) continue;  // convex join or straight
      const ld cr = fabsl(e1x * e2y - e1y * e2x), dt = e1x * e2x + e1y * e2y;
      const ld den = l1 * l2 + dt;
      cons[i] = den > 0 ? ad * cr / den : std::numeric_limits<ld>::infinity();
    }
    for (size_t i = 0; i < n; i++) {
      const ld len = g2::distPt(r[i], r[(i + 1) % n]);
      if (2 * std::max(cons[i], cons[(i + 1) % n]) >= len * (1 - 1e-6L)) return true;
    }
  }
  return false;
}

double effLimit(double ml) { return std::isfinite(ml) && ml >= 2.0 ? ml : 2.0; }

OffsetEval evalOffset(vh::Ctx& c, const CrossSection& cs, const InputInfo& in, const OffsetParams& q) {
  OffsetEval o;
  c.site(std::string("offset:") + jtName(q.jt));
  CrossSection L = cs.Offset(q.delta, q.jt, q.miterLimit, q.segments);
  o.polys = L.ToPolygons();
  o.tol = L.GetTolerance();
  o.segs = g2::segsOf(o.polys);
  const ld ad = fabsl((ld)q.delta);
  int seg = q.segments >= 3 ? q.segments : Quality::GetCircularSegments(std::fabs(q.delta));
  seg = std::min(std::max(seg, 3), 1 << 15);
  o.segUsed = seg;
  o.chord = q.jt == JoinType::Round ? ad * (1 - cosl(PI / seg)) * (1 + 1e-9L) : 0;
  const ld Lm = effLimit(q.miterLimit);
  o.Dmax = ad * sqrtl(2 / std::max(2 / (Lm * Lm) - 8e-15L, (ld)1.9e-12)) * (1 + 1e-9L);
  const ld reach = q.jt == JoinType::Miter ? o.Dmax : 2 * ad;
  const double S = (double)std::max((ld)std::max(in.scale, g2::maxAbs(o.polys)), in.scale + reach);
  double E = g2::epsFromScale(S);
  if (std::isfinite(o.tol) && o.tol > E) E = o.tol;
  o.B = 8 * (ld)E + 64 * (ld)DBL_EPSILON * S + 2 * ad * in.straightTurn1mCos;
  // Round-join chords shorter than the regularisation eps chain-merge (the
  // documented transitive vertex merge, cf. C11 "drift"): a whole arc may
  // collapse onto one of its points, moving the boundary by up to the arc's
  // span <= 2|delta|. Such requests cannot be resolved at this scale.
  if (q.jt == JoinType::Round && 2 * ad * sinl(PI / seg) <= 1.5L * E) {
    o.B += 2 * ad;
    o.arcChain = true;
  }
  o.collapse = edgeConsumed(in, q.delta);
  return o;
}

struct Cls {
  ld lo, hi;        // bounds on the signed distance to the input region (negative inside)
  bool rectOut, rectIn;  // inside an outward / inward edge rectangle of height |delta| (shrunk by B)
  int w;
};
Cls classify(const InputInfo& in, vec2 p, ld B, ld ad) {
  Cls k{0, 0, false, false, 0};
  ld best = std::numeric_limits<ld>::infinity();
  for (const Seg& s : in.segs) {
    const ld ex = (ld)s.b.x - s.a.x, ey = (ld)s.b.y - s.a.y, px = (ld)p.x - s.a.x, py = (ld)p.y - s.a.y;
    const ld len = hypotl(ex, ey);
    if (len == 0) continue;
    const ld u = (px * ex + py * ey) / len;       // along the edge
    const ld t = (px * ey - py * ex) / len;       // > 0 on the right (outward) side
    ld d;
    if (u < 0) d = hypotl(px, py);
    else if (u > len) d = hypotl(px - ex, py - ey);
    else d = fabsl(t);
    if (d < best) best = d;
    if (u >= B && u <= len - B) {
      if (t >= B && t <= ad - B) k.rectOut = true;
      if (-t >= B && -t <= ad - B) k.rectIn = true;
    }
  }
  k.w = g2::windingSegs(in.segs, p);
  if (best <= B) k.lo = -best, k.hi = best;
  else if (k.w > 0) k.lo = k.hi = -best;
  else k.lo = k.hi = best;
  return k;
}

std::string paramsJson(const OffsetParams& q, const OffsetEval& o) {
  return vh::J().d("delta", q.delta).s("join", jtName(q.jt)).d("miter_limit", q.miterLimit).i("circularSegments", q.segments)
      .i("segments_used", o.segUsed).bo("collapse_regime", o.collapse).d("chordal_band", (double)o.chord).d("band", (double)o.B).d("Dmax", (double)o.Dmax).d("result_tolerance", o.tol).str();
}

std::vector<vec2> offsetSamples(vh::Ctx& c, const InputInfo& in, const OffsetEval& o, const OffsetParams& q) {
  vh::Rng& g = c.rng;
  std::vector<vec2> pts;
  const double B = (double)o.B, ad = std::fabs(q.delta), ch = (double)o.chord, Dm = (double)o.Dmax;
  const std::vector<double> ks = {2, 10, 100, 1e4};
  // around input edges: along both normals at the decisive distances
  const size_t nE = in.segs.size();
  const size_t takeE = std::min<size_t>(nE, 40);
  for (size_t k = 0; k < takeE; k++) {
    const Seg& s = takeE == nE ? in.segs[k] : in.segs[g.below(nE)];
    const double ex = s.b.x - s.a.x, ey = s.b.y - s.a.y, len = std::hypot(ex, ey);
    if (!(len > 0)) continue;
    const vec2 n(ey / len, -ex / len);
    for (int rep = 0; rep < 2; rep++) {
      const double t = rep ? g.uni(0.02, 0.98) : 0.5;
      const vec2 m(s.a.x + t * ex, s.a.y + t * ey);
      const double kk = ks[g.below(ks.size())] * B;
      for (double sg : {1.0, -1.0}) {
        pts.push_back(m + sg * (ad - ch - kk) * n);
        pts.push_back(m + sg * (ad + kk) * n);
        pts.push_back(m + sg * (g.uni(0.05, 0.95) * ad) * n);
        pts.push_back(m + sg * kk * n);
      }
    }
  }
  // around input vertices: on circles of the decisive radii, and along the bisector to the miter reach
  const size_t takeV = std::min<size_t>(nE, 30);
  for (size_t k = 0; k < takeV; k++) {
    const size_t i = takeV == nE ? k : g.below(nE);
    const vec2 V = in.segs[i].a;
    const double kk = ks[g.below(ks.size())] * B;
    for (int d = 0; d < 4; d++) {
      const double a = g.uni(0, 6.283185307179586);
      const vec2 u(std::cos(a), std::sin(a));
      pts.push_back(V + (ad - ch - kk) * u);
      pts.push_back(V + (ad + kk) * u);
      pts.push_back(V + (Dm + kk) * u);
      pts.push_back(V + (Dm * g.uni(1.0, 1.3) + kk) * u);
    }
  }
  for (const auto& r : in.polys) {
    const size_t n = r.size();
    for (size_t i = 0; i < n && i < 24; i++) {
      const vec2 P = r[(i + n - 1) % n], V = r[i], N = r[(i + 1) % n];
      const vec2 e1 = V - P, e2 = N - V;
      const double l1 = std::hypot(e1.x, e1.y), l2 = std::hypot(e2.x, e2.y);
      if (!(l1 > 0) || !(l2 > 0)) continue;
      vec2 b(e1.y / l1 + e2.y / l2, -e1.x / l1 - e2.x / l2);
      const double bl = std::hypot(b.x, b.y);
      if (!(bl > 1e-9)) continue;
      b = b / bl;
      const double kk = ks[g.below(ks.size())] * B;
      for (double sg : {1.0, -1.0}) {
        pts.push_back(V + sg * (Dm + kk) * b);
        pts.push_back(V + sg * (Dm * 1.05 + kk) * b);
        pts.push_back(V + sg * (ad * g.uni(1.0, 1.4)) * b);
      }
    }
  }
  // around result edges and vertices
  g2::Sampler sm(g);
  sm.aroundEdges(o.segs, B, 40, {2, 10, 100, 1e4});
  sm.aroundVerts(o.segs, B, 20, {2, 10, 100, 1e4});
  {
    std::vector<Seg> all = in.segs;
    all.insert(all.end(), o.segs.begin(), o.segs.end());
    double x0, y0, x1, y1;
    g2::bbox(all, x0, y0, x1, y1);
    sm.stratified(x0, y0, x1, y1, 7);
  }
  pts.insert(pts.end(), sm.pts.begin(), sm.pts.end());
  return pts;
}

// returns false when a violation was reported
bool checkOffset(vh::Ctx& c, const InputInfo& in, const OffsetParams& q, const OffsetEval& o, const std::vector<vec2>& pts,
                 const std::string& how, long& decided) {
  const std::string tag = std::string(jtName(q.jt)) + (q.delta > 0 ? ":delta>0" : q.delta < 0 ? ":delta<0" : ":delta=0");
  auto fail = [&](const std::string& key, vh::J& j) {
    j.s("how", how).raw("params", paramsJson(q, o)).raw("input", g2::polyJson(in.polys, 300)).raw("result", g2::polyJson(o.polys, 300));
    c.violation(key, j.str());
    return false;
  };
  if (!g2::allFinite(o.polys)) {
    vh::J j;
    return fail("offset:nonfinite-output:" + tag, j);
  }
  // regularised
  {
    g2::Crossing x = g2::deepCrossing(o.segs, o.B);
    c.count("result_edge_pairs_tested", x.pairsTested);
    if (x.found) {
      vh::J j;
      j.raw("edge1", g2::segJson(x.s)).raw("edge2", g2::segJson(x.t));
      return fail("offset:regular:deep-crossing:" + tag, j);
    }
  }
  const ld ad = fabsl((ld)q.delta), B = o.B, ch = o.chord;
  const bool round = q.jt == JoinType::Round;
  c.count(o.collapse ? "offsets_in_collapse_regime" : "offsets_outside_collapse_regime");
  if (o.arcChain) c.count("offsets_with_sub_eps_arc_chords");
  // bound the oracle's work: at most ~6e6 point-edge evaluations per offset
  const size_t budget = std::max<size_t>(120, (size_t)(6e6 / (double)(in.segs.size() + o.segs.size() + 1)));
  const size_t stride = pts.size() > budget ? (pts.size() + budget - 1) / budget : 1;
  size_t pi = c.rng.below(stride);
  for (; pi < pts.size(); pi += stride) {
    const vec2& p = pts[pi];
    if (!std::isfinite(p.x) || !std::isfinite(p.y)) continue;
    if (g2::distToSegs(p, o.segs) <= B) {
      c.count("points_skipped_in_band");
      continue;
    }
    const int wl = g2::windingSegs(o.segs, p);
    if (wl != 0 && wl != 1) {
      vh::J j;
      j.raw("point", g2::ptJson(p)).i("result_winding", wl);
      return fail("offset:regular:winding-not-0-or-1:" + tag, j);
    }
    const bool inL = wl == 1;
    const Cls k = classify(in, p, B, ad);
    if (k.hi > B && k.w != 0 && k.w != 1) {
      c.count("input_not_regular_skipped");
      continue;
    }
    const char* why = nullptr;
    bool any = false;
    if (q.delta >= 0) {
      if (round) {
        if (k.hi <= ad - ch - B) { any = true; if (!inL) why = "round:point-within-delta-missing"; }
        if (k.lo >= ad + B) { any = true; if (inL) why = "round:point-beyond-delta-present"; }
      }
      if (k.hi < -B) { any = true; if (!inL) why = "input-point-missing"; }
      if (k.rectOut) { any = true; if (!inL) why = "edge-dilation-missing"; }
      if (k.lo >= o.Dmax + B) { any = true; if (inL) why = "beyond-miter-limit-distance"; }
    } else {
      if (round) {
        if (k.hi <= -ad - B) { any = true; if (!inL) why = "round:point-deeper-than-delta-missing"; }
        if (k.lo >= -ad + ch + B) { any = true; if (inL) why = "round:point-within-delta-of-complement-present"; }
      }
      if (k.lo > B) { any = true; if (inL) why = "point-outside-input-present"; }
      if (k.rectIn) { any = true; if (inL) why = "edge-erosion-missing"; }
      if (k.hi <= -(o.Dmax + B)) { any = true; if (!inL) why = "hole-beyond-miter-limit-distance"; }
    }
    if (why) {
      vh::J j;
      j.raw("point", g2::ptJson(p)).bo("in_result", inL).d("signed_dist_lo", (double)k.lo).d("signed_dist_hi", (double)k.hi)
          .bo("in_outward_edge_rect", k.rectOut).bo("in_inward_edge_rect", k.rectIn).d("dist_to_result_edges", (double)g2::distToSegs(p, o.segs));
      if (o.collapse) return fail(std::string("offset:concave-join-collapse:") + (q.delta >= 0 ? "delta>0" : "delta<0"), j.s("clause", why));
      return fail(std::string("offset:") + why + ":" + tag, j);
    }
    if (any) {
      decided++;
      c.count(inL ? "points_decided_inside" : "points_decided_outside");
    } else
      c.count("points_undecided_between_bounds");
  }
  return true;
}

bool checkMonotone(vh::Ctx& c, const InputInfo& in, const OffsetParams& q1, const OffsetEval& o1, const OffsetParams& q2, const OffsetEval& o2,
                   const std::vector<vec2>& pts, const std::string& how) {
  // q1.delta < q2.delta: nothing of Offset(d1) may lie outside Offset(d2)
  ld B = std::max(o1.B, o2.B) + o1.chord + o2.chord;
  long n = 0;
  const size_t budget = std::max<size_t>(120, (size_t)(6e6 / (double)(o1.segs.size() + o2.segs.size() + 1)));
  const size_t stride = pts.size() > budget ? (pts.size() + budget - 1) / budget : 1;
  for (size_t pi = c.rng.below(stride); pi < pts.size(); pi += stride) {
    const vec2& p = pts[pi];
    if (!std::isfinite(p.x) || !std::isfinite(p.y)) continue;
    if (g2::distToSegs(p, o1.segs) <= B || g2::distToSegs(p, o2.segs) <= B) continue;
    const int w1 = g2::windingSegs(o1.segs, p), w2 = g2::windingSegs(o2.segs, p);
    n++;
    if (w1 == 1 && w2 == 0) {
      c.violation((o1.collapse || o2.collapse) ? std::string("offset:concave-join-collapse:not-monotone") : std::string("offset:not-monotone-in-delta:") + jtName(q1.jt),
                  vh::J().s("how", how).raw("point", g2::ptJson(p)).raw("params_small", paramsJson(q1, o1)).raw("params_large", paramsJson(q2, o2))
                      .raw("input", g2::polyJson(in.polys, 300)).raw("result_small", g2::polyJson(o1.polys, 200)).raw("result_large", g2::polyJson(o2.polys, 200)).str());
      return false;
    }
  }
  c.count("monotone_points_compared", n);
  return true;
}

double pickDelta(vh::Rng& g, double size) {
  const int m = g.range(0, 9);
  double rel;
  if (m <= 4) rel = std::pow(10.0, g.uni(-2, 0.5));      // the interesting range: comparable to the features
  else if (m <= 6) rel = std::pow(10.0, g.uni(-6, -2));
  else if (m == 7) rel = std::pow(10.0, g.uni(0.5, 3));
  else if (m == 8) rel = std::pow(10.0, g.uni(3, 6));
  else rel = std::pow(10.0, g.uni(-9, -6));
  return (g.chance(0.45) ? -1 : 1) * rel * size;
}

// input from the C11 generator family: Boolean of two validated shapes, accepted only if it passes the C11 oracle
bool booleanInput(vh::Ctx& c, CrossSection& cs, std::string& how) {
  vh::Rng& g = c.rng;
  // both around the origin at unit size; b shrunk and shifted so that the two usually overlap
  Shape a = makeShape(g, g.range(0, 1), false), b = makeShape(g, g.range(0, 1), false);
  const double sc = g.chance(0.6) ? 1.0 : std::pow(10.0, g.uni(-5, 5)), fb = g.uni(0.4, 1.0);
  const vec2 tb(g.uni(-0.7, 0.7), g.uni(-0.7, 0.7));
  for (auto& r : a.polys)
    for (auto& v : r) v = v * sc;
  for (auto& r : b.polys)
    for (auto& v : r) v = (v * fb + tb) * sc;
  if (!validRegion(a.polys, 64 * g2::epsFromScale(g2::maxAbs(a.polys))) || !validRegion(b.polys, 64 * g2::epsFromScale(g2::maxAbs(b.polys)))) return false;
  CrossSection A(a.polys), B(b.polys);
  const OpType op = (OpType)g.range(0, 2);
  cs = A.Boolean(B, op);
  how = std::string("Boolean(") + (op == OpType::Add ? "add" : op == OpType::Subtract ? "subtract" : "intersect") + ") of " + a.family + "," + b.family;
  return true;
}

// Make a verified input: returns false if the candidate was rejected (counted).
bool makeInput(vh::Ctx& c, CrossSection& cs, InputInfo& in, std::string& how, bool allowBoolean) {
  vh::Rng& g = c.rng;
  if (allowBoolean && g.chance(0.2)) {
    if (!booleanInput(c, cs, how)) return false;
    Polygons P = cs.ToPolygons();
    if (P.empty()) { c.count("inputs_rejected_empty"); return false; }
    const double tol = cs.GetTolerance();
    const double band = 4 * std::max(tol, g2::epsFromScale(g2::maxAbs(P))) + 64 * DBL_EPSILON * g2::maxAbs(P);
    // passed the C11 oracle, and additionally free of sub-band features (pinches, slivers)
    if (!c11Regular(c, P, band) || !validRegion(P, 16 * band)) { c.count("inputs_rejected_boolean_output_with_sub_band_features"); return false; }
    in = analyseInput(P);
    c.count("inputs_from_boolean_output");
  } else {
    Shape s = makeShape(g);
    const double sc = g2::maxAbs(s.polys);
    const double sep = 64 * g2::epsFromScale(sc);
    if (!validRegion(s.polys, sep)) { c.count("inputs_rejected_not_simple_by_exact_test"); return false; }
    cs = CrossSection(s.polys);
    how = s.family;
    Polygons P = cs.ToPolygons();
    // the value Offset reads is ToPolygons(); it must itself be a valid region (it is the input set, bit for bit, in every run so far)
    if (!validRegion(P, sep)) { c.count("inputs_rejected_ctor_output_invalid"); return false; }
    in = analyseInput(P);
    c.count("inputs_by_construction");
  }
  if (in.subEpsSpike) { c.count("inputs_rejected_sub_eps_spike"); return false; }
  return true;
}

void caseOffset(vh::Ctx& c) {
  vh::Rng& g = c.rng;
  CrossSection cs;
  InputInfo in;
  std::string how;
  tmark("case start");
  if (!makeInput(c, cs, in, how, true)) return;
  tmark("makeInput");
  double x0, y0, x1, y1;
  g2::bbox(in.segs, x0, y0, x1, y1);
  const double size = std::max(x1 - x0, y1 - y0);
  OffsetParams q;
  q.delta = pickDelta(g, size);
  if (g.chance(0.02)) q.delta = 0;
  {
    const JoinType all[5] = {JoinType::Round, JoinType::Round, JoinType::Miter, JoinType::Square, JoinType::Bevel};
    q.jt = all[g.range(0, 4)];
  }
  static const double mls[] = {2.0, 2.0, 2.5, 3.0, 4.0, 10.0, 100.0, 1e3, 1e6, 1.0, 0.0, -3.0, 1.999};
  q.miterLimit = mls[g.below(13)];
  if (g.chance(0.05)) q.miterLimit = std::nan("");
  if (g.chance(0.05)) q.miterLimit = std::numeric_limits<double>::infinity();
  static const int segs[] = {0, 0, 0, 3, 4, 5, 8, 16, 33, 64, 256, 1000, 10000, 2, 1, -5, 100000};
  q.segments = segs[g.below(17)];
  if (q.jt != JoinType::Round && g.chance(0.7)) q.segments = 0;
  char pbuf[200];
  snprintf(pbuf, sizeof pbuf, " Offset(%.17g,%s,%g,%d)", q.delta, jtName(q.jt), q.miterLimit, q.segments);
  how += pbuf;
  if (getenv("VERIF_TRACE")) fprintf(stderr, "%s\n  input %s\n", how.c_str(), g2::polyJson(in.polys, 100).c_str());
  OffsetEval o = evalOffset(c, cs, in, q);
  tmark("evalOffset");
  c.count(std::string("offset_") + jtName(q.jt) + (q.delta >= 0 ? "_pos" : "_neg"));
  c.maxi("max_offset_result_verts", (long long)g2::numVerts(o.polys));
  std::vector<vec2> pts = offsetSamples(c, in, o, q);
  tmark("offsetSamples");
  long decided = 0;
  if (!checkOffset(c, in, q, o, pts, how, decided)) return;
  tmark("checkOffset");
  // monotone in delta: a second offset with the same join parameters
  if (g.chance(0.6)) {
    OffsetParams q2 = q;
    const int m = g.range(0, 3);
    if (m == 0) q2.delta = q.delta * g.uni(1.05, 3.0);
    else if (m == 1) q2.delta = q.delta * g.uni(0.2, 0.95);
    else if (m == 2) q2.delta = -q.delta * g.uni(0.3, 2.0);
    else q2.delta = q.delta + (g.chance(0.5) ? 1 : -1) * 50 * (double)o.B;
    if (q2.delta != q.delta && std::isfinite(q2.delta)) {
      OffsetEval o2 = evalOffset(c, cs, in, q2);
      std::vector<vec2> pts2 = offsetSamples(c, in, o2, q2);
      long d2 = 0;
      if (!checkOffset(c, in, q2, o2, pts2, how + " [second delta]", d2)) return;
      decided += d2;
      pts2.insert(pts2.end(), pts.begin(), pts.end());
      const bool firstSmaller = q.delta < q2.delta;
      tmark("second offset + check");
      if (!checkMonotone(c, in, firstSmaller ? q : q2, firstSmaller ? o : o2, firstSmaller ? q2 : q, firstSmaller ? o2 : o, pts2, how)) return;
      tmark("checkMonotone");
    }
  }
  if (decided >= 10) {
    uint64_t h = g2::hashPolys(in.polys, vh::fnvs(pbuf));
    c.sig(h);
    c.count("nontrivial_cases");
  }
  if (c.idx % 397 == 0)
    c.sample(vh::J().i("idx", c.idx).s("how", how).raw("params", paramsJson(q, o)).i("input_verts", (long long)g2::numVerts(in.polys))
                 .i("result_verts", (long long)g2::numVerts(o.polys)).i("points_decided", decided).str());
}

// ----------------------------------------------------------------- hull
std::vector<vec2> hullPoints(vh::Rng& g, std::string& fam) {
  std::vector<vec2> P;
  const int kind = g.range(0, 8);
  const double sc = g.chance(0.6) ? 1.0 : std::pow(10.0, g.uni(-6, 6));
  const vec2 off = g.chance(0.25) ? vec2(g.uni(-1, 1), g.uni(-1, 1)) * (sc * std::pow(10.0, g.uni(0, 3))) : vec2(0, 0);
  int n = g.range(0, 9) == 0 ? g.range(0, 4) : g.range(3, 200);
  if (g.chance(0.03)) n = g.range(1000, 10000);
  switch (kind) {
    case 0:
      fam = "uniform";
      for (int i = 0; i < n; i++) P.push_back(vec2(g.uni(-1, 1), g.uni(-1, 1)));
      break;
    case 1:
      fam = "lattice";
      {
        const int N = g.range(1, 6);
        for (int i = 0; i < n; i++) P.push_back(vec2(g.range(0, N), g.range(0, N)));
      }
      break;
    case 2:
      fam = "circle";
      n = std::min(n, 1500);
      for (int i = 0; i < n; i++) {
        const double a = g.uni(0, 6.283185307179586);
        P.push_back(vec2(std::cos(a), std::sin(a)));
      }
      break;
    case 3:
      fam = "collinear";
      {
        const vec2 a(g.uni(-1, 1), g.uni(-1, 1)), d(g.uni(-1, 1), g.uni(-1, 1));
        for (int i = 0; i < n; i++) P.push_back(a + d * (double)g.range(-8, 8) * 0.125);
      }
      break;
    case 4:
      fam = "near-collinear";
      {
        const vec2 a(g.uni(-1, 1), g.uni(-1, 1)), d(g.uni(-1, 1), g.uni(-1, 1));
        static const double noise[] = {1e-17, 1e-15, 1e-13, 1e-11, 1e-9, 1e-6};
        const double e = noise[g.below(6)];
        for (int i = 0; i < n; i++) P.push_back(a + d * g.uni(-1, 1) + vec2(g.uni(-1, 1), g.uni(-1, 1)) * e);
      }
      break;
    case 5:
      fam = "duplicates";
      {
        const int m = g.range(1, 6);
        std::vector<vec2> base;
        for (int i = 0; i < m; i++) base.push_back(vec2(g.uni(-1, 1), g.uni(-1, 1)));
        for (int i = 0; i < n; i++) P.push_back(base[g.below(m)]);
      }
      break;
    case 6:
      fam = "edge-points";  // many points exactly or nearly on the hull edges of a polygon
      {
        const int m = g.range(3, 8);
        std::vector<vec2> base;
        for (int i = 0; i < m; i++) base.push_back(vec2(std::cos(6.283185307179586 * i / m), std::sin(6.283185307179586 * i / m)));
        for (int i = 0; i < n; i++) {
          const int e = (int)g.below(m);
          const double t = g.chance(0.3) ? (double)g.range(0, 4) / 4 : g.uni();
          P.push_back(base[e] * (1 - t) + base[(e + 1) % m] * t);
        }
      }
      break;
    case 7:
      fam = "needle";
      for (int i = 0; i < n; i++) P.push_back(vec2(g.uni(-1, 1), g.uni(-1, 1) * 1e-9));
      break;
    default:
      fam = "gauss";
      for (int i = 0; i < n; i++) P.push_back(vec2(g.normalish(), g.normalish()));
      break;
  }
  for (auto& p : P) p = p * sc + off;
  return P;
}

void caseHull(vh::Ctx& c) {
  vh::Rng& g = c.rng;
  std::string fam, api;
  std::vector<vec2> pts;
  CrossSection H;
  const int form = g.range(0, 4);
  double inTol = 0;
  if (form <= 1) {
    pts = hullPoints(g, fam);
    c.site("hull:points");
    if (form == 0) {
      api = "Hull(SimplePolygon)";
      H = CrossSection::Hull(SimplePolygon(pts.begin(), pts.end()));
    } else {
      api = "Hull(Polygons)";
      Polygons pp;
      size_t i = 0;
      while (i < pts.size()) {
        const size_t k = std::min(pts.size() - i, (size_t)g.range(0, 7));
        pp.push_back(SimplePolygon(pts.begin() + i, pts.begin() + i + k));
        i += k;
      }
      H = CrossSection::Hull(pp);
    }
  } else {
    std::vector<CrossSection> v;
    const int k = form == 2 ? 1 : g.range(1, 4);
    for (int i = 0; i < k; i++) {
      Shape s = makeShape(g);
      if (!validRegion(s.polys, 64 * g2::epsFromScale(g2::maxAbs(s.polys)))) continue;
      CrossSection cs(s.polys);
      if (g.chance(0.3)) cs = cs.Translate(vec2(g.uni(-2, 2), g.uni(-2, 2)) * g2::maxAbs(s.polys));
      Polygons P = cs.ToPolygons();
      for (auto& r : P) pts.insert(pts.end(), r.begin(), r.end());
      inTol = std::max(inTol, cs.GetTolerance());
      v.push_back(cs);
      fam += s.family + " ";
    }
    if (v.empty()) return;
    c.site("hull:crosssections");
    if (form == 2) {
      api = "cs.Hull()";
      H = v[0].Hull();
    } else {
      api = "Hull(vector<CrossSection>)";
      H = CrossSection::Hull(v);
    }
  }
  const Polygons R = H.ToPolygons();
  const double tol = H.GetTolerance();
  double scale = 0;
  for (auto& p : pts) scale = std::max(scale, std::max(std::fabs(p.x), std::fabs(p.y)));
  double E = g2::epsFromScale(scale);
  if (std::isfinite(tol) && tol > E) E = tol;
  const ld B = (ld)E + 64 * (ld)DBL_EPSILON * scale;
  c.count("hull_cases");
  auto fail = [&](const std::string& why, const std::string& info) {
    std::vector<double> flat;
    for (auto& p : pts) flat.push_back(p.x), flat.push_back(p.y);
    c.violation("hull:" + why, vh::J().s("why", why).s("info", info).s("api", api).s("family", fam).d("band", (double)B).i("n_points", (long long)pts.size())
                                   .raw("points_xy", vh::jarr(flat, 400)).raw("result", g2::polyJson(R, 300)).str());
  };
  // my own reference: extreme span (are the points farther than B from being collinear?)
  bool fat = false;
  if (pts.size() >= 3) {
    size_t lo = 0, hi = 0;
    for (size_t i = 1; i < pts.size(); i++) {
      if (pts[i].x < pts[lo].x || (pts[i].x == pts[lo].x && pts[i].y < pts[lo].y)) lo = i;
      if (pts[i].x > pts[hi].x || (pts[i].x == pts[hi].x && pts[i].y > pts[hi].y)) hi = i;
    }
    for (auto& p : pts)
      if (g2::distLine(p, pts[lo], pts[hi]) > 4 * B) fat = true;
  }
  if (R.empty()) {
    if (fat) return fail("empty-result-for-non-degenerate-points", "");
    c.count("hull_empty_results_for_degenerate_input");
    return;
  }
  if (R.size() != 1) return fail("more-than-one-contour", std::to_string(R.size()));
  const SimplePolygon& h = R[0];
  if (h.size() < 3) return fail("fewer-than-3-vertices", "");
  // (a) vertices are input points, bit-equal
  {
    std::set<std::pair<double, double>> S;
    for (auto& p : pts) S.insert({p.x, p.y});
    for (auto& v : h)
      if (!S.count({v.x, v.y})) return fail("vertex-is-not-an-input-point", g2::ptJson(v));
  }
  // (b) convex, counter-clockwise, winds once
  const size_t n = h.size();
  ld turn = 0;
  for (size_t i = 0; i < n; i++) {
    const vec2 u = h[(i + n - 1) % n], v = h[i], w = h[(i + 1) % n];
    if (g2::orient(u, v, w) < 0 && g2::distLine(v, u, w) > B) return fail("reflex-vertex", g2::ptJson(v));
    const ld e1x = (ld)v.x - u.x, e1y = (ld)v.y - u.y, e2x = (ld)w.x - v.x, e2y = (ld)w.y - v.y;
    const ld dt = e1x * e2x + e1y * e2y;
    const ld mag = atan2l(fabsl(e1x * e2y - e1y * e2x), dt);
    // sign from the exact predicate; a within-band reflex reversal counts as a left turn
    turn += (g2::orient(u, v, w) >= 0 || dt < 0) ? mag : -mag;
  }
  if (fat) {
    // (for point sets within the band of a line the result is a sliver whose orientation is below the resolution)
    if (fabsl(turn - 2 * PI) > 0.5) return fail("boundary-does-not-wind-exactly-once", std::to_string((double)turn));
    if (g2::ringArea(h) <= 0) return fail("not-counter-clockwise", "");
  } else
    c.count("hull_nonempty_results_for_degenerate_input");
  // (c) contains every input point (inside, on, or within the band)
  const std::vector<Seg> hs = g2::segsOf(R);
  long exactIn = 0, inBand = 0;
  for (auto& p : pts) {
    bool inside = true;
    for (size_t i = 0; i < n && inside; i++)
      if (g2::orient(h[i], h[(i + 1) % n], p) < 0) inside = false;
    if (inside) {
      exactIn++;
      continue;
    }
    if (g2::distToSegs(p, hs) <= B) {
      inBand++;
      continue;
    }
    if (g2::windingSegs(hs, p) >= 1) {
      exactIn++;
      continue;
    }
    return fail("input-point-outside-hull", g2::ptJson(p));
  }
  c.count("hull_points_inside_or_on_exact", exactIn);
  c.count("hull_points_outside_within_band", inBand);
  c.count("hull_vertices_checked", (long long)n);
  c.maxi("max_hull_input_points", (long long)pts.size());
  if (fat) {
    uint64_t hsh = vh::fnvs(api);
    hsh = vh::fnv(pts.data(), pts.size() * sizeof(vec2), hsh);
    c.sig(hsh);
    c.count("nontrivial_cases");
  }
  if (c.idx % 997 == 0) c.sample(vh::J().i("idx", c.idx).s("api", api).s("family", fam).i("n_points", (long long)pts.size()).i("hull_verts", (long long)n).str());
}

// ----------------------------------------------------------------- decompose
SimplePolygon canonRing(SimplePolygon r) {
  size_t best = 0;
  for (size_t i = 1; i < r.size(); i++)
    if (r[i].x < r[best].x || (r[i].x == r[best].x && r[i].y < r[best].y)) best = i;
  std::rotate(r.begin(), r.begin() + best, r.end());
  return r;
}
bool ringLess(const SimplePolygon& a, const SimplePolygon& b) {
  const size_t n = std::min(a.size(), b.size());
  for (size_t i = 0; i < n; i++) {
    if (a[i].x != b[i].x) return a[i].x < b[i].x;
    if (a[i].y != b[i].y) return a[i].y < b[i].y;
  }
  return a.size() < b.size();
}
bool ringEq(const SimplePolygon& a, const SimplePolygon& b) { return !ringLess(a, b) && !ringLess(b, a); }

void caseDecompose(vh::Ctx& c) {
  vh::Rng& g = c.rng;
  CrossSection cs;
  std::string how;
  Polygons P;
  double band = 0;
  const int src = g.range(0, 9);
  if (src <= 5) {
    // several validated shapes laid out side by side (disjoint by their bounding boxes), some nested
    Polygons all;
    const int k = g.range(1, 5);
    double x = 0;
    for (int i = 0; i < k; i++) {
      Shape s = makeShape(g, g.pick(std::vector<int>{0, 1, 1, 2, 3, 3, 3, 4, 5}));
      if (!validRegion(s.polys, 64 * g2::epsFromScale(g2::maxAbs(s.polys)))) continue;
      // normalise to unit size and put in its own column
      double x0, y0, x1, y1;
      g2::bbox(g2::segsOf(s.polys), x0, y0, x1, y1);
      const double f = 1.0 / std::max(x1 - x0, y1 - y0);
      static const double gaps[] = {1e-9, 1e-6, 1e-3, 0.1, 1};
      const double gap = gaps[g.below(5)];
      for (auto& r : s.polys) {
        for (auto& v : r) v = vec2((v.x - x0) * f + x, (v.y - y0) * f);
        all.push_back(r);
      }
      x += (x1 - x0) * f + gap;
      how += s.family + " ";
    }
    if (all.empty()) return;
    // shuffle contour order so that holes do not follow their outlines
    for (size_t i = all.size(); i > 1; i--) std::swap(all[i - 1], all[g.below(i)]);
    const double sc = g.chance(0.5) ? 1.0 : std::pow(10.0, g.uni(-5, 5));
    const vec2 t = g.chance(0.3) ? vec2(g.uni(-100, 100), g.uni(-100, 100)) * sc : vec2(0, 0);
    for (auto& r : all)
      for (auto& v : r) v = v * sc + t;
    if (!validRegion(all, 64 * g2::epsFromScale(g2::maxAbs(all)))) { c.count("inputs_rejected_not_simple_by_exact_test"); return; }
    cs = CrossSection(all);
    P = cs.ToPolygons();
    band = 4 * std::max(cs.GetTolerance(), g2::epsFromScale(g2::maxAbs(P))) + 64 * DBL_EPSILON * g2::maxAbs(P);
    if (!validRegion(P, 4 * band)) { c.count("inputs_rejected_ctor_output_invalid"); return; }
    c.count("inputs_by_construction");
  } else {
    if (!booleanInput(c, cs, how)) return;
    if (g.chance(0.5)) {
      CrossSection other;
      std::string h2;
      if (booleanInput(c, other, h2)) {
        cs = cs + other.Translate(vec2(g2::maxAbs(cs.ToPolygons()) * g.uni(0, 3), 0));
        how += " + " + h2;
      }
    }
    P = cs.ToPolygons();
    if (P.empty()) return;
    band = 4 * std::max(cs.GetTolerance(), g2::epsFromScale(g2::maxAbs(P))) + 64 * DBL_EPSILON * g2::maxAbs(P);
    if (!c11Regular(c, P, band)) { c.count("inputs_rejected_failed_c11_oracle"); return; }
    c.count("inputs_from_boolean_output");
  }
  const double tol = cs.GetTolerance();
  c.site("decompose");
  std::vector<CrossSection> parts = cs.Decompose();
  c.count("decompose_cases");
  auto fail = [&](const std::string& why, const std::string& info) {
    std::string ps = "[";
    for (size_t i = 0; i < parts.size() && i < 12; i++) ps += (i ? "," : "") + g2::polyJson(parts[i].ToPolygons(), 120);
    ps += "]";
    c.violation("decompose:" + why, vh::J().s("why", why).s("info", info).s("how", how).d("band", band).raw("input", g2::polyJson(P, 400)).raw("parts", ps).str());
  };
  // multiset of contours (cyclic rotation ignored)
  std::vector<SimplePolygon> inRings, outRings;
  for (auto& r : P) inRings.push_back(canonRing(r));
  std::vector<Polygons> partPolys;
  for (auto& part : parts) {
    partPolys.push_back(part.ToPolygons());
    for (auto& r : partPolys.back()) outRings.push_back(canonRing(r));
  }
  std::sort(inRings.begin(), inRings.end(), ringLess);
  std::sort(outRings.begin(), outRings.end(), ringLess);
  ld droppedArea = 0;
  {
    size_t i = 0, j = 0;
    while (i < inRings.size() || j < outRings.size()) {
      if (i < inRings.size() && j < outRings.size() && ringEq(inRings[i], outRings[j])) {
        i++, j++;
        continue;
      }
      if (j < outRings.size() && (i >= inRings.size() || ringLess(outRings[j], inRings[i])))
        return fail("output-contour-not-in-input", g2::polyJson(Polygons{outRings[j]}, 60));
      // input ring missing from the output: allowed only for an eps-sliver
      double x0, y0, x1, y1;
      g2::bbox(g2::segsOf(Polygons{inRings[i]}), x0, y0, x1, y1);
      const ld a = fabsl(g2::ringArea(inRings[i]));
      if (a > (ld)std::max(x1 - x0, y1 - y0) * std::max(tol, g2::epsFromScale(g2::maxAbs(P))))
        return fail("input-contour-missing-from-output", g2::polyJson(Polygons{inRings[i]}, 60));
      droppedArea += a;
      c.count("decompose_eps_sliver_contours_dropped");
      i++;
    }
  }
  // areas sum to the whole
  {
    ld sum = 0, absSum = 0;
    for (auto& part : parts) sum += part.Area();
    for (auto& r : P) absSum += fabsl(g2::ringArea(r));
    const ld whole = cs.Area();
    if (fabsl(sum - whole) > 1e-12L * absSum + droppedArea) {
      char t[128];
      snprintf(t, sizeof t, "sum %.17g whole %.17g", (double)sum, (double)whole);
      return fail("areas-do-not-sum-to-the-whole", t);
    }
  }
  // each component: one outline, holes inside it and inside no smaller outline
  std::vector<SimplePolygon> outlines;
  for (auto& r : P)
    if (g2::ringArea(r) > 0) outlines.push_back(r);
  if (parts.size() == 1 && P.size() < 2) {
    c.count("decompose_trivial_single_contour");
  } else {
    for (size_t k = 0; k < partPolys.size(); k++) {
      const Polygons& Q = partPolys[k];
      int nOut = 0;
      const SimplePolygon* outline = nullptr;
      for (auto& r : Q)
        if (g2::ringArea(r) > 0) nOut++, outline = &r;
      if (nOut != 1) return fail("component-without-exactly-one-outline", "component " + std::to_string(k) + " has " + std::to_string(nOut));
      const std::vector<Seg> os = g2::segsOf(Polygons{*outline});
      const ld oa = g2::ringArea(*outline);
      for (auto& r : Q) {
        if (&r == outline) continue;
        long decidedIn = 0;
        for (auto& v : r) {
          if (g2::distToSegs(v, os) <= band) continue;
          if (g2::windingSegs(os, v) != 1) return fail("hole-vertex-outside-its-outline", g2::ptJson(v));
          decidedIn++;
        }
        c.count("hole_vertices_decided_inside_outline", decidedIn);
        // no smaller outline contains the hole
        for (auto& o2 : outlines) {
          const ld a2 = g2::ringArea(o2);
          if (!(a2 < oa) || ringEq(canonRing(o2), canonRing(*outline))) continue;
          const std::vector<Seg> s2 = g2::segsOf(Polygons{o2});
          for (auto& v : r) {
            if (g2::distToSegs(v, s2) <= band) continue;
            if (g2::windingSegs(s2, v) == 1) return fail("hole-attached-to-an-ancestor-not-its-containing-outline", g2::ptJson(v));
            break;  // one decided vertex suffices: the hole does not cross o2 (regularised input)
          }
        }
        c.count("holes_checked");
      }
      c.count("components_checked");
    }
    if ((size_t)partPolys.size() != outlines.size() && droppedArea == 0) return fail("component-count-differs-from-outline-count", "");
  }
  if (P.size() >= 2) {
    c.sig(g2::hashPolys(P));
    c.count("nontrivial_cases");
  }
  if (c.idx % 499 == 0) c.sample(vh::J().i("idx", c.idx).s("how", how).i("contours", (long long)P.size()).i("components", (long long)parts.size()).str());
}

// ----------------------------------------------------------------- simplify
// is `out` a cyclic in-order subsequence (bit-equal vertices) of `in`?
bool cyclicSubsequence(const SimplePolygon& out, const SimplePolygon& in) {
  const size_t m = out.size(), n = in.size();
  if (m > n) return false;
  if (m == 0) return true;
  for (size_t s = 0; s < n; s++) {
    if (in[s].x != out[0].x || in[s].y != out[0].y) continue;
    size_t j = 1;
    for (size_t k = 1; k < n && j < m; k++) {
      const vec2& v = in[(s + k) % n];
      if (v.x == out[j].x && v.y == out[j].y) j++;
    }
    if (j == m) return true;
  }
  return false;
}

void caseSimplify(vh::Ctx& c) {
  vh::Rng& g = c.rng;
  CrossSection cs;
  std::string how;
  const int src = g.range(0, 9);
  if (src <= 3) {
    Shape s = makeShape(g);
    if (!validRegion(s.polys, 64 * g2::epsFromScale(g2::maxAbs(s.polys)))) { c.count("inputs_rejected_not_simple_by_exact_test"); return; }
    // densify: insert collinear and slightly off-line vertices
    Polygons D;
    const double sc = g2::maxAbs(s.polys);
    static const double devs[] = {0, 0, 1e-14, 1e-12, 1e-9, 1e-6, 1e-4};
    for (auto& r : s.polys) {
      SimplePolygon q;
      for (size_t i = 0; i < r.size(); i++) {
        const vec2 a = r[i], b = r[(i + 1) % r.size()];
        q.push_back(a);
        const int k = g.range(0, 4);
        const vec2 e = b - a;
        const double len = std::hypot(e.x, e.y);
        const vec2 nrm(e.y / len, -e.x / len);
        for (int j = 1; j <= k; j++) q.push_back(a + e * ((double)j / (k + 1)) + nrm * (devs[g.below(7)] * sc * g.uni(-1, 1)));
      }
      D.push_back(q);
    }
    cs = CrossSection(D);
    how = "densified " + s.family;
  } else if (src <= 5) {
    const double r = std::pow(10.0, g.uni(-3, 3));
    const int n = g.range(8, 400);
    cs = CrossSection::Circle(r, n);
    how = "Circle(" + std::to_string(r) + "," + std::to_string(n) + ")";
  } else if (src <= 7) {
    Shape s = makeShape(g);
    if (!validRegion(s.polys, 64 * g2::epsFromScale(g2::maxAbs(s.polys)))) { c.count("inputs_rejected_not_simple_by_exact_test"); return; }
    double x0, y0, x1, y1;
    g2::bbox(g2::segsOf(s.polys), x0, y0, x1, y1);
    const double d = std::max(x1 - x0, y1 - y0) * std::pow(10.0, g.uni(-2, 0)) * (g.chance(0.3) ? -0.2 : 1);
    cs = CrossSection(s.polys).Offset(d, JoinType::Round, 2.0, g.pick(std::vector<int>{0, 16, 64, 500}));
    how = "round Offset of " + s.family;
  } else {
    if (!booleanInput(c, cs, how)) return;
  }
  const Polygons P = cs.ToPolygons();  // materialise first: tolerance 0 then means GetTolerance() of this very value
  if (P.empty()) return;
  const double tolIn = cs.GetTolerance();
  double x0, y0, x1, y1;
  g2::bbox(g2::segsOf(P), x0, y0, x1, y1);
  const double size = std::max(x1 - x0, y1 - y0);
  double tol;
  const int tk = g.range(0, 9);
  if (tk <= 1) tol = 0;
  else if (tk <= 6) tol = size * std::pow(10.0, g.uni(-9, -0.5));
  else if (tk == 7) tol = size * g.uni(0.3, 3);
  else if (tk == 8) tol = -size * std::pow(10.0, g.uni(-6, -1));
  else tol = tolIn * g.uni(0.5, 20);
  const bool viaSetTolerance = tol > tolIn && g.chance(0.15);
  c.site("simplify");
  const CrossSection S = viaSetTolerance ? cs.SetTolerance(tol) : cs.Simplify(tol);
  const Polygons Q = S.ToPolygons();
  const double tolEff = tol == 0 ? tolIn : (tol > 0 ? tol : 0.0);  // a negative tolerance makes clause (2) vacuous
  c.count("simplify_cases");
  auto fail = [&](const std::string& why, const std::string& info) {
    c.violation("simplify:" + why, vh::J().s("why", why).s("info", info).s("how", how).d("tolerance_argument", tol).d("tolerance_effective", tolEff)
                                       .d("input_tolerance", tolIn).bo("via_SetTolerance", viaSetTolerance).raw("input", g2::polyJson(P, 400)).raw("result", g2::polyJson(Q, 400)).str());
  };
  // (1) every output ring is an in-order subsequence of a distinct input ring
  std::vector<char> used(P.size(), 0);
  long removed = 0;
  for (auto& r : Q) {
    bool ok = false;
    // prefer the ring at the same position, then any unused one
    for (size_t i = 0; i < P.size() && !ok; i++) {
      if (used[i]) continue;
      if (cyclicSubsequence(r, P[i])) {
        used[i] = 1;
        ok = true;
        removed += (long)P[i].size() - (long)r.size();
      }
    }
    for (size_t i = 0; i < P.size() && !ok; i++)
      if (used[i] && cyclicSubsequence(r, P[i])) {
        ok = true;
        c.count("simplify_ring_matched_an_already_matched_input_ring");
      }
    if (!ok) return fail("output-ring-is-not-a-subsequence-of-an-input-ring", g2::polyJson(Polygons{r}, 80));
    if (r.size() < 3) return fail("output-ring-with-fewer-than-3-vertices", "");
  }
  c.count("simplify_rings_matched", (long long)Q.size());
  c.count("simplify_vertices_removed", removed);
  c.count("simplify_rings_dropped", (long long)P.size() - (long long)Q.size());
  // (2) no vertex of a ring with more than three vertices is closer than the tolerance to the line through its neighbours
  long checked = 0;
  if (tolEff > 0 && std::isfinite(tolEff)) {
    for (auto& r : Q) {
      const size_t n = r.size();
      if (n <= 3) continue;
      for (size_t i = 0; i < n; i++) {
        const vec2 u = r[(i + n - 1) % n], v = r[i], w = r[(i + 1) % n];
        if (u.x == w.x && u.y == w.y) {
          c.count("simplify_vertices_with_coincident_neighbours_skipped");
          continue;
        }
        const ld d = g2::distLine(v, u, w);
        checked++;
        if (d < (ld)tolEff * (1 - 1e-9L)) {
          char t[160];
          snprintf(t, sizeof t, "vertex %s is %.17g from the line through its neighbours, tolerance %.17g", g2::ptJson(v).c_str(), (double)d, tolEff);
          return fail("vertex-closer-than-tolerance-to-neighbour-line", t);
        }
      }
    }
  }
  c.count("simplify_vertices_checked_against_tolerance", checked);
  if (removed > 0 || checked > 0) {
    c.sig(g2::hashPolys(P, vh::fnv(&tol, sizeof tol)));
    c.count("nontrivial_cases");
  }
  if (c.idx % 499 == 0)
    c.sample(vh::J().i("idx", c.idx).s("how", how).d("tolerance", tol).i("input_verts", (long long)g2::numVerts(P)).i("output_verts", (long long)g2::numVerts(Q)).str());
}

}  // namespace

void vh_case(vh::Ctx& c) {
  const std::string mode = c.param("mode", "offset");
  if (mode == "offset") caseOffset(c);
  else if (mode == "hull") caseHull(c);
  else if (mode == "decompose") caseDecompose(c);
  else if (mode == "simplify") caseSimplify(c);
  else c.inconclusive("unknown mode " + mode);
}
