// C02 (extra stage) — lattice unions / differences with MORE than 1000
// operands in one batch (the evaluator processes unions in chunks of 1000 and
// composes bounding-box-disjoint sets). Operands are unit cells and short bars
// with integer corners; the model is the voxel set; the result must have the
// exact voxel volume and classify every sampled voxel centre like the model.
#include <set>

#include "common/oracles.h"
#include "common/vh.h"

using namespace manifold;

namespace {
struct Cell {
  int x, y, z;
  bool operator<(const Cell& o) const { return std::tie(x, y, z) < std::tie(o.x, o.y, o.z); }
};
}  // namespace

void vh_case(vh::Ctx& c) {
  vh::Rng& r = c.rng;
  const int G = 16;  // lattice [0,G)^3 (2048 even-parity cells available)
  int n = (int)r.range(1001, (int)c.iparam("maxOperands", 1400));
  int mode = (int)r.below(4);  // 0 flat BatchBoolean Add, 1 += chain, 2 nested batches, 3 big box minus many cells
  // disjoint unit cells on a checkerboard-free random subset: no two share a face?
  // (touching is allowed: lattice regime) -> any distinct cells
  std::set<Cell> cells;
  std::vector<Manifold> ops;
  std::vector<std::string> desc;
  while ((int)cells.size() < n - 6) {
    Cell q{(int)r.below(G), (int)r.below(G), (int)r.below(G)};
    // keep cells pairwise non-adjacent by face so that many bbox-disjoint sets exist
    if ((q.x + q.y + q.z) % 2) continue;
    if (cells.insert(q).second) ops.push_back(Manifold::Cube(vec3(1.0)).Translate(vec3(q.x, q.y, q.z)));
  }
  std::set<Cell> model = cells;
  // a few bars that overlap existing cells (and each other): they end up alone in
  // their own disjoint set or merge sets; placed anywhere in the operand order
  int bars = (int)r.range(1, 6);
  for (int b = 0; b < bars; b++) {
    int ax = (int)r.below(3), len = (int)r.range(2, 5);
    Cell s{(int)r.below(G - len), (int)r.below(G - len), (int)r.below(G - len)};
    vec3 size(1.0);
    size[ax] = len;
    Manifold bar = Manifold::Cube(size).Translate(vec3(s.x, s.y, s.z));
    for (int i = 0; i < len; i++) {
      Cell q = s;
      (ax == 0 ? q.x : ax == 1 ? q.y : q.z) += i;
      model.insert(q);
    }
    size_t pos = r.chance(0.6) ? ops.size() - r.below(std::min<size_t>(ops.size(), 900)) : r.below(ops.size() + 1);
    ops.insert(ops.begin() + pos, bar);
  }
  c.site("bigbatch:mode" + std::to_string(mode));
  Manifold result;
  std::set<Cell> expect;
  if (mode == 0) {
    result = Manifold::BatchBoolean(ops, OpType::Add);
    expect = model;
  } else if (mode == 1) {
    Manifold acc;
    for (auto& m : ops) acc += m;  // uniquely held chain: collapses into one big union
    result = acc;
    expect = model;
  } else if (mode == 2) {
    size_t h = ops.size() / 3;
    std::vector<Manifold> a(ops.begin(), ops.begin() + h), b(ops.begin() + h, ops.end());
    result = Manifold::BatchBoolean({Manifold::BatchBoolean(a, OpType::Add), Manifold::BatchBoolean(b, OpType::Add)}, OpType::Add);
    expect = model;
  } else {
    std::vector<Manifold> v;
    v.push_back(Manifold::Cube(vec3(G)));
    v.insert(v.end(), ops.begin(), ops.end());
    result = Manifold::BatchBoolean(v, OpType::Subtract);
    for (int x = 0; x < G; x++)
      for (int y = 0; y < G; y++)
        for (int z = 0; z < G; z++)
          if (!model.count({x, y, z})) expect.insert({x, y, z});
  }
  c.count("bigbatch_programs");
  c.count("bigbatch_operands", (long long)ops.size());
  auto detail = [&](const std::string& why) {
    return vh::J().s("why", why).i("mode", mode).u("operands", ops.size()).i("bars", bars).u("expected_voxels", expect.size()).str();
  };
  if (result.Status() != Manifold::Error::NoError) {
    c.violation("bigbatch:status:mode" + std::to_string(mode), detail(std::string("Status ") + vo::ErrName(result.Status())));
    return;
  }
  double vol = result.Volume();
  if (std::abs(vol - (double)expect.size()) > 1e-9 * (double)expect.size()) {
    c.violation("bigbatch:volume-differs-from-voxel-count:mode" + std::to_string(mode), detail("Volume() = " + std::to_string(vol)));
    return;
  }
  vo::Soup s = vo::MakeSoup(result.GetMeshGL64());
  int samples = (int)c.iparam("samples", 160), wrong = 0;
  Cell bad{0, 0, 0};
  for (int i = 0; i < samples; i++) {
    Cell q{(int)r.below(G), (int)r.below(G), (int)r.below(G)};
    if (i % 2 == 0 && !expect.empty()) {  // half the samples inside the model
      auto it = expect.begin();
      std::advance(it, r.below(expect.size()));
      q = *it;
    }
    vo::Cls k = vo::Classify(s, {q.x + 0.5L, q.y + 0.5L, q.z + 0.5L});
    c.count("bigbatch_voxel_centres_classified");
    bool in = expect.count(q) != 0;
    if (!k.integral || k.w != (in ? 1 : 0)) {
      wrong++;
      bad = q;
    }
  }
  if (wrong) {
    c.violation("bigbatch:voxel-centre-misclassified:mode" + std::to_string(mode),
                detail("cell (" + std::to_string(bad.x) + "," + std::to_string(bad.y) + "," + std::to_string(bad.z) + "); " + std::to_string(wrong) + " of " + std::to_string(samples)));
    return;
  }
  c.sig("bigbatch#" + std::to_string(mode) + "#" + std::to_string(bars) + "#" + std::to_string(ops.size() / 50));
  if (c.idx % 7 == 0) c.sample(vh::J().i("idx", c.idx).i("mode", mode).u("operands", ops.size()).i("bars", bars).d("volume", vol).str());
}
