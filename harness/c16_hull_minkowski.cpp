// C16 — Hull is the convex hull; Minkowski sum/difference are dilation and
// erosion (DESIGN.md §4 C16; statement in properties.jsonl).
//
// Stage parameter `mode`:
//   hull   point clouds / one Manifold / several Manifolds that span a volume
//          with a clear margin (regime "thick") and thin clouds (regime "thin":
//          only the clauses that do not depend on epsilon are decided)
//   degen  affinely degenerate clouds on exact integer lattice points, lines
//          and planes, and fewer than four points: the hull must be empty
//   mink   MinkowskiSum / MinkowskiDifference on tiny eps-valid operands, all
//          convex / non-convex combinations, origin inside B by construction
//
// epsilon of the Hull clauses (stated in lib/checks_c16.py as an assumption):
//   eps_hull = 1e-7 * max|input coordinate|  -- QuickHull's working epsilon
//   (quickhull.cpp: defaultEps()=1e-7, m_epsilon = epsilon*scale, scale = the
//   largest absolute coordinate of the extreme points); a point is dropped by
//   addPointToFace only if it is at most m_epsilon above the face plane.
//   Per (face f, point p) the decision threshold is
//     10*eps_hull*(1+1e-6) + 32*u*scale*(1 + |p-v0|/alt_f),  u = 2^-52,
//   (10x: the eps test is per plane at the time a face is replaced; excesses
//   between 1 and 10 eps_hull are counted as advisory, see lib/checks_c16.py)
//   the second term being the difference between the face plane evaluated in
//   double by the library and in long double here (alt_f = smallest altitude
//   of the output triangle; exactly degenerate triangles have no plane and are
//   skipped and counted).
#include <algorithm>
#include <array>
#include <cmath>
#include <cstring>
#include <functional>
#include <map>
#include <memory>
#include <mutex>
#include <numeric>
#include <sstream>
#include <string>
#include <unordered_map>
#include <unordered_set>
#include <vector>

// The Minkowski findings depend on which branch of src/minkowski.cpp is taken,
// i.e. on the library's own IsConvex() verdict (which calls convex solids with
// coplanar triangle pairs non-convex when their normals differ by rounding).
// The violation KEY therefore records the library's verdict, read through the
// internal headers; Manifold::GetCsgLeafNode() is private, hence the macro
// (access control does not change layout or symbol names). Nothing else in this
// harness uses library internals: every verdict comes from the public export.
#define private public
#include "manifold/manifold.h"
#undef private
#include "csg_tree.h"
#include "impl.h"

#include "common/oracles.h"
#include "common/vh.h"

using namespace manifold;
typedef long double LD;
using vo::V3;

static const LD kU = 2.220446049250313e-16L;

static std::string f17(double x) {
  char b[40];
  snprintf(b, sizeof b, "%.17g", x);
  return b;
}
static std::string p3(vec3 v) { return "[" + f17(v.x) + "," + f17(v.y) + "," + f17(v.z) + "]"; }
static std::string p3(V3 v) { return p3(vec3((double)v.x, (double)v.y, (double)v.z)); }
static std::string ptsJson(const std::vector<vec3>& p, size_t cap = 200) {
  std::string s = "[";
  for (size_t i = 0; i < p.size() && i < cap; i++) {
    if (i) s += ",";
    s += p3(p[i]);
  }
  if (p.size() > cap) s += ",\"...(" + std::to_string(p.size()) + " points; regenerate with vcheck replay)\"";
  return s + "]";
}

struct PtKey {
  uint64_t a, b, c;
  bool operator==(const PtKey& o) const { return a == o.a && b == o.b && c == o.c; }
};
struct PtHash {
  size_t operator()(const PtKey& k) const {
    uint64_t h = k.a * 0x9e3779b97f4a7c15ull;
    h ^= (k.b + 0x7f4a7c15ull + (h << 6) + (h >> 2));
    h *= 0xbf58476d1ce4e5b9ull;
    h ^= (k.c + 0x94d049bb133111ebull + (h << 6) + (h >> 2));
    return (size_t)(h * 0x9e3779b97f4a7c15ull);
  }
};
static uint64_t bitsOf(double d) {
  if (d == 0) d = 0.0;  // -0.0 and +0.0 denote the same coordinate
  uint64_t u;
  memcpy(&u, &d, 8);
  return u;
}
static PtKey keyOf(double x, double y, double z) { return {bitsOf(x), bitsOf(y), bitsOf(z)}; }

static vec3 randDir(vh::Rng& r) {
  for (;;) {
    vec3 v(r.uni(-1, 1), r.uni(-1, 1), r.uni(-1, 1));
    double l = la::length(v);
    if (l > 0.1 && l <= 1) return v / l;
  }
}
static mat3 randRot(vh::Rng& r) {
  vec3 a = randDir(r), b = randDir(r);
  vec3 c = la::cross(a, b);
  while (la::length(c) < 0.2) {
    b = randDir(r);
    c = la::cross(a, b);
  }
  c = la::normalize(c);
  b = la::cross(c, a);
  return mat3(a, b, c);
}

// ------------------------------------------------------------------ clouds
struct Cloud {
  std::vector<vec3> p;
  std::string fam, xf;
  int regime = 0;    // 0 thick (all clauses), 1 thin (eps-free clauses only), 2 exactly degenerate
  int degDim = -1;   // for regime 2: 0 point, 1 line, 2 plane, 3 = fewer than 4 points
};

static const vec3 kTet[4] = {{1, 1, 1}, {1, -1, -1}, {-1, 1, -1}, {-1, -1, 1}};

static Cloud makeThickCloud(vh::Rng& r, size_t n) {
  Cloud c;
  int fam = r.range(0, 10);
  std::vector<vec3>& p = c.p;
  const double s3 = 1.0 / std::sqrt(3.0);
  bool lattice = false;
  switch (fam) {
    case 0: {  // uniform in a cube, anchors at four cube corners
      c.fam = "cube-uniform";
      for (auto& t : kTet) p.push_back(t);
      while (p.size() < n) p.push_back({r.uni(-1, 1), r.uni(-1, 1), r.uni(-1, 1)});
      break;
    }
    case 1: {  // gaussian-ish ball with anchors
      c.fam = "ball-normalish";
      for (auto& t : kTet) p.push_back(t * 0.8);
      while (p.size() < n) p.push_back({r.normalish() * 0.5, r.normalish() * 0.5, r.normalish() * 0.5});
      break;
    }
    case 2: {  // cospherical (to rounding) plus a few interior points
      c.fam = "cospherical";
      for (auto& t : kTet) p.push_back(t * s3);
      double inner = r.chance(0.3) ? 0.2 : 0.0;
      while (p.size() < n) {
        vec3 d = randDir(r);
        p.push_back(r.chance(inner) ? d * r.uni(0, 1) : d);
      }
      break;
    }
    case 3: {  // integer lattice block: many exactly coplanar / collinear subsets
      c.fam = "lattice-block";
      lattice = true;
      int kx = r.range(1, 6), ky = r.range(1, 6), kz = r.range(1, 6);
      std::vector<vec3> all;
      for (int i = 0; i <= kx; i++)
        for (int j = 0; j <= ky; j++)
          for (int k = 0; k <= kz; k++) all.push_back({(double)i, (double)j, (double)k});
      p.push_back({0, 0, 0});
      p.push_back({(double)kx, 0, 0});
      p.push_back({0, (double)ky, 0});
      p.push_back({0, 0, (double)kz});
      while (p.size() < n) p.push_back(all[r.below(all.size())]);
      break;
    }
    case 4: {  // tight clusters (radius 1e-3..1e-9) around spread centres, exact duplicates
      c.fam = "clusters";
      std::vector<vec3> cen;
      for (auto& t : kTet) cen.push_back(t * r.uni(0.6, 1.0));
      int extra = r.range(0, 6);
      for (int i = 0; i < extra; i++) cen.push_back(randDir(r) * r.uni(0.1, 1.0));
      for (int i = 0; i < 4; i++) p.push_back(cen[i]);
      double rad = std::pow(10.0, -r.range(3, 9));
      while (p.size() < n) {
        vec3 ce = cen[r.below(cen.size())];
        p.push_back(r.chance(0.2) ? ce : ce + randDir(r) * (rad * r.uni(0, 1)));
      }
      break;
    }
    case 5: {  // rings: co-circular and coplanar subsets (cylinder / cone / lat-long sphere)
      c.fam = "rings";
      for (auto& t : kTet) p.push_back(t * 0.7);
      int rings = r.range(2, 7), seg = r.range(3, 40);
      int shape = r.range(0, 2);
      std::vector<vec3> all;
      for (int i = 0; i < rings; i++) {
        double z = rings == 1 ? 0 : -1 + 2.0 * i / (rings - 1);
        double rr = shape == 0 ? 1.0 : shape == 1 ? (1 - 0.45 * (z + 1)) : std::sqrt(std::max(0.0, 1.02 - z * z));
        for (int j = 0; j < seg; j++) all.push_back({rr * cosd(360.0 * j / seg), rr * sind(360.0 * j / seg), z});
      }
      while (p.size() < n) p.push_back(all[r.below(all.size())]);
      break;
    }
    case 6: {  // points exactly on the faces / edges / corners of the unit cube
      c.fam = "cube-surface";
      for (auto& t : kTet) p.push_back(t);
      while (p.size() < n) {
        vec3 q(r.uni(-1, 1), r.uni(-1, 1), r.uni(-1, 1));
        int fix = r.range(1, 3);
        for (int k = 0; k < fix; k++) q[r.range(0, 2)] = r.chance(0.5) ? 1.0 : -1.0;
        if (r.chance(0.3)) q = vec3(std::round(q.x * 4) / 4, std::round(q.y * 4) / 4, std::round(q.z * 4) / 4);
        p.push_back(q);
      }
      break;
    }
    case 7: {  // a large nearly flat facet (jitter j) under an apex
      c.fam = "flat-facet+apex";
      double j = r.pick(std::vector<double>{0.0, 1e-13, 1e-10, 1e-8, 3e-8, 1e-7, 3e-7, 1e-5});
      p.push_back({1, 0, 0});
      p.push_back({-0.5, 0.8, 0});
      p.push_back({-0.5, -0.8, 0});
      p.push_back({0.1, 0.05, r.uni(0.5, 1.0)});
      while (p.size() < n) {
        double a = r.uni(0, 2 * kPi), rr = std::sqrt(r.uni()) * 1.0;
        p.push_back({rr * std::cos(a), rr * std::sin(a), j * r.uni(-1, 1)});
      }
      break;
    }
    case 8: {  // simplex lattice (many collinear triples on edges, coplanar on faces), rationals k/m
      c.fam = "simplex-lattice";
      int m = r.range(2, 8);
      std::vector<vec3> all;
      for (int i = 0; i <= m; i++)
        for (int j = 0; i + j <= m; j++)
          for (int k = 0; i + j + k <= m; k++) all.push_back({(double)i / m, (double)j / m, (double)k / m});
      p.push_back({0, 0, 0});
      p.push_back({1, 0, 0});
      p.push_back({0, 1, 0});
      p.push_back({0, 0, 1});
      while (p.size() < n) p.push_back(all[r.below(all.size())]);
      break;
    }
    case 9: {  // collinear triples: points along the rulings of a cone / cylinder / hyperboloid, and on segments between them
      c.fam = "rulings";
      for (auto& t : kTet) p.push_back(t * 0.6);
      int lines = r.range(3, 14), per = r.range(3, 6), shape = r.range(0, 2);
      double top = shape == 0 ? 1.0 : r.uni(0.1, 0.6), tw = shape == 2 ? r.uni(20, 120) : 0.0;
      std::vector<vec3> all;
      for (int i = 0; i < lines; i++) {
        double a0 = 360.0 * i / lines;
        vec3 lo(cosd(a0), sind(a0), -1), hi(top * cosd(a0 + tw), top * sind(a0 + tw), 1);
        for (int k = 0; k < per; k++) {
          double t = (double)k / (per - 1);
          all.push_back(lo * (1 - t) + hi * t);
        }
      }
      while (p.size() < n) p.push_back(all[r.below(all.size())]);
      break;
    }
    default: {  // mixture: sphere shell + dense core + duplicates of hull vertices
      c.fam = "shell+core+dups";
      for (auto& t : kTet) p.push_back(t * s3);
      while (p.size() < n) {
        double u = r.uni();
        if (u < 0.3) p.push_back(randDir(r));
        else if (u < 0.6) p.push_back(p[r.below(p.size())]);
        else p.push_back(randDir(r) * 1e-3 * r.uni());
      }
      break;
    }
  }
  // duplicates and order
  if (r.chance(0.3)) {
    size_t extra = std::min<size_t>(p.size(), 1 + r.below(p.size()));
    for (size_t i = 0; i < extra; i++) p.push_back(p[r.below(p.size())]);
    c.fam += "+dups";
  }
  for (size_t i = p.size(); i > 1; i--) std::swap(p[i - 1], p[r.below(i)]);
  // placement: eps_hull follows max|coordinate|, so offsets enlarge it relative to the size
  if (lattice) {
    int k = r.range(0, 3);
    vec3 t(0.0);
    if (k == 1) t = vec3(r.range(-50, 50), r.range(-50, 50), r.range(-50, 50));
    if (k == 2) t = vec3(r.range(-4000, 4000), 0, r.range(-4000, 4000));
    double s = k == 3 ? 0.125 : 1.0;
    for (auto& q : p) q = (q + t) * s;
    c.xf = "int-translate" + p3(t) + "*" + f17(s);
  } else {
    int k = r.range(0, 4);
    double s = k == 0 ? 1.0 : std::pow(10.0, r.uni(-3, 3));
    mat3 R = (k == 0 || k == 1) ? mat3(la::identity) : randRot(r);
    vec3 an = k == 4 ? vec3(r.uni(0.2, 1), r.uni(0.2, 1), r.uni(0.2, 1)) : vec3(1.0);
    double off = r.chance(0.5) ? 0.0 : s * std::pow(10.0, r.uni(-1, 3));
    vec3 t = randDir(r) * off;
    for (auto& q : p) q = R * (q * an) * s + t;
    c.xf = "s=" + f17(s) + ",rot=" + std::to_string(k >= 2) + ",aniso=" + p3(an) + ",t=" + p3(t);
  }
  c.regime = 0;
  return c;
}

// Thin slab: thickness ratio th in [1e-12,1e-4] of the extent. Only the clauses
// that do not involve epsilon are decided on these (see checkHull).
static Cloud makeThinCloud(vh::Rng& r, size_t n) {
  Cloud c;
  double th = std::pow(10.0, r.uni(-12, -4));
  c.fam = "thin-slab";
  int kind = r.range(0, 2);
  for (size_t i = 0; i < n; i++) {
    double x = r.uni(-1, 1), y = r.uni(-1, 1);
    if (kind == 1) { x = std::round(x * 8) / 8; y = std::round(y * 8) / 8; }
    double z = th * r.uni(-1, 1);
    if (kind == 2) { y = th * r.uni(-1, 1); }  // needle
    c.p.push_back({x, y, z});
  }
  mat3 R = r.chance(0.5) ? mat3(la::identity) : randRot(r);
  vec3 t = r.chance(0.5) ? vec3(0.0) : randDir(r) * std::pow(10.0, r.uni(-1, 2));
  for (auto& q : c.p) q = R * q + t;
  c.xf = "th=" + f17(th) + ",kind=" + std::to_string(kind) + ",t=" + p3(t);
  c.regime = 1;
  return c;
}

// Exactly degenerate clouds: small-integer lattice points o + i*u + j*v (all
// coordinates are integers below 2^20, so "spans no volume" is exact).
static Cloud makeDegenerateCloud(vh::Rng& r, long idx) {
  Cloud c;
  c.regime = 2;
  int dim = (int)(idx % 4);  // 0 point, 1 line, 2 plane, 3 fewer than four points
  auto ivec = [&](int m) { return vec3(r.range(-m, m), r.range(-m, m), r.range(-m, m)); };
  vec3 o = r.chance(0.3) ? vec3(0.0) : ivec(r.chance(0.5) ? 5 : 3000);
  vec3 u = ivec(4), v = ivec(4);
  while (la::length(u) == 0) u = ivec(4);
  while (la::length(la::cross(u, v)) == 0) v = ivec(4);
  if (r.chance(0.3)) { u = vec3(1, 0, 0); v = r.chance(0.5) ? vec3(0, 1, 0) : vec3(0, 0, 1); }
  size_t n;
  if (dim == 3) {
    n = r.range(1, 3);
    c.fam = "fewer-than-4";
    for (size_t i = 0; i < n; i++) c.p.push_back(o + ivec(6));
  } else {
    n = (size_t)r.range(4, 60);
    if (r.chance(0.1)) n = (size_t)r.range(500, 3000);
    c.fam = dim == 0 ? "single-point" : dim == 1 ? "lattice-line" : "lattice-plane";
    int m = r.range(1, 12);
    for (size_t i = 0; i < n; i++) {
      int a = dim >= 1 ? r.range(-m, m) : 0, b = dim >= 2 ? r.range(-m, m) : 0;
      c.p.push_back(o + u * (double)a + v * (double)b);
    }
    if (dim == 2) {  // make sure the plane is really spanned (else it is a line: still degenerate)
      c.p[0] = o;
      c.p[1] = o + u * (double)m;
      c.p[2] = o + v * (double)m;
    }
    if (dim == 1) {
      c.p[0] = o - u * (double)m;
      c.p[1] = o + u * (double)m;
    }
    if (r.chance(0.4)) {  // 4 or 5 points only: QuickHull's vertexCount<=4 shortcut
      c.p.resize(r.range(4, 5));
    }
    for (size_t i = c.p.size(); i > 1; i--) std::swap(c.p[i - 1], c.p[r.below(i)]);
  }
  c.degDim = dim;
  c.xf = "o=" + p3(o) + ",u=" + p3(u) + ",v=" + p3(v);
  return c;
}

// ------------------------------------------------------------------ hull oracle
struct Face {
  V3 v0, n;     // a vertex and the unit normal (long double)
  LD alt;       // smallest altitude; 0 => no plane
  double nx, ny, nz, d;  // rounded copy for the bulk scan: dist = n.p - d
};

static std::vector<Face> makeFaces(const vo::Soup& s, long long& degenerate) {
  std::vector<Face> f(s.t.size());
  for (size_t i = 0; i < s.t.size(); i++) {
    V3 a = s.v[s.t[i][0]], b = s.v[s.t[i][1]], c = s.v[s.t[i][2]];
    V3 cr = vo::cross(b - a, c - a);
    LD l = vo::norm(cr);
    LD e = std::max({vo::norm(b - a), vo::norm(c - b), vo::norm(a - c)});
    Face& F = f[i];
    F.v0 = a;
    if (!(l > 0) || !(e > 0)) {
      F.alt = 0;
      F.n = {0, 0, 0};
      F.nx = F.ny = F.nz = F.d = 0;
      degenerate++;
      continue;
    }
    F.n = cr * (1 / l);
    F.alt = l / e;
    F.nx = (double)F.n.x;
    F.ny = (double)F.n.y;
    F.nz = (double)F.n.z;
    F.d = (double)vo::dot(F.n, a);
  }
  return f;
}

struct HullCtx {
  vh::Ctx& c;
  const Cloud& cl;
  std::string via;  // points | manifold | manifolds
  std::string inputDesc;
};

static std::string hullDetail(const HullCtx& h, const std::string& why, const std::string& extra, const MeshGL64* m) {
  vh::J j;
  j.s("why", why).s("via", h.via).s("family", h.cl.fam).s("placement", h.cl.xf).i("regime", h.cl.regime).u("nInput", h.cl.p.size());
  if (!h.inputDesc.empty()) j.s("inputs", h.inputDesc);
  if (!extra.empty()) j.raw("witness", extra);
  if (m) j.raw("result", vo::MeshBrief(*m));
  j.raw("points", ptsJson(h.cl.p));
  return j.str();
}

// Decide the Hull clauses for result `hull` of input points cl.p. Returns true
// if the case was non-trivial and held.
static bool checkHull(HullCtx& h, const Manifold& hull) {
  vh::Ctx& c = h.c;
  const Cloud& cl = h.cl;
  const std::vector<vec3>& in = cl.p;
  // key tail: regime, input kind and generator family (coordinate free)
  std::string base = cl.fam.substr(0, cl.fam.find("+dups"));
  // the families that contain exactly (or to rounding) collinear triples on the hull boundary by construction share
  // one key class: the open QuickHull finding (garbage plane of a face through three collinear points) is keyed on it,
  // every other family keeps its own name (the family is always in the witness detail)
  for (const char* f : {"rings", "rulings", "lattice-block", "simplex-lattice", "cube-surface", "manifolds+refined-copy", "manifolds+boolean-leaf"})
    if (base == f) base = "collinear-by-construction";
  const std::string fam = (cl.regime == 2 ? "degen:" : cl.regime == 1 ? "thin:" : "thick:") + h.via + ":" + base;
  c.count("hulls_observed");
  if (const char* dump = getenv("C16_DUMP")) {  // debugging aid for replays: all input points, exact
    FILE* f = fopen(dump, "w");
    if (f) {
      for (auto& q : in) fprintf(f, "%a %a %a\n", q.x, q.y, q.z);
      fclose(f);
    }
  }
  Manifold::Error st = hull.Status();
  bool empty = hull.IsEmpty();
  if (cl.regime == 2) {
    c.count("degenerate_inputs");
    if (!empty) {
      MeshGL64 m = hull.GetMeshGL64();
      c.violation("hull:degenerate-input-not-empty:" + cl.fam,
                  hullDetail(h, "points span no volume (exact integer lattice) but Hull is not empty",
                             vh::J().s("status", vo::ErrName(st)).u("numTri", hull.NumTri()).d("volume", hull.Volume()).str(), &m));
      // the remaining clauses still apply to whatever was returned
    } else {
      c.count("degenerate_empty_ok");
      c.sig("degen:" + cl.fam + ":" + h.via + ":" + std::to_string(in.size() > 5 ? (in.size() > 100 ? 2 : 1) : 0));
      return true;
    }
  }
  if (st != Manifold::Error::NoError) {
    c.violation("hull:error-status:" + fam, hullDetail(h, std::string("Status ") + vo::ErrName(st), "", nullptr));
    return false;
  }
  if (empty) {
    if (cl.regime == 0) {
      c.violation("hull:empty-on-volume-spanning-input:" + fam, hullDetail(h, "input spans a volume with a clear margin but Hull is empty", "", nullptr));
      return false;
    }
    c.count("thin_empty_no_verdict");
    return false;
  }
  MeshGL64 m = hull.GetMeshGL64();
  // (1) closed manifold
  vo::TopoReport t = vo::CheckClosedManifold(m);
  if (!t.ok) {
    c.violation("hull:not-closed-manifold:" + t.why + ":" + fam, hullDetail(h, t.why, vh::J().s("info", t.info).str(), &m));
    return false;
  }
  vo::Soup s = vo::MakeSoup(m);
  // (2) vertices are input points (coordinate values equal, -0 == +0)
  {
    std::unordered_set<PtKey, PtHash> set;
    set.reserve(in.size() * 2);
    for (auto& q : in) set.insert(keyOf(q.x, q.y, q.z));
    for (size_t i = 0; i < s.v.size(); i++) {
      double x = m.vertProperties[i * m.numProp], y = m.vertProperties[i * m.numProp + 1], z = m.vertProperties[i * m.numProp + 2];
      c.count("vertices_matched_to_inputs");
      if (!set.count(keyOf(x, y, z))) {
        c.violation("hull:vertex-not-an-input-point:" + fam,
                    hullDetail(h, "output vertex is not equal to any input point", vh::J().u("vert", i).raw("pos", p3(vec3(x, y, z))).str(), &m));
        return false;
      }
    }
  }
  if (cl.regime == 2) return false;  // already reported above
  if (cl.regime == 1) {
    c.count("thin_clouds_topology_and_vertices_only");
    c.sig("thin:" + h.via + ":" + std::to_string((int)std::log2((double)in.size())));
    return true;
  }
  // (3) genus 0 and positive volume (a convex solid is a ball)
  if (t.chi != 2) {
    c.violation("hull:not-genus-0:" + fam, hullDetail(h, "Euler characteristic " + std::to_string(t.chi), "", &m));
    return false;
  }
  LD vol = vo::SoupVolume(s);
  if (!(vol > 0)) {
    c.violation("hull:volume-not-positive:" + fam, hullDetail(h, "signed volume <= 0 on a volume-spanning input", vh::J().d("volume", (double)vol).str(), &m));
    return false;
  }
  // epsilon
  LD scale = 0;
  for (auto& q : in) scale = std::max({scale, (LD)std::fabs(q.x), (LD)std::fabs(q.y), (LD)std::fabs(q.z)});
  const LD epsHull = 1e-7L * scale;
  // (3b) consequence of "vertices are input points" + "contains every input point within epsilon": the two
  // bounding boxes agree within the decision threshold (catches a whole operand or a whole side being left out)
  {
    V3 ilo{1e300L, 1e300L, 1e300L}, ihi{-1e300L, -1e300L, -1e300L};
    for (auto& q : in) {
      ilo = {std::min(ilo.x, (LD)q.x), std::min(ilo.y, (LD)q.y), std::min(ilo.z, (LD)q.z)};
      ihi = {std::max(ihi.x, (LD)q.x), std::max(ihi.y, (LD)q.y), std::max(ihi.z, (LD)q.z)};
    }
    const LD tb = 10 * epsHull * (1 + 1e-6L);
    LD worst = std::max({s.lo.x - ilo.x, s.lo.y - ilo.y, s.lo.z - ilo.z, ihi.x - s.hi.x, ihi.y - s.hi.y, ihi.z - s.hi.z});
    c.count("bounding_boxes_compared");
    if (worst > tb) {
      c.violation("hull:bounding-box-smaller-than-inputs:" + fam,
                  hullDetail(h, "an axis-extreme input point is farther than 10 eps_hull outside the hull's bounding box",
                             vh::J().d("shortBy", (double)worst).d("eps_hull", (double)epsHull).raw("inputMin", p3(ilo)).raw("inputMax", p3(ihi))
                                 .raw("hullMin", p3(s.lo)).raw("hullMax", p3(s.hi)).str(), &m));
      return false;
    }
  }
  long long degenerate = 0;
  std::vector<Face> F = makeFaces(s, degenerate);
  c.count("faces_without_plane_skipped", degenerate);
  // thr(f,p,1): one eps_hull above the plane (counted as advisory slack up to kSlack eps_hull);
  // thr(f,p,kSlack): the decision threshold (see the assumptions in lib/checks_c16.py)
  const LD kSlack = 10;
  auto thr = [&](const Face& f, V3 p, LD k = 1) { return k * epsHull * (1 + 1e-6L) + 32 * kU * scale * (1 + vo::norm(p - f.v0) / f.alt); };
  // (4) every edge convex: the opposite vertex of the neighbour is on or below this face's plane
  {
    int edgeConfirmBudget = 40;
    struct E { uint64_t key; uint32_t tri, opp; };
    std::vector<E> es;
    es.reserve(s.t.size() * 3);
    for (uint32_t ti = 0; ti < s.t.size(); ti++)
      for (int k = 0; k < 3; k++)
        es.push_back({((uint64_t)s.t[ti][k] << 32) | s.t[ti][(k + 1) % 3], ti, s.t[ti][(k + 2) % 3]});
    std::sort(es.begin(), es.end(), [](const E& a, const E& b) { return a.key < b.key; });
    for (auto& e : es) {
      uint64_t rev = (e.key << 32) | (e.key >> 32);
      auto it = std::lower_bound(es.begin(), es.end(), rev, [](const E& a, uint64_t k) { return a.key < k; });
      if (it == es.end() || it->key != rev) continue;  // merged exports are not produced by Hull; topology passed
      const Face& f = F[e.tri];
      if (f.alt == 0) continue;
      V3 w = s.v[it->opp];
      LD d = vo::dot(f.n, w - f.v0);
      c.count("edges_convexity_checked");
      if (d > thr(f, w)) c.count(d <= 2 * epsHull ? "advisory_edges_concave_by_1_to_2_eps_hull" : "advisory_edges_concave_by_2_to_10_eps_hull_or_more");
      if (d > thr(f, w, kSlack)) {
        // confirm on the solid: across a really reflex edge the segment between the two wing tips leaves the
        // solid; across a zero-thickness fold inside a coplanar facet (flipped coplanar triangle) it does not
        V3 u = s.v[e.opp];
        bool leaves = false;
        if (edgeConfirmBudget-- > 0) {
          for (LD t : {0.5L, 0.25L, 0.75L, 0.1L, 0.9L}) {
            V3 q = u + (w - u) * t;
            vo::Cls k = vo::Classify(s, q);
            if (k.integral && k.w == 0 && vo::DistToSurface(s, q) > thr(f, q, kSlack)) { leaves = true; break; }
          }
        }
        if (!leaves) {
          c.count("edges_reflex_by_plane_but_flat_fold_on_solid_not_judged");
          continue;
        }
        c.violation("hull:concave-edge:" + fam,
                    hullDetail(h, "neighbouring face's opposite vertex lies above this face's plane by more than 10 eps_hull",
                               vh::J().d("above", (double)d).d("eps_hull", (double)epsHull).d("threshold", (double)thr(f, w, kSlack)).u("tri", e.tri)
                                   .raw("face", "[" + p3(s.v[s.t[e.tri][0]]) + "," + p3(s.v[s.t[e.tri][1]]) + "," + p3(s.v[s.t[e.tri][2]]) + "]")
                                   .raw("vertex", p3(w)).str(), &m));
        return false;
      }
    }
  }
  // (5) every input point inside or within eps_hull of every face plane
  {
    const size_t N = in.size(), NF = F.size();
    const double budget = (double)c.iparam("pairBudget", 30000000);
    std::vector<uint32_t> ptSel, faceSel;
    bool full = (double)N * (double)NF <= budget;
    vh::Rng rs = c.rng.fork();
    if (!full) {
      size_t np = std::max<size_t>(64, (size_t)(budget / 2 / (double)NF));
      size_t nf = std::max<size_t>(64, (size_t)(budget / 2 / (double)N));
      for (size_t i = 0; i < np; i++) ptSel.push_back((uint32_t)rs.below(N));
      for (size_t i = 0; i < nf; i++) faceSel.push_back((uint32_t)rs.below(NF));
      c.count("hulls_checked_by_sampled_pairs");
    } else
      c.count("hulls_checked_all_pairs");
    const double coarse = 0.25 * (double)epsHull;
    LD worst = 0;
    bool bad = false;
    // A face whose plane has a point of the solid above it (a zero-thickness fold inside a
    // coplanar facet, seen on lattice / ring inputs) cannot witness anything: after its first
    // unconfirmed candidate it is set aside. Confirmations cost O(#faces) each and are budgeted.
    std::vector<char> setAside(NF, 0);
    int confirmBudget = 60;
    auto precise = [&](uint32_t pi, uint32_t fi) {
      const Face& f = F[fi];
      if (f.alt == 0 || setAside[fi]) return false;
      V3 p = vo::toV3(in[pi]);
      LD d = vo::dot(f.n, p - f.v0);
      LD th = thr(f, p);
      if (th > 2 * epsHull) c.count("pairs_with_threshold_inflated_by_sliver_face");
      if (d <= th) return false;
      // confirm on the solid itself: the point must really be outside and farther than eps from it
      if (confirmBudget <= 0) {
        c.count("plane_candidates_left_undecided_confirmation_budget");
        return false;
      }
      confirmBudget--;
      vo::Cls k = vo::Classify(s, p);
      LD ds = vo::DistToSurface(s, p);
      if (!k.integral || k.w != 0 || ds <= thr(f, p)) {
        c.count("plane_candidates_not_confirmed_on_solid");
        setAside[fi] = 1;
        c.count("faces_set_aside_plane_cuts_the_solid");
        if (getenv("C16_DEBUG")) fprintf(stderr, "UNCONF idx=%ld fam=%s n=%zu F=%zu d/eps=%.3g w=%d int=%d ds/eps=%.3g alt/scale=%.3g thr/eps=%.3g\n", c.idx, cl.fam.c_str(), in.size(), F.size(), (double)(d / epsHull), k.w, (int)k.integral, (double)(ds / epsHull), (double)(f.alt / scale), (double)(th / epsHull));
        return false;
      }
      if (d <= thr(f, p, kSlack) || ds <= thr(f, p, kSlack)) {
        c.count(d <= 2 * epsHull ? "advisory_points_outside_by_1_to_2_eps_hull" : "advisory_points_outside_by_2_to_10_eps_hull");
        c.maxi("advisory_max_point_outside_ppm_of_eps_hull", (long long)(1e6L * d / epsHull));
        return false;
      }
      c.violation("hull:input-point-outside:" + fam,
                  hullDetail(h, "input point lies above a face plane (and outside the hull) by more than 10 eps_hull",
                             vh::J().d("abovePlane", (double)d).d("distToHull", (double)ds).d("eps_hull", (double)epsHull).d("threshold", (double)thr(f, p, kSlack))
                                 .u("point", pi).raw("pos", p3(in[pi])).u("tri", fi)
                                 .raw("face", "[" + p3(s.v[s.t[fi][0]]) + "," + p3(s.v[s.t[fi][1]]) + "," + p3(s.v[s.t[fi][2]]) + "]").str(), &m));
      return true;
    };
    auto scanPoint = [&](uint32_t pi, const std::vector<uint32_t>* faces) {
      const double x = in[pi].x, y = in[pi].y, z = in[pi].z;
      size_t cnt = faces ? faces->size() : NF;
      for (size_t k = 0; k < cnt && !bad; k++) {
        uint32_t fi = faces ? (*faces)[k] : (uint32_t)k;
        const Face& f = F[fi];
        double d = f.nx * x + f.ny * y + f.nz * z - f.d;
        if (d > coarse && !setAside[fi] && precise(pi, fi)) bad = true;
      }
      c.count("point_plane_pairs_checked", (long long)cnt);
    };
    if (full) {
      for (uint32_t i = 0; i < N && !bad; i++) scanPoint(i, nullptr);
    } else {
      for (uint32_t i : ptSel) { if (bad) break; scanPoint(i, nullptr); }
      for (uint32_t i = 0; i < N && !bad; i++) scanPoint(i, &faceSel);
      c.heartbeat();
    }
    if (bad) return false;
    (void)worst;
  }
  c.count("thick_hulls_held");
  int b1 = 0, b2 = 0;
  for (size_t x = in.size(); x > 1; x >>= 1) b1++;
  for (size_t x = s.t.size(); x > 1; x >>= 1) b2++;
  c.sig("thick:" + h.via + ":" + cl.fam + ":" + std::to_string(b1) + ":" + std::to_string(b2 / 2));
  c.maxi("max_input_points", (long long)in.size());
  c.maxi("max_hull_tris", (long long)s.t.size());
  return true;
}

// small concave polygons, CCW, with a known interior point
struct Poly {
  SimplePolygon p;
  vec2 inside;
  double inMargin;  // the disc of this radius around `inside` is inside the polygon
  std::string name;
};
static Poly concavePoly(vh::Rng& r) {
  Poly q;
  int k = r.range(0, 2);
  if (k == 0) {  // dart
    double d = r.uni(0.15, 0.45);
    q.p = {{1, 0}, {-0.6, 0.8}, {-d, 0}, {-0.6, -0.8}};
    q.inside = {0.3, 0};
    q.inMargin = 0.15;
    q.name = "dart";
  } else if (k == 1) {  // L
    double a = r.uni(0.35, 0.65);
    q.p = {{0, 0}, {1, 0}, {1, a}, {a, a}, {a, 1}, {0, 1}};
    q.inside = {a / 2, a / 2};
    q.inMargin = a / 2 * 0.9;
    q.name = "L";
  } else {  // star with alternating radii
    int n = r.range(3, 4);
    double ri = r.uni(0.35, 0.5);
    for (int i = 0; i < 2 * n; i++) {
      double a = 180.0 * i / n, rr = (i % 2) ? ri : 1.0;
      q.p.push_back({rr * cosd(a), rr * sind(a)});
    }
    q.inside = {0, 0};
    q.inMargin = ri * 0.8 * std::cos(kPi / (2 * n));
    q.name = "star" + std::to_string(n);
  }
  return q;
}

static void hullCase(vh::Ctx& c) {
  vh::Rng& r = c.rng;
  const bool quick = c.quick();
  double u = r.uni();
  if (u < 0.72) {
    size_t n;
    long big = c.iparam("bigEvery", 400), mid = c.iparam("midEvery", 25);
    if (c.idx % big == 7) n = (size_t)r.range(60000, 100000);
    else if (c.idx % mid == 3) n = (size_t)r.range(1000, quick ? 8000 : 30000);
    else n = r.chance(0.3) ? (size_t)r.range(4, 12) : (size_t)r.range(13, 400);
    Cloud cl = r.chance(0.12) ? makeThinCloud(r, n) : makeThickCloud(r, n);
    HullCtx h{c, cl, "points", ""};
    c.site("Hull(points):" + cl.fam);
    Manifold hull = Manifold::Hull(cl.p);
    checkHull(h, hull);
    if (c.idx % 211 == 0)
      c.sample(vh::J().i("idx", c.idx).s("family", cl.fam).s("placement", cl.xf).u("n", cl.p.size()).u("hullTris", hull.NumTri()).str());
    return;
  }
  // Manifold inputs: input points are the vertices of the (eagerly exported) operands
  bool hasBooleanLeaf = false;  // a Boolean result has new vertices exactly on the edges / faces of its operands
  auto leaf = [&](std::string& desc) -> Manifold {
    int k = r.range(0, 6);
    if (k == 5) hasBooleanLeaf = true;
    Manifold m;
    switch (k) {
      case 0: { vec3 s(r.uni(0.2, 2), r.uni(0.2, 2), r.uni(0.2, 2)); m = Manifold::Cube(s, r.chance(0.5)); desc += "Cube" + p3(s); break; }
      case 1: { int n = r.range(4, 40); double rad = r.uni(0.2, 2); m = Manifold::Sphere(rad, n); desc += "Sphere(" + f17(rad) + "," + std::to_string(n) + ")"; break; }
      case 2: { int n = r.range(3, 30); double hh = r.uni(0.2, 2), r1 = r.uni(0.2, 1), r2 = r.chance(0.3) ? 0.0 : r.uni(0.2, 1);
                m = Manifold::Cylinder(hh, r1, r2, n, r.chance(0.5)); desc += "Cylinder(" + f17(hh) + "," + f17(r1) + "," + f17(r2) + "," + std::to_string(n) + ")"; break; }
      case 3: { m = Manifold::Tetrahedron(); desc += "Tetrahedron"; break; }
      case 4: { Poly q = concavePoly(r); double hh = r.uni(0.2, 1.5); double tw = r.chance(0.5) ? 0 : r.uni(-90, 90);
                m = Manifold::Extrude({q.p}, hh, tw != 0 ? r.range(1, 5) : 0, tw); desc += "Extrude(" + q.name + "," + f17(hh) + ",twist=" + f17(tw) + ")"; break; }
      case 5: { Manifold a = Manifold::Cube(vec3(1.0), true), b = Manifold::Sphere(0.7, 12).Translate({r.uni(0.2, 0.6), r.uni(0.2, 0.6), r.uni(0.2, 0.6)});
                m = r.chance(0.5) ? a + b : a - b; desc += "Cube+-Sphere"; break; }
      default: { Poly q = concavePoly(r); for (auto& v : q.p) v.x += 1.5; int n = r.range(3, 16);
                m = Manifold::Revolve({q.p}, n, r.chance(0.5) ? 360.0 : r.uni(40, 300)); desc += "Revolve(" + q.name + "," + std::to_string(n) + ")"; break; }
    }
    int tk = r.range(0, 3);
    if (tk >= 1) { vec3 t = randDir(r) * r.uni(0, 3); m = m.Translate(t); desc += ".T" + p3(t); }
    if (tk >= 2) { vec3 e(r.uni(-180, 180), r.uni(-180, 180), r.uni(-180, 180)); m = m.Rotate(e.x, e.y, e.z); desc += ".R" + p3(e); }
    if (tk >= 3) { vec3 sc(r.uni(0.3, 3), r.uni(0.3, 3), r.uni(0.3, 3)); m = m.Scale(sc); desc += ".S" + p3(sc); }
    return m;
  };
  Cloud cl;
  cl.regime = 0;
  std::string desc;
  std::vector<Manifold> ms;
  int count = u < 0.86 ? 1 : r.range(2, 4);
  const bool withRefinedCopy = u >= 0.86 && r.chance(0.35);
  for (int i = 0; i < count; i++) {
    if (i) desc += " ; ";
    ms.push_back(leaf(desc));
  }
  if (withRefinedCopy) {
    // a solid together with its own refined copy: exact duplicates of every vertex plus many points exactly
    // collinear on its edges and coplanar on its faces
    double len = r.uni(0.15, 0.6);
    c.site("RefineToLength(for Hull input)");
    ms.push_back(ms[0].RefineToLength(len));
    desc += " ; #0.RefineToLength(" + f17(len) + ")";
  }
  count = (int)ms.size();
  for (auto& m : ms) {
    if (m.Status() != Manifold::Error::NoError || m.IsEmpty()) { c.count("manifold_input_unusable"); return; }
    MeshGL64 g = m.GetMeshGL64();
    for (size_t i = 0; i < g.vertProperties.size(); i += g.numProp)
      cl.p.push_back({g.vertProperties[i], g.vertProperties[i + 1], g.vertProperties[i + 2]});
  }
  cl.fam = withRefinedCopy ? "manifolds+refined-copy" : hasBooleanLeaf ? "manifolds+boolean-leaf" : count == 1 ? "one-manifold" : "several-manifolds";
  cl.xf = "";
  HullCtx h{c, cl, count == 1 ? "manifold" : "manifolds", desc};
  Manifold hull;
  if (count == 1 && r.chance(0.7)) {
    c.site("Manifold::Hull()");
    hull = ms[0].Hull();
  } else {
    c.site("Hull(vector<Manifold>)");
    hull = Manifold::Hull(ms);
  }
  checkHull(h, hull);
}

static void degenCase(vh::Ctx& c) {
  Cloud cl = makeDegenerateCloud(c.rng, c.idx);
  HullCtx h{c, cl, "points", ""};
  c.site("Hull(points):" + cl.fam);
  Manifold hull = Manifold::Hull(cl.p);
  checkHull(h, hull);
  if (c.idx % 97 == 0) c.sample(vh::J().i("idx", c.idx).s("family", cl.fam).u("n", cl.p.size()).bo("empty", hull.IsEmpty()).str());
}

// ------------------------------------------------------------------ Minkowski
struct Opnd {
  Manifold m;
  bool convex = true;
  std::string desc;
  vec3 interior;  // deep inside by construction
  double inMargin = 0;
};

static Opnd makeOperand(vh::Rng& r, bool convex) {
  Opnd o;
  o.convex = convex;
  if (convex) {
    int k = r.range(0, 4);
    switch (k) {
      case 0: { vec3 s(r.uni(0.4, 1.2), r.uni(0.4, 1.2), r.uni(0.4, 1.2)); o.m = Manifold::Cube(s, true); o.inMargin = 0.2; o.desc = "Cube" + p3(s); break; }
      case 1: { o.m = Manifold::Tetrahedron().Scale(vec3(0.6)); o.inMargin = 0.3; o.desc = "Tetrahedron*0.6"; break; }
      case 2: { int n = r.chance(0.6) ? 4 : 8; double rad = r.uni(0.4, 1.0); o.m = Manifold::Sphere(rad, n); o.inMargin = rad * 0.5; o.desc = "Sphere(" + f17(rad) + "," + std::to_string(n) + ")"; break; }
      case 3: { int n = r.range(3, 6); double hh = r.uni(0.5, 1.2), r1 = r.uni(0.4, 0.8), r2 = r.chance(0.3) ? r.uni(0.3, 0.8) : r1;
                o.m = Manifold::Cylinder(hh, r1, r2, n, true); o.inMargin = 0.15; o.desc = "Cylinder(" + f17(hh) + "," + f17(r1) + "," + f17(r2) + "," + std::to_string(n) + ")"; break; }
      default: {
        std::vector<vec3> pts;
        for (auto& t : kTet) pts.push_back(t * 0.6);
        int n = r.range(2, 5);
        for (int i = 0; i < n; i++) pts.push_back(randDir(r) * r.uni(0.5, 1.0));
        o.m = Manifold::Hull(pts);
        o.inMargin = 0.15;
        o.desc = "Hull(" + std::to_string(pts.size()) + "pts)";
        break;
      }
    }
    o.interior = vec3(0.0);
  } else {
    Poly q = concavePoly(r);
    double hh = r.uni(0.4, 1.0);
    o.m = Manifold::Extrude({q.p}, hh).Translate({-q.inside.x, -q.inside.y, -hh / 2});
    o.interior = vec3(0.0);
    o.inMargin = std::min(q.inMargin, hh / 2) * 0.9;
    o.desc = "Extrude(" + q.name + "," + f17(hh) + ")";
  }
  return o;
}

struct Shape {
  Manifold m;
  MeshGL64 g;
  vo::Soup s;
  LD diag = 0;
};
static Shape shapeOf(const Manifold& m) {
  Shape sh;
  sh.m = m;
  sh.g = m.GetMeshGL64();
  sh.s = vo::MakeSoup(sh.g);
  if (!sh.s.empty()) sh.diag = vo::norm(sh.s.hi - sh.s.lo);
  return sh;
}
// -1 outside, +1 inside, 0 undecided (non-integral winding, winding not in {0,1}, or within tau of the surface)
static int side(const Shape& sh, V3 p, LD tau, LD* dist = nullptr) {
  if (sh.s.empty()) return -1;
  vo::Cls k = vo::Classify(sh.s, p);
  LD d = vo::DistToSurface(sh.s, p);
  if (dist) *dist = d;
  if (!k.integral || d <= tau) return 0;
  if (k.w == 1) return 1;
  if (k.w == 0) return -1;
  return 0;
}
static V3 randIn(vh::Rng& r, V3 lo, V3 hi) {
  return {lo.x + (hi.x - lo.x) * (LD)r.uni(), lo.y + (hi.y - lo.y) * (LD)r.uni(), lo.z + (hi.z - lo.z) * (LD)r.uni()};
}

static void minkCase(vh::Ctx& c) {
  vh::Rng& r = c.rng;
  // enumerate op x convexity combination by index so every combination gets the same share
  const int combo = (int)(c.idx % 8);
  // stage "minkbig": a non-convex A with MORE than 1000 triangles (the library
  // sweeps A's faces in internal batches of 1000) and a small convex B
  const bool bigA = c.iparam("bigA", 0) != 0;
  const bool isDiff = combo & 1, aConvex = bigA ? false : (combo & 2), bConvex = bigA ? true : (combo & 4);
  Opnd A = makeOperand(r, aConvex), B = makeOperand(r, bConvex);
  if (bigA) {
    int seg = 4 * r.range(12, 17);  // Sphere(1, seg) has 8 (seg/4)^2 = 1152 .. 2312 triangles
    A.m = Manifold::Sphere(1.0, seg) - Manifold::Cube(vec3(1.0)).Translate(vec3(0.2, 0.25, 0.3));
    A.convex = false;
    A.inMargin = 0.2;
    A.desc = "(Sphere(1," + std::to_string(seg) + ")-Cube(1).T(0.2,0.25,0.3))";
    c.count("mink_bigA_cases");
  }
  // generic linear maps keep eps-validity and the origin inside
  auto generic = [&](Opnd& o, double size) {
    mat3 R = randRot(r);
    vec3 an(r.uni(0.7, 1.3), r.uni(0.7, 1.3), r.uni(0.7, 1.3));
    mat3 M = R * mat3({an.x * size, 0, 0}, {0, an.y * size, 0}, {0, 0, an.z * size});
    o.m = o.m.Transform(mat3x4(M, vec3(0.0)));
    o.inMargin *= 0.7 * size;
    o.desc += ".Linear(size=" + f17(size) + ")";
  };
  double sizeA = bigA ? 1.0 : r.uni(0.6, 1.6);
  // B both smaller and larger than A (the statement quantifies over all pairs of small solids)
  double sizeB = bigA ? r.uni(0.05, 0.09) : (r.chance(0.55) ? r.uni(0.15, 0.5) : r.uni(0.8, 2.2));
  generic(A, sizeA);
  generic(B, sizeB);
  // B: origin stays inside, moved off-centre by less than half the margin
  vec3 shiftB = randDir(r) * (B.inMargin * r.uni(0, 0.5));
  B.m = B.m.Translate(shiftB);
  B.desc += ".T" + p3(shiftB);
  // A: anywhere
  int place = r.range(0, 2);
  vec3 shiftA = place == 0 ? vec3(0.0) : randDir(r) * (place == 1 ? r.uni(0.1, 1.0) : r.uni(2, 6));
  A.m = A.m.Translate(shiftA);
  A.desc += ".T" + p3(shiftA);

  // the library's own convexity verdicts select the branch of minkowski.cpp (see the note at the top)
  const bool libA = A.m.GetCsgLeafNode().GetImpl()->IsConvex(), libB = B.m.GetCsgLeafNode().GetImpl()->IsConvex();
  if ((!aConvex && libA) || (!bConvex && libB)) c.count("library_calls_concave_operand_convex");
  if ((aConvex && !libA) || (bConvex && !libB)) c.count("library_calls_convex_operand_nonconvex");
  const std::string made = std::string(aConvex ? "c" : "n") + (bConvex ? "c" : "n");
  const std::string cc = std::string(libA ? "c" : "n") + (libB ? "c" : "n");
  const std::string op = isDiff ? "diff" : "sum";
  Shape a = shapeOf(A.m), b = shapeOf(B.m);
  auto detail = [&](const std::string& why, const std::string& wit, const Shape* res) {
    vh::J j;
    j.s("why", why).s("op", isDiff ? "A.MinkowskiDifference(B)" : "A.MinkowskiSum(B)").s("convexityAsConstructed", made).s("convexityPerLibraryIsConvex", cc).s("A", A.desc).s("B", B.desc).raw("witness", wit);
    j.raw("Amesh", vo::MeshBrief(a.g)).raw("Bmesh", vo::MeshBrief(b.g));
    if (res) j.raw("result", vo::MeshBrief(res->g));
    std::vector<vec3> av, bv;
    for (auto& v : a.s.v) av.push_back(vo::toVec3(v));
    for (auto& v : b.s.v) bv.push_back(vo::toVec3(v));
    j.raw("Averts", ptsJson(av, 80)).raw("Bverts", ptsJson(bv, 80));
    return j.str();
  };
  if (a.s.empty() || b.s.empty() || A.m.Status() != Manifold::Error::NoError || B.m.Status() != Manifold::Error::NoError) {
    c.count("operand_unusable");
    return;
  }
  // preconditions, verified by the oracle (not assumed): origin inside B with a margin
  LD d0 = 0;
  if (side(b, {0, 0, 0}, (LD)(0.2 * B.inMargin), &d0) != 1) {
    c.count("precondition_origin_not_deep_in_B");
    return;
  }
  LD reach = 0;  // max |b| over B is attained at a vertex
  for (auto& v : b.s.v) reach = std::max(reach, vo::norm(v));
  // regime label for the key (coordinate free)
  int a0 = side(a, {0, 0, 0}, 1e-9L);
  bool bNotSmaller = true;  // B's box at least as large as A's in every axis: B may contain a translate of -A
  for (int k = 0; k < 3; k++) {
    LD ea = k == 0 ? a.s.hi.x - a.s.lo.x : k == 1 ? a.s.hi.y - a.s.lo.y : a.s.hi.z - a.s.lo.z;
    LD eb = k == 0 ? b.s.hi.x - b.s.lo.x : k == 1 ? b.s.hi.y - b.s.lo.y : b.s.hi.z - b.s.lo.z;
    if (eb < ea) bNotSmaller = false;
  }
  std::string regime = "plain";
  if (libA && !libB && !isDiff && a0 != 1) regime = "originNotInA";
  if (!libA && !libB && bNotSmaller) regime = "BnotSmallerThanA";
  const std::string tail = cc + ":" + regime;

  c.site(std::string(isDiff ? "MinkowskiDifference:" : "MinkowskiSum:") + cc);
  Manifold R = isDiff ? A.m.MinkowskiDifference(B.m) : A.m.MinkowskiSum(B.m);
  c.count(std::string("mink_") + op + "_made_" + made + "_lib_" + cc);
  Manifold::Error st = R.Status();
  if (st != Manifold::Error::NoError) {
    c.violation("mink:" + op + ":error-status:" + tail, detail(std::string("Status ") + vo::ErrName(st), "{}", nullptr));
    return;
  }
  Shape res = shapeOf(R);
  const LD ext = std::max({a.diag, b.diag, res.diag});
  const LD tol = std::max({(LD)R.GetTolerance(), (LD)A.m.GetTolerance(), (LD)B.m.GetTolerance()});
  const LD tau = 1e-6L * ext + 100 * tol;  // guard band around every surface
  long decided = 0;
  auto insideA = [&](V3 p, LD* dist) { return side(a, p, tau, dist); };

  // samples of B: the origin, interior points deeper than tau, and (closed set) its vertices
  std::vector<V3> bs;
  bs.push_back({0, 0, 0});
  for (int i = 0; i < 60 && bs.size() < 9; i++) {
    V3 q = randIn(r, b.s.lo, b.s.hi);
    if (side(b, q, tau) == 1) bs.push_back(q);
    else c.count("samples_skipped_in_band_or_outside");
  }
  // extreme samples: just inside the vertices (pulled 2% towards a point of the solid), kept only if the oracle
  // classifies them inside and deeper than tau -- their sums lie next to the boundary of the Minkowski sum
  auto nearVertices = [&](const Shape& sh, std::vector<V3>& out, size_t maxN) {
    V3 cen{0, 0, 0};
    for (auto& v : sh.s.v) cen = cen + v * (1.0L / sh.s.v.size());
    for (size_t i = 0; i < sh.s.v.size() && i < maxN; i++) {
      V3 v = sh.s.v[(i * 7) % sh.s.v.size()];
      for (V3 target : {cen, V3{0, 0, 0}}) {
        V3 q = v + (target - v) * 0.02L;
        if (side(sh, q, tau) == 1) { out.push_back(q); break; }
      }
    }
  };
  nearVertices(b, bs, 10);
  if (!isDiff) {
    // (S1) a in A deeper than tau, b in B deeper than tau  =>  a+b inside Sum (unless within tau of its surface)
    std::vector<V3> as;
    for (int i = 0; i < 200 && as.size() < 16; i++) {
      V3 q = randIn(r, a.s.lo, a.s.hi);
      if (side(a, q, tau) == 1) as.push_back(q);
      else c.count("samples_skipped_in_band_or_outside");
    }
    nearVertices(a, as, 12);
    for (auto& pa : as)
      for (auto& pb : bs) {
        V3 x = pa + pb;
        LD ds;
        int sd = side(res, x, tau, &ds);
        c.count("sum_points_classified");
        if (sd == 0) { c.count("samples_skipped_in_band_or_outside"); continue; }
        decided++;
        if (sd != 1) {
          c.violation("mink:sum:a+b-not-inside:" + tail,
                      detail("a in A and b in B (both deeper than tau) but a+b is outside MinkowskiSum(A,B)",
                             vh::J().raw("a", p3(pa)).raw("b", p3(pb)).raw("a+b", p3(x)).d("distToSumSurface", (double)ds).d("tau", (double)tau).str(), &res));
          return;
        }
      }
    // (S2) no point of Sum is farther from A than reach(B): all vertices of Sum, and sampled points
    auto distToA = [&](V3 p, bool& ok) -> LD {
      LD d;
      int sd = insideA(p, &d);
      ok = sd != 0;
      return sd == 1 ? 0 : d;
    };
    for (size_t i = 0; i < res.s.v.size(); i++) {
      bool ok;
      LD d = distToA(res.s.v[i], ok);
      c.count("sum_vertices_checked_against_reach");
      if (!ok) continue;
      decided++;
      if (d > reach + tau) {
        c.violation("mink:sum:point-farther-than-reach:" + tail,
                    detail("a vertex of MinkowskiSum(A,B) is farther from A than max|b|",
                           vh::J().raw("vertex", p3(res.s.v[i])).d("distToA", (double)d).d("reachB", (double)reach).d("tau", (double)tau).str(), &res));
        return;
      }
    }
    V3 pad{reach * 1.6L + 0.2L * a.diag, reach * 1.6L + 0.2L * a.diag, reach * 1.6L + 0.2L * a.diag};
    for (int i = 0; i < 60; i++) {
      V3 p = randIn(r, a.s.lo - pad, a.s.hi + pad);
      bool ok;
      LD d = distToA(p, ok);
      if (!ok || d <= reach + tau) { c.count("samples_skipped_in_band_or_outside"); continue; }
      LD ds;
      int sd = side(res, p, tau, &ds);
      c.count("far_points_classified");
      if (sd == 0) continue;
      decided++;
      if (sd == 1) {
        c.violation("mink:sum:point-farther-than-reach:" + tail,
                    detail("a point farther from A than max|b| is inside MinkowskiSum(A,B)",
                           vh::J().raw("point", p3(p)).d("distToA", (double)d).d("reachB", (double)reach).d("tau", (double)tau).str(), &res));
        return;
      }
    }
  } else {
    if (res.s.empty()) {
      c.count("diff_empty_result_trivial");
      return;
    }
    // (D1) Difference lies inside A: its vertices, and interior samples
    for (size_t i = 0; i < res.s.v.size(); i++) {
      LD d;
      int sd = insideA(res.s.v[i], &d);
      c.count("diff_vertices_checked_inside_A");
      if (sd == 0) continue;
      decided++;
      if (sd == -1) {
        c.violation("mink:diff:not-inside-A:" + tail,
                    detail("a vertex of MinkowskiDifference(A,B) is outside A",
                           vh::J().raw("vertex", p3(res.s.v[i])).d("distToA", (double)d).d("tau", (double)tau).str(), &res));
        return;
      }
    }
    std::vector<V3> ps;
    for (int i = 0; i < 400 && ps.size() < 20; i++) {
      V3 q = randIn(r, res.s.lo, res.s.hi);
      if (side(res, q, tau) == 1) ps.push_back(q);
      else c.count("samples_skipped_in_band_or_outside");
    }
    // (D2) p in Difference, b in B  =>  p-b inside A.  b: origin, interior samples and the vertices of B
    for (auto& v : b.s.v) bs.push_back(v);
    for (auto& p : ps)
      for (auto& pb : bs) {
        V3 q = p - pb;
        LD d;
        int sd = insideA(q, &d);
        c.count("diff_points_classified");
        if (sd == 0) { c.count("samples_skipped_in_band_or_outside"); continue; }
        decided++;
        if (sd == -1) {
          c.violation("mink:diff:p-minus-b-outside-A:" + tail,
                      detail("p inside MinkowskiDifference(A,B) (deeper than tau) and b in B but p-b is outside A",
                             vh::J().raw("p", p3(p)).raw("b", p3(pb)).raw("p-b", p3(q)).d("distToA", (double)d).d("tau", (double)tau).str(), &res));
          return;
        }
      }
  }
  c.count("mink_points_decided", decided);
  c.maxi("max_result_tris", (long long)res.s.t.size());
  if (decided >= 10) {
    c.sig("mink:" + op + ":" + tail + ":" + A.desc.substr(0, A.desc.find('(')) + ":" + B.desc.substr(0, B.desc.find('(')) + ":" + std::to_string(place));
    c.count("mink_nontrivial_held");
  }
  if (c.idx % 37 == 0) c.sample(vh::J().i("idx", c.idx).s("op", op).s("A", A.desc).s("B", B.desc).u("resultTris", res.s.t.size()).i("decided", decided).str());
}

void vh_case(vh::Ctx& c) {
  std::string mode = c.param("mode", "hull");
  if (mode == "hull") hullCase(c);
  else if (mode == "degen") degenCase(c);
  else minkCase(c);
}
