// C17 — constructors and transforms produce the solid their parameters define
// (DESIGN.md §4 C17; statement in properties.jsonl).
//
// Stage parameter `mode`:
//   ctor      Cube / Tetrahedron / Sphere / Cylinder / Extrude / Revolve against
//             analytic membership predicates with explicit faceting bands, and the
//             documented invalid arguments
//   levelset  LevelSet of min/max combinations of exact SDF primitives
//   xform     Translate / Rotate / Scale / Mirror / Transform / Warp (and chains)
//   quality   Quality settings vs the documented segment counts (process-global
//             settings are restored after every case)
//
// Every verdict comes from the exported mesh (MeshGL64): the winding-number
// classifier of common/oracles.h decides inside/outside of sample points, the
// analytic predicate says what it must be, samples inside a band decide nothing.
//
// Bands (derivations next to each predicate below):
//   Cube, Tetrahedron     exact; tau = 1e-9*extent for rounding
//   Sphere(R,N=4n)        outside if |p| > R+tau; inside if |p| < R*in(N)-tau with
//                         in(4)=1/sqrt(3) (octahedron) and in(N)=1-1.5*(pi/N)^2 for
//                         N>=8. The geodesic sphere is a subdivided octahedron whose
//                         grid points (a,b,c)/n are mapped to sin(pi/2*(a,b,c)/n) and
//                         normalised; its largest triangles sit at the octant centre.
//                         Measured in-radius deficit on the unchanged tree for every
//                         n=1..64: (1-r_in/R)/(pi/N)^2 <= 1.3624 (n=8), tending to
//                         1.34; the band uses 1.5. The harness never uses n > 64.
//   Cylinder(h,r0,r1,n)   frustum over the regular n-gon: side quads are planar, so
//                         at height z the section is the n-gon of circumradius r(z):
//                         outside if rho > r(z)+tau, inside if rho < r(z)*cos(pi/n)-tau
//   Extrude               section at height z is G(a)*polygon, G(a)=S(a)R(a*twist),
//                         a=z/h. Mesh section vertices are chords of the vertex
//                         tracks plus one point per side-quad diagonal; both stay
//                         within delta = D/4*(sigma+m*theta)*Lmax + D^2/8*(2*sigma*theta
//                         + m*theta^2)*rmax of the analytic section boundary (D=1/
//                         (nDivisions+1), theta=|twist| in radians, sigma=max|s-1|,
//                         m=max(1,sx,sy), Lmax longest polygon edge, rmax largest
//                         vertex norm), so a point farther than delta+tau from the
//                         analytic section boundary has the same winding number.
//                         delta=0 when twist=0 and sx=sy (planar side quads).
//   Revolve               between two slices the surface of revolution of an edge is
//                         replaced by a planar quad: at angle phi the mesh profile is
//                         the polygon scaled in x by s in [cos(dphi/2),1]. A point
//                         (rho,z) decides only if (rho/s,z) has the same membership
//                         for every such s and stays tau away from the polygon's
//                         boundary and from the axis; end caps at 0 and deg are exact.
//   LevelSet              with spacing s=dim/(gridSize-1) (gridSize=floor(dim/edge+1),
//                         the documented grid), every surface vertex lies on a grid
//                         edge whose ends have opposite sign or was snapped at most
//                         s/4 per axis: the surface stays within D1 = tetDiam +
//                         0.25*|s| of grid points of both signs, and every point is
//                         within 0.5*|s| of a grid point, so |sdf(p)-level| >
//                         L*(tetDiam+0.75*|s|) decides (L = Lipschitz constant of the
//                         generated sdf). Vertices strictly inside the bounds satisfy
//                         |sdf(v)-level| <= L*tetDiam, and <= L*tolerance when a
//                         tolerance is given (ITP bracket <= 2*tolerance, see text).
#include <algorithm>
#include <array>
#include <cmath>
#include <cstring>
#include <functional>

#include "common/oracles.h"
#include "common/vh.h"
#include "manifold/manifold.h"

using namespace manifold;
typedef long double LD;
using vo::V3;

static const LD PI = 3.14159265358979323846264338327950288L;

static std::string f17(double x) {
  char b[40];
  snprintf(b, sizeof b, "%.17g", x);
  return b;
}
static std::string p3(vec3 v) { return "[" + f17(v.x) + "," + f17(v.y) + "," + f17(v.z) + "]"; }
static std::string p3(V3 v) { return p3(vec3((double)v.x, (double)v.y, (double)v.z)); }
static std::string p2(vec2 v) { return "[" + f17(v.x) + "," + f17(v.y) + "]"; }
static std::string polyJson(const Polygons& ps) {
  std::string s = "[";
  for (size_t i = 0; i < ps.size(); i++) {
    s += i ? ",[" : "[";
    for (size_t j = 0; j < ps[i].size(); j++) s += (j ? "," : "") + p2(ps[i][j]);
    s += "]";
  }
  return s + "]";
}

struct Restore {  // Quality settings are process-global
  ~Restore() { Quality::ResetToDefaults(); }
};

static vec3 randDir(vh::Rng& r) {
  for (;;) {
    vec3 v(r.uni(-1, 1), r.uni(-1, 1), r.uni(-1, 1));
    double l = la::length(v);
    if (l > 0.1 && l <= 1) return v / l;
  }
}

// ------------------------------------------------------------------ 2D helpers (long double)
struct P2 {
  LD x, y;
};
static LD cross2(P2 a, P2 b) { return a.x * b.y - a.y * b.x; }
static P2 sub(P2 a, P2 b) { return {a.x - b.x, a.y - b.y}; }
static LD dot2(P2 a, P2 b) { return a.x * b.x + a.y * b.y; }
static LD distPtSeg(P2 p, P2 a, P2 b) {
  P2 ab = sub(b, a), ap = sub(p, a);
  LD l2 = dot2(ab, ab);
  LD t = l2 > 0 ? std::min((LD)1, std::max((LD)0, dot2(ap, ab) / l2)) : 0;
  P2 q{a.x + ab.x * t - p.x, a.y + ab.y * t - p.y};
  return sqrtl(dot2(q, q));
}
static bool segsCross(P2 a, P2 b, P2 c, P2 d) {
  LD d1 = cross2(sub(b, a), sub(c, a)), d2 = cross2(sub(b, a), sub(d, a));
  LD d3 = cross2(sub(d, c), sub(a, c)), d4 = cross2(sub(d, c), sub(b, c));
  return ((d1 > 0) != (d2 > 0)) && ((d3 > 0) != (d4 > 0));
}
static LD distSegSeg(P2 a, P2 b, P2 c, P2 d) {
  if (segsCross(a, b, c, d)) return 0;
  return std::min({distPtSeg(a, c, d), distPtSeg(b, c, d), distPtSeg(c, a, b), distPtSeg(d, a, b)});
}
typedef std::vector<std::vector<P2>> Poly2;
// winding number of the contours about p (sum over contours; holes are clockwise)
static int winding2(const Poly2& ps, P2 p) {
  int w = 0;
  for (auto& c : ps)
    for (size_t i = 0; i < c.size(); i++) {
      P2 a = c[i], b = c[(i + 1) % c.size()];
      if (a.y <= p.y) {
        if (b.y > p.y && cross2(sub(b, a), sub(p, a)) > 0) w++;
      } else if (b.y <= p.y && cross2(sub(b, a), sub(p, a)) < 0)
        w--;
    }
  return w;
}
static LD distToBoundary(const Poly2& ps, P2 a, P2 b) {  // distance from segment ab to all contours
  LD best = 1e300L;
  for (auto& c : ps)
    for (size_t i = 0; i < c.size(); i++) best = std::min(best, distSegSeg(a, b, c[i], c[(i + 1) % c.size()]));
  return best;
}

// simple CCW polygons with a clear shape, optionally a clockwise hole
struct GenPoly {
  Polygons p;
  std::string name;
};
static GenPoly genPolygon(vh::Rng& r, bool allowHole) {
  GenPoly g;
  int k = r.range(0, 4);
  g.p.resize(1);
  if (k == 0) {  // star with alternating radii
    int n = r.range(3, 7);
    double ri = r.uni(0.3, 0.8), ph = r.uni(0, 360);
    for (int i = 0; i < 2 * n; i++) {
      double a = ph + 180.0 * i / n, rr = (i % 2) ? ri : 1.0;
      g.p[0].push_back({rr * cosd(a), rr * sind(a)});
    }
    g.name = "star" + std::to_string(n);
  } else if (k == 1) {  // rectangle
    double w = r.uni(0.3, 1.5), h = r.uni(0.3, 1.5);
    g.p[0] = {{-w, -h}, {w, -h}, {w, h}, {-w, h}};
    g.name = "rect";
  } else if (k == 2) {  // L
    double a = r.uni(0.3, 0.7);
    g.p[0] = {{-1, -1}, {1, -1}, {1, -1 + 2 * a}, {-1 + 2 * a, -1 + 2 * a}, {-1 + 2 * a, 1}, {-1, 1}};
    g.name = "L";
  } else if (k == 3) {  // random star-shaped polygon (radial function)
    int n = r.range(5, 14);
    double ph = r.uni(0, 360);
    for (int i = 0; i < n; i++) {
      double a = ph + 360.0 * i / n, rr = r.uni(0.5, 1.3);
      g.p[0].push_back({rr * cosd(a), rr * sind(a)});
    }
    g.name = "radial" + std::to_string(n);
  } else {  // triangle
    g.p[0] = {{1, 0}, {-0.6, 0.9}, {-0.7, -0.8}};
    g.name = "tri";
  }
  if (allowHole && (k == 1 || k == 3) && r.chance(0.4)) {  // hole well inside (radius <= 0.2 < 0.3 inner extent)
    int m = r.range(3, 6);
    double rr = r.uni(0.08, 0.2);
    SimplePolygon h;
    for (int i = m - 1; i >= 0; i--) h.push_back({rr * cosd(360.0 * i / m + 10), rr * sind(360.0 * i / m + 10)});
    g.p.push_back(h);
    g.name += "+hole";
  }
  return g;
}
static Poly2 toPoly2(const Polygons& ps) {
  Poly2 o;
  for (auto& c : ps) {
    o.emplace_back();
    for (auto& v : c) o.back().push_back({(LD)v.x, (LD)v.y});
  }
  return o;
}

// ------------------------------------------------------------------ sampling against a predicate
// pred(p): +1 must be inside, -1 must be outside, 0 in a band (no verdict)
struct Verdicts {
  long inside = 0, outside = 0, band = 0, nonIntegral = 0;
};
static bool checkPoints(vh::Ctx& c, const std::string& what, const vo::Soup& s, const std::vector<V3>& pts,
                        const std::function<int(V3)>& pred, const std::function<std::string()>& describe, Verdicts& vd) {
  for (auto& p : pts) {
    int e = pred(p);
    if (e == 0) {
      vd.band++;
      c.count("samples_skipped_in_band");
      continue;
    }
    vo::Cls k = vo::Classify(s, p);
    c.count("points_classified");
    if (!k.integral) {
      vd.nonIntegral++;
      c.count("samples_skipped_nonintegral_winding");
      continue;
    }
    (e > 0 ? vd.inside : vd.outside)++;
    int got = k.w;
    if ((e > 0 && got != 1) || (e < 0 && got != 0)) {
      c.violation(what + (e > 0 ? ":inside-point-not-inside" : ":outside-point-not-outside"),
                  vh::J().s("why", e > 0 ? "analytic predicate: strictly inside beyond the band; mesh winding number is not 1"
                                        : "analytic predicate: strictly outside beyond the band; mesh winding number is not 0")
                      .raw("point", p3(p)).i("winding", got).raw("case", describe()).str());
      return false;
    }
  }
  return true;
}
static std::vector<V3> boxSamples(vh::Rng& r, V3 lo, V3 hi, int n, LD pad = 0.25L) {
  std::vector<V3> v;
  V3 d = hi - lo;
  LD m = std::max({d.x, d.y, d.z}) * pad;
  for (int i = 0; i < n; i++)
    v.push_back({lo.x - m + (d.x + 2 * m) * (LD)r.uni(), lo.y - m + (d.y + 2 * m) * (LD)r.uni(), lo.z - m + (d.z + 2 * m) * (LD)r.uni()});
  return v;
}
static bool usable(vh::Ctx& c, const Manifold& m, const std::string& what, const std::function<std::string()>& describe, MeshGL64& g, vo::Soup& s) {
  if (m.Status() != Manifold::Error::NoError) {
    c.violation(what + ":error-status-on-valid-arguments", vh::J().s("status", vo::ErrName(m.Status())).raw("case", describe()).str());
    return false;
  }
  if (m.IsEmpty()) {  // an empty solid: every point is outside
    c.count("empty_results_on_valid_arguments");
    g = MeshGL64();
    s = vo::Soup();
    return true;
  }
  g = m.GetMeshGL64();
  vo::TopoReport t = vo::CheckClosedManifold(g);
  if (!t.ok && t.why == "odd-euler-characteristic") {
    // C01's clause, not C17's: the winding-number classifier only needs every directed edge to have its opposite.
    // (Seen on Revolve of a profile that touches the axis with a single vertex: the surface is pinched there.)
    c.count("odd_euler_characteristic_observed_not_judged_here");
  } else if (!t.ok) {
    c.violation(what + ":not-closed-manifold:" + t.why, vh::J().s("info", t.info).raw("case", describe()).str());
    return false;
  }
  s = vo::MakeSoup(g);
  return true;
}
static void expectInvalid(vh::Ctx& c, const Manifold& m, const std::string& what, const std::string& desc) {
  c.count("documented_invalid_arguments_checked");
  if (m.Status() != Manifold::Error::InvalidConstruction || !m.IsEmpty()) {
    c.violation(what + ":invalid-arguments-not-InvalidConstruction",
                vh::J().s("status", vo::ErrName(m.Status())).bo("empty", m.IsEmpty()).s("case", desc).str());
  } else
    c.sig("invalid:" + what + ":" + desc.substr(0, desc.find('=')));
}
static void observeUndocumented(vh::Ctx& c, const Manifold& m, const std::string& what) {
  // rejected by the code but not documented as invalid: observed, never a verdict
  c.count(std::string("undocumented_") + what + "_status_" + vo::ErrName(m.Status()));
}
static int sizeBucket(size_t n) {
  int b = 0;
  for (; n > 1; n >>= 1) b++;
  return b / 2;
}

// ------------------------------------------------------------------ constructors
static LD sphereInFactor(int N) {  // see the header comment
  if (N <= 4) return (1 / sqrtl(3.0L)) * (1 - 1e-12L);
  return 1 - 1.5L * (PI / N) * (PI / N);
}

static void caseCube(vh::Ctx& c) {
  vh::Rng& r = c.rng;
  int k = r.range(0, 9);
  bool center = r.chance(0.5);
  vec3 size(std::pow(10.0, r.uni(-3, 3)), std::pow(10.0, r.uni(-3, 3)), std::pow(10.0, r.uni(-3, 3)));
  if (k == 0) size = vec3(r.range(1, 5), r.range(1, 5), r.range(1, 5));
  std::string desc = "size=" + p3(size) + ",center=" + std::to_string(center);
  if (k == 1) {  // documented invalid: any negative, or all zero
    vec3 bad = size;
    int m = r.range(0, 3);
    if (m == 3) bad = vec3(0.0);
    else bad[m] = -bad[m];
    if (r.chance(0.3) && m < 3) bad[(m + 1) % 3] = 0;
    c.site("Cube(invalid)");
    expectInvalid(c, Manifold::Cube(bad, center), "cube", "size=" + p3(bad));
    return;
  }
  if (k == 2) size[r.range(0, 2)] = 0;  // flat box: valid, no interior
  c.site("Cube");
  Manifold m = Manifold::Cube(size, center);
  auto describe = [&] { return vh::J().s("ctor", "Cube").s("args", desc).str(); };
  MeshGL64 g;
  vo::Soup s;
  if (!usable(c, m, "cube", describe, g, s)) return;
  V3 lo = center ? V3{-size.x / 2, -size.y / 2, -size.z / 2} : V3{0, 0, 0};
  V3 hi = center ? V3{size.x / 2, size.y / 2, size.z / 2} : V3{size.x, size.y, size.z};
  LD ext = std::max({(LD)size.x, (LD)size.y, (LD)size.z});
  LD tau = 1e-9L * ext;
  auto pred = [&](V3 p) {
    LD in = std::min({p.x - lo.x, hi.x - p.x, p.y - lo.y, hi.y - p.y, p.z - lo.z, hi.z - p.z});
    if (in > tau) return 1;
    if (in < -tau) return -1;
    return 0;
  };
  // uniform samples in per-axis coordinates (the box may be very anisotropic) and samples hugging the faces
  std::vector<V3> pts;
  for (int i = 0; i < 60; i++) {
    V3 p;
    LD* q[3] = {&p.x, &p.y, &p.z};
    LD l[3] = {lo.x, lo.y, lo.z}, h[3] = {hi.x, hi.y, hi.z};
    for (int a = 0; a < 3; a++) {
      LD d = h[a] - l[a], u = (LD)r.uni(-0.3, 1.3);
      *q[a] = l[a] + d * u;
      if (d == 0) *q[a] = l[a] + ext * (LD)r.uni(-0.2, 0.2);
    }
    if (r.chance(0.5)) {  // push one coordinate next to a face
      int a = r.range(0, 2);
      LD d = h[a] - l[a], off = (d > 0 ? d : ext) * (LD)std::pow(10.0, r.uni(-7, -1)) * (r.chance(0.5) ? 1 : -1);
      *q[a] = (r.chance(0.5) ? l[a] : h[a]) + off;
    }
    pts.push_back(p);
  }
  Verdicts vd;
  if (!checkPoints(c, "cube", s, pts, pred, describe, vd)) return;
  if (vd.inside + vd.outside >= 10) c.sig("cube:" + std::to_string(center) + ":" + std::to_string(k == 2) + ":" + std::to_string((int)std::log10(size.x / size.z + 1e-300)));
}

static void caseTetrahedron(vh::Ctx& c) {
  c.site("Tetrahedron");
  Manifold m = Manifold::Tetrahedron();
  auto describe = [&] { return std::string("{\"ctor\":\"Tetrahedron\"}"); };
  MeshGL64 g;
  vo::Soup s;
  if (!usable(c, m, "tetrahedron", describe, g, s)) return;
  // conv{(1,1,1),(1,-1,-1),(-1,1,-1),(-1,-1,1)} = {x+y+z>=-1, x-y-z>=-1, -x+y-z>=-1, -x-y+z>=-1}
  auto pred = [&](V3 p) {
    LD in = std::min({p.x + p.y + p.z + 1, p.x - p.y - p.z + 1, -p.x + p.y - p.z + 1, -p.x - p.y + p.z + 1}) / sqrtl(3.0L);
    if (in > 1e-9L) return 1;
    if (in < -1e-9L) return -1;
    return 0;
  };
  std::vector<V3> pts = boxSamples(c.rng, {-1, -1, -1}, {1, 1, 1}, 80, 0.2L);
  Verdicts vd;
  if (!checkPoints(c, "tetrahedron", s, pts, pred, describe, vd)) return;
  // documented: one vertex at (1,1,1)
  bool has = false;
  for (auto& v : s.v) has |= (v.x == 1 && v.y == 1 && v.z == 1);
  if (!has || s.v.size() != 4) {
    c.violation("tetrahedron:no-vertex-at-(1,1,1)", vh::J().u("nVert", s.v.size()).str());
    return;
  }
  c.sig("tetrahedron");
}

static void caseSphere(vh::Ctx& c) {
  vh::Rng& r = c.rng;
  int k = r.range(0, 9);
  double R = std::pow(10.0, r.uni(-3, 3));
  if (k == 0) {
    double bad = r.chance(0.5) ? 0.0 : -R;
    c.site("Sphere(invalid)");
    expectInvalid(c, Manifold::Sphere(bad, r.range(0, 20)), "sphere", "radius=" + f17(bad));
    return;
  }
  int segs = r.chance(0.25) ? 0 : r.range(1, r.chance(0.1) ? 128 : 40);
  if (r.chance(0.05)) segs = -r.range(1, 5);  // <=0 means default
  int n = segs > 0 ? (segs + 3) / 4 : Quality::GetCircularSegments(R) / 4;
  const int N = 4 * n;
  std::string desc = "radius=" + f17(R) + ",circularSegments=" + std::to_string(segs);
  auto describe = [&] { return vh::J().s("ctor", "Sphere").s("args", desc).i("N", N).str(); };
  if (n < 1 || n > 64) { c.count("sphere_case_outside_calibrated_range"); return; }
  c.site("Sphere");
  Manifold m = Manifold::Sphere(R, segs);
  MeshGL64 g;
  vo::Soup s;
  if (!usable(c, m, "sphere", describe, g, s)) return;
  const LD rin = R * sphereInFactor(N), tau = 1e-9L * R;
  auto pred = [&](V3 p) {
    LD d = vo::norm(p);
    if (d < rin - tau) return 1;
    if (d > R + tau) return -1;
    return 0;
  };
  std::vector<V3> pts;
  for (int i = 0; i < 70; i++) {
    V3 d = vo::toV3(randDir(r));
    LD rad;
    double u = r.uni();
    if (u < 0.35) rad = rin * (1 - (LD)std::pow(10.0, r.uni(-6, -1)));        // just inside the band
    else if (u < 0.7) rad = R * (1 + (LD)std::pow(10.0, r.uni(-6, -1)));      // just outside
    else rad = R * (LD)r.uni(0, 1.5);
    pts.push_back(d * rad);
  }
  Verdicts vd;
  if (!checkPoints(c, "sphere", s, pts, pred, describe, vd)) return;
  // documented: N segments on each axis-plane circle (N rounded up to a multiple of four)
  if (segs > 0) {
    int eq = 0;
    for (auto& v : s.v) eq += fabsl(v.z) <= 1e-9L * R;
    c.count("sphere_equator_counts_checked");
    if (eq != N) {
      c.violation("sphere:segments-around-equator", vh::J().i("expected", N).i("got", eq).raw("case", describe()).str());
      return;
    }
  }
  if (vd.inside >= 5 && vd.outside >= 5) c.sig("sphere:N=" + std::to_string(N) + ":" + std::to_string(segs > 0));
}

static void caseCylinder(vh::Ctx& c) {
  vh::Rng& r = c.rng;
  int k = r.range(0, 11);
  double h = std::pow(10.0, r.uni(-2, 2)), r0 = std::pow(10.0, r.uni(-2, 2)), r1 = -1.0;
  int kind = r.range(0, 4);  // 0 cylinder(default rHigh) 1 frustum 2 cone apex top 3 cone apex bottom 4 rHigh given equal
  if (kind == 1) r1 = r0 * r.uni(0.2, 3);
  if (kind == 2) r1 = 0.0;
  if (kind == 3) { r1 = r0; r0 = 0.0; }
  if (kind == 4) r1 = r0;
  int segs = r.chance(0.2) ? 0 : r.range(3, r.chance(0.1) ? 200 : 48);
  bool center = r.chance(0.5);
  if (k == 0) {  // documented invalid: radiusLow < 0 ; radiusLow == 0 and radiusHigh <= 0
    int m = r.range(0, 2);
    double a = m == 0 ? -std::fabs(r0 + 0.1) : 0.0, b = m == 0 ? r1 : (m == 1 ? 0.0 : -1.0);
    c.site("Cylinder(invalid)");
    expectInvalid(c, Manifold::Cylinder(h, a, b, segs, center), "cylinder", "radiusLow=" + f17(a) + ",radiusHigh=" + f17(b));
    return;
  }
  if (k == 1) {  // height <= 0 is rejected by the code but not documented: observed only
    c.site("Cylinder(height<=0)");
    observeUndocumented(c, Manifold::Cylinder(r.chance(0.5) ? 0.0 : -h, std::fabs(r0) + 0.1, r1, segs, center), "cylinder_nonpositive_height");
    return;
  }
  const double rHi = r1 < 0 ? r0 : r1;
  const int n = segs > 2 ? segs : Quality::GetCircularSegments(std::fmax(r0, rHi));
  std::string desc = "height=" + f17(h) + ",radiusLow=" + f17(r0) + ",radiusHigh=" + f17(r1) + ",circularSegments=" + std::to_string(segs) + ",center=" + std::to_string(center);
  auto describe = [&] { return vh::J().s("ctor", "Cylinder").s("args", desc).i("n", n).str(); };
  c.site("Cylinder");
  Manifold m = Manifold::Cylinder(h, r0, r1, segs, center);
  MeshGL64 g;
  vo::Soup s;
  if (!usable(c, m, "cylinder", describe, g, s)) return;
  const LD z0 = center ? -(LD)h / 2 : 0, ext = std::max<LD>(h, std::max(r0, rHi)), tau = 1e-9L * ext;
  const LD cs = cosl(PI / n);
  auto pred = [&](V3 p) {
    LD t = (p.z - z0) / h, rho = sqrtl(p.x * p.x + p.y * p.y);
    if (p.z < z0 - tau || p.z > z0 + h + tau) return -1;
    LD rz = r0 + (rHi - r0) * std::min((LD)1, std::max((LD)0, t));
    // the radius changes with z: a z error of tau moves the radius by tau*|slope|
    LD tr = tau * (1 + fabsl((LD)rHi - r0) / h);
    if (rho > rz + tr) return -1;
    if (p.z > z0 + tau && p.z < z0 + h - tau && rho < rz * cs - tr) return 1;
    return 0;
  };
  std::vector<V3> pts;
  const LD rmax = std::max<LD>(r0, rHi);
  for (int i = 0; i < 70; i++) {
    LD t = (LD)r.uni(-0.2, 1.2), a = (LD)r.uni(0, 2 * kPi), rr;
    LD tc = std::min((LD)1, std::max((LD)0, t)), rz = r0 + (rHi - r0) * tc;
    double u = r.uni();
    if (u < 0.3) rr = rz * cs * (1 - (LD)std::pow(10.0, r.uni(-6, -1)));
    else if (u < 0.6) rr = rz * (1 + (LD)std::pow(10.0, r.uni(-6, -1)));
    else rr = rmax * (LD)r.uni(0, 1.4);
    if (r.chance(0.25)) t = (r.chance(0.5) ? 0 : 1) + (LD)std::pow(10.0, r.uni(-7, -1)) * (r.chance(0.5) ? 1 : -1);
    pts.push_back({rr * cosl(a), rr * sinl(a), z0 + t * h});
  }
  Verdicts vd;
  if (!checkPoints(c, "cylinder", s, pts, pred, describe, vd)) return;
  // documented: n line segments around the circle (counted on the non-degenerate end)
  {
    LD zc = r0 > 0 ? z0 : z0 + h;
    int ring = 0;
    for (auto& v : s.v) ring += fabsl(v.z - zc) <= tau;
    c.count("cylinder_ring_counts_checked");
    if (ring != n) {
      c.violation("cylinder:segments-around-circle", vh::J().i("expected", n).i("got", ring).raw("case", describe()).str());
      return;
    }
  }
  if (vd.inside >= 5 && vd.outside >= 5) c.sig("cylinder:kind=" + std::to_string(kind) + ":center=" + std::to_string(center) + ":n=" + std::to_string(sizeBucket(n)) + ":def=" + std::to_string(segs <= 2));
}

static void caseExtrude(vh::Ctx& c) {
  vh::Rng& r = c.rng;
  int k = r.range(0, 11);
  GenPoly gp = genPolygon(r, true);
  double scaleXY = std::pow(10.0, r.uni(-1, 1));
  for (auto& ct : gp.p)
    for (auto& v : ct) v = v * scaleXY;
  if (r.chance(0.3)) {  // off-centre polygon: twisting sweeps it around the axis
    vec2 off(r.uni(-1, 1) * scaleXY, r.uni(-1, 1) * scaleXY);
    for (auto& ct : gp.p)
      for (auto& v : ct) v += off;
  }
  double h = scaleXY * std::pow(10.0, r.uni(-1, 1));
  int nDiv = r.chance(0.4) ? 0 : r.range(1, 12);
  double twist = r.chance(0.45) ? 0.0 : r.uni(-200, 200);
  if (r.chance(0.1)) twist = 90.0 * r.range(-4, 4);
  vec2 sc(1.0);
  int sk = r.range(0, 4);
  if (sk == 1) sc = vec2(r.uni(0.2, 2));
  if (sk == 2) sc = vec2(r.uni(0.2, 2), r.uni(0.2, 2));
  if (sk == 3) sc = vec2(0.0);  // cone
  if (k == 0) {  // empty cross-section / non-positive height: rejected by the code, not documented -> observed only
    c.site("Extrude(degenerate args)");
    observeUndocumented(c, r.chance(0.5) ? Manifold::Extrude(Polygons(), h) : Manifold::Extrude(gp.p, r.chance(0.5) ? 0.0 : -h), "extrude_empty_or_nonpositive_height");
    return;
  }
  std::string desc = "polygon=" + gp.name + ",height=" + f17(h) + ",nDivisions=" + std::to_string(nDiv) + ",twistDegrees=" + f17(twist) + ",scaleTop=" + p2(sc);
  auto describe = [&] { return vh::J().s("ctor", "Extrude").s("args", desc).raw("crossSection", polyJson(gp.p)).str(); };
  c.site("Extrude");
  Manifold m = Manifold::Extrude(gp.p, h, nDiv, twist, sc);
  MeshGL64 g;
  vo::Soup s;
  if (!usable(c, m, "extrude", describe, g, s)) return;
  Poly2 base = toPoly2(gp.p);
  LD Lmax = 0, rmax = 0;
  for (auto& ct : base)
    for (size_t i = 0; i < ct.size(); i++) {
      Lmax = std::max(Lmax, sqrtl(dot2(sub(ct[i], ct[(i + 1) % ct.size()]), sub(ct[i], ct[(i + 1) % ct.size()]))));
      rmax = std::max(rmax, sqrtl(dot2(ct[i], ct[i])));
    }
  const LD D = 1.0L / (nDiv + 1), theta = fabsl((LD)twist) * PI / 180;
  const LD sigma = std::max(fabsl((LD)sc.x - 1), fabsl((LD)sc.y - 1)), mm = std::max({(LD)1, (LD)sc.x, (LD)sc.y});
  const bool exact = twist == 0.0 && sc.x == sc.y;
  const LD delta = exact ? 0 : D / 4 * (sigma + mm * theta) * Lmax + D * D / 8 * (2 * sigma * theta + mm * theta * theta) * rmax;
  const LD ext = std::max<LD>((LD)h, rmax * mm), tau = 1e-9L * ext;
  auto pred = [&](V3 p) {
    if (p.z < -tau || p.z > h + tau) return -1;
    if (p.z <= tau || p.z >= h - tau) return 0;
    LD a = p.z / h, ph = a * (LD)twist * PI / 180;
    LD sx = 1 + ((LD)sc.x - 1) * a, sy = 1 + ((LD)sc.y - 1) * a, cph = cosl(ph), sph = sinl(ph);
    Poly2 sec = base;  // G(a) v = S(a) R(a*twist) v
    for (auto& ct : sec)
      for (auto& v : ct) v = {sx * (cph * v.x - sph * v.y), sy * (sph * v.x + cph * v.y)};
    P2 q{p.x, p.y};
    // near the cone tip the section shrinks below tau: band
    if (distToBoundary(sec, q, q) <= delta + tau * (1 + rmax * mm * (theta + sigma) / h * 1e0L)) return 0;
    int w = winding2(sec, q);
    return w != 0 ? 1 : -1;
  };
  std::vector<V3> pts;
  LD R = rmax * mm * 1.2L;
  for (int i = 0; i < 70; i++) pts.push_back({R * (LD)r.uni(-1, 1), R * (LD)r.uni(-1, 1), (LD)h * (LD)r.uni(-0.15, 1.15)});
  Verdicts vd;
  if (!checkPoints(c, "extrude", s, pts, pred, describe, vd)) return;
  c.maxi("extrude_max_band_permille_of_size", (long long)(1000 * delta / std::max(rmax, (LD)1e-300L)));
  if (vd.inside >= 5 && vd.outside >= 5)
    c.sig("extrude:" + gp.name + ":div=" + std::to_string(nDiv > 0) + ":tw=" + std::to_string(twist != 0) + ":sc=" + std::to_string(sk) + ":exact=" + std::to_string(exact));
}

static void caseRevolve(vh::Ctx& c) {
  vh::Rng& r = c.rng;
  int k = r.range(0, 11);
  GenPoly gp = genPolygon(r, true);
  double scaleXY = std::pow(10.0, r.uni(-1, 1));
  int place = r.range(0, 3);  // 0 right of the axis, 1 crossing the axis, 2 touching the axis with an edge, 3 left of the axis (nothing to revolve)
  double offx = place == 0 ? r.uni(1.6, 4) : place == 1 ? r.uni(-0.6, 0.6) : 0;
  if (place == 2) {
    double minx = 1e300;
    for (auto& v : gp.p[0]) minx = std::min(minx, v.x);
    offx = -minx;  // the leftmost vertex lies exactly on the axis
  }
  if (place == 3 || k == 0) offx = -r.uni(1.6, 4);
  for (auto& ct : gp.p)
    for (auto& v : ct) v = vec2(v.x + offx, v.y) * scaleXY;
  int segs = r.chance(0.25) ? 0 : r.range(3, r.chance(0.1) ? 120 : 40);
  double deg = r.chance(0.4) ? 360.0 : r.uni(5, 400);
  if (r.chance(0.1)) deg = 90.0 * r.range(1, 4);
  std::string desc = "polygon=" + gp.name + ",place=" + std::to_string(place) + ",circularSegments=" + std::to_string(segs) + ",revolveDegrees=" + f17(deg);
  auto describe = [&] { return vh::J().s("ctor", "Revolve").s("args", desc).raw("crossSection", polyJson(gp.p)).str(); };
  double maxX = -1e300;
  for (auto& ct : gp.p)
    for (auto& v : ct) maxX = std::max(maxX, v.x);
  if (place == 3 || k == 0 || !(maxX > 0)) {  // nothing on the positive side: rejected by the code; the doc only says that side is ignored
    c.site("Revolve(all x<0)");
    Manifold m = Manifold::Revolve(gp.p, segs, deg);
    observeUndocumented(c, m, "revolve_nothing_right_of_axis");
    if (!m.IsEmpty()) c.violation("revolve:solid-from-nothing-right-of-axis", vh::J().raw("case", describe()).u("numTri", m.NumTri()).str());
    return;
  }
  double radius = 0;
  for (auto& ct : gp.p)
    for (auto& v : ct) radius = std::max(radius, v.x);
  const double degEff = std::min(deg, 360.0);
  const bool full = degEff == 360.0;
  // documented segment count: circularSegments (if > 2) else the Quality default for the full circle; for a partial
  // revolve the default is scaled by deg/360 -- at least one division is the weakest reading of "revolve by deg"
  long nDivOracle = segs > 2 ? segs : std::max(1L, (long)std::floor(Quality::GetCircularSegments(radius) * degEff / 360 + 1e-9));
  const bool zeroDefault = segs <= 2 && Quality::GetCircularSegments(radius) * degEff / 360 < 1;
  const LD dphi = (LD)degEff / nDivOracle * PI / 180;
  c.site("Revolve");
  Manifold m = Manifold::Revolve(gp.p, segs, deg);
  MeshGL64 g;
  vo::Soup s;
  const std::string what = zeroDefault ? "revolve:defaultSegmentsBelowOne" : "revolve";
  if (!usable(c, m, what, describe, g, s)) return;
  Poly2 prof = toPoly2(gp.p);
  const LD ext = (LD)scaleXY * 6, tau = 1e-9L * ext;
  const LD cs = cosl(dphi / 2);
  const bool noInside = dphi >= 170 * PI / 180;
  auto pred = [&](V3 p) {
    LD rho = sqrtl(p.x * p.x + p.y * p.y), phi = atan2l(p.y, p.x);
    if (phi < 0) phi += 2 * PI;
    P2 a{rho, p.z}, b{noInside ? rho * 1e3L : rho / cs, p.z};
    LD dB = distToBoundary(prof, a, b);
    bool profOut = winding2(prof, a) == 0 && dB > tau;       // (rho/s, z) outside the profile for every s in the band
    bool profIn = !noInside && winding2(prof, a) != 0 && dB > tau && rho > tau;
    if (profOut || rho <= 0) return profOut ? -1 : 0;
    if (full) return profIn ? 1 : 0;
    LD dd = (LD)degEff * PI / 180;
    // distance to the two cap half-planes (phi = 0 and phi = dd)
    LD angTol = 2 * tau / std::max(rho, tau);
    if (phi > dd + angTol && phi < 2 * PI - angTol) return -1;
    if (profIn && phi > angTol && phi < dd - angTol) return 1;
    return 0;
  };
  std::vector<V3> pts;
  LD zlo = 1e300L, zhi = -1e300L;
  for (auto& ct : prof)
    for (auto& v : ct) {
      zlo = std::min(zlo, v.y);
      zhi = std::max(zhi, v.y);
    }
  for (int i = 0; i < 80; i++) {
    LD rho = (LD)radius * (LD)r.uni(0, 1.25), z = zlo + (zhi - zlo) * (LD)r.uni(-0.15, 1.15);
    LD phi = r.chance(0.7) && !full ? (LD)r.uni(0, degEff) * PI / 180 : (LD)r.uni(0, 2 * kPi);
    pts.push_back({rho * cosl(phi), rho * sinl(phi), z});
  }
  Verdicts vd;
  if (!checkPoints(c, what, s, pts, pred, describe, vd)) return;
  if (vd.inside >= 3 && vd.outside >= 5)
    c.sig("revolve:" + gp.name + ":place=" + std::to_string(place) + ":full=" + std::to_string(full) + ":def=" + std::to_string(segs <= 2) + ":n=" + std::to_string(sizeBucket(nDivOracle)));
}

static void ctorCase(vh::Ctx& c) {
  Restore rs;
  switch (c.idx % 8) {
    case 0: caseCube(c); break;
    case 1: caseSphere(c); break;
    case 2: case 3: caseCylinder(c); break;
    case 4: case 5: caseExtrude(c); break;
    case 6: caseRevolve(c); break;
    default:
      if (c.idx % 64 == 7) caseTetrahedron(c);
      else caseRevolve(c);
  }
}

// ------------------------------------------------------------------ LevelSet
struct Sdf {
  std::function<double(vec3)> f;
  double L = 1;
  std::string desc;
  vec3 lo, hi;  // a box containing {f > level} for the levels used
};
static double sdSphere(vec3 p, vec3 c, double r) { return r - la::length(p - c); }
static double sdBox(vec3 p, vec3 c, vec3 hsize) {  // exact signed distance, positive inside
  vec3 q = la::abs(p - c) - hsize;
  double outside = la::length(la::max(q, vec3(0.0)));
  double inside = std::min(std::max(q.x, std::max(q.y, q.z)), 0.0);
  return -(outside + inside);
}
static Sdf genSdf(vh::Rng& r) {
  Sdf s;
  int k = r.range(0, 5);
  vec3 c1(r.uni(-0.3, 0.3), r.uni(-0.3, 0.3), r.uni(-0.3, 0.3)), c2 = c1 + randDir(r) * r.uni(0.3, 0.8);
  double r1 = r.uni(0.6, 1.0), r2 = r.uni(0.4, 0.8);
  vec3 hb(r.uni(0.4, 0.9), r.uni(0.4, 0.9), r.uni(0.4, 0.9));
  switch (k) {
    case 0: s.f = [=](vec3 p) { return sdSphere(p, c1, r1); }; s.desc = "sphere"; break;
    case 1: s.f = [=](vec3 p) { return sdBox(p, c1, hb); }; s.desc = "box"; break;
    case 2: s.f = [=](vec3 p) { return std::max(sdSphere(p, c1, r1), sdSphere(p, c2, r2)); }; s.desc = "union(sphere,sphere)"; break;
    case 3: s.f = [=](vec3 p) { return std::min(sdBox(p, c1, hb), sdSphere(p, c1, r1 * 1.1)); }; s.desc = "intersect(box,sphere)"; break;
    case 4: s.f = [=](vec3 p) { return std::min(sdSphere(p, c1, r1), -sdSphere(p, c2, r2)); }; s.desc = "difference(sphere,sphere)"; break;
    default: s.f = [=](vec3 p) { return std::max(std::min(sdBox(p, c1, hb), -sdSphere(p, c2, r2 * 0.7)), sdSphere(p, c2, r2 * 0.4)); }; s.desc = "union(difference(box,sphere),sphere)"; break;
  }
  s.lo = vec3(-2.2);
  s.hi = vec3(2.2);
  s.L = 1;
  if (r.chance(0.3)) {  // not a distance: a scaled copy, Lipschitz constant k
    double kk = r.chance(0.5) ? r.uni(0.2, 0.9) : r.uni(1.5, 4);
    auto f = s.f;
    s.f = [=](vec3 p) { return kk * f(p); };
    s.L = kk;
    s.desc = f17(kk) + "*" + s.desc;
  }
  return s;
}

static void levelsetCase(vh::Ctx& c) {
  vh::Rng& r = c.rng;
  Sdf sd = genSdf(r);
  double level = r.chance(0.5) ? 0.0 : sd.L * r.uni(-0.15, 0.15);
  bool clip = r.chance(0.3);
  double edge = clip ? r.uni(0.06, 0.2) : r.uni(0.12, 0.25);
  Box bounds;
  if (clip) {
    bounds = Box(vec3(r.uni(-1.2, -0.2), r.uni(-1.2, -0.2), r.uni(-1.2, -0.2)), vec3(r.uni(0.2, 1.2), r.uni(0.2, 1.2), r.uni(0.2, 1.2)));
  } else {
    double pad = r.uni(0.0, 0.3);
    bounds = Box(vec3(-1.9 - pad), vec3(1.9 + pad * r.uni(0.5, 1)));
  }
  double tol = r.chance(0.5) ? -1.0 : edge * std::pow(10.0, r.uni(-5, -0.5));
  std::string desc = "sdf=" + sd.desc + ",bounds=" + p3(bounds.min) + ".." + p3(bounds.max) + ",edgeLength=" + f17(edge) + ",level=" + f17(level) + ",tolerance=" + f17(tol);
  auto describe = [&] { return vh::J().s("ctor", "LevelSet").s("args", desc).d("lipschitz", sd.L).str(); };
  c.site("LevelSet");
  Manifold m = Manifold::LevelSet(sd.f, bounds, edge, level, tol, r.chance(0.5));
  MeshGL64 g;
  vo::Soup s;
  if (!usable(c, m, "levelset", describe, g, s)) return;
  // the documented grid: spacing = dim / (gridSize - 1), gridSize = floor(dim/edgeLength + 1)
  vec3 dim = bounds.Size();
  LD sp[3], sp2 = 0, spMax = 0;
  for (int a = 0; a < 3; a++) {
    int gs = (int)(dim[a] / edge + 1.0);
    sp[a] = (LD)dim[a] / (gs - 1);
    sp2 += sp[a] * sp[a];
    spMax = std::max(spMax, sp[a]);
  }
  const LD spN = sqrtl(sp2), tetDiam = std::max(spMax, spN / 2);
  const LD L = sd.L, band = L * (tetDiam + 0.75L * spN) * (1 + 1e-9L), tau = 1e-9L * 4;
  auto sdf = [&](V3 p) { return (LD)sd.f(vo::toVec3(p)) - (LD)level; };
  auto inBounds = [&](V3 p) {  // signed: >0 inside the bounds box
    return std::min({p.x - (LD)bounds.min.x, (LD)bounds.max.x - p.x, p.y - (LD)bounds.min.y, (LD)bounds.max.y - p.y, p.z - (LD)bounds.min.z, (LD)bounds.max.z - p.z});
  };
  auto pred = [&](V3 p) {
    LD ib = inBounds(p), v = sdf(p);
    if (ib < -tau) return -1;  // the mesh is clamped to the bounds
    if (v < -band) return -1;
    if (v > band && ib > (tetDiam + 0.75L * spN)) return 1;
    return 0;
  };
  std::vector<V3> pts = boxSamples(r, vo::toV3(bounds.min), vo::toV3(bounds.max), 60, 0.1L);
  for (int i = 0; i < 40 && !s.empty(); i++) {  // around the surface, at controlled sdf offsets: from a vertex along +-gradient-ish directions
    V3 v = s.v[r.below(s.v.size())];
    V3 d = vo::toV3(randDir(r));
    pts.push_back(v + d * (band / L * (LD)r.uni(0.8, 2.5)));
  }
  Verdicts vd;
  if (!checkPoints(c, "levelset", s, pts, pred, describe, vd)) return;
  // vertices strictly inside the bounds: on the level set within one grid cell / within the tolerance
  LD worstCell = 0, worstTol = 0;
  for (size_t i = 0; i < s.v.size(); i++) {
    V3 v = s.v[i];
    if (inBounds(v) <= 1e-9L) { c.count("levelset_vertices_on_bounds_skipped"); continue; }
    LD e = fabsl(sdf(v));
    c.count("levelset_vertices_checked");
    worstCell = std::max(worstCell, e / (L * tetDiam));
    if (e > L * tetDiam * (1 + 1e-9L) + 1e-12L) {
      c.violation("levelset:vertex-farther-than-one-grid-cell", vh::J().raw("vertex", p3(v)).d("absSdfMinusLevel", (double)e).d("L*cell", (double)(L * tetDiam)).raw("case", describe()).str());
      return;
    }
    if (tol > 0) {
      worstTol = std::max(worstTol, e / (L * (LD)tol));
      if (e > L * (LD)tol * (1 + 1e-6L) + 1e-12L) {
        c.violation("levelset:vertex-farther-than-tolerance", vh::J().raw("vertex", p3(v)).d("absSdfMinusLevel", (double)e).d("L*tolerance", (double)(L * tol)).raw("case", describe()).str());
        return;
      }
    }
  }
  c.maxi("levelset_max_vertex_offset_permille_of_cell", (long long)(1000 * worstCell));
  if (tol > 0) c.maxi("levelset_max_vertex_offset_permille_of_tolerance", (long long)(1000 * worstTol));
  c.maxi("levelset_max_tris", (long long)s.t.size());
  if (vd.inside >= 3 && vd.outside >= 5 && !s.empty())
    c.sig("levelset:" + sd.desc.substr(sd.desc.find('*') == std::string::npos ? 0 : sd.desc.find('*') + 1) + ":L=" + std::to_string(sd.L != 1) + ":lvl=" + std::to_string(level != 0) + ":clip=" + std::to_string(clip) + ":tol=" + std::to_string(tol > 0));
}

// ------------------------------------------------------------------ transforms
struct M34 {  // affine map in long double: p -> A p + t
  LD a[3][3], t[3];
  V3 apply(V3 p) const {
    return {a[0][0] * p.x + a[0][1] * p.y + a[0][2] * p.z + t[0], a[1][0] * p.x + a[1][1] * p.y + a[1][2] * p.z + t[1],
            a[2][0] * p.x + a[2][1] * p.y + a[2][2] * p.z + t[2]};
  }
  LD det() const {
    return a[0][0] * (a[1][1] * a[2][2] - a[1][2] * a[2][1]) - a[0][1] * (a[1][0] * a[2][2] - a[1][2] * a[2][0]) + a[0][2] * (a[1][0] * a[2][1] - a[1][1] * a[2][0]);
  }
  M34 inverse() const {
    M34 r;
    LD d = det();
    r.a[0][0] = (a[1][1] * a[2][2] - a[1][2] * a[2][1]) / d;
    r.a[0][1] = (a[0][2] * a[2][1] - a[0][1] * a[2][2]) / d;
    r.a[0][2] = (a[0][1] * a[1][2] - a[0][2] * a[1][1]) / d;
    r.a[1][0] = (a[1][2] * a[2][0] - a[1][0] * a[2][2]) / d;
    r.a[1][1] = (a[0][0] * a[2][2] - a[0][2] * a[2][0]) / d;
    r.a[1][2] = (a[0][2] * a[1][0] - a[0][0] * a[1][2]) / d;
    r.a[2][0] = (a[1][0] * a[2][1] - a[1][1] * a[2][0]) / d;
    r.a[2][1] = (a[0][1] * a[2][0] - a[0][0] * a[2][1]) / d;
    r.a[2][2] = (a[0][0] * a[1][1] - a[0][1] * a[1][0]) / d;
    for (int i = 0; i < 3; i++) r.t[i] = -(r.a[i][0] * t[0] + r.a[i][1] * t[1] + r.a[i][2] * t[2]);
    return r;
  }
  static M34 identity() {
    M34 m{};
    for (int i = 0; i < 3; i++) m.a[i][i] = 1;
    return m;
  }
  M34 then(const M34& o) const {  // o after this
    M34 r{};
    for (int i = 0; i < 3; i++) {
      for (int j = 0; j < 3; j++)
        for (int k = 0; k < 3; k++) r.a[i][j] += o.a[i][k] * a[k][j];
      r.t[i] = o.a[i][0] * t[0] + o.a[i][1] * t[1] + o.a[i][2] * t[2] + o.t[i];
    }
    return r;
  }
};
// documented Rotate: about global X, then global Y, then global Z (right-handed, degrees)
static M34 rotXYZ(LD xd, LD yd, LD zd) {
  auto R = [](int axis, LD deg) {
    M34 m = M34::identity();
    LD a = deg * PI / 180, cs = cosl(a), sn = sinl(a);
    int i = (axis + 1) % 3, j = (axis + 2) % 3;
    m.a[i][i] = cs; m.a[i][j] = -sn; m.a[j][i] = sn; m.a[j][j] = cs;
    return m;
  };
  return R(0, xd).then(R(1, yd)).then(R(2, zd));
}
// exact quarter turns: integer matrices
static void quarter(int axis, long k, long out[3][3]) {
  long cs[4] = {1, 0, -1, 0}, sn[4] = {0, 1, 0, -1};
  int q = (int)(((k % 4) + 4) % 4), i = (axis + 1) % 3, j = (axis + 2) % 3;
  for (int a = 0; a < 3; a++)
    for (int b = 0; b < 3; b++) out[a][b] = a == b;
  out[i][i] = cs[q]; out[i][j] = -sn[q]; out[j][i] = sn[q]; out[j][j] = cs[q];
}

static Manifold baseShape(vh::Rng& r, std::string& desc) {
  int k = r.range(0, 5);
  Manifold m;
  switch (k) {
    case 0: { vec3 s(r.uni(0.3, 2), r.uni(0.3, 2), r.uni(0.3, 2)); m = Manifold::Cube(s, r.chance(0.5)); desc = "Cube" + p3(s); break; }
    case 1: m = Manifold::Tetrahedron(); desc = "Tetrahedron"; break;
    case 2: { int n = r.range(4, 16); m = Manifold::Sphere(r.uni(0.5, 1.5), n); desc = "Sphere(n=" + std::to_string(n) + ")"; break; }
    case 3: { int n = r.range(3, 12); m = Manifold::Cylinder(r.uni(0.5, 2), r.uni(0.3, 1), r.chance(0.5) ? -1.0 : r.uni(0.0, 1), n, r.chance(0.5)); desc = "Cylinder(n=" + std::to_string(n) + ")"; break; }
    case 4: { GenPoly g = genPolygon(r, true); m = Manifold::Extrude(g.p, r.uni(0.5, 2), r.range(0, 3), r.chance(0.5) ? 0 : r.uni(-60, 60)); desc = "Extrude(" + g.name + ")"; break; }
    default: { GenPoly g = genPolygon(r, false); for (auto& v : g.p[0]) v.x += 2.0; m = Manifold::Revolve(g.p, r.range(4, 12), r.chance(0.5) ? 360 : r.uni(60, 300)); desc = "Revolve(" + g.name + ")"; break; }
  }
  if (r.chance(0.5)) {  // not centred on the origin, so mirrors/rotations really move it
    vec3 t = randDir(r) * r.uni(0.2, 2);
    m = m.Translate(t).AsOriginal();
    desc += ".T" + p3(t);
  }
  return m;
}

static std::vector<std::array<double, 3>> sortedVerts(const MeshGL64& g) {
  std::vector<std::array<double, 3>> v;
  for (size_t i = 0; i < g.vertProperties.size(); i += g.numProp) {
    std::array<double, 3> a{g.vertProperties[i], g.vertProperties[i + 1], g.vertProperties[i + 2]};
    for (auto& x : a)
      if (x == 0) x = 0.0;  // -0 and +0 are the same coordinate
    v.push_back(a);
  }
  std::sort(v.begin(), v.end());
  return v;
}

static void xformCase(vh::Ctx& c) {
  vh::Rng& r = c.rng;
  std::string bdesc;
  Manifold M = baseShape(r, bdesc);
  if (M.Status() != Manifold::Error::NoError || M.IsEmpty()) { c.count("base_shape_unusable"); return; }
  MeshGL64 g0 = M.GetMeshGL64();
  vo::Soup s0 = vo::MakeSoup(g0);
  const LD vol0 = vo::SoupVolume(s0);
  if (!(vol0 > 0)) { c.count("base_shape_unusable"); return; }
  int steps = r.chance(0.65) ? 1 : r.range(2, 3);
  M34 T = M34::identity();
  Manifold X = M;
  std::string ops;
  bool exactQuarter = true, onlyWarpNonlinear = false;
  long Q[3][3] = {{1, 0, 0}, {0, 1, 0}, {0, 0, 1}};
  std::function<vec3(vec3)> nonlinear;
  std::string first;
  const bool reflectingWarpObserved = r.chance(0.1);  // a tenth of the affine Warps may reflect (observation only)
  if (c.idx % 8 == 7) steps = 1;  // the nonlinear warp is a single-op case
  for (int st = 0; st < steps; st++) {
    int op = st == 0 ? (int)(c.idx % 8) : r.range(0, 6);
    M34 S = M34::identity();
    std::string nm;
    switch (op) {
      case 0: {
        vec3 v = randDir(r) * std::pow(10.0, r.uni(-2, 2));
        X = X.Translate(v);
        for (int i = 0; i < 3; i++) S.t[i] = v[i];
        nm = "Translate" + p3(v);
        exactQuarter = false;
        break;
      }
      case 1: {  // general rotation
        vec3 e(r.uni(-400, 400), r.chance(0.3) ? 0.0 : r.uni(-400, 400), r.chance(0.3) ? 0.0 : r.uni(-400, 400));
        X = X.Rotate(e.x, e.y, e.z);
        S = rotXYZ(e.x, e.y, e.z);
        nm = "Rotate" + p3(e);
        exactQuarter = false;
        break;
      }
      case 2: {  // quarter turns: exact
        long kx = r.range(-9, 9), ky = r.chance(0.3) ? 0 : r.range(-9, 9), kz = r.chance(0.3) ? 0 : r.range(-9, 9);
        if (r.chance(0.1)) kx = r.range(-4000, 4000);
        X = X.Rotate(90.0 * kx, 90.0 * ky, 90.0 * kz);
        S = rotXYZ(90.0L * (kx % 4), 90.0L * (ky % 4), 90.0L * (kz % 4));
        long A[3][3], B[3][3], Cc[3][3], t1[3][3], t2[3][3], t3[3][3];
        quarter(0, kx, A); quarter(1, ky, B); quarter(2, kz, Cc);
        auto mul = [](long a[3][3], long b[3][3], long o[3][3]) {  // o = a*b
          for (int i = 0; i < 3; i++) for (int j = 0; j < 3; j++) { o[i][j] = 0; for (int k = 0; k < 3; k++) o[i][j] += a[i][k] * b[k][j]; }
        };
        mul(B, A, t1); mul(Cc, t1, t2); mul(t2, Q, t3);
        memcpy(Q, t3, sizeof Q);
        for (int i = 0; i < 3; i++) for (int j = 0; j < 3; j++) S.a[i][j] = t2[i][j];  // exact entries for the oracle too
        nm = "Rotate(90*" + std::to_string(kx) + ",90*" + std::to_string(ky) + ",90*" + std::to_string(kz) + ")";
        break;
      }
      case 3: {
        vec3 v(std::pow(10.0, r.uni(-1, 1)), std::pow(10.0, r.uni(-1, 1)), std::pow(10.0, r.uni(-1, 1)));
        for (int i = 0; i < 3; i++) if (r.chance(0.3)) v[i] = -v[i];
        X = X.Scale(v);
        for (int i = 0; i < 3; i++) S.a[i][i] = v[i];
        nm = "Scale" + p3(v);
        exactQuarter = false;
        break;
      }
      case 4: {
        vec3 n = r.chance(0.3) ? vec3(r.range(0, 1), r.range(0, 1), 1) : randDir(r) * std::pow(10.0, r.uni(-3, 3));
        X = X.Mirror(n);
        LD l = sqrtl((LD)n.x * n.x + (LD)n.y * n.y + (LD)n.z * n.z);
        LD u[3] = {n.x / l, n.y / l, n.z / l};
        for (int i = 0; i < 3; i++) for (int j = 0; j < 3; j++) S.a[i][j] = (i == j) - 2 * u[i] * u[j];
        nm = "Mirror" + p3(n);
        exactQuarter = false;
        break;
      }
      case 5: case 6: {  // general affine, |det| >= 0.05 ; as Transform (5) or as an affine Warp (6)
        mat3x4 A;
        LD d;
        do {
          for (int i = 0; i < 3; i++) for (int j = 0; j < 3; j++) { A[j][i] = r.uni(-1.5, 1.5); S.a[i][j] = A[j][i]; }
          for (int i = 0; i < 3; i++) { A[3][i] = r.uni(-2, 2); S.t[i] = A[3][i]; }
          d = S.det();
        } while (fabsl(d) < 0.05L || (op == 6 && d < 0 && !reflectingWarpObserved));
        if (op == 6 && d < 0) {
          // Warp moves vertices and never re-orients triangles ("not checked", per its documentation): with an
          // orientation-reversing function the mesh comes out inside-out. Observed, not judged.
          Manifold w = X.Warp([A](vec3& v) { v = A * vec4(v, 1.0); });
          c.count(w.Volume() < 0 ? "observed_reflecting_warp_gives_negative_volume" : "observed_reflecting_warp_gives_positive_volume");
          return;
        }
        if (op == 5) {
          X = X.Transform(A);
          nm = "Transform(det=" + f17((double)d) + ")";
        } else {
          X = X.Warp([A](vec3& v) { v = A * vec4(v, 1.0); });
          nm = "Warp(affine,det=" + f17((double)d) + ")";
        }
        exactQuarter = false;
        break;
      }
      default: {  // nonlinear warp: only the vertex map is documented
        double amp = r.uni(0.01, 0.2), fr = r.uni(0.5, 3);
        nonlinear = [amp, fr](vec3 v) { return vec3(v.x + amp * std::sin(fr * v.y), v.y + amp * std::sin(fr * v.z), v.z + amp * std::sin(fr * v.x)); };
        auto nl = nonlinear;
        if (r.chance(0.5)) X = X.Warp([nl](vec3& v) { v = nl(v); });
        else X = X.WarpBatch([nl](VecView<vec3> vs) { for (auto& v : vs) v = nl(v); });
        nm = "Warp(nonlinear)";
        onlyWarpNonlinear = true;
        exactQuarter = false;
        break;
      }
    }
    if (st == 0) first = nm.substr(0, nm.find_first_of("([0123456789-"));
    ops += (ops.empty() ? "" : " . ") + nm;
    T = T.then(S);
    if (onlyWarpNonlinear) break;
  }
  auto describe = [&] { return vh::J().s("base", bdesc).s("ops", ops).raw("baseMesh", vo::MeshBrief(g0)).str(); };
  const std::string what = "xform:" + first + (steps > 1 && !onlyWarpNonlinear ? "+chain" : "");
  c.site(what);
  MeshGL64 g1;
  vo::Soup s1;
  if (!usable(c, X, what, describe, g1, s1)) return;
  if (g1.triVerts.size() != g0.triVerts.size()) {
    c.violation(what + ":triangle-count-changed", vh::J().u("before", g0.triVerts.size() / 3).u("after", g1.triVerts.size() / 3).raw("case", describe()).str());
    return;
  }
  auto v0 = sortedVerts(g0), v1 = sortedVerts(g1);
  if (onlyWarpNonlinear) {
    // documented map: every vertex is moved by the function (bit-exact: the function is applied to the stored vertex)
    std::vector<std::array<double, 3>> e;
    for (auto& a : v0) {
      vec3 q = nonlinear(vec3(a[0], a[1], a[2]));
      std::array<double, 3> b{q.x, q.y, q.z};
      for (auto& x : b) if (x == 0) x = 0.0;
      e.push_back(b);
    }
    std::sort(e.begin(), e.end());
    c.count("warp_vertex_sets_compared");
    if (e != v1) {
      c.violation(what + ":vertices-not-moved-by-the-function", vh::J().raw("case", describe()).str());
      return;
    }
    c.sig("xform:warp-nonlinear:" + bdesc.substr(0, bdesc.find_first_of("([")));
    return;
  }
  if (exactQuarter) {
    // multiples of 90 degrees are exact: the vertex set is the signed permutation of the original, bit for bit
    std::vector<std::array<double, 3>> e;
    for (auto& a : v0) {
      std::array<double, 3> b{0, 0, 0};
      for (int i = 0; i < 3; i++) for (int j = 0; j < 3; j++) if (Q[i][j]) b[i] = Q[i][j] * a[j];
      for (auto& x : b) if (x == 0) x = 0.0;
      e.push_back(b);
    }
    std::sort(e.begin(), e.end());
    c.count("quarter_turn_vertex_sets_compared");
    if (e != v1) {
      size_t bad = 0;
      while (bad < e.size() && e[bad] == v1[bad]) bad++;
      c.violation(what + ":quarter-turn-not-exact",
                  vh::J().raw("expected", p3(vec3(e[bad][0], e[bad][1], e[bad][2]))).raw("got", p3(vec3(v1[bad][0], v1[bad][1], v1[bad][2]))).raw("case", describe()).str());
      return;
    }
  }
  // volume scales by |det|, orientation stays outward
  const LD det = T.det(), vol1 = vo::SoupVolume(s1);
  LD big = 0;
  for (auto& v : s1.v) big = std::max({big, fabsl(v.x), fabsl(v.y), fabsl(v.z)});
  const LD volTol = 1e-9L * fabsl(det) * vol0 + 1e-12L * big * big * big * std::sqrt((double)s1.t.size());
  c.count("volumes_compared");
  if (!(vol1 > 0)) {
    c.violation(what + ":signed-volume-not-positive", vh::J().d("volume", (double)vol1).d("det", (double)det).raw("case", describe()).str());
    return;
  }
  if (fabsl(vol1 - fabsl(det) * vol0) > volTol) {
    c.violation(what + ":volume-not-scaled-by-det", vh::J().d("volume", (double)vol1).d("expected", (double)(fabsl(det) * vol0)).d("det", (double)det).raw("case", describe()).str());
    return;
  }
  // p inside T(M)  <=>  T^-1 p inside M, away from both surfaces
  const M34 Ti = T.inverse();
  LD ext1 = vo::norm(s1.hi - s1.lo), ext0 = vo::norm(s0.hi - s0.lo);
  std::vector<V3> pts = boxSamples(r, s1.lo, s1.hi, 60, 0.15L);
  long decided = 0;
  for (auto& p : pts) {
    V3 q = Ti.apply(p);
    vo::Cls k1 = vo::Classify(s1, p), k0 = vo::Classify(s0, q);
    c.count("points_classified", 2);
    if (!k1.integral || !k0.integral) { c.count("samples_skipped_nonintegral_winding"); continue; }
    if (vo::DistToSurface(s1, p) <= 1e-7L * ext1 + 1e-9L * big || vo::DistToSurface(s0, q) <= 1e-7L * ext0) { c.count("samples_skipped_in_band"); continue; }
    decided++;
    if (k1.w != k0.w) {
      c.violation(what + ":point-map-mismatch",
                  vh::J().s("why", "winding number of p in T(M) differs from that of the preimage in M").raw("p", p3(p)).raw("preimage", p3(q))
                      .i("windingInResult", k1.w).i("windingOfPreimage", k0.w).raw("case", describe()).str());
      return;
    }
  }
  if (decided >= 20) c.sig(what + ":" + bdesc.substr(0, bdesc.find_first_of("([")) + ":neg=" + std::to_string(det < 0) + ":q=" + std::to_string(exactQuarter));
}

// ------------------------------------------------------------------ Quality
// documented model: number of segments = min(360/minAngle, 2*pi*r/minLength) rounded up to a multiple of four (at least 4),
// unless SetCircularSegments(k>=3) forces exactly k. The code truncates before rounding up; both readings are accepted.
static void acceptedSegments(double angle, double len, double radius, long& lo, long& hi) {
  LD v = std::min((LD)360 / angle, 2 * PI * fabsl((LD)radius) / len);
  LD vlo = std::floor((double)(std::min((LD)std::floor((double)((LD)360 / angle * (1 + 1e-12L))), 2 * PI * fabsl((LD)radius) / len) * (1 - 1e-12L)));
  LD vhi = std::ceil((double)(v * (1 + 1e-12L)));
  auto up4 = [](LD x) { long n = (long)x; n = (n + 3) / 4 * 4; return std::max(n, 4L); };
  lo = up4(vlo);
  hi = up4(vhi);
}
static int ringCount(const Manifold& m, double z, double tol) {
  MeshGL64 g = m.GetMeshGL64();
  int n = 0;
  for (size_t i = 0; i < g.vertProperties.size(); i += g.numProp) n += std::fabs(g.vertProperties[i + 2] - z) <= tol;
  return n;
}

static void qualityCase(vh::Ctx& c) {
  vh::Rng& r = c.rng;
  Restore rs;
  Quality::ResetToDefaults();
  double angle = 10.0, len = 1.0;
  int forced = 0;
  std::string desc;
  int k = (int)(c.idx % 6);
  if (k == 1 || k == 3 || k == 4) {
    angle = r.chance(0.5) ? (double)r.range(1, 90) : r.uni(0.8, 120);
    Quality::SetMinCircularAngle(angle);
    desc += "SetMinCircularAngle(" + f17(angle) + ");";
  }
  if (k == 2 || k == 3 || k == 4) {
    len = std::pow(10.0, r.uni(-2, 1));
    Quality::SetMinCircularEdgeLength(len);
    desc += "SetMinCircularEdgeLength(" + f17(len) + ");";
  }
  if (k == 4 || k == 5) {
    forced = r.range(3, r.chance(0.2) ? 200 : 48);
    if (r.chance(0.08)) forced = 3;  // the smallest value SetCircularSegments accepts
    Quality::SetCircularSegments(forced);
    desc += "SetCircularSegments(" + std::to_string(forced) + ");";
    if (r.chance(0.3)) {  // 0 removes the constraint again
      Quality::SetCircularSegments(0);
      forced = 0;
      desc += "SetCircularSegments(0);";
    }
  }
  if (k == 0 && r.chance(0.5)) {  // ResetToDefaults really resets
    Quality::SetMinCircularAngle(r.uni(1, 50));
    Quality::SetMinCircularEdgeLength(r.uni(0.1, 5));
    Quality::SetCircularSegments(r.range(3, 50));
    Quality::ResetToDefaults();
    desc += "Set*(...);ResetToDefaults();";
  }
  double radius = std::pow(10.0, r.uni(-2, 2.5));
  long lo, hi;
  acceptedSegments(angle, len, radius, lo, hi);
  if (forced) lo = hi = forced;
  if (hi > 256) { c.count("quality_case_above_256_segments_skipped"); return; }
  auto describe = [&] { return vh::J().s("settings", desc.empty() ? "defaults" : desc).d("radius", radius).i("acceptedLow", lo).i("acceptedHigh", hi).str(); };
  int got = Quality::GetCircularSegments(radius);
  c.count("GetCircularSegments_checked");
  if (got < lo || got > hi || (!forced && got % 4)) {
    c.violation("quality:GetCircularSegments-not-as-documented", vh::J().i("got", got).raw("case", describe()).str());
    return;
  }
  // constructors with default segment arguments follow GetCircularSegments
  int which = r.range(0, 2);
  if (which == 0) {
    double h = r.uni(0.5, 2);
    c.site("Cylinder(default segments)");
    Manifold m = Manifold::Cylinder(h, radius, -1.0, 0);
    int ring = ringCount(m, 0.0, 1e-9 * (h + radius));
    c.count("default_segment_counts_checked");
    if (m.Status() != Manifold::Error::NoError || ring != got) {
      c.violation("quality:cylinder-default-segments", vh::J().i("expected", got).i("got", ring).s("status", vo::ErrName(m.Status())).raw("case", describe()).str());
      return;
    }
  } else if (which == 1) {
    if (got > 160) return;
    // Sphere documents "always rounded up to the nearest factor of four"
    c.site(std::string("Sphere(default segments)") + (got < 4 ? ":below4" : got % 4 ? ":notMultipleOf4" : ""));
    Manifold m = Manifold::Sphere(radius, 0);
    int expected = (got + 3) / 4 * 4;
    int eq = ringCount(m, 0.0, 1e-9 * radius);
    c.count("default_segment_counts_checked");
    if (m.Status() != Manifold::Error::NoError || eq != expected) {
      c.violation(std::string("quality:sphere-default-segments") + (got % 4 ? ":notMultipleOf4" : ""),
                  vh::J().i("expectedRoundedUp", expected).i("got", eq).i("GetCircularSegments", got).s("status", vo::ErrName(m.Status())).raw("case", describe()).str());
      return;
    }
  } else {
    Polygons sq = {{{0.5 * radius, 0}, {radius, 0}, {radius, 0.3 * radius}, {0.5 * radius, 0.3 * radius}}};
    c.site("Revolve(default segments)");
    Manifold m = Manifold::Revolve(sq, 0, 360.0);
    int ring = 0;
    MeshGL64 g = m.GetMeshGL64();
    for (size_t i = 0; i < g.vertProperties.size(); i += g.numProp) {
      double x = g.vertProperties[i], y = g.vertProperties[i + 1], z = g.vertProperties[i + 2];
      ring += std::fabs(z) <= 1e-9 * radius && std::fabs(std::sqrt(x * x + y * y) - radius) <= 1e-9 * radius;
    }
    c.count("default_segment_counts_checked");
    if (m.Status() != Manifold::Error::NoError || ring != got) {
      c.violation("quality:revolve-default-segments", vh::J().i("expected", got).i("got", ring).s("status", vo::ErrName(m.Status())).raw("case", describe()).str());
      return;
    }
  }
  c.sig("quality:k=" + std::to_string(k) + ":forced=" + std::to_string(forced > 0) + ":which=" + std::to_string(which) + ":n=" + std::to_string(sizeBucket(got)));
}

void vh_case(vh::Ctx& c) {
  std::string mode = c.param("mode", "ctor");
  if (mode == "ctor") ctorCase(c);
  else if (mode == "levelset") levelsetCase(c);
  else if (mode == "xform") xformCase(c);
  else qualityCase(c);
}
