// C19 — refinement keeps the surface; simplification only removes redundancy
// (DESIGN.md §4 C19). Five stages, selected by the stage name:
//   patterns_tri / patterns_quad : EXHAUSTIVE enumeration of the topological
//       subdivision patterns (class Partition in the anonymous namespace of
//       src/subdivision.cpp, reached by including that .cpp into this TU; the
//       archive's subdivision.o is then never pulled in by the linker).
//   refine_flat   : Refine / RefineToLength / RefineToTolerance without tangents
//   refine_smooth : the same with tangents (SmoothOut / SmoothByNormals / Smooth)
//   simplify      : Simplify(t) / SetTolerance(t) on redundantly tessellated
//                   piecewise-planar solids built here (polyhedron + Refine(n)).
#include "subdivision.cpp"  // found through -I<repo>/src

#include <set>
#include <tuple>

#include "common/dsl.h"
#include "common/oracles.h"
#include "common/vh.h"

using namespace manifold;
typedef long double LD;
using vo::cross;
using vo::dot;
using vo::norm;
using vo::V3;

namespace c19 {

// =====================================================================
// Part 1: subdivision patterns
// =====================================================================
const int kMaxTriDiv = 24;

struct P2 {
  double x, y;
};

std::string iv4(ivec4 v) {
  return "[" + std::to_string(v[0]) + "," + std::to_string(v[1]) + "," + std::to_string(v[2]) + "," + std::to_string(v[3]) + "]";
}

// directed-edge bookkeeping shared by the sorted-frame and caller-frame checks:
// every directed edge at most once; unpaired edges must be exactly `chain`
// (a closed CCW vertex cycle). Vertex ids must be < 2^31.
std::string CheckEdges(const Vec<ivec3>& tris, const std::vector<int>& chain) {
  std::vector<uint64_t> dir;
  dir.reserve(tris.size() * 3);
  for (auto& t : tris)
    for (int k = 0; k < 3; k++) {
      int a = t[k], b = t[(k + 1) % 3];
      if (a == b) return "triangle-repeats-vertex";
      dir.push_back(((uint64_t)(uint32_t)a << 32) | (uint32_t)b);
    }
  std::sort(dir.begin(), dir.end());
  for (size_t i = 1; i < dir.size(); i++)
    if (dir[i] == dir[i - 1]) return "directed-edge-used-twice";
  std::vector<uint64_t> want;
  want.reserve(chain.size());
  for (size_t i = 0; i < chain.size(); i++) want.push_back(((uint64_t)(uint32_t)chain[i] << 32) | (uint32_t)chain[(i + 1) % chain.size()]);
  std::sort(want.begin(), want.end());
  for (size_t i = 1; i < want.size(); i++)
    if (want[i] == want[i - 1]) return "internal:chain-repeats";
  size_t boundary = 0;
  for (uint64_t e : dir) {
    const bool isWanted = std::binary_search(want.begin(), want.end(), e);
    if (std::binary_search(dir.begin(), dir.end(), (e << 32) | (e >> 32))) {
      if (isWanted) return "boundary-edge-has-a-pair";
      continue;
    }
    boundary++;
    if (!isWanted) return "interior-edge-unpaired";
  }
  if (boundary != want.size()) return "boundary-edge-missing";
  return "";
}

// Sorted-frame check of the raw cached pattern. nc = 3 (triangle) or 4 (quad).
std::string CheckPattern(const Partition& p, int nc, double* minAreaFrac) {
  const ivec4 n = p.sortedDivisions;
  const int nb = p.InteriorOffset();  // corners + edge vertices
  const int nv = (int)p.vertBary.size();
  if (nv < nb) return "fewer-vertices-than-boundary";
  // 2D embedding: triangle (0,0),(1,0),(0,1); quad = unit square
  const P2 corner[4] = {{0, 0}, {1, 0}, nc == 3 ? P2{0, 1} : P2{1, 1}, {0, 1}};
  const double whole = nc == 3 ? 0.5 : 1.0;
  std::vector<P2> pos(nv);
  for (int v = 0; v < nv; v++) {
    vec4 b = p.vertBary[v];
    double s = 0;
    P2 q{0, 0};
    for (int k = 0; k < 4; k++) {
      if (!(b[k] >= -1e-12 && b[k] <= 1 + 1e-12)) return "barycentric-out-of-range";
      if (k >= nc && b[k] != 0) return "barycentric-uses-missing-corner";
      s += b[k];
      if (k < nc) {
        q.x += b[k] * corner[k].x;
        q.y += b[k] * corner[k].y;
      }
    }
    if (std::abs(s - 1) > 1e-12) return "barycentric-does-not-sum-to-1";
    pos[v] = q;
  }
  // boundary vertices match the divisions, in order
  std::vector<int> chain;
  int next = nc;
  for (int i = 0; i < nc; i++) {
    chain.push_back(i);
    for (int j = 1; j < n[i]; j++, next++) {
      double f = (double)j / n[i];
      P2 a = corner[i], b = corner[(i + 1) % nc];
      P2 want{a.x + (b.x - a.x) * f, a.y + (b.y - a.y) * f};
      if (std::abs(pos[next].x - want.x) > 1e-12 || std::abs(pos[next].y - want.y) > 1e-12) return "boundary-vertex-not-at-its-division";
      chain.push_back(next);
    }
  }
  if (next != nb) return "boundary-vertex-count";
  // every vertex index used; indices in range
  std::vector<char> used(nv, 0);
  for (auto& t : p.triVert)
    for (int k = 0; k < 3; k++) {
      if (t[k] < 0 || t[k] >= nv) return "triangle-index-out-of-range";
      used[t[k]] = 1;
    }
  for (int v = 0; v < nv; v++)
    if (!used[v]) return "vertex-not-used";
  // positive orientation, areas sum to the whole
  double sum = 0, mn = 1e300;
  for (auto& t : p.triVert) {
    P2 a = pos[t[0]], b = pos[t[1]], cc = pos[t[2]];
    double ar = 0.5 * ((b.x - a.x) * (cc.y - a.y) - (b.y - a.y) * (cc.x - a.x));
    if (!(ar > 1e-13 * whole)) return "sub-triangle-not-positively-oriented";
    sum += ar;
    mn = std::min(mn, ar);
  }
  if (std::abs(sum - whole) > 1e-11 * whole) return "areas-do-not-sum-to-whole";
  if (minAreaFrac) *minAreaFrac = mn / whole;
  return CheckEdges(p.triVert, chain);
}

// Caller-frame check: what Subdivide gets back from Reindex for the divisions
// in the caller's own order and every edge direction combination.
std::string CheckReindex(const Partition& p, ivec4 divisions, int nc, unsigned fwdMask) {
  ivec4 triVerts(100, 101, 102, nc == 4 ? 103 : -1);
  ivec4 edgeOffsets(1000, 2000, 3000, 4000);
  bvec4 edgeFwd(fwdMask & 1, fwdMask & 2, fwdMask & 4, fwdMask & 8);
  const int interiorOffset = 50000;
  Vec<ivec3> tris = p.Reindex(triVerts, edgeOffsets, edgeFwd, interiorOffset);
  if (tris.size() != p.triVert.size()) return "reindex-changes-triangle-count";
  std::vector<int> chain;
  for (int i = 0; i < nc; i++) {
    chain.push_back(triVerts[i]);
    const int m = divisions[i] - 1;
    for (int j = 0; j < m; j++) chain.push_back(edgeOffsets[i] + (edgeFwd[i] ? j : m - 1 - j));
  }
  const int ni = p.NumInterior();
  // caller vertex id -> dense index (corners, edge vertices, interior), -1 = foreign
  int pre[5] = {0, 0, 0, 0, 0};
  for (int i = 0; i < nc; i++) pre[i + 1] = pre[i] + divisions[i] - 1;
  const int nb = nc + pre[nc];
  auto dense = [&](int v) -> int {
    if (v >= 100 && v < 100 + nc) return v - 100;
    if (v >= interiorOffset) return v < interiorOffset + ni ? nb + (v - interiorOffset) : -1;
    int i = v / 1000 - 1, j = v % 1000;
    if (v >= 1000 && i >= 0 && i < nc && j < divisions[i] - 1) return nc + pre[i] + j;
    return -1;
  };
  std::vector<char> used(nb + ni, 0);
  for (auto& t : tris)
    for (int k = 0; k < 3; k++) {
      int dv = dense(t[k]);
      if (dv < 0) return "reindex-yields-foreign-vertex";
      used[dv] = 1;
    }
  for (int i = 0; i < nb + ni; i++)
    if (!used[i]) return i < nb ? "reindex-boundary-vertex-not-used" : "reindex-interior-vertex-not-used";
  std::string e = CheckEdges(tris, chain);
  return e.empty() ? "" : "reindex-" + e;
}

std::vector<std::array<int, 3>>& SortedTriples(int maxDiv) {
  static std::vector<std::array<int, 3>> v;
  if (v.empty())
    for (int a = 1; a <= maxDiv; a++)
      for (int b = 1; b <= a; b++)
        for (int cc = 1; cc <= b; cc++) v.push_back({a, b, cc});
  return v;
}

void PatternViolation(vh::Ctx& c, const std::string& shape, const std::string& why, ivec4 divisions, const Partition* p, int fwdMask) {
  vh::J j;
  j.s("why", why).s("divisions", iv4(divisions));
  if (p) j.s("sortedDivisions", iv4(p->sortedDivisions)).s("idx", iv4(p->idx)).u("verts", p->vertBary.size()).u("tris", p->triVert.size());
  if (fwdMask >= 0) j.i("edgeFwdMask", fwdMask);
  c.violation("pattern:" + shape + ":" + why, j.str());
}

void caseTri(vh::Ctx& c) {
  auto& all = SortedTriples((int)c.iparam("maxTriDiv", kMaxTriDiv));
  c.maxi("tri_space_size", (long long)all.size());
  c.maxi("tri_space_fully_enumerated_by_this_run", c.cases >= (long)all.size() ? 1 : 0);
  if (c.idx >= (long)all.size()) {
    c.count("idx_beyond_space");
    return;
  }
  auto t = all[c.idx];
  c.site("Partition::GetPartition(tri)");
  // sorted frame
  Partition ps = Partition::GetPartition(ivec4(t[0], t[1], t[2], 0));
  double mnA = 0;
  std::string why = CheckPattern(ps, 3, &mnA);
  c.count("tri_patterns_checked");
  c.count("pattern_subtriangles_checked", (long long)ps.triVert.size());
  c.maxi("max_pattern_triangles", (long long)ps.triVert.size());
  if (!why.empty()) {
    PatternViolation(c, "tri", why, ivec4(t[0], t[1], t[2], 0), &ps, -1);
    return;
  }
  if (ps.sortedDivisions != ivec4(t[0], t[1], t[2], 0)) {
    PatternViolation(c, "tri", "sortedDivisions-differ-from-sorted-input", ivec4(t[0], t[1], t[2], 0), &ps, -1);
    return;
  }
  // all orders of the three divisions x all edge directions, in the caller's frame
  int perm[6][3] = {{0, 1, 2}, {0, 2, 1}, {1, 0, 2}, {1, 2, 0}, {2, 0, 1}, {2, 1, 0}};
  std::set<std::array<int, 3>> seen;
  for (auto& pm : perm) {
    std::array<int, 3> d{t[pm[0]], t[pm[1]], t[pm[2]]};
    if (!seen.insert(d).second) continue;
    ivec4 div(d[0], d[1], d[2], 0);
    Partition p = Partition::GetPartition(div);
    for (int k = 0; k < 3; k++)
      if (p.sortedDivisions[k] != div[p.idx[k]]) {
        PatternViolation(c, "tri", "idx-does-not-map-sorted-to-input", div, &p, -1);
        return;
      }
    for (unsigned m = 0; m < 8; m++) {
      c.count("tri_reindex_checked");
      why = CheckReindex(p, div, 3, m);
      if (!why.empty()) {
        PatternViolation(c, "tri", why, div, &p, (int)m);
        return;
      }
    }
  }
  c.sig("tri:" + std::to_string(t[0]) + "," + std::to_string(t[1]) + "," + std::to_string(t[2]));
  if (c.idx % 577 == 0)
    c.sample(vh::J().s("pattern", "tri").s("divisions", iv4(ivec4(t[0], t[1], t[2], 0))).u("verts", ps.vertBary.size()).u("tris", ps.triVert.size()).d("minSubTriangleAreaFraction", mnA).str());
}

void caseQuad(vh::Ctx& c) {
  const long Q = c.iparam("maxQuadDiv", 12);
  const long space = Q * Q * Q * Q;
  c.maxi("quad_space_size", space);
  c.maxi("quad_space_fully_enumerated_by_this_run", c.cases >= space ? 1 : 0);
  if (c.idx >= space) {
    c.count("idx_beyond_space");
    return;
  }
  long x = c.idx;
  ivec4 div;
  for (int k = 3; k >= 0; k--) {
    div[k] = 1 + (int)(x % Q);
    x /= Q;
  }
  c.site("Partition::GetPartition(quad)");
  Partition p = Partition::GetPartition(div);
  c.count("quad_patterns_checked");
  c.count("pattern_subtriangles_checked", (long long)p.triVert.size());
  c.maxi("max_pattern_triangles", (long long)p.triVert.size());
  // sortedDivisions must be a rotation of the input given by idx
  for (int k = 0; k < 4; k++)
    if (p.sortedDivisions[k] != div[p.idx[k]] || p.idx[k] != (p.idx[0] + k) % 4) {
      PatternViolation(c, "quad", "idx-is-not-a-rotation-mapping-sorted-to-input", div, &p, -1);
      return;
    }
  double mnA = 0;
  std::string why = CheckPattern(p, 4, &mnA);
  if (!why.empty()) {
    PatternViolation(c, "quad", why, div, &p, -1);
    return;
  }
  for (unsigned m = 0; m < 16; m++) {
    c.count("quad_reindex_checked");
    why = CheckReindex(p, div, 4, m);
    if (!why.empty()) {
      PatternViolation(c, "quad", why, div, &p, (int)m);
      return;
    }
  }
  c.sig("quad:" + iv4(div));
  if (c.idx % 4999 == 0)
    c.sample(vh::J().s("pattern", "quad").s("divisions", iv4(div)).u("verts", p.vertBary.size()).u("tris", p.triVert.size()).d("minSubTriangleAreaFraction", mnA).str());
}

// =====================================================================
// Part 2: geometry stages
// =====================================================================
struct Geo {
  MeshGL64 mesh;
  vo::Soup soup;
  LD S = 0, size = 0;
  LD vol = 0, area = 0, magV = 0, perim = 0;
  void build(const Manifold& m) {
    mesh = m.GetMeshGL64();
    soup = vo::MakeSoup(mesh);
    S = soup.scale;
    size = soup.t.empty() ? 0 : norm(soup.hi - soup.lo);
    vol = area = magV = perim = 0;
    for (auto& tr : soup.t) {
      V3 a = soup.v[tr[0]], b = soup.v[tr[1]], cc = soup.v[tr[2]];
      vol += dot(a, cross(b, cc));
      area += norm(cross(b - a, cc - a));
      LD e0 = norm(b - a), e1 = norm(cc - b), e2 = norm(a - cc);
      magV += e0 * e2 * std::max({norm(a), norm(b), norm(cc)});
      perim += e0 + e1 + e2;
    }
    vol /= 6;
    magV /= 6;
    area /= 2;
  }
};

typedef std::tuple<double, double, double> Key3;
inline Key3 key3(V3 p) { return Key3((double)p.x + 0.0, (double)p.y + 0.0, (double)p.z + 0.0); }  // +0.0: -0 -> +0

std::string v3s(V3 p) {
  char b[120];
  snprintf(b, sizeof b, "[%.17g,%.17g,%.17g]", (double)p.x, (double)p.y, (double)p.z);
  return b;
}

std::string opKind(const std::string& how) {
  size_t dot = how.find('.'), par = how.find('(');
  std::string name;
  if (how.rfind("v", 0) == 0 && dot != std::string::npos && dot < par)
    name = how.substr(dot + 1, how.find('(', dot) - dot - 1);
  else
    name = how.substr(0, par);
  for (const char* t : {"Add", "Subtract", "Intersect"})
    if (how.find(std::string(",") + t + ")") != std::string::npos) name += std::string(":") + t;
  return name;
}

struct BoxD {
  double lo[3], hi[3];
};
inline bool SegTriCross(V3 p, V3 q, V3 a, V3 b, V3 c) {
  V3 n = cross(b - a, c - a);
  LD sp = dot(n, p - a), sq = dot(n, q - a);
  if ((sp > 0 && sq > 0) || (sp < 0 && sq < 0)) return false;
  if (sp == sq) return false;
  LD t = sp / (sp - sq);
  V3 x = p + (q - p) * t;
  LD d1 = dot(n, cross(b - a, x - a)), d2 = dot(n, cross(c - b, x - b)), d3 = dot(n, cross(a - c, x - c));
  return d1 >= 0 && d2 >= 0 && d3 >= 0;
}
// own test that the closed mesh does not cross itself (see c18_measure.cpp)
bool SelfCrossFree(const vo::Soup& s) {
  const size_t n = s.t.size();
  std::vector<BoxD> bb(n);
  std::vector<uint32_t> ord(n);
  for (size_t i = 0; i < n; i++) {
    for (int k = 0; k < 3; k++) {
      const LD* p[3] = {&s.v[s.t[i][0]].x, &s.v[s.t[i][1]].x, &s.v[s.t[i][2]].x};
      bb[i].lo[k] = (double)std::min({p[0][k], p[1][k], p[2][k]});
      bb[i].hi[k] = (double)std::max({p[0][k], p[1][k], p[2][k]});
    }
    ord[i] = (uint32_t)i;
  }
  std::sort(ord.begin(), ord.end(), [&](uint32_t x, uint32_t y) { return bb[x].lo[0] < bb[y].lo[0]; });
  for (size_t ii = 0; ii < n; ii++) {
    const size_t i = ord[ii];
    for (size_t jj = ii + 1; jj < n; jj++) {
      const size_t j = ord[jj];
      if (bb[j].lo[0] > bb[i].hi[0]) break;
      bool apart = false;
      for (int k = 0; k < 3; k++)
        if (bb[i].lo[k] > bb[j].hi[k] || bb[j].lo[k] > bb[i].hi[k]) apart = true;
      if (apart) continue;
      bool share = false;
      for (int a = 0; a < 3 && !share; a++)
        for (int b = 0; b < 3; b++) {
          V3 p = s.v[s.t[i][a]], q = s.v[s.t[j][b]];
          if (s.t[i][a] == s.t[j][b] || (p.x == q.x && p.y == q.y && p.z == q.z)) share = true;
        }
      if (share) continue;
      V3 A[3] = {s.v[s.t[i][0]], s.v[s.t[i][1]], s.v[s.t[i][2]]}, B[3] = {s.v[s.t[j][0]], s.v[s.t[j][1]], s.v[s.t[j][2]]};
      for (int k = 0; k < 3; k++)
        if (SegTriCross(A[k], A[(k + 1) % 3], B[0], B[1], B[2]) || SegTriCross(B[k], B[(k + 1) % 3], A[0], A[1], A[2])) return false;
    }
  }
  return true;
}

V3 RandInBox(vh::Ctx& c, const Geo& g, LD expand) {
  V3 ctr = (g.soup.lo + g.soup.hi) * 0.5L, half = (g.soup.hi - g.soup.lo) * (0.5L * expand);
  LD mh = g.size * 0.05L;
  half = {std::max(half.x, mh), std::max(half.y, mh), std::max(half.z, mh)};
  return {ctr.x + half.x * (LD)c.rng.uni(-1, 1), ctr.y + half.y * (LD)c.rng.uni(-1, 1), ctr.z + half.z * (LD)c.rng.uni(-1, 1)};
}
V3 NearSurface(vh::Ctx& c, const Geo& g) {
  auto& tr = g.soup.t[c.rng.below(g.soup.t.size())];
  V3 a = g.soup.v[tr[0]], b = g.soup.v[tr[1]], cc = g.soup.v[tr[2]];
  LD u = c.rng.uni(), v = c.rng.uni();
  if (u + v > 1) u = 1 - u, v = 1 - v;
  V3 p = a + (b - a) * u + (cc - a) * v;
  V3 n = cross(b - a, cc - a);
  LD nn = norm(n);
  if (nn > 0) p = p + n * (g.size * powl(10.0L, (LD)c.rng.uni(-6, -0.7)) * (c.rng.chance(0.5) ? 1 : -1) / nn);
  return p;
}

// "tolerance never drops below epsilon" — observed on every value the stages
// touch. The invariant is inherited by derived values, so a case reports only
// the FIRST value that breaks it, keyed by the operation that produced it.
struct FloorWatch {
  bool broken = false;
};
bool TolFloor(vh::Ctx& c, FloorWatch& w, const Manifold& m, const std::string& producedBy, const std::string& programJson) {
  if (w.broken || m.Status() != Manifold::Error::NoError) return true;
  c.count("tolerance_floor_checks");
  if (!(m.GetTolerance() >= m.GetEpsilon())) {
    w.broken = true;
    c.violation("tolerance-below-epsilon:first-at:" + producedBy, vh::J().d("tolerance", m.GetTolerance()).d("epsilon", m.GetEpsilon()).raw("program", programJson).str());
    return false;
  }
  return true;
}
// every value of a DSL program, in order of creation
void ScanFloor(vh::Ctx& c, FloorWatch& w, vd::Gen& g) {
  for (size_t i = 0; i < g.pool.size() && !w.broken; i++) TolFloor(c, w, g.pool[i].m, opKind(g.pool[i].how), g.programJson());
}

vd::Config BaseCfg(vh::Ctx& c) {
  vd::Config cfg;
  cfg.maxTris = (size_t)c.iparam("maxTris", 400);
  cfg.allowSmooth = false;  // this harness applies the refinements itself
  cfg.allowSimplify = false;
  cfg.allowMinkowski = false;
  cfg.allowWarp = false;
  cfg.allowLevelSet = false;
  cfg.pCoincident = 0;
  cfg.pNearDegenerate = 0;
  return cfg;
}

// picks eps-valid, non-empty, tangent-free, not self-crossing values
std::vector<int> Candidates(vh::Ctx& c, vd::Gen& g, size_t maxTris) {
  std::vector<int> out;
  for (int i = 0; i < (int)g.pool.size(); i++) {
    auto& v = g.pool[i];
    if (!v.epsValid || v.hasTangents) continue;
    if (v.m.Status() != Manifold::Error::NoError || v.m.IsEmpty() || v.m.NumTri() > maxTris) continue;
    out.push_back(i);
  }
  return out;
}

enum RefOp { kRefine, kToLength, kToTolerance };

// ------------------------------------------------------------- refine_flat
void caseRefineFlat(vh::Ctx& c) {
  vd::Config cfg = BaseCfg(c);
  const long maxOut = c.iparam("maxOutTris", 20000);
  vd::Gen g(c.rng, cfg);
  int n = c.rng.range(1, (int)c.iparam("steps", 6));
  for (int s = 0; s < n; s++) g.step();
  FloorWatch fw;
  ScanFloor(c, fw, g);
  std::vector<int> cand = Candidates(c, g, cfg.maxTris * 2);
  if (cand.empty()) {
    c.count("cases_without_usable_object");
    return;
  }
  int rounds = c.rng.range(1, 2);
  int idx = c.rng.chance(0.6) ? cand.back() : c.rng.pick(cand);
  for (int round = 0; round < rounds; round++) {
    Manifold M = g.pool[idx].m;
    Geo a;
    a.build(M);
    if (a.soup.t.empty() || !(a.size > 0)) return;
    if (!a.mesh.halfedgeTangent.empty()) {
      c.count("objects_skipped_has_tangents");
      return;
    }
    if (!SelfCrossFree(a.soup)) {
      c.count("objects_skipped_self_crossing");
      return;
    }
    vo::TopoReport t0 = vo::CheckClosedManifold(a.mesh);
    if (!t0.ok) {
      c.count("objects_skipped_input_not_closed");
      return;
    }
    const long T = (long)a.soup.t.size();
    RefOp op = (RefOp)c.rng.range(0, 2);
    if (c.rng.chance(0.3)) op = kRefine;
    Manifold R;
    std::string d;
    int nn = 0;
    if (op == kRefine) {
      int hi = 1;
      while (hi < 7 && T * (hi + 1) * (hi + 1) <= maxOut) hi++;
      nn = c.rng.range(1, hi);
      if (c.rng.chance(0.05)) nn = c.rng.range(-1, 1);  // n <= 1 : documented as a copy
      c.site("Refine");
      R = M.Refine(nn);
      d = ".Refine(" + std::to_string(nn) + ")";
    } else if (op == kToLength) {
      // bound the output: every edge <= size, so <= (size/len)^2 * T triangles (plus slack)
      double k = std::min(12.0, std::sqrt((double)maxOut / (double)T));
      if (k < 1.2) k = 1.2;
      double len = (double)a.size / c.rng.uni(1.0, k);
      c.site("RefineToLength");
      R = M.RefineToLength(len);
      d = ".RefineToLength(" + vd::fmt(len) + ")";
    } else {
      double tol = (double)a.size / c.rng.uni(20, 300);
      c.site("RefineToTolerance");
      R = M.RefineToTolerance(tol);
      d = ".RefineToTolerance(" + vd::fmt(tol) + ")";
    }
    const std::string kind = op == kRefine ? "Refine" : (op == kToLength ? "RefineToLength" : "RefineToTolerance");
    int ri = g.add(R, "v" + std::to_string(idx) + d, true, 0);
    c.count("refine_flat_ops");
    c.count("refine_flat_" + kind);
    auto fail = [&](const std::string& why, vh::J j) {
      c.violation("refine-flat:" + kind + ":" + why, j.s("input", g.pool[idx].how).raw("inputMesh", vo::MeshBrief(a.mesh)).raw("program", g.programJson()).str());
    };
    if (R.Status() != Manifold::Error::NoError) {
      fail("error-status", vh::J().s("status", vo::ErrName(R.Status())));
      return;
    }
    TolFloor(c, fw, R, kind, g.programJson());
    Geo b;
    b.build(R);
    // every vertex referenced, closed, manifold
    vo::TopoReport t = vo::CheckClosedManifold(b.mesh);
    if (!t.ok) {
      fail("topology:" + t.why, vh::J().s("info", t.info).raw("outMesh", vo::MeshBrief(b.mesh)));
      return;
    }
    if (R.NumVert() != t.V) {
      fail("NumVert-disagrees-with-export", vh::J().u("lib", R.NumVert()).u("export", t.V));
      return;
    }
    // exactly n*n times the triangles
    if (op == kRefine) {
      long want = (nn > 1 ? (long)nn * nn : 1) * T;
      if ((long)b.soup.t.size() != want) {
        fail("triangle-count-not-n*n", vh::J().i("n", nn).i("inputTris", T).u("outputTris", b.soup.t.size()).i("expected", want));
        return;
      }
    }
    // every original vertex retained (same coordinates; -0 == +0)
    std::set<Key3> have;
    for (auto& p : b.soup.v) have.insert(key3(p));
    for (auto& p : a.soup.v)
      if (!have.count(key3(p))) {
        fail("original-vertex-not-retained", vh::J().s("vertex", v3s(p)).raw("outMesh", vo::MeshBrief(b.mesh)));
        return;
      }
    c.count("original_vertices_found", (long long)a.soup.v.size());
    // same solid. New vertices are double-precision barycentric combinations of
    // the corners: each is within delta <= 8u*S of its flat position (u=1.1e-16).
    // |dVolume| <= Area*delta <= 3*8u*magV; |dArea| <= sum_t perimeter_t*delta/2.
    // The bounds below are >= 100x that.
    LD tolV = 1e-12L * (a.magV + b.magV), tolA = 1e-13L * b.perim * b.S;
    if (fabsl(a.vol - b.vol) > tolV) {
      fail("volume-changed", vh::J().d("before", (double)a.vol).d("after", (double)b.vol).d("tol", (double)tolV));
      return;
    }
    if (fabsl(a.area - b.area) > tolA) {
      fail("area-changed", vh::J().d("before", (double)a.area).d("after", (double)b.area).d("tol", (double)tolA));
      return;
    }
    int decided = 0, inside = 0;
    const int npts = (int)c.iparam("points", 12);
    const LD band = 1e-9L * a.S;
    for (int i = 0; i < npts; i++) {
      V3 p = c.rng.chance(0.5) ? RandInBox(c, a, 1.1L) : NearSurface(c, a);
      c.count("classification_points");
      if (vo::DistToSurface(a.soup, p) < band) {
        c.count("classification_points_skipped_in_band");
        continue;
      }
      vo::Cls w0 = vo::Classify(a.soup, p), w1 = vo::Classify(b.soup, p);
      if (!w0.integral || !w1.integral) {
        c.count("classification_points_skipped_nonintegral");
        continue;
      }
      decided++;
      if (w0.w) inside++;
      c.count("classification_points_decided");
      if (w0.w != w1.w) {
        fail("point-classification-changed", vh::J().s("point", v3s(p)).i("before", w0.w).i("after", w1.w));
        return;
      }
    }
    if (decided > 0 && b.soup.t.size() > a.soup.t.size()) {
      int bucket = 0;
      for (size_t x = b.soup.t.size(); x > 1; x >>= 1) bucket++;
      c.count("refine_flat_nontrivial");
      c.sig("flat:" + kind + ":" + opKind(g.pool[idx].how) + "#" + std::to_string(bucket / 2) + "#n" + std::to_string(nn) + "#p" + std::to_string(a.mesh.numProp > 3));
    } else
      c.count("refine_flat_output_not_larger");
    c.maxi("max_refined_tris", (long long)b.soup.t.size());
    if (c.idx % 61 == 0)
      c.sample(vh::J().s("stage", "refine_flat").i("idx", c.idx).s("op", d).u("inputTris", a.soup.t.size()).u("outputTris", b.soup.t.size()).i("pointsDecided", decided).raw("program", g.programJson(8)).str());
    // chain: the refined value has passed the oracle, refine it again
    if ((long)b.soup.t.size() * 4 > maxOut) return;
    idx = ri;
  }
}

// ------------------------------------------------------------- refine_smooth
void caseRefineSmooth(vh::Ctx& c) {
  vd::Config cfg = BaseCfg(c);
  const long maxOut = c.iparam("maxOutTris", 20000);
  vd::Gen g(c.rng, cfg);
  int n = c.rng.range(1, (int)c.iparam("steps", 6));
  for (int s = 0; s < n; s++) g.step();
  FloorWatch fw;
  ScanFloor(c, fw, g);
  std::vector<int> cand = Candidates(c, g, cfg.maxTris);
  if (cand.empty()) {
    c.count("cases_without_usable_object");
    return;
  }
  int idx = c.rng.chance(0.6) ? cand.back() : c.rng.pick(cand);
  Manifold M = g.pool[idx].m;
  Geo a;
  a.build(M);
  if (a.soup.t.empty() || !(a.size > 0)) return;
  if (!SelfCrossFree(a.soup)) {
    c.count("objects_skipped_self_crossing");
    return;
  }
  if (!vo::CheckClosedManifold(a.mesh).ok) {
    c.count("objects_skipped_input_not_closed");
    return;
  }
  // tangents
  Manifold Tn;
  std::string sd;
  int sk = c.rng.range(0, 2);
  if (sk == 0) {
    double ang = c.rng.chance(0.4) ? 52.5 : c.rng.uni(0, 180), sm = c.rng.chance(0.5) ? 0.0 : c.rng.uni(0, 1);
    c.site("SmoothOut");
    Tn = M.SmoothOut(ang, sm);
    sd = ".SmoothOut(" + vd::fmt(ang) + "," + vd::fmt(sm) + ")";
  } else if (sk == 1) {
    double ang = c.rng.chance(0.4) ? 52.5 : c.rng.uni(0, 180);
    c.site("SmoothByNormals");
    Tn = M.CalculateNormals(0, ang).SmoothByNormals(0);
    sd = ".CalculateNormals(0," + vd::fmt(ang) + ").SmoothByNormals(0)";
  } else {
    MeshGL64 in = a.mesh;
    std::vector<Smoothness> sharp;
    int ns = c.rng.range(0, 6);
    for (int i = 0; i < ns; i++) sharp.push_back({(size_t)c.rng.below(in.triVerts.size()), c.rng.chance(0.5) ? 0.0 : c.rng.uni(0, 1)});
    c.site("Manifold::Smooth");
    Tn = Manifold::Smooth(in, sharp);
    sd = " -> Manifold::Smooth(export,{";
    for (auto& e : sharp) sd += std::to_string(e.halfedge) + ":" + vd::fmt(e.smoothness) + " ";
    sd += "})";
  }
  int ti = g.add(Tn, "v" + std::to_string(idx) + sd, true, a.soup.t.size(), true);
  const std::string skind = sk == 0 ? "SmoothOut" : (sk == 1 ? "SmoothByNormals" : "Smooth");
  if (Tn.Status() != Manifold::Error::NoError) {
    c.count("smooth_error_status_" + std::string(vo::ErrName(Tn.Status())));
    return;
  }
  Geo tg;
  tg.build(Tn);
  // "the geometry will remain unchanged until Refine": the tangent-bearing value is the input
  if (tg.mesh.halfedgeTangent.size() != 4 * tg.mesh.triVerts.size()) {
    c.count("smooth_produced_no_tangents");
    return;
  }
  const long T = (long)tg.soup.t.size();
  RefOp op = (RefOp)c.rng.range(0, 2);
  Manifold R;
  std::string d;
  int nn = 0;
  if (op == kRefine) {
    int hi = 2;
    while (hi < 6 && T * (hi + 1) * (hi + 1) <= maxOut) hi++;
    nn = c.rng.range(2, hi);
    c.site("Refine(tangents)");
    R = Tn.Refine(nn);
    d = ".Refine(" + std::to_string(nn) + ")";
  } else if (op == kToLength) {
    double k = std::min(10.0, std::sqrt((double)maxOut / (double)T));
    if (k < 1.2) k = 1.2;
    double len = (double)tg.size / c.rng.uni(1.0, k);
    c.site("RefineToLength(tangents)");
    R = Tn.RefineToLength(len);
    d = ".RefineToLength(" + vd::fmt(len) + ")";
  } else {
    double tol = (double)tg.size / c.rng.uni(10, 150);
    c.site("RefineToTolerance(tangents)");
    R = Tn.RefineToTolerance(tol);
    d = ".RefineToTolerance(" + vd::fmt(tol) + ")";
  }
  const std::string kind = op == kRefine ? "Refine" : (op == kToLength ? "RefineToLength" : "RefineToTolerance");
  g.add(R, "v" + std::to_string(ti) + d, false, 0);
  c.count("refine_smooth_ops");
  c.count("refine_smooth_" + kind + "_after_" + skind);
  auto fail = [&](const std::string& why, vh::J j) {
    c.violation("refine-smooth:" + kind + ":" + why, j.s("smoothedBy", skind).raw("inputMesh", vo::MeshBrief(tg.mesh)).raw("program", g.programJson()).str());
  };
  if (R.Status() != Manifold::Error::NoError) {
    fail("error-status", vh::J().s("status", vo::ErrName(R.Status())));
    return;
  }
  TolFloor(c, fw, Tn, skind, g.programJson());
  TolFloor(c, fw, R, kind, g.programJson());
  Geo b;
  b.build(R);
  vo::TopoReport t = vo::CheckClosedManifold(b.mesh);
  if (!t.ok) {
    fail("topology:" + t.why, vh::J().s("info", t.info).raw("outMesh", vo::MeshBrief(b.mesh)));
    return;
  }
  if (R.NumVert() != t.V) {
    fail("NumVert-disagrees-with-export", vh::J().u("lib", R.NumVert()).u("export", t.V));
    return;
  }
  std::set<Key3> have;
  for (auto& p : b.soup.v) have.insert(key3(p));
  for (auto& p : tg.soup.v)
    if (!have.count(key3(p))) {
      // coordinate-free circumstance: the valence of the lost vertex. (Marked quad
      // diagonals can leave a vertex with fewer than 3 other edges only if its valence
      // is 3 or 4; the exported tangents are not usable to locate the quads because
      // the export reorders triangles but not tangents.)
      int valence = 0;
      for (size_t h = 0; h < tg.mesh.triVerts.size(); h++)
        if (key3(tg.soup.v[tg.mesh.triVerts[h]]) == key3(p)) valence++;
      std::string circ = valence <= 4 ? "valence<=4" : "valence>4";
      fail("original-vertex-moved-or-lost:" + circ, vh::J().s("vertex", v3s(p)).i("valence", valence).raw("outMesh", vo::MeshBrief(b.mesh)));
      return;
    }
  c.count("original_vertices_found", (long long)tg.soup.v.size());
  if (b.soup.t.size() > tg.soup.t.size()) {
    int bucket = 0;
    for (size_t x = b.soup.t.size(); x > 1; x >>= 1) bucket++;
    c.count("refine_smooth_nontrivial");
    c.sig("smooth:" + kind + ":" + skind + ":" + opKind(g.pool[idx].how) + "#" + std::to_string(bucket / 2));
  } else
    c.count("refine_smooth_output_not_larger");
  c.maxi("max_refined_tris", (long long)b.soup.t.size());
  if (c.idx % 61 == 0)
    c.sample(vh::J().s("stage", "refine_smooth").i("idx", c.idx).s("op", sd + d).u("inputTris", tg.soup.t.size()).u("outputTris", b.soup.t.size()).raw("program", g.programJson(8)).str());
}

// ------------------------------------------------------------- simplify
// Conditioning of a polyhedron given as a triangulated export: the smallest
// sine over (a) dihedral angles of its non-flat edges and (b) angles between
// feature edges meeting at a vertex; and the shortest edge.
struct Conditioning {
  LD minSin = 1, minEdge = 1e300L;
  bool ok = true;
};
Conditioning Condition(const Geo& g) {
  Conditioning r;
  const auto& s = g.soup;
  // merge coincident vertices by position (exports duplicate vertices only with properties)
  std::map<Key3, int> id;
  std::vector<int> vid(s.v.size());
  for (size_t i = 0; i < s.v.size(); i++) vid[i] = id.emplace(key3(s.v[i]), (int)id.size()).first->second;
  std::map<std::pair<int, int>, V3> edgeNormal;  // directed edge -> unit normal of its triangle
  std::vector<V3> pos(id.size());
  for (size_t i = 0; i < s.v.size(); i++) pos[vid[i]] = s.v[i];
  for (auto& tr : s.t) {
    V3 a = s.v[tr[0]], b = s.v[tr[1]], cc = s.v[tr[2]];
    V3 n = cross(b - a, cc - a);
    LD nn = norm(n);
    if (!(nn > 0)) {
      r.ok = false;
      return r;
    }
    n = n * (1 / nn);
    for (int k = 0; k < 3; k++) {
      edgeNormal[{vid[tr[k]], vid[tr[(k + 1) % 3]]}] = n;
      r.minEdge = std::min(r.minEdge, norm(s.v[tr[k]] - s.v[tr[(k + 1) % 3]]));
    }
  }
  std::vector<std::vector<V3>> featureDirs(id.size());
  for (auto& e : edgeNormal) {
    auto it = edgeNormal.find({e.first.second, e.first.first});
    if (it == edgeNormal.end()) {
      r.ok = false;
      return r;
    }
    LD sn = norm(cross(e.second, it->second));
    bool opposite = dot(e.second, it->second) < 0;
    if (sn < 1e-9L && !opposite) continue;  // flat edge (coplanar by construction)
    r.minSin = std::min(r.minSin, sn);
    V3 dvec = pos[e.first.second] - pos[e.first.first];
    featureDirs[e.first.first].push_back(dvec * (1 / norm(dvec)));
  }
  for (auto& dirs : featureDirs)
    for (size_t i = 0; i < dirs.size(); i++)
      for (size_t j = i + 1; j < dirs.size(); j++) r.minSin = std::min(r.minSin, norm(cross(dirs[i], dirs[j])));
  return r;
}

Manifold BuildPolyhedron(vh::Ctx& c, std::string& d) {
  int k = c.rng.range(0, 8);
  auto u = [&](double a, double b) { return c.rng.uni(a, b); };
  switch (k) {
    case 0: {
      vec3 s(u(0.5, 2), u(0.5, 2), u(0.5, 2));
      d = "Cube(" + vd::fmt(s) + ")";
      return Manifold::Cube(s, c.rng.chance(0.5));
    }
    case 1: {
      int n = c.rng.range(3, 8);
      double h = u(0.5, 2), r = u(0.5, 1.5);
      d = "Prism(n=" + std::to_string(n) + ",h=" + vd::fmt(h) + ",r=" + vd::fmt(r) + ")";
      return Manifold::Cylinder(h, r, r, n, c.rng.chance(0.5));
    }
    case 2: {
      int n = c.rng.range(3, 7);
      double h = u(0.7, 2), r1 = u(0.6, 1.5), r2 = c.rng.chance(0.3) ? 0.0 : r1 * u(0.4, 0.85);
      d = "Frustum(n=" + std::to_string(n) + ",h=" + vd::fmt(h) + ",r1=" + vd::fmt(r1) + ",r2=" + vd::fmt(r2) + ")";
      return Manifold::Cylinder(h, r1, r2, n, false);
    }
    case 3: {
      int n = c.rng.range(3, 7);
      double rad = u(0.6, 1.5), h = u(0.5, 2);
      bool hole = c.rng.chance(0.3);
      Polygons p = vd::StarPolygon(c.rng, n, rad, hole);
      d = "Extrude(star" + std::to_string(n) + (hole ? "+hole" : "") + ",r=" + vd::fmt(rad) + ",h=" + vd::fmt(h) + ")";
      return Manifold::Extrude(p, h);
    }
    case 4: {
      int n = c.rng.range(4, 8);
      std::vector<vec3> pts(n);
      for (auto& p : pts) p = vec3(u(-1, 1), u(-1, 1), u(-1, 1));
      d = "Hull(" + std::to_string(n) + " pts)";
      return Manifold::Hull(pts);
    }
    case 5: {
      d = "Tetrahedron()";
      return Manifold::Tetrahedron();
    }
    case 6: {  // L / notch: generic-position Boolean of two boxes
      vec3 s1(u(0.8, 2), u(0.8, 2), u(0.8, 2)), s2(u(0.5, 1.5), u(0.5, 1.5), u(0.5, 1.5));
      vec3 t(u(0.15, 0.6) * s1.x, u(0.15, 0.6) * s1.y, u(0.15, 0.6) * s1.z);
      vec3 rot(u(-30, 30), u(-30, 30), u(-30, 30));
      bool add = c.rng.chance(0.5);
      d = std::string("Cube(") + vd::fmt(s1) + (add ? ") + " : ") - ") + "Cube(" + vd::fmt(s2) + ").Rotate" + vd::fmt(rot) + ".Translate" + vd::fmt(t);
      Manifold b = Manifold::Cube(s2).Rotate(rot.x, rot.y, rot.z).Translate(t);
      return add ? Manifold::Cube(s1) + b : Manifold::Cube(s1) - b;
    }
    case 7: {  // genus 1: a prism drilled through a box
      vec3 s1(u(1, 2), u(1, 2), u(0.5, 1.2));
      int n = c.rng.range(3, 6);
      double r = u(0.15, 0.3);
      vec3 rot(u(-15, 15), u(-15, 15), u(0, 90));
      vec3 t(u(-0.1, 0.1), u(-0.1, 0.1), 0.0);
      d = "Cube(" + vd::fmt(s1) + ",true) - Cylinder(5," + vd::fmt(r) + ",n=" + std::to_string(n) + ").Rotate" + vd::fmt(rot) + ".Translate" + vd::fmt(t);
      return Manifold::Cube(s1, true) - Manifold::Cylinder(5, r, r, n, true).Rotate(rot.x, rot.y, rot.z).Translate(t);
    }
    default: {  // two components
      vec3 s(u(0.5, 1.5), u(0.5, 1.5), u(0.5, 1.5));
      int n = c.rng.range(3, 6);
      double r = u(0.4, 1);
      d = "Compose({Cube(" + vd::fmt(s) + "),Prism(n=" + std::to_string(n) + ",r=" + vd::fmt(r) + ").Translate(3,0.1,0.2)})";
      return Manifold::Compose({Manifold::Cube(s), Manifold::Cylinder(1, r, r, n).Translate({3, 0.1, 0.2})});
    }
  }
}

void caseSimplify(vh::Ctx& c) {
  std::string d;
  c.site("build-polyhedron");
  Manifold P = BuildPolyhedron(c, d);
  // pose
  vec3 rot(c.rng.uni(-180, 180), c.rng.uni(-180, 180), c.rng.uni(-180, 180));
  vec3 tr(c.rng.uni(-2, 2), c.rng.uni(-2, 2), c.rng.uni(-2, 2));
  double sc = c.rng.chance(0.3) ? pow(10.0, c.rng.uni(-2, 2)) : 1.0;
  if (c.rng.chance(0.8)) {
    P = P.Rotate(rot.x, rot.y, rot.z).Translate(tr).Scale(vec3(sc));
    d += ".Rotate" + vd::fmt(rot) + ".Translate" + vd::fmt(tr) + ".Scale(" + vd::fmt(sc) + ")";
  }
  int np = 0;
  if (c.rng.chance(0.3)) {  // with properties (affine in position, so interpolation is exact up to rounding)
    np = c.rng.range(1, 3);
    vec3 g1(c.rng.uni(-1, 1), c.rng.uni(-1, 1), c.rng.uni(-1, 1));
    P = P.SetProperties(np, [np, g1](double* out, vec3 p, const double*) {
      for (int i = 0; i < np; i++) out[i] = la::dot(g1, p) * (i + 1);
    });
    d += ".SetProperties(" + std::to_string(np) + ",affine)";
  }
  std::vector<std::string> log{"P = " + d};
  auto prog = [&]() {
    std::string s = "[";
    for (size_t i = 0; i < log.size(); i++) s += (i ? ",\"" : "\"") + vh::jesc(log[i]) + "\"";
    return s + "]";
  };
  if (P.Status() != Manifold::Error::NoError || P.IsEmpty()) {
    c.count("polyhedron_empty_or_error");
    return;
  }
  FloorWatch fw;
  TolFloor(c, fw, P, d.substr(0, d.find('(')), prog());
  Geo gp;
  gp.build(P);
  Conditioning cond = Condition(gp);
  if (!cond.ok || cond.minSin < 0.1L) {
    // sharp or nearly flat features: "t below the feature size" is not well separated
    c.count("polyhedra_skipped_ill_conditioned");
    return;
  }
  // redundant tessellation: Refine(n) of the flat faces (the added vertices are the redundant ones)
  int n = c.rng.range(2, (int)c.iparam("maxRefine", 5));
  c.site("Refine(polyhedron)");
  Manifold R = P.Refine(n);
  log.push_back("R = P.Refine(" + std::to_string(n) + ")");
  if (R.Status() != Manifold::Error::NoError) {
    c.violation("simplify:refine-of-polyhedron-error", vh::J().s("status", vo::ErrName(R.Status())).raw("program", prog()).str());
    return;
  }
  Geo gr;
  gr.build(R);
  if ((long)gr.soup.t.size() != (long)n * n * (long)gp.soup.t.size()) {
    c.violation("simplify:refine-of-polyhedron-count", vh::J().u("tris", gr.soup.t.size()).u("polyTris", gp.soup.t.size()).i("n", n).raw("program", prog()).str());
    return;
  }
  TolFloor(c, fw, R, "Refine", prog());
  const double eps = R.GetEpsilon(), tol0 = R.GetTolerance();
  // feature size: the cheapest removal of a NON-redundant vertex slides a corner
  // along an edge to the next vertex (distance >= h = minEdge/n) and leaves a
  // plane at >= h*minSin; t is kept 1000x below that.
  // For well-conditioned polyhedra (all those sines >= 0.7: boxes, regular prisms)
  // the cheapest removal of a non-redundant vertex merges vertices of two different
  // feature edges at distance >= h and costs >= ~(0.25 h)^2, so t may go up to
  // 0.02*h*minSin (still >= 12x below in distance, >= 150x in cost); this is the
  // regime where a wrong cost threshold becomes observable.
  const LD h = cond.minEdge / n;
  const bool wellConditioned = cond.minSin >= 0.7L;
  const LD tMax = (wellConditioned ? 0.02L : 1e-3L) * h * cond.minSin;
  if (wellConditioned) c.count("simplify_well_conditioned_polyhedra");
  int mode = c.rng.range(0, 9);
  double t;
  if (mode == 0) t = 0;
  else if (mode == 1) t = eps * c.rng.uni(0.1, 0.9);
  else if (mode == 2) t = tol0 * c.rng.uni(0.2, 1.0);
  else if (mode == 3) t = -(double)tMax * c.rng.uni(0, 1);
  else t = (double)(tMax * powl(10.0L, (LD)c.rng.uni(-4, 0)));
  bool useSet = c.rng.chance(0.5);
  Manifold S;
  if (useSet) {
    c.site("SetTolerance");
    S = R.SetTolerance(t);
    log.push_back("S = R.SetTolerance(" + vd::fmt(t) + ")");
  } else {
    c.site("Simplify");
    S = R.Simplify(t);
    log.push_back("S = R.Simplify(" + vd::fmt(t) + ")");
  }
  const std::string kind = useSet ? "SetTolerance" : "Simplify";
  c.count("simplify_ops");
  c.count("simplify_" + kind);
  auto fail = [&](const std::string& why, vh::J j) {
    c.violation("simplify:" + kind + ":" + why, j.d("t", t).d("epsilon", eps).d("toleranceBefore", tol0).d("featureBound_tMax", (double)tMax).d("minSin", (double)cond.minSin)
                                                     .raw("refinedMesh", vo::MeshBrief(gr.mesh)).raw("program", prog()).str());
  };
  if (S.Status() != Manifold::Error::NoError) {
    fail("error-status", vh::J().s("status", vo::ErrName(S.Status())));
    return;
  }
  TolFloor(c, fw, S, kind, prog());
  if (useSet && fw.broken) c.count("settolerance_report_skipped_input_already_below_epsilon");
  if (useSet && !fw.broken) {
    // SetTolerance reports max(t, epsilon)
    double got = S.GetTolerance(), want = std::max(t, eps), want2 = std::max(t, S.GetEpsilon());
    c.count("settolerance_report_checks");
    if (got != want && got != want2) {
      fail("reported-tolerance-not-max(t,epsilon)", vh::J().d("reported", got).d("expected", want).d("epsilonAfter", S.GetEpsilon()));
      return;
    }
  }
  Geo gs;
  gs.build(S);
  if (gs.soup.t.size() > gr.soup.t.size()) {
    fail("triangle-count-grew", vh::J().u("before", gr.soup.t.size()).u("after", gs.soup.t.size()));
    return;
  }
  // effective simplification tolerance: never below the value's own tolerance
  const LD teff = std::max<LD>({(LD)t, (LD)tol0, (LD)0});
  // rounding: Refine places vertices within 8u*S of the planes; QEM solves are
  // double precision on coordinates of size S. 1e-11*S is >= 1e4 x that.
  const LD slack = 1e-11L * std::max(gr.S, gs.S);
  const LD bound = teff + slack;
  LD worstOut = 0, worstIn = 0;
  if (!gs.soup.t.empty()) {
    for (auto& p : gs.soup.v) {
      LD dd = vo::DistToSurface(gp.soup, p);
      worstOut = std::max(worstOut, dd);
      if (dd > bound) {
        fail("output-vertex-farther-than-t-from-original-surface", vh::J().s("vertex", v3s(p)).d("distance", (double)dd).d("bound", (double)bound).raw("outMesh", vo::MeshBrief(gs.mesh)));
        return;
      }
    }
    c.count("hausdorff_samples_output_to_original", (long long)gs.soup.v.size());
    // original surface -> output: corners of the polyhedron, all (redundant) refined
    // vertices, random points of the faces
    std::vector<V3> samples(gp.soup.v.begin(), gp.soup.v.end());
    size_t cap = 400;
    for (size_t i = 0; i < gr.soup.v.size() && i < cap; i++) samples.push_back(gr.soup.v[gr.soup.v.size() <= cap ? i : c.rng.below(gr.soup.v.size())]);
    for (int i = 0; i < 60; i++) {
      auto& trr = gp.soup.t[c.rng.below(gp.soup.t.size())];
      LD u = c.rng.uni(), v = c.rng.uni();
      if (u + v > 1) u = 1 - u, v = 1 - v;
      samples.push_back(gp.soup.v[trr[0]] + (gp.soup.v[trr[1]] - gp.soup.v[trr[0]]) * u + (gp.soup.v[trr[2]] - gp.soup.v[trr[0]]) * v);
    }
    for (auto& p : samples) {
      LD dd = vo::DistToSurface(gs.soup, p);
      worstIn = std::max(worstIn, dd);
      if (dd > bound) {
        fail("original-surface-point-farther-than-t-from-output", vh::J().s("point", v3s(p)).d("distance", (double)dd).d("bound", (double)bound).raw("outMesh", vo::MeshBrief(gs.mesh)));
        return;
      }
    }
    c.count("hausdorff_samples_original_to_output", (long long)samples.size());
  } else {
    fail("output-empty", vh::J());
    return;
  }
  // volume unchanged within t*area (+ rounding of the sums)
  LD tolV = teff * gr.area + 1e-12L * (gr.magV + gs.magV) + slack * gr.area;
  if (fabsl(gs.vol - gr.vol) > tolV) {
    fail("volume-changed-by-more-than-t*area", vh::J().d("before", (double)gr.vol).d("after", (double)gs.vol).d("tol", (double)tolV));
    return;
  }
  c.maxi("max_hausdorff_over_S_x1e18", (long long)((double)(std::max(worstOut, worstIn) / std::max(gr.S, gs.S)) * 1e18));
  c.count("simplify_checked");
  if (gs.soup.t.size() < gr.soup.t.size()) {
    c.count("simplify_removed_triangles");
    if (gs.soup.t.size() == gp.soup.t.size()) c.count("simplify_back_to_polyhedron_triangle_count");
    int dec = 0;
    for (LD x = teff / tMax; x < 1 && dec < 9; x *= 10) dec++;
    c.sig("simp:" + kind + ":" + d.substr(0, d.find('(')) + "#n" + std::to_string(n) + "#t" + std::to_string(dec) + "#p" + std::to_string(np > 0));
  } else
    c.count("simplify_removed_nothing");
  if (c.idx % 61 == 0)
    c.sample(vh::J().s("stage", "simplify").i("idx", c.idx).d("t", t).d("tMax", (double)tMax).u("polyTris", gp.soup.t.size()).u("refinedTris", gr.soup.t.size()).u("outTris", gs.soup.t.size())
                 .d("worstDistOutToOrig", (double)worstOut).d("worstDistOrigToOut", (double)worstIn).raw("program", prog()).str());
}

}  // namespace c19

void vh_case(vh::Ctx& c) {
  if (c.stage == "patterns_tri") c19::caseTri(c);
  else if (c.stage == "patterns_quad") c19::caseQuad(c);
  else if (c.stage == "refine_flat") c19::caseRefineFlat(c);
  else if (c.stage == "refine_smooth") c19::caseRefineSmooth(c);
  else if (c.stage == "simplify") c19::caseSimplify(c);
  else c.inconclusive("unknown stage " + c.stage);
}
