// C15 — cancellation is all-or-nothing at EVERY cancellation-check site
// reached; Progress() is monotone within an evaluation, never > 1, and 1
// after an uncancelled completion; a cancelled context short-circuits later
// evaluations; operands stay untouched; rebuilding with a fresh context gives
// the reference result.  Fault enumeration through hook H1
// (manifold::verif::cancelProbe, /repo/src/execution_impl.h).
#include <cxxabi.h>
#include <dlfcn.h>
#include <execinfo.h>

#include "common/dsl.h"
#include "common/oracles.h"
#include "common/vh.h"
#include "execution_impl.h"

#if defined(VSHIM_ADVERSARIAL)
#include "tbb/vshim.h"
#endif

using namespace manifold;

namespace {

// ------------------------------------------------------------------ monitor
struct Monitor {
  ExecutionContext::Impl* target = nullptr;
  ExecutionContext* ctx = nullptr;
  bool inEval = false;
  long checks = 0;       // checks seen during evaluation through `target`
  long cancelAt = -1;    // fire Cancel() at this check (1-based); -1 = never
  bool fired = false;
  std::string firedSite;
  // progress trace
  double lastProgress = -1;
  long progressSamples = 0;
  long decreases = 0, above1 = 0;
  double decFrom = 0, decTo = 0;
  long decAtCheck = 0;
} M;

std::string callerName() {
  void* bt[8];
  int n = backtrace(bt, 8);
  // bt[0]=callerName, bt[1]=probe, bt[2]=function containing the (inlined) check
  for (int i = 2; i < n; i++) {
    Dl_info info;
    if (dladdr(bt[i], &info) && info.dli_sname) {
      int st = 0;
      char* d = abi::__cxa_demangle(info.dli_sname, nullptr, nullptr, &st);
      std::string s = (st == 0 && d) ? d : info.dli_sname;
      free(d);
      // strip arguments / template parameters: keep a short stable label
      size_t p = s.find('(');
      if (p != std::string::npos) s = s.substr(0, p);
      std::string out;
      int depth = 0;
      for (char ch : s) {
        if (ch == '<') depth++;
        else if (ch == '>') depth--;
        else if (depth == 0) out += ch;
      }
      if (out.find("vh_case") != std::string::npos || out == "main") break;
      if (out.find("IsCancelled") != std::string::npos) continue;  // not inlined in -O1 builds
      return out;
    }
  }
  return "?";
}

void probe(ExecutionContext::Impl* impl) {
  if (!M.inEval || impl != M.target) return;
  M.checks++;
  double p = M.ctx->Progress();
  M.progressSamples++;
  if (p > 1.0) M.above1++;
  if (M.lastProgress >= 0 && p < M.lastProgress && M.decreases++ == 0) {
    M.decFrom = M.lastProgress;
    M.decTo = p;
    M.decAtCheck = M.checks;
  }
  M.lastProgress = p;
  if (M.cancelAt > 0 && M.checks == M.cancelAt && !M.fired) {
    M.fired = true;
    M.firedSite = callerName();
    M.ctx->Cancel();  // through the public path, takes effect at this check
  }
}

void arm(ExecutionContext& ctx, long cancelAt) {
  M = Monitor();
  M.target = ctx.impl_.get();
  M.ctx = &ctx;
  M.cancelAt = cancelAt;
}

// ------------------------------------------------------------------ workloads
struct Work {
  std::string entry;                                // entry-point label (key)
  std::string desc;
  std::vector<Manifold> operands;                   // evaluated before any run
  // Builds (lazily) and evaluates through ctx; returns the observed result.
  std::function<Manifold(ExecutionContext&, const std::vector<Manifold>&)> run;
  // Optional: an expression sharing a sub-node with the one `run` evaluates;
  // built by the same call; evaluated afterwards with a FRESH context.
  bool hasSibling = false;
  int aliasOperands = 0;
};

Manifold smallSolid(vh::Rng& r, int big) {
  int k = (int)r.below(5);
  Manifold m;
  int seg = big ? 4 * (int)r.range(8, 24) : 4 * (int)r.range(1, 4);
  switch (k) {
    case 0: m = Manifold::Cube(vec3(r.uni(0.5, 2), r.uni(0.5, 2), r.uni(0.5, 2)), r.chance(0.5)); if (big) m = m.Refine(big * 8); break;
    case 1: m = Manifold::Sphere(r.uni(0.5, 1.5), seg); break;
    case 2: m = Manifold::Cylinder(r.uni(0.5, 2), r.uni(0.3, 1), r.uni(0.3, 1), seg); break;
    case 3: m = Manifold::Tetrahedron(); if (big) m = m.Refine(big * 10); break;
    default: {
      std::vector<vec3> pts(r.range(6, 30));
      for (auto& p : pts) p = vec3(r.uni(-1, 1), r.uni(-1, 1), r.uni(-1, 1));
      m = Manifold::Hull(pts);
      if (big) m = m.Refine(big * 4);
    }
  }
  m = m.Rotate(r.uni(-180, 180), r.uni(-180, 180), r.uni(-180, 180)).Translate(vec3(r.uni(-0.4, 0.4), r.uni(-0.4, 0.4), r.uni(-0.4, 0.4)));
  return m;
}

// sibling result of the last tree run (shares a sub-expression with it)
Manifold gSibling;

Work makeWork(vh::Rng& r, int big) {
  Work w;
  int kind = (int)r.below(12);
  auto ops = [&](int n) {
    for (int i = 0; i < n; i++) {
      if (r.chance(0.35)) {
        // an "already evaluated operand" held through an ALIAS of an op node:
        // evaluating `e` turns e's own handle into a leaf, while `alias` keeps
        // pointing at the op node whose result is cached. Such a node can sit on
        // the evaluator's stack (finished, waiting to be collapsed) when a
        // cancel is noticed.
        Manifold e = smallSolid(r, big) + smallSolid(r, big).Translate(vec3(0.15, 0.1, 0.05));
        Manifold alias = e;
        e.Status();
        w.operands.push_back(alias);
        w.aliasOperands++;
        continue;
      }
      Manifold m = smallSolid(r, big);
      m.Status();  // evaluate the operand now
      w.operands.push_back(m);
    }
  };
  switch (kind) {
    case 0: case 1: {  // deferred tree with a shared sub-expression
      ops(4);
      int shape = (int)r.below(8);
      w.entry = "Status(tree)";
      w.desc = "tree shape " + std::to_string(shape);
      w.hasSibling = true;
      w.run = [shape](ExecutionContext& ctx, const std::vector<Manifold>& o) {
        if (shape >= 4) {
          // an (already evaluated, possibly aliased op-node) operand on the LEFT
          // of a still lazy sub-expression whose handle is kept alive, so the
          // evaluator cannot collapse it and the finished left node waits on
          // the stack while the right one is being evaluated
          Manifold t = shape % 2 ? o[2] + o[3] : o[2] - o[3].Translate({0.05, 0, 0});
          Manifold root = shape < 6 ? o[0] - t : Manifold::BatchBoolean({o[0], t, o[1]}, shape == 6 ? OpType::Add : OpType::Subtract);
          gSibling = t ^ o[1];
          Manifold obs = root.WithContext(ctx);
          obs.Status();
          return obs;
        }
        Manifold s = shape % 2 ? o[0] + o[1] : o[0] - o[1];  // shared, lazy
        Manifold root = shape < 2 ? (s - o[2]) + o[3].Translate({0.1, 0, 0}) : (s ^ o[2]) - o[3];
        gSibling = shape < 2 ? s ^ o[3] : s + o[3].Translate({0, 0.1, 0});
        Manifold obs = root.WithContext(ctx);
        obs.Status();
        return obs;
      };
      break;
    }
    case 2: {  // BatchBoolean
      ops(5);
      OpType op = (OpType)r.below(3);
      w.entry = "Status(BatchBoolean)";
      w.desc = "op " + std::to_string((int)op);
      w.run = [op](ExecutionContext& ctx, const std::vector<Manifold>& o) {
        Manifold obs = Manifold::BatchBoolean(o, op).WithContext(ctx);
        obs.Status();
        return obs;
      };
      break;
    }
    case 3: {
      ops(1);
      int n = (int)r.range(2, 4);
      w.entry = "Refine";
      w.desc = "n=" + std::to_string(n);
      w.run = [n](ExecutionContext& ctx, const std::vector<Manifold>& o) { return o[0].WithContext(ctx).Refine(n); };
      break;
    }
    case 4: {
      ops(1);
      double len = r.uni(0.15, 0.6);
      w.entry = "RefineToLength";
      w.desc = "len=" + vd::fmt(len);
      w.run = [len](ExecutionContext& ctx, const std::vector<Manifold>& o) { return o[0].WithContext(ctx).RefineToLength(len); };
      break;
    }
    case 5: {
      Manifold m = smallSolid(r, 0).SmoothOut(r.uni(20, 80), 0);
      m.Status();
      w.operands.push_back(m);
      double tol = r.uni(0.01, 0.1);
      w.entry = "RefineToTolerance";
      w.desc = "smoothed, tol=" + vd::fmt(tol);
      w.run = [tol](ExecutionContext& ctx, const std::vector<Manifold>& o) { return o[0].WithContext(ctx).RefineToTolerance(tol); };
      break;
    }
    case 6: {
      ops(2);
      Manifold u = w.operands[0] + w.operands[1];
      u.Status();
      w.operands = {u};
      w.entry = "Hull";
      w.run = [](ExecutionContext& ctx, const std::vector<Manifold>& o) { return o[0].WithContext(ctx).Hull(); };
      break;
    }
    case 7: case 8: {  // Minkowski: convex/nonconvex combos, tiny operands
      bool cvxA = r.chance(0.5), cvxB = r.chance(0.5), sum = r.chance(0.6);
      auto mk = [&](bool convex, double s) {
        Manifold m = convex ? Manifold::Cube(vec3(s), true).Rotate(r.uni(0, 90), r.uni(0, 90), 0)
                            : (Manifold::Cube(vec3(s), true) - Manifold::Cube(vec3(s), true).Translate(vec3(s * 0.5)));
        m.Status();
        return m;
      };
      w.operands = {mk(cvxA, 1.0), mk(cvxB, 0.3)};
      w.entry = std::string(sum ? "MinkowskiSum" : "MinkowskiDifference") + (cvxA ? ":cvx" : ":ncvx") + (cvxB ? ":cvx" : ":ncvx");
      w.run = [sum](ExecutionContext& ctx, const std::vector<Manifold>& o) {
        return sum ? o[0].WithContext(ctx).MinkowskiSum(o[1]) : o[0].WithContext(ctx).MinkowskiDifference(o[1]);
      };
      break;
    }
    case 9: {  // FromMeshGL (64 or 32) of a multi-run Boolean result
      ops(2);
      Manifold u = w.operands[0] - w.operands[1];
      bool f32 = r.chance(0.4);
      MeshGL64 g64 = u.GetMeshGL64();
      MeshGL g32 = u.GetMeshGL();
      w.operands = {u};
      w.entry = f32 ? "FromMeshGL32" : "FromMeshGL64";
      w.run = [g64, g32, f32](ExecutionContext& ctx, const std::vector<Manifold>&) { return f32 ? ctx.FromMeshGL(g32) : ctx.FromMeshGL(g64); };
      break;
    }
    case 10: {  // Smooth
      Manifold m = smallSolid(r, 0);
      MeshGL64 g = m.GetMeshGL64();
      std::vector<Smoothness> sharp;
      size_t nh = g.triVerts.size();
      for (int i = 0; i < 3 && nh; i++) sharp.push_back({(size_t)r.below(nh), r.uni(0, 1)});
      w.operands = {m};
      w.entry = "Smooth";
      w.run = [g, sharp](ExecutionContext& ctx, const std::vector<Manifold>&) { return ctx.Smooth(g, sharp); };
      break;
    }
    default: {  // LevelSet
      double rad = r.uni(0.6, 1.2), edge = rad / r.uni(3, big ? 14 : 6);
      bool par = r.chance(0.5);
      double tol = r.chance(0.5) ? -1.0 : edge * 0.05;
      w.entry = "LevelSet";
      w.desc = "rad=" + vd::fmt(rad) + ",edge=" + vd::fmt(edge);
      w.run = [rad, edge, par, tol](ExecutionContext& ctx, const std::vector<Manifold>&) {
        return ctx.LevelSet([rad](vec3 p) { return rad - la::length(p); }, Box(vec3(-rad * 1.2), vec3(rad * 1.2)), edge, 0.0, tol, par);
      };
      break;
    }
  }
  return w;
}

struct Obs {
  Manifold::Error st;
  bool empty;
  vo::Hash128 h;
};
Obs observe(const Manifold& m) {
  Obs o;
  o.st = m.Status();
  o.empty = m.IsEmpty();
  o.h = vo::HashMesh(m.GetMeshGL64(), false);
  return o;
}

uint64_t gShimSeed = 0;
void resetSchedule() {
#if defined(VSHIM_ADVERSARIAL)
  tbb::vshim::reseed(gShimSeed);
#endif
}

}  // namespace

void vh_init(vh::Ctx&) { manifold::verif::cancelProbe.store(&probe); }

void vh_case(vh::Ctx& c) {
  vh::Rng& r = c.rng;
  int big = (c.param("big", "0") == "1" && r.chance(0.6)) ? 1 : 0;
  Work w = makeWork(r, big);
  gShimSeed = r.next();
  c.site(w.entry);
  std::vector<vo::Hash128> opHash;
  // Observe operands through COPIES: a const query on the handle itself would
  // replace its (op-node) root by the evaluated leaf and the alias-of-op-node
  // operands would silently turn into plain leaves.
  auto operandHash = [](const Manifold& o) {
    Manifold probe(o);
    return vo::HashMesh(probe.GetMeshGL64(), true);
  };
  for (auto& o : w.operands) opHash.push_back(operandHash(o));

  auto detail = [&](const std::string& what, long k) {
    return vh::J().s("entry", w.entry).s("desc", w.desc).s("what", what).i("cancel_at_check", k).i("checks_in_reference", M.checks)
        .s("site", M.firedSite).s("variant", VERIF_VARIANT).str();
  };

  // ---- run 0: reference, no cancellation
  ExecutionContext ctx0;
  arm(ctx0, -1);
  resetSchedule();
  M.inEval = true;
  Manifold ref = w.run(ctx0, w.operands);
  M.inEval = false;
  const long N = M.checks;
  Manifold refSibling = gSibling;
  gSibling = Manifold();
  Obs R = observe(ref);
  c.count("reference_runs");
  c.count("alias_of_evaluated_opnode_operands", w.aliasOperands);
  c.count("checks_in_reference_runs", N);
  c.count("progress_samples", M.progressSamples);
  bool progressReported = false;  // report once per case, keep exploring (a known finding must not mask the rest)
  if (M.decreases) {
    c.violation("progress:decreases:" + w.entry.substr(0, w.entry.find(':')), vh::J().s("entry", w.entry).s("desc", w.desc).d("from", M.decFrom).d("to", M.decTo).i("at_check", M.decAtCheck).i("times", M.decreases).str());
    progressReported = true;
  }
  if (M.above1) {
    c.violation("progress:above-1:" + w.entry, detail("Progress() > 1 sampled during evaluation", -1));
    return;
  }
  if (R.st == Manifold::Error::NoError && ctx0.Progress() != 1.0) {
    c.violation("progress:not-1-after-completion:" + w.entry, vh::J().s("entry", w.entry).s("desc", w.desc).d("progress", ctx0.Progress()).str());
    return;
  }
  if (ctx0.Cancelled()) {
    c.violation("cancelled-without-cancel:" + w.entry, detail("context reports Cancelled though nobody cancelled", -1));
    return;
  }
  Obs RS;
  if (w.hasSibling) RS = observe(refSibling);
  if (N == 0) {
    c.count("programs_without_checks");
    return;
  }
  c.sig(w.entry + "#" + std::to_string(N > 50) + std::to_string(N > 400) + "#" + std::to_string(big));

  // ---- choose cancellation points
  std::vector<long> ks;
  long cap = c.iparam("maxPoints", 400);
  if (N <= cap)
    for (long k = 1; k <= N; k++) ks.push_back(k);
  else {
    for (long k = 1; k <= cap / 2; k++) ks.push_back(k);
    for (long k = N - 19; k <= N; k++) ks.push_back(k);
    for (long i = 0; i < cap / 2 - 20; i++) ks.push_back(cap / 2 + 1 + (long)r.below((uint64_t)(N - 20 - cap / 2)));
  }
  for (long k : ks) {
    c.heartbeat();  // one evaluation per cancellation point: progress for the driver's watchdog
    ExecutionContext ctx;
    arm(ctx, k);
    resetSchedule();
    M.inEval = true;
    Manifold out = w.run(ctx, w.operands);
    M.inEval = false;
    Manifold sib = gSibling;
    gSibling = Manifold();
    c.count("cancellation_points_exercised");
    if (!M.fired) {
      // the check count differs from the reference run: determinism assumption broken
      c.count("cancel_not_reached");
      if (M.checks != N) {
        c.violation("check-count-not-reproducible:" + w.entry, detail("run with the same schedule made " + std::to_string(M.checks) + " checks, reference " + std::to_string(N), k));
        return;
      }
      continue;
    }
    const std::string site = M.firedSite;
    c.sig("site:" + site);
    if (M.decreases && !progressReported) {
      c.violation("progress:decreases:" + w.entry.substr(0, w.entry.find(':')), vh::J().s("entry", w.entry).s("desc", w.desc).d("from", M.decFrom).d("to", M.decTo).i("at_check", M.decAtCheck).i("cancel_at", k).str());
      progressReported = true;
    }
    Obs O = observe(out);
    bool complete = O.st == R.st && O.h == R.h;
    bool cancelled = O.st == Manifold::Error::Cancelled && O.empty;
    if (complete) c.count("outcome_complete");
    if (cancelled) c.count("outcome_cancelled");
    if (!complete && !cancelled) {
      std::string what = O.st == Manifold::Error::Cancelled ? "Cancelled-but-not-empty"
                         : (O.empty ? std::string("empty-with-status-") + vo::ErrName(O.st) : std::string("partial-result-status-") + vo::ErrName(O.st));
      c.violation("cancel:" + w.entry + ":" + what + "@" + site, detail(what, k));
      return;
    }
    // stays Cancelled; context short-circuits later evaluations
    if (cancelled) {
      if (out.Status() != Manifold::Error::Cancelled) {
        c.violation("cancel:" + w.entry + ":status-changed-after-cancel@" + site, detail("second Status() differs", k));
        return;
      }
    }
    if (!ctx.Cancelled()) {
      c.violation("cancel:" + w.entry + ":context-not-cancelled@" + site, detail("Cancel() was called but Cancelled() is false", k));
      return;
    }
    {
      Manifold later = (w.operands.empty() ? Manifold::Cube() : w.operands[0]) + Manifold::Cube(vec3(0.7)).Translate(vec3(0.2, 0.1, 0.3));
      M.inEval = false;
      Manifold lo = later.WithContext(ctx);
      if (lo.Status() != Manifold::Error::Cancelled) {
        c.violation("cancel:" + w.entry + ":cancelled-context-does-not-short-circuit", detail(std::string("later evaluation through the cancelled context returned ") + vo::ErrName(lo.Status()), k));
        return;
      }
      c.count("short_circuit_checks");
    }
    // operands untouched
    for (size_t i = 0; i < w.operands.size(); i++)
      if (operandHash(w.operands[i]) != opHash[i]) {
        c.violation("cancel:" + w.entry + ":operand-changed@" + site, detail("operand " + std::to_string(i) + " differs after the cancelled call", k));
        return;
      }
    // sibling expression that shares a (possibly poisoned) sub-node, fresh context
    if (w.hasSibling) {
      ExecutionContext fresh;
      Manifold so = sib.WithContext(fresh);
      so.Status();
      Obs S = observe(so);
      // The shared, still lazy sub-expression was part of the cancelled
      // evaluation: the library poisons such in-flight op nodes as Cancelled
      // on purpose (csg_tree.cpp), so "Cancelled and empty" is allowed here.
      // What must never happen is a wrong solid from a partially reduced
      // tree: a NoError sibling must be a valid closed mesh of the reference
      // volume (bit-identity is NOT demanded: its evaluation history differs).
      bool ok;
      std::string why;
      if (S.st == Manifold::Error::Cancelled) {
        ok = S.empty;
        why = "Cancelled but not empty";
        c.count("sibling_poisoned_cancelled");
      } else if (S.st != RS.st) {
        ok = false;
        why = std::string("status ") + vo::ErrName(S.st);
      } else {
        MeshGL64 sm = so.GetMeshGL64();
        vo::TopoReport t = vo::CheckClosedManifold(sm);
        double v1 = so.Volume(), v0 = refSibling.Volume();
        double bound = 4 * std::max(so.GetTolerance(), refSibling.GetTolerance()) * (so.SurfaceArea() + refSibling.SurfaceArea()) + 1e-9;
        ok = t.ok && std::abs(v1 - v0) <= bound;
        why = !t.ok ? "topology " + t.why : "volume " + vd::fmt(v1) + " vs reference " + vd::fmt(v0) + " (bound " + vd::fmt(bound) + ")";
        c.count("sibling_solid_checks");
      }
      if (!ok) {
        c.violation("cancel:" + w.entry + ":sibling-of-cancelled-tree-wrong@" + site,
                    detail("expression sharing a sub-node, evaluated with a fresh context: " + why, k));
        return;
      }
      c.count("sibling_checks");
    }
    // rebuild from the operands with a fresh context (every 8th point + last)
    if (k % 8 == 0 || k == N) {
      ExecutionContext fresh;
      arm(fresh, -1);
      resetSchedule();
      M.inEval = true;
      Manifold again = w.run(fresh, w.operands);
      M.inEval = false;
      gSibling = Manifold();
      Obs A = observe(again);
      if (A.st != R.st || A.h != R.h) {
        c.violation("cancel:" + w.entry + ":rebuild-after-cancel-differs@" + site, detail("rebuilding with a fresh context does not give the reference", k));
        return;
      }
      c.count("rebuild_checks");
    }
  }
  if (c.idx % 7 == 0)
    c.sample(vh::J().i("idx", c.idx).s("entry", w.entry).s("desc", w.desc).i("checks", N).u("points", ks.size()).str());
}
