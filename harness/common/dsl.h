// dsl.h — seeded generator of *programs* over the public Manifold API
// (DESIGN.md §2.3). A program is a sequence of steps over a growing pool of
// live values; every step is logged as text so that a witness is readable.
// Replays regenerate the same program from the case seed.
#pragma once
#include <functional>
#include <sstream>
#include <string>
#include <vector>

#include "manifold/cross_section.h"
#include "manifold/manifold.h"
#include "oracles.h"
#include "vh.h"

namespace vd {
using namespace manifold;

inline std::string fmt(double x) {
  char b[40];
  snprintf(b, sizeof b, "%.17g", x);
  return b;
}
inline std::string fmt(vec3 v) { return "(" + fmt(v.x) + "," + fmt(v.y) + "," + fmt(v.z) + ")"; }

enum class Regime { General, Coincident, NearDegenerate };

struct Val {
  Manifold m;
  std::string how;      // the step that produced it
  bool epsValid = true;  // produced only from constructions that keep epsilon-validity
  bool hasTangents = false;
  size_t trisHint = 0;  // estimate, to keep programs bounded without forcing
};

struct Config {
  size_t maxTris = 4000;      // do not grow values beyond this estimate
  bool allowSmooth = true;    // SmoothOut / SmoothByNormals / Refine*
  bool allowSimplify = true;
  bool allowMinkowski = true;
  bool allowLevelSet = true;
  bool allowWarp = true;
  bool allowProps = true;
  bool allowHull = true;
  bool allowImport = true;
  bool allowDecompose = true;
  bool allowModels = false;
  double pCoincident = 0.25, pNearDegenerate = 0.1;
};

inline Polygons StarPolygon(vh::Rng& r, int n, double rad, bool hole) {
  Polygons p(1);
  std::vector<double> radii(n);
  for (int i = 0; i < n; i++) {
    radii[i] = rad * r.uni(0.55, 1.4);
    double a = 2 * kPi * i / n;
    p[0].push_back({radii[i] * cos(a), radii[i] * sin(a)});
  }
  if (hole) {
    p.emplace_back();
    int k = r.range(3, 6);
    for (int i = k - 1; i >= 0; i--) {
      double a = 2 * kPi * i / k + 0.3;
      p[1].push_back({0.3 * rad * cos(a), 0.3 * rad * sin(a)});
    }
  }
  return p;
}

struct Gen {
  vh::Rng& r;
  Config cfg;
  std::vector<Val> pool;
  std::vector<std::string> log;
  Gen(vh::Rng& rng, Config c = Config()) : r(rng), cfg(c) {}

  double size() { return r.chance(0.15) ? pow(10.0, r.uni(-3, 3)) : r.uni(0.3, 3.0); }
  vec3 randVec(double s) { return vec3(r.uni(-s, s), r.uni(-s, s), r.uni(-s, s)); }

  int add(Manifold m, const std::string& how, bool epsValid, size_t tris, bool tang = false) {
    Val v;
    v.m = std::move(m);
    v.how = how;
    v.epsValid = epsValid;
    v.trisHint = tris;
    v.hasTangents = tang;
    pool.push_back(std::move(v));
    log.push_back("v" + std::to_string(pool.size() - 1) + " = " + how);
    static const bool trace = getenv("VERIF_TRACE") != nullptr;
    if (trace) fprintf(stderr, "TRACE %s\n", log.back().c_str());
    return (int)pool.size() - 1;
  }

  // ---------------------------------------------------------------- leaves
  int leaf() {
    int k = r.range(0, 11);
    switch (k) {
      case 0: case 1: {
        vec3 s(size(), size(), size());
        bool c = r.chance(0.5);
        return add(Manifold::Cube(s, c), "Cube(" + fmt(s) + "," + (c ? "true" : "false") + ")", true, 12);
      }
      case 2: return add(Manifold::Tetrahedron(), "Tetrahedron()", true, 4);
      case 3: case 4: {
        double rad = size();
        int seg = 4 * r.range(1, 6);
        return add(Manifold::Sphere(rad, seg), "Sphere(" + fmt(rad) + "," + std::to_string(seg) + ")", true, (size_t)seg * seg / 2 + 8);
      }
      case 5: case 6: {
        double h = size(), r1 = size(), r2 = r.chance(0.3) ? -1.0 : (r.chance(0.2) ? 0.0 : size());
        int seg = r.range(3, 20);
        bool c = r.chance(0.5);
        return add(Manifold::Cylinder(h, r1, r2, seg, c),
                   "Cylinder(" + fmt(h) + "," + fmt(r1) + "," + fmt(r2) + "," + std::to_string(seg) + "," + (c ? "true" : "false") + ")", true, 4 * seg);
      }
      case 7: {
        int n = r.range(3, 12);
        double rad = size();
        bool hole = r.chance(0.4);
        Polygons p = StarPolygon(r, n, rad, hole);
        double h = size();
        int div = r.range(0, 3);
        double twist = r.chance(0.5) ? 0.0 : r.uni(-90, 90);
        vec2 st = r.chance(0.6) ? vec2(1.0) : vec2(r.uni(0.2, 1.5), r.uni(0.2, 1.5));
        if (r.chance(0.1)) st = vec2(0.0);
        return add(Manifold::Extrude(p, h, div, twist, st),
                   "Extrude(star" + std::to_string(n) + (hole ? "+hole" : "") + ",r=" + fmt(rad) + ",h=" + fmt(h) + ",div=" + std::to_string(div) + ",twist=" + fmt(twist) + ",scaleTop=(" + fmt(st.x) + "," + fmt(st.y) + "))",
                   // a twisted extrusion with few divisions can have crossing side
                   // triangles: eps-validity is only claimed for untwisted ones
                   twist == 0.0, (size_t)(n + 6) * 2 * (div + 2));
      }
      case 8: {
        int n = r.range(3, 9);
        double rad = size();
        Polygons p = StarPolygon(r, n, rad, false);
        double off = r.chance(0.7) ? rad * r.uni(1.5, 3.0) : rad * r.uni(-0.5, 0.5);
        for (auto& q : p[0]) q.x += off;
        int seg = r.range(3, 16);
        double deg = r.chance(0.5) ? 360.0 : r.uni(10, 350);
        return add(Manifold::Revolve(p, seg, deg),
                   "Revolve(star" + std::to_string(n) + ",r=" + fmt(rad) + ",xoff=" + fmt(off) + ",seg=" + std::to_string(seg) + ",deg=" + fmt(deg) + ")", true, (size_t)n * seg * 2 + 2 * n);
      }
      case 9: {
        if (!cfg.allowHull) return leaf();
        int n = r.range(4, 40);
        double s = size();
        std::vector<vec3> pts(n);
        for (auto& p : pts) p = randVec(s);
        return add(Manifold::Hull(pts), "Hull(" + std::to_string(n) + " random pts, s=" + fmt(s) + ")", true, 2 * n);
      }
      case 10: {
        if (!cfg.allowLevelSet) return leaf();
        double rad = r.uni(0.5, 2.0);
        int kind = r.range(0, 2);
        double edge = rad / r.uni(2.5, 6.0);
        Box b(vec3(-rad * 1.3), vec3(rad * 1.3));
        std::function<double(vec3)> f;
        if (kind == 0) f = [rad](vec3 p) { return rad - la::length(p); };
        else if (kind == 1) f = [rad](vec3 p) { return std::min(rad - la::length(p), la::length(p) - rad * 0.5); };
        else f = [rad](vec3 p) { return std::min({rad - std::abs(p.x), rad * 0.8 - std::abs(p.y), rad * 0.6 - std::abs(p.z)}); };
        double tol = r.chance(0.5) ? -1.0 : edge * 0.05;
        return add(Manifold::LevelSet(f, b, edge, 0.0, tol, r.chance(0.5)),
                   "LevelSet(kind=" + std::to_string(kind) + ",rad=" + fmt(rad) + ",edge=" + fmt(edge) + ",tol=" + fmt(tol) + ")", true, 3000);
      }
      default: {
        if (!cfg.allowImport) return leaf();
        return importLeaf();
      }
    }
  }

  // A primitive exported, decorated with property channels / face IDs /
  // reserved IDs, and re-imported through the MeshGL64 or MeshGL constructor.
  int importLeaf() {
    Manifold base = r.chance(0.5) ? Manifold::Cube(vec3(size(), size(), size()), r.chance(0.5))
                                  : Manifold::Sphere(size(), 4 * r.range(1, 4));
    MeshGL64 g = base.GetMeshGL64();
    int extra = r.range(0, 4);
    std::string d = "Import(";
    if (extra > 0) {
      size_t nv = g.vertProperties.size() / 3;
      std::vector<double> np(nv * (3 + extra));
      // affine property field: prop_k = a_k . p + b_k
      std::vector<vec3> a(extra);
      std::vector<double> b(extra);
      for (int k = 0; k < extra; k++) { a[k] = randVec(2); b[k] = r.uni(-1, 1); }
      for (size_t v = 0; v < nv; v++) {
        vec3 p(g.vertProperties[3 * v], g.vertProperties[3 * v + 1], g.vertProperties[3 * v + 2]);
        for (int k = 0; k < 3; k++) np[v * (3 + extra) + k] = p[k];
        for (int k = 0; k < extra; k++) np[v * (3 + extra) + 3 + k] = la::dot(a[k], p) + b[k];
      }
      g.vertProperties = np;
      g.numProp = 3 + extra;
      d += "props=" + std::to_string(extra) + ",";
    }
    if (r.chance(0.5)) {
      g.faceID.resize(g.triVerts.size() / 3);
      int mode = r.range(0, 1);
      for (size_t t = 0; t < g.faceID.size(); t++) g.faceID[t] = mode ? t : t / 2;
      d += std::string("faceID=") + (mode ? "per-tri" : "pairs") + ",";
    } else
      g.faceID.clear();
    if (r.chance(0.5)) {
      uint32_t id = Manifold::ReserveIDs(1);
      g.runOriginalID = {id};
      g.runIndex = {0, g.triVerts.size()};
      g.runTransform.clear();
      g.runFlags.clear();
      d += "reservedID,";
    } else {
      g.runOriginalID.clear();
      g.runIndex.clear();
      g.runTransform.clear();
      g.runFlags.clear();
    }
    bool f32 = r.chance(0.3);
    d += f32 ? "MeshGL)" : "MeshGL64)";
    if (f32) {
      MeshGL m;
      m.numProp = (uint32_t)g.numProp;
      m.vertProperties.assign(g.vertProperties.begin(), g.vertProperties.end());
      m.triVerts.assign(g.triVerts.begin(), g.triVerts.end());
      m.mergeFromVert.assign(g.mergeFromVert.begin(), g.mergeFromVert.end());
      m.mergeToVert.assign(g.mergeToVert.begin(), g.mergeToVert.end());
      m.runIndex.assign(g.runIndex.begin(), g.runIndex.end());
      m.runOriginalID = g.runOriginalID;
      m.faceID.assign(g.faceID.begin(), g.faceID.end());
      return add(Manifold(m), d, true, g.triVerts.size() / 3);
    }
    return add(Manifold(g), d, true, g.triVerts.size() / 3);
  }

  int pickIdx() { return (int)r.below(pool.size()); }
  // prefer recent values (so programs form chains) but allow any
  int pickBiased() {
    if (r.chance(0.6) && pool.size() > 2) return (int)pool.size() - 1 - (int)r.below(std::min<size_t>(3, pool.size()));
    return pickIdx();
  }

  Manifold placeRelative(const Manifold& b, const Manifold& a, Regime reg, std::string& d) {
    // position b relative to a according to the regime
    if (reg == Regime::General) {
      vec3 t = randVec(1.0);
      vec3 rot(r.uni(-180, 180), r.uni(-180, 180), r.uni(-180, 180));
      d += ".Rotate" + fmt(rot) + ".Translate" + fmt(t);
      return b.Rotate(rot.x, rot.y, rot.z).Translate(t);
    }
    if (reg == Regime::Coincident) {
      int k = r.range(0, 3);
      if (k == 0) { d += "(same pose)"; return b; }
      if (k == 1) {
        int q = r.range(1, 3);
        d += ".Rotate(0,0," + std::to_string(90 * q) + ")";
        return b.Rotate(0, 0, 90.0 * q);
      }
      Box bb = a.BoundingBox();
      vec3 s = bb.Size();
      int ax = r.range(0, 2);
      vec3 t(0.0);
      t[ax] = (r.chance(0.5) ? 1 : -1) * (k == 2 ? s[ax] : s[ax] / 2);
      if (!std::isfinite(t[ax])) t[ax] = 0;
      d += ".Translate" + fmt(t);
      return b.Translate(t);
    }
    // near-degenerate: offsets of a few epsilons
    double e = a.GetEpsilon();
    if (!std::isfinite(e) || e <= 0) e = 1e-12;
    vec3 t = randVec(1.0) * (e * r.range(1, 8));
    d += ".Translate" + fmt(t);
    return b.Translate(t);
  }

  Regime pickRegime() {
    double u = r.uni();
    if (u < cfg.pCoincident) return Regime::Coincident;
    if (u < cfg.pCoincident + cfg.pNearDegenerate) return Regime::NearDegenerate;
    return Regime::General;
  }

  // ---------------------------------------------------------------- one step
  // returns indices of new values (possibly several: Split, Decompose)
  std::vector<int> step() {
    if (pool.empty() || (pool.size() < 3 && r.chance(0.7)) || r.chance(0.12)) return {leaf()};
    int op = r.range(0, 27);
    int ia = pickBiased();
    // NB: take copies of handles, pool may reallocate
    Manifold a = pool[ia].m;
    const bool aValid = pool[ia].epsValid;
    const size_t aTris = pool[ia].trisHint;
    const bool aTang = pool[ia].hasTangents;
    std::string A = "v" + std::to_string(ia);
    auto tooBig = [&](size_t t) { return t > cfg.maxTris; };
    switch (op) {
      case 0: case 1: case 2: case 3: {  // Boolean
        int ib = pickIdx();
        Manifold b = pool[ib].m;
        OpType ot = (OpType)r.range(0, 2);
        if (tooBig(aTris + pool[ib].trisHint)) return {leaf()};
        Regime reg = pickRegime();
        std::string d = "v" + std::to_string(ib);
        Manifold bp = placeRelative(b, a, reg, d);
        static const char* on[] = {"Add", "Subtract", "Intersect"};
        bool ev = aValid && pool[ib].epsValid && reg == Regime::General && ia != ib;
        return {add(a.Boolean(bp, ot), A + ".Boolean(" + d + "," + on[(int)ot] + ")", ev, (aTris + pool[ib].trisHint) * 2 + 16)};
      }
      case 4: {  // BatchBoolean
        int n = r.range(2, 6);
        std::vector<Manifold> ms;
        std::string d = "BatchBoolean([";
        size_t tot = 0;
        bool ev = true;
        for (int i = 0; i < n; i++) {
          int j = pickIdx();
          std::string dj = "v" + std::to_string(j);
          ms.push_back(placeRelative(pool[j].m, a, pickRegime(), dj));
          tot += pool[j].trisHint;
          ev = false;  // overlapping copies: not claimed eps-valid
          d += dj + (i + 1 < n ? "," : "");
        }
        if (tooBig(tot)) return {leaf()};
        OpType ot = (OpType)r.range(0, 2);
        static const char* on[] = {"Add", "Subtract", "Intersect"};
        return {add(Manifold::BatchBoolean(ms, ot), d + "]," + on[(int)ot] + ")", ev, tot * 2 + 16)};
      }
      case 5: {
        vec3 t = randVec(2.0);
        return {add(a.Translate(t), A + ".Translate" + fmt(t), aValid, aTris, aTang)};
      }
      case 6: {
        vec3 rot = r.chance(0.3) ? vec3(90.0 * r.range(-3, 3), 90.0 * r.range(-3, 3), 90.0 * r.range(-3, 3)) : vec3(r.uni(-360, 360), r.uni(-360, 360), r.uni(-360, 360));
        return {add(a.Rotate(rot.x, rot.y, rot.z), A + ".Rotate" + fmt(rot), aValid, aTris, aTang)};
      }
      case 7: {
        vec3 s = r.chance(0.3) ? vec3(r.uni(0.2, 3)) : vec3(r.uni(0.2, 3), r.uni(0.2, 3), r.uni(0.2, 3));
        if (r.chance(0.2)) s[r.range(0, 2)] *= -1;
        return {add(a.Scale(s), A + ".Scale" + fmt(s), aValid, aTris, aTang)};
      }
      case 8: {
        vec3 n = r.chance(0.4) ? vec3(r.range(0, 1), r.range(0, 1), 1) : randVec(1.0);
        return {add(a.Mirror(n), A + ".Mirror" + fmt(n), aValid, aTris, aTang)};
      }
      case 9: {
        mat3x4 m;
        for (int c = 0; c < 4; c++)
          for (int k = 0; k < 3; k++) m[c][k] = (c == k ? 1.0 : 0.0) + r.uni(-0.5, 0.5);
        std::ostringstream o;
        o.precision(17);
        for (int c = 0; c < 4; c++) o << (c ? ";" : "") << m[c][0] << "," << m[c][1] << "," << m[c][2];
        return {add(a.Transform(m), A + ".Transform(" + o.str() + ")", aValid, aTris, aTang)};
      }
      case 10: {
        if (!cfg.allowWarp) return {leaf()};
        double amp = r.uni(0.01, 0.2), fr = r.uni(0.5, 3.0);
        int ax = r.range(0, 2);
        auto f = [amp, fr, ax](vec3& p) { p[ax] += amp * sin(fr * p[(ax + 1) % 3]); };
        bool batch = r.chance(0.4);
        std::string d = A + (batch ? ".WarpBatch" : ".Warp") + "(axis" + std::to_string(ax) + "+=" + fmt(amp) + "*sin(" + fmt(fr) + "*next))";
        if (batch)
          return {add(a.WarpBatch([f](VecView<vec3> vs) { for (auto& p : vs) f(p); }), d, false, aTris)};
        return {add(a.Warp(f), d, false, aTris)};
      }
      case 11: {
        if (!cfg.allowProps) return {leaf()};
        int np = r.range(0, 4);
        vec3 g1 = randVec(1.0);
        double c0 = r.uni(-1, 1);
        auto f = [np, g1, c0](double* out, vec3 p, const double* old) {
          for (int i = 0; i < np; i++) out[i] = la::dot(g1, p) * (i + 1) + c0;
        };
        return {add(a.SetProperties(np, f), A + ".SetProperties(" + std::to_string(np) + ",affine)", aValid, aTris, aTang)};
      }
      case 12: {
        if (!cfg.allowProps) return {leaf()};
        int idx = r.chance(0.7) ? 0 : r.range(0, 3);
        double ang = r.chance(0.5) ? 52.5 : r.uni(0, 180);
        return {add(a.CalculateNormals(idx, ang), A + ".CalculateNormals(" + std::to_string(idx) + "," + fmt(ang) + ")", aValid, aTris, aTang)};
      }
      case 13: {
        if (!cfg.allowProps) return {leaf()};
        int g = r.range(-1, 3), m = r.range(-1, 3);
        return {add(a.CalculateCurvature(g, m), A + ".CalculateCurvature(" + std::to_string(g) + "," + std::to_string(m) + ")", aValid, aTris, aTang)};
      }
      case 14: {
        if (!cfg.allowSmooth) return {leaf()};
        int n = r.range(1, 4);
        if (tooBig(aTris * n * n)) return {leaf()};
        return {add(a.Refine(n), A + ".Refine(" + std::to_string(n) + ")", aValid && !aTang, aTris * n * n)};
      }
      case 15: {
        if (!cfg.allowSmooth) return {leaf()};
        if (tooBig(aTris * 6)) return {leaf()};
        Box bb = a.BoundingBox();
        double s = la::length(bb.Size());
        if (!std::isfinite(s) || s <= 0) s = 1;
        double len = s / r.uni(2, 12);
        return {add(a.RefineToLength(len), A + ".RefineToLength(" + fmt(len) + ")", aValid && !aTang, aTris * 8)};
      }
      case 16: {
        if (!cfg.allowSmooth) return {leaf()};
        if (tooBig(aTris * 6)) return {leaf()};
        Box bb = a.BoundingBox();
        double s = la::length(bb.Size());
        if (!std::isfinite(s) || s <= 0) s = 1;
        double tol = s / r.uni(20, 300);
        return {add(a.RefineToTolerance(tol), A + ".RefineToTolerance(" + fmt(tol) + ")", aValid && !aTang, aTris * 8)};
      }
      case 17: {
        if (!cfg.allowSmooth) return {leaf()};
        double ang = r.chance(0.5) ? 52.5 : r.uni(0, 180), sm = r.chance(0.5) ? 0.0 : r.uni(0, 1);
        return {add(a.SmoothOut(ang, sm), A + ".SmoothOut(" + fmt(ang) + "," + fmt(sm) + ")", aValid, aTris, true)};
      }
      case 18: {
        if (!cfg.allowSmooth || !cfg.allowProps) return {leaf()};
        return {add(a.CalculateNormals(0).SmoothByNormals(0), A + ".CalculateNormals(0).SmoothByNormals(0)", aValid, aTris, true)};
      }
      case 19: {
        if (!cfg.allowSimplify) return {leaf()};
        Box bb = a.BoundingBox();
        double s = la::length(bb.Size());
        if (!std::isfinite(s) || s <= 0) s = 1;
        double tol = r.chance(0.3) ? 0.0 : s * pow(10.0, r.uni(-6, -1.5));
        if (r.chance(0.5)) return {add(a.Simplify(tol), A + ".Simplify(" + fmt(tol) + ")", false, aTris, aTang)};
        return {add(a.SetTolerance(tol), A + ".SetTolerance(" + fmt(tol) + ")", false, aTris, aTang)};
      }
      case 20: return {add(a.AsOriginal(), A + ".AsOriginal()", aValid, aTris, aTang)};
      case 21: {
        if (!cfg.allowDecompose) return {leaf()};
        auto parts = a.Decompose();
        std::vector<int> out;
        for (size_t i = 0; i < parts.size() && i < 3; i++)
          out.push_back(add(parts[i], A + ".Decompose()[" + std::to_string(i) + "/" + std::to_string(parts.size()) + "]", aValid, aTris, aTang));
        if (out.empty()) return {leaf()};
        return out;
      }
      case 22: {
        if (!cfg.allowHull) return {leaf()};
        if (r.chance(0.5)) return {add(a.Hull(), A + ".Hull()", aValid, aTris)};
        int ib = pickIdx();
        return {add(Manifold::Hull({a, pool[ib].m}), "Hull({" + A + ",v" + std::to_string(ib) + "})", aValid && pool[ib].epsValid, aTris + pool[ib].trisHint)};
      }
      case 23: {  // Split
        int ib = pickIdx();
        if (tooBig(aTris + pool[ib].trisHint)) return {leaf()};
        std::string d = "v" + std::to_string(ib);
        Regime reg = pickRegime();
        Manifold bp = placeRelative(pool[ib].m, a, reg, d);
        bool ev = aValid && pool[ib].epsValid && reg == Regime::General && ia != ib;
        auto pr = a.Split(bp);
        int i1 = add(pr.first, A + ".Split(" + d + ").first", ev, (aTris + pool[ib].trisHint) * 2);
        int i2 = add(pr.second, A + ".Split(" + d + ").second", ev, (aTris + pool[ib].trisHint) * 2);
        return {i1, i2};
      }
      case 24: {
        vec3 n = r.chance(0.3) ? vec3(0, 0, 1) : randVec(1.0);
        Box bb = a.BoundingBox();
        vec3 c = bb.Center();
        double off = std::isfinite(c.x) ? la::dot(c, la::normalize(n)) + r.uni(-0.3, 0.3) : 0.0;
        if (!std::isfinite(off)) off = 0;
        if (r.chance(0.5)) {
          auto pr = a.SplitByPlane(n, off);
          int i1 = add(pr.first, A + ".SplitByPlane(" + fmt(n) + "," + fmt(off) + ").first", aValid, aTris * 2);
          int i2 = add(pr.second, A + ".SplitByPlane(" + fmt(n) + "," + fmt(off) + ").second", aValid, aTris * 2);
          return {i1, i2};
        }
        return {add(a.TrimByPlane(n, off), A + ".TrimByPlane(" + fmt(n) + "," + fmt(off) + ")", aValid, aTris * 2)};
      }
      case 25: {
        if (!cfg.allowMinkowski) return {leaf()};
        int ib = pickIdx();
        if (aTris > 200 || pool[ib].trisHint > 60) return {leaf()};
        // the hints are estimates: bound the real cost (face-count product, and
        // a non-convex pair is far slower still) by the actual triangle counts
        if (a.NumTri() > 200 || pool[ib].m.NumTri() > 60 || a.NumTri() * pool[ib].m.NumTri() > 4000) return {leaf()};
        bool sum = r.chance(0.6);
        Manifold b = pool[ib].m.Scale(vec3(0.2));
        return {add(sum ? a.MinkowskiSum(b) : a.MinkowskiDifference(b), A + (sum ? ".MinkowskiSum(v" : ".MinkowskiDifference(v") + std::to_string(ib) + ".Scale(0.2))", false, aTris * 4)};
      }
      case 26: {  // copy / round trip
        int k = r.range(0, 3);
        if (k == 0) { Manifold c(a); return {add(c, "copy(" + A + ")", aValid, aTris, aTang)}; }
        if (k == 1) { Manifold c; c = a; return {add(c, "assign(" + A + ")", aValid, aTris, aTang)}; }
        if (k == 2) return {add(Manifold(a.GetMeshGL64()), "Manifold(" + A + ".GetMeshGL64())", aValid, aTris, aTang)};
        return {add(Manifold(a.GetMeshGL()), "Manifold(" + A + ".GetMeshGL())", false, aTris, aTang)};
      }
      default: {  // Compose of disjoint copies
        int ib = pickIdx();
        Box ba = a.BoundingBox(), bb = pool[ib].m.BoundingBox();
        double dx = ba.max.x - bb.min.x + r.uni(0.1, 1.0);
        if (!std::isfinite(dx)) dx = 0;
        if (tooBig(aTris + pool[ib].trisHint)) return {leaf()};
        return {add(Manifold::Compose({a, pool[ib].m.Translate({dx, 0, 0})}), "Compose({" + A + ",v" + std::to_string(ib) + ".Translate(" + fmt(dx) + ",0,0)})", aValid && pool[ib].epsValid, aTris + pool[ib].trisHint)};
      }
    }
  }

  std::string program() const {
    std::string s;
    for (auto& l : log) s += l + "\n";
    return s;
  }
  std::string programJson(size_t cap = 60) const {
    std::string s = "[";
    size_t start = log.size() > cap ? log.size() - cap : 0;
    for (size_t i = start; i < log.size(); i++) s += (i > start ? ",\"" : "\"") + vh::jesc(log[i]) + "\"";
    return s + "]";
  }
};

}  // namespace vd
