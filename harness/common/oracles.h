// oracles.h — independent oracles over the PUBLIC output of the library
// (MeshGL64 / Polygons). Nothing here calls into the library's algorithms.
#pragma once
#include <algorithm>
#include <array>
#include <cmath>
#include <cstdint>
#include <map>
#include <numeric>
#include <string>
#include <unordered_map>
#include <vector>

#include "manifold/manifold.h"
#include "vh.h"

namespace vo {
using manifold::MeshGL64;
using manifold::vec3;

// ---------------------------------------------------------------- hashing
struct Hash128 {
  uint64_t a = 0xcbf29ce484222325ull, b = 0x84222325cbf29ce4ull;
  void add(const void* p, size_t n) {
    const unsigned char* c = (const unsigned char*)p;
    for (size_t i = 0; i < n; i++) {
      a = (a ^ c[i]) * 0x100000001b3ull;
      b = (b + c[i] + 1) * 0x9e3779b97f4a7c15ull;
      b ^= b >> 29;
    }
  }
  template <class T>
  void vec(const std::vector<T>& v) {
    uint64_t n = v.size();
    add(&n, sizeof n);
    if (n) add(v.data(), n * sizeof(T));
  }
  template <class T>
  void pod(const T& v) { add(&v, sizeof v); }
  std::string hex() const {
    char t[40];
    snprintf(t, sizeof t, "%016llx%016llx", (unsigned long long)a, (unsigned long long)b);
    return t;
  }
  bool operator==(const Hash128& o) const { return a == o.a && b == o.b; }
  bool operator!=(const Hash128& o) const { return !(*this == o); }
};

// Every field of a MeshGL64, raw bytes. `withIDs=false` replaces runOriginalID
// by its rank pattern (dense ranks), for comparisons across processes whose
// global ID counter may legitimately differ.
inline Hash128 HashMesh(const MeshGL64& m, bool withIDs = true) {
  Hash128 h;
  h.pod(m.numProp);
  h.vec(m.vertProperties);
  h.vec(m.triVerts);
  h.vec(m.mergeFromVert);
  h.vec(m.mergeToVert);
  h.vec(m.runIndex);
  if (withIDs)
    h.vec(m.runOriginalID);
  else {
    std::vector<uint32_t> ids = m.runOriginalID, sorted = m.runOriginalID;
    std::sort(sorted.begin(), sorted.end());
    sorted.erase(std::unique(sorted.begin(), sorted.end()), sorted.end());
    for (auto& x : ids)
      x = (uint32_t)(std::lower_bound(sorted.begin(), sorted.end(), x) - sorted.begin());
    h.vec(ids);
  }
  h.vec(m.runTransform);
  h.vec(m.runFlags);
  h.vec(m.faceID);
  h.vec(m.halfedgeTangent);
  h.pod(m.tolerance);
  return h;
}

inline Hash128 HashPolygons(const manifold::Polygons& p) {
  Hash128 h;
  uint64_t n = p.size();
  h.pod(n);
  for (auto& r : p) {
    uint64_t k = r.size();
    h.pod(k);
    for (auto& v : r) {
      h.pod(v.x);
      h.pod(v.y);
    }
  }
  return h;
}

// ---------------------------------------------------------------- topology
struct TopoReport {
  bool ok = true;
  std::string why;   // first failing clause (stable short token)
  std::string info;  // human detail
  size_t V = 0, E = 0, F = 0;  // recount after merging
  long chi = 0;
  void fail(const std::string& w, const std::string& i = "") {
    if (ok) {
      ok = false;
      why = w;
      info = i;
    }
  }
};

struct UF {
  std::vector<uint32_t> p;
  explicit UF(size_t n) : p(n) { std::iota(p.begin(), p.end(), 0u); }
  uint32_t find(uint32_t x) {
    while (p[x] != x) {
      p[x] = p[p[x]];
      x = p[x];
    }
    return x;
  }
  void unite(uint32_t a, uint32_t b) {
    a = find(a);
    b = find(b);
    if (a != b) p[std::max(a, b)] = std::min(a, b);
  }
};

// The clauses of C01, literally, on an exported mesh.
inline TopoReport CheckClosedManifold(const MeshGL64& m) {
  TopoReport r;
  if (m.numProp < 3) { r.fail("numProp<3"); return r; }
  if (m.vertProperties.size() % m.numProp) { r.fail("vertProperties-stride"); return r; }
  if (m.triVerts.size() % 3) { r.fail("triVerts-not-multiple-of-3"); return r; }
  const size_t nv = m.vertProperties.size() / m.numProp, nt = m.triVerts.size() / 3;
  for (double x : m.vertProperties)
    if (!std::isfinite(x)) { r.fail("non-finite-vertProperty"); return r; }
  for (double x : m.halfedgeTangent)
    if (!std::isfinite(x)) { r.fail("non-finite-tangent"); return r; }
  for (double x : m.runTransform)
    if (!std::isfinite(x)) { r.fail("non-finite-runTransform"); return r; }
  if (!std::isfinite(m.tolerance)) { r.fail("non-finite-tolerance"); return r; }
  for (auto i : m.triVerts)
    if (i >= nv) { r.fail("triVert-out-of-range", std::to_string(i)); return r; }
  if (m.mergeFromVert.size() != m.mergeToVert.size()) { r.fail("merge-length-mismatch"); return r; }
  UF uf(nv);
  for (size_t i = 0; i < m.mergeFromVert.size(); i++) {
    if (m.mergeFromVert[i] >= nv || m.mergeToVert[i] >= nv) { r.fail("merge-index-out-of-range"); return r; }
    uf.unite((uint32_t)m.mergeFromVert[i], (uint32_t)m.mergeToVert[i]);
  }
  std::vector<char> referenced(nv, 0);
  std::vector<uint64_t> edges;
  edges.reserve(nt * 3);
  for (size_t t = 0; t < nt; t++) {
    uint32_t v[3];
    for (int k = 0; k < 3; k++) {
      referenced[m.triVerts[3 * t + k]] = 1;
      v[k] = uf.find((uint32_t)m.triVerts[3 * t + k]);
    }
    if (v[0] == v[1] || v[1] == v[2] || v[0] == v[2]) { r.fail("triangle-repeats-vertex", "tri " + std::to_string(t)); return r; }
    for (int k = 0; k < 3; k++) edges.push_back(((uint64_t)v[k] << 32) | v[(k + 1) % 3]);
  }
  for (size_t i = 0; i < nv; i++)
    if (!referenced[i]) { r.fail("unreferenced-vertex", "vert " + std::to_string(i)); return r; }
  std::sort(edges.begin(), edges.end());
  for (size_t i = 1; i < edges.size(); i++)
    if (edges[i] == edges[i - 1]) { r.fail("directed-edge-repeated", std::to_string(edges[i] >> 32) + "->" + std::to_string(edges[i] & 0xffffffffu)); return r; }
  for (auto e : edges) {
    uint64_t opp = (e << 32) | (e >> 32);
    if (!std::binary_search(edges.begin(), edges.end(), opp)) { r.fail("edge-without-opposite", std::to_string(e >> 32) + "->" + std::to_string(e & 0xffffffffu)); return r; }
  }
  std::vector<char> isRoot(nv, 0);
  size_t V = 0;
  for (size_t i = 0; i < nv; i++) {
    uint32_t f = uf.find((uint32_t)i);
    if (!isRoot[f]) { isRoot[f] = 1; V++; }
  }
  r.V = V;
  r.F = nt;
  r.E = edges.size() / 2;
  r.chi = (long)V - (long)r.E + (long)nt;
  if (r.chi % 2 != 0) r.fail("odd-euler-characteristic", std::to_string(r.chi));
  return r;
}

// Run table clauses shared by C01 (index validity) and C07.
inline std::string CheckRunTable(const MeshGL64& m) {
  size_t nr = m.runOriginalID.size();
  if (m.runIndex.size() != nr + 1 && !(nr == 0 && m.runIndex.empty())) return "runIndex-length";
  if (nr == 0) return "";
  if (m.runIndex.front() != 0) return "runIndex-does-not-start-at-0";
  if (m.runIndex.back() != m.triVerts.size()) return "runIndex-does-not-cover-triVerts";
  for (size_t i = 0; i + 1 < m.runIndex.size(); i++) {
    if (m.runIndex[i] > m.runIndex[i + 1]) return "runIndex-not-monotone";
    if (m.runIndex[i] % 3) return "runIndex-not-multiple-of-3";
  }
  for (size_t i = 1; i < nr; i++)
    if (m.runOriginalID[i - 1] > m.runOriginalID[i]) return "runOriginalID-not-sorted";
  if (!m.runTransform.empty() && m.runTransform.size() != 12 * nr) return "runTransform-length";
  if (!m.runFlags.empty() && m.runFlags.size() != nr) return "runFlags-length";
  if (!m.faceID.empty() && m.faceID.size() != m.triVerts.size() / 3) return "faceID-length";
  if (!m.halfedgeTangent.empty() && m.halfedgeTangent.size() != 4 * m.triVerts.size()) return "tangent-length";
  return "";
}

// ---------------------------------------------------------------- 3D geometry
struct V3 {
  long double x, y, z;
};
inline V3 operator-(V3 a, V3 b) { return {a.x - b.x, a.y - b.y, a.z - b.z}; }
inline V3 operator+(V3 a, V3 b) { return {a.x + b.x, a.y + b.y, a.z + b.z}; }
inline V3 operator*(V3 a, long double s) { return {a.x * s, a.y * s, a.z * s}; }
inline long double dot(V3 a, V3 b) { return a.x * b.x + a.y * b.y + a.z * b.z; }
inline V3 cross(V3 a, V3 b) { return {a.y * b.z - a.z * b.y, a.z * b.x - a.x * b.z, a.x * b.y - a.y * b.x}; }
inline long double norm(V3 a) { return sqrtl(dot(a, a)); }

struct Soup {
  std::vector<V3> v;
  std::vector<std::array<uint32_t, 3>> t;
  V3 lo{1e300L, 1e300L, 1e300L}, hi{-1e300L, -1e300L, -1e300L};
  long double scale = 0;  // max |coordinate|
  bool empty() const { return t.empty(); }
};

inline Soup MakeSoup(const MeshGL64& m) {
  Soup s;
  size_t nv = m.vertProperties.size() / m.numProp;
  s.v.resize(nv);
  for (size_t i = 0; i < nv; i++) {
    s.v[i] = {m.vertProperties[i * m.numProp], m.vertProperties[i * m.numProp + 1], m.vertProperties[i * m.numProp + 2]};
    s.lo = {std::min(s.lo.x, s.v[i].x), std::min(s.lo.y, s.v[i].y), std::min(s.lo.z, s.v[i].z)};
    s.hi = {std::max(s.hi.x, s.v[i].x), std::max(s.hi.y, s.v[i].y), std::max(s.hi.z, s.v[i].z)};
    s.scale = std::max({s.scale, fabsl(s.v[i].x), fabsl(s.v[i].y), fabsl(s.v[i].z)});
  }
  s.t.resize(m.triVerts.size() / 3);
  for (size_t i = 0; i < s.t.size(); i++)
    s.t[i] = {(uint32_t)m.triVerts[3 * i], (uint32_t)m.triVerts[3 * i + 1], (uint32_t)m.triVerts[3 * i + 2]};
  return s;
}

// Generalised winding number by summed signed solid angles
// (Van Oosterom & Strackee 1983), in long double.
inline long double WindingNumber(const Soup& s, V3 p) {
  long double total = 0;
  for (auto& tr : s.t) {
    V3 a = s.v[tr[0]] - p, b = s.v[tr[1]] - p, c = s.v[tr[2]] - p;
    long double la = norm(a), lb = norm(b), lc = norm(c);
    long double num = dot(a, cross(b, c));
    long double den = la * lb * lc + dot(a, b) * lc + dot(b, c) * la + dot(c, a) * lb;
    total += 2 * atan2l(num, den);
  }
  return total / (4 * 3.14159265358979323846264338327950288L);
}

inline long double PointTriDist2(V3 p, V3 a, V3 b, V3 c) {
  // Ericson, Real-Time Collision Detection, 5.1.5
  V3 ab = b - a, ac = c - a, ap = p - a;
  long double d1 = dot(ab, ap), d2 = dot(ac, ap);
  if (d1 <= 0 && d2 <= 0) return dot(ap, ap);
  V3 bp = p - b;
  long double d3 = dot(ab, bp), d4 = dot(ac, bp);
  if (d3 >= 0 && d4 <= d3) return dot(bp, bp);
  long double vc = d1 * d4 - d3 * d2;
  if (vc <= 0 && d1 >= 0 && d3 <= 0) {
    long double v = d1 / (d1 - d3);
    V3 q = a + ab * v - p;
    return dot(q, q);
  }
  V3 cp = p - c;
  long double d5 = dot(ab, cp), d6 = dot(ac, cp);
  if (d6 >= 0 && d5 <= d6) return dot(cp, cp);
  long double vb = d5 * d2 - d1 * d6;
  if (vb <= 0 && d2 >= 0 && d6 <= 0) {
    long double w = d2 / (d2 - d6);
    V3 q = a + ac * w - p;
    return dot(q, q);
  }
  long double va = d3 * d6 - d5 * d4;
  if (va <= 0 && (d4 - d3) >= 0 && (d5 - d6) >= 0) {
    long double w = (d4 - d3) / ((d4 - d3) + (d5 - d6));
    V3 q = b + (c - b) * w - p;
    return dot(q, q);
  }
  V3 n = cross(ab, ac);
  long double nn = dot(n, n);
  if (nn == 0) {  // degenerate triangle: distance to its longest edge handled above mostly
    return std::min({dot(ap, ap), dot(bp, bp), dot(cp, cp)});
  }
  long double dist = dot(ap, n);
  return dist * dist / nn;
}

inline long double DistToSurface(const Soup& s, V3 p) {
  long double best = 1e300L;
  for (auto& tr : s.t) best = std::min(best, PointTriDist2(p, s.v[tr[0]], s.v[tr[1]], s.v[tr[2]]));
  return sqrtl(best);
}

// Classification of a point: +1 inside (winding 1), 0 outside, -9 undecided
// (non-integral winding, or winding not in {0,1}: reported separately).
struct Cls {
  int w = 0;        // rounded winding
  bool integral = false;
};
inline Cls Classify(const Soup& s, V3 p) {
  Cls c;
  if (s.empty()) {
    c.w = 0;
    c.integral = true;
    return c;
  }
  long double w = WindingNumber(s, p);
  long double r = roundl(w);
  c.w = (int)r;
  c.integral = fabsl(w - r) < 0.01L;
  return c;
}

inline long double SoupVolume(const Soup& s) {
  long double v = 0;
  for (auto& tr : s.t) v += dot(s.v[tr[0]], cross(s.v[tr[1]], s.v[tr[2]]));
  return v / 6;
}
inline long double SoupArea(const Soup& s) {
  long double a = 0;
  for (auto& tr : s.t) a += norm(cross(s.v[tr[1]] - s.v[tr[0]], s.v[tr[2]] - s.v[tr[0]]));
  return a / 2;
}

inline V3 toV3(vec3 p) { return {p.x, p.y, p.z}; }
inline vec3 toVec3(V3 p) { return vec3((double)p.x, (double)p.y, (double)p.z); }

// ---------------------------------------------------------------- descriptions
inline std::string MeshBrief(const MeshGL64& m) {
  return vh::J().u("numProp", m.numProp).u("nVert", m.numProp ? m.vertProperties.size() / m.numProp : 0)
      .u("nTri", m.triVerts.size() / 3).u("nMerge", m.mergeFromVert.size()).u("nRun", m.runOriginalID.size())
      .u("nFaceID", m.faceID.size()).u("nTangent", m.halfedgeTangent.size()).d("tol", m.tolerance).str();
}

inline const char* ErrName(manifold::Manifold::Error e) {
  using E = manifold::Manifold::Error;
  switch (e) {
    case E::NoError: return "NoError";
    case E::NonFiniteVertex: return "NonFiniteVertex";
    case E::NotManifold: return "NotManifold";
    case E::VertexOutOfBounds: return "VertexOutOfBounds";
    case E::PropertiesWrongLength: return "PropertiesWrongLength";
    case E::MissingPositionProperties: return "MissingPositionProperties";
    case E::MergeVectorsDifferentLengths: return "MergeVectorsDifferentLengths";
    case E::MergeIndexOutOfBounds: return "MergeIndexOutOfBounds";
    case E::TransformWrongLength: return "TransformWrongLength";
    case E::RunIndexWrongLength: return "RunIndexWrongLength";
    case E::FaceIDWrongLength: return "FaceIDWrongLength";
    case E::InvalidConstruction: return "InvalidConstruction";
    case E::ResultTooLarge: return "ResultTooLarge";
    case E::InvalidTangents: return "InvalidTangents";
    case E::Cancelled: return "Cancelled";
  }
  return "Unknown";
}

}  // namespace vo
