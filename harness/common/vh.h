// vh.h — harness framework shared by every check (see DESIGN.md §2.5).
//
// A harness defines   void vh_case(vh::Ctx& c);   and optionally
//                     void vh_init(vh::Ctx& c);   (declared weak here)
// and includes this header exactly once in its main TU. The framework runs
// cases idx = worker, worker+workers, ... < cases, journals `begin` before and
// `end` after each (unbuffered write, so a sanitizer abort is attributed to the
// case), and emits cumulative `stats` events.
#pragma once
#include <fcntl.h>
#include <unistd.h>

#include <cinttypes>
#include <cmath>
#include <cstdint>
#include <cstdio>
#include <cstdlib>
#include <cstring>
#include <ctime>
#include <map>
#include <set>
#include <sstream>
#include <string>
#include <unordered_set>
#include <vector>

namespace vh {

inline uint64_t splitmix(uint64_t& s) {
  uint64_t z = (s += 0x9e3779b97f4a7c15ull);
  z = (z ^ (z >> 30)) * 0xbf58476d1ce4e5b9ull;
  z = (z ^ (z >> 27)) * 0x94d049bb133111ebull;
  return z ^ (z >> 31);
}
inline uint64_t mix2(uint64_t a, uint64_t b) {
  uint64_t s = a * 0x9e3779b97f4a7c15ull + b + 0x7f4a7c15ull;
  splitmix(s);
  return splitmix(s);
}

struct Rng {
  uint64_t s;
  explicit Rng(uint64_t seed = 1) : s(seed) { next(); }
  uint64_t next() { return splitmix(s); }
  // uniform in [0, n)
  uint64_t below(uint64_t n) { return n ? next() % n : 0; }
  int range(int lo, int hi) { return lo + (int)below((uint64_t)(hi - lo + 1)); }
  bool chance(double p) { return uni() < p; }
  double uni() { return (next() >> 11) * (1.0 / 9007199254740992.0); }
  double uni(double a, double b) { return a + (b - a) * uni(); }
  double normalish() { return uni() + uni() + uni() + uni() - 2.0; }
  template <class T>
  const T& pick(const std::vector<T>& v) { return v[below(v.size())]; }
  Rng fork() { return Rng(next()); }
};

inline std::string jesc(const std::string& s) {
  std::string o;
  o.reserve(s.size() + 2);
  for (unsigned char ch : s) {
    switch (ch) {
      case '"': o += "\\\""; break;
      case '\\': o += "\\\\"; break;
      case '\n': o += "\\n"; break;
      case '\t': o += "\\t"; break;
      case '\r': o += "\\r"; break;
      default:
        if (ch < 0x20) {
          char b[8];
          snprintf(b, sizeof b, "\\u%04x", ch);
          o += b;
        } else
          o += (char)ch;
    }
  }
  return o;
}

// Tiny JSON object builder: J().s("k","v").i("n",3).raw("x","[1,2]").str()
struct J {
  std::string b = "{";
  bool first = true;
  J& key(const char* k) {
    if (!first) b += ",";
    first = false;
    b += "\"";
    b += k;
    b += "\":";
    return *this;
  }
  J& s(const char* k, const std::string& v) { key(k); b += "\"" + jesc(v) + "\""; return *this; }
  J& i(const char* k, long long v) { key(k); b += std::to_string(v); return *this; }
  J& u(const char* k, unsigned long long v) { key(k); b += std::to_string(v); return *this; }
  J& d(const char* k, double v) {
    key(k);
    if (std::isfinite(v)) {
      char t[40];
      snprintf(t, sizeof t, "%.17g", v);
      b += t;
    } else
      b += std::isnan(v) ? "\"nan\"" : (v > 0 ? "\"inf\"" : "\"-inf\"");
    return *this;
  }
  J& bo(const char* k, bool v) { key(k); b += v ? "true" : "false"; return *this; }
  J& raw(const char* k, const std::string& v) { key(k); b += v; return *this; }
  std::string str() const { return b + "}"; }
};

template <class T>
inline std::string jarr(const std::vector<T>& v, size_t cap = 64) {
  std::ostringstream o;
  o.precision(17);
  o << "[";
  for (size_t i = 0; i < v.size() && i < cap; i++) {
    if (i) o << ",";
    o << v[i];
  }
  if (v.size() > cap) o << ",\"...(" << v.size() << ")\"";
  o << "]";
  return o.str();
}

inline uint64_t fnv(const void* p, size_t n, uint64_t h = 0xcbf29ce484222325ull) {
  const unsigned char* c = (const unsigned char*)p;
  for (size_t i = 0; i < n; i++) {
    h ^= c[i];
    h *= 0x100000001b3ull;
  }
  return h;
}
inline uint64_t fnvs(const std::string& s) { return fnv(s.data(), s.size()); }

struct Violation {};

struct Ctx {
  // configuration
  uint64_t seed = 20260923;
  std::string tier = "quick", stage = "main", outPath;
  long cases = 1, worker = 0, workers = 1, start = 0, only = -1;
  bool verbose = false;
  std::map<std::string, std::string> params;
  // per-case
  long idx = 0;
  uint64_t caseSeed = 0;
  Rng rng{1};
  int violationsThisCase = 0;
  // accumulators
  std::map<std::string, long long> counters, maxima;
  std::unordered_set<uint64_t> sigs;
  std::vector<std::string> samples;
  long casesDone = 0;
  int fd = -1;
  time_t lastStats = 0;

  bool quick() const { return tier == "quick"; }
  std::string param(const std::string& k, const std::string& def = "") const {
    auto it = params.find(k);
    return it == params.end() ? def : it->second;
  }
  long iparam(const std::string& k, long def) const {
    auto it = params.find(k);
    return it == params.end() ? def : atol(it->second.c_str());
  }
  double dparam(const std::string& k, double def) const {
    auto it = params.find(k);
    return it == params.end() ? def : atof(it->second.c_str());
  }

  void emit(const std::string& line) {
    std::string l = line + "\n";
    if (fd >= 0) {
      size_t off = 0;
      while (off < l.size()) {
        ssize_t w = ::write(fd, l.data() + off, l.size() - off);
        if (w <= 0) break;
        off += (size_t)w;
      }
    }
    if (verbose) fputs(l.c_str(), stderr);
  }
  void count(const std::string& k, long long n = 1) { counters[k] += n; }
  void maxi(const std::string& k, long long v) {
    auto it = maxima.find(k);
    if (it == maxima.end() || it->second < v) maxima[k] = v;
  }
  // register a distinct non-trivial case signature
  void sig(const std::string& s) { sigs.insert(fnvs(s)); }
  void sig(uint64_t h) { sigs.insert(h); }
  // mark the call site about to be exercised (crash attribution / keys)
  void site(const std::string& s) {
    emit(J().s("t", "note").i("idx", idx).s("site", s).str());
  }
  // touch the journal so the driver's watchdog sees progress inside long cases
  void heartbeat() { emit("{\"t\":\"hb\"}"); }
  void sample(const std::string& json, size_t cap = 3) {
    if (samples.size() < cap) samples.push_back(json);
  }
  void violation(const std::string& key, const std::string& detailJson) {
    violationsThisCase++;
    count("violations_reported");
    emit(J().s("t", "viol").i("idx", idx).s("key", key).raw("detail", detailJson).str());
  }
  // a named value of this case that must be equal in every stage of the same
  // cross_stage_equal group (compared by the driver per case index)
  void value(const std::string& name, const std::string& v) {
    emit(J().s("t", "val").i("idx", idx).s("name", name).s("v", v).str());
  }
  void inconclusive(const std::string& why) {
    emit(J().s("t", "inconclusive").s("why", why).str());
  }
  void stats(bool final = true) {
    std::string c = "{", m = "{", sg = "[", sm = "[";
    bool f = true;
    for (auto& kv : counters) {
      if (!f) c += ",";
      f = false;
      c += "\"" + jesc(kv.first) + "\":" + std::to_string(kv.second);
    }
    c += "}";
    f = true;
    for (auto& kv : maxima) {
      if (!f) m += ",";
      f = false;
      m += "\"" + jesc(kv.first) + "\":" + std::to_string(kv.second);
    }
    m += "}";
    f = true;
    size_t n = 0;
    for (auto h : sigs) {
      if (n++ >= 200000 || (!final && sigs.size() > 20000)) break;
      if (!f) sg += ",";
      f = false;
      sg += std::to_string(h >> 11);  // 53 bits: exact in a JSON double
    }
    sg += "]";
    f = true;
    for (auto& s : samples) {
      if (!f) sm += ",";
      f = false;
      sm += s;
    }
    sm += "]";
    emit(J().s("t", "stats").i("cases_done", casesDone).raw("counters", c).raw("maxima", m)
             .raw("sigs", sg).raw("samples", sm).str());
  }
};

}  // namespace vh

void vh_case(vh::Ctx& c);
__attribute__((weak)) void vh_init(vh::Ctx& c);
__attribute__((weak)) void vh_finish(vh::Ctx& c);

#ifndef VH_NO_MAIN
int main(int argc, char** argv) {
  vh::Ctx c;
  for (int i = 1; i < argc; i++) {
    std::string a = argv[i];
    auto nx = [&]() -> std::string { return i + 1 < argc ? argv[++i] : ""; };
    if (a == "--seed") c.seed = strtoull(nx().c_str(), nullptr, 10);
    else if (a == "--tier") c.tier = nx();
    else if (a == "--stage") c.stage = nx();
    else if (a == "--cases") c.cases = atol(nx().c_str());
    else if (a == "--worker") c.worker = atol(nx().c_str());
    else if (a == "--workers") c.workers = atol(nx().c_str());
    else if (a == "--start") c.start = atol(nx().c_str());
    else if (a == "--only") c.only = atol(nx().c_str());
    else if (a == "--out") c.outPath = nx();
    else if (a == "--verbose") c.verbose = true;
    else if (a == "--param") {
      std::string kv = nx();
      auto p = kv.find('=');
      if (p != std::string::npos) c.params[kv.substr(0, p)] = kv.substr(p + 1);
    }
  }
  if (!c.outPath.empty())
    c.fd = ::open(c.outPath.c_str(), O_WRONLY | O_CREAT | O_APPEND, 0644);
  if (vh_init) vh_init(c);
  c.lastStats = time(nullptr);
  for (long idx = c.worker; idx < c.cases; idx += c.workers) {
    if (idx < c.start) continue;
    if (c.only >= 0 && idx != c.only) continue;
    c.idx = idx;
    // stages that must generate identical cases share a "seedgroup" param
    c.caseSeed = vh::mix2(c.seed, vh::mix2(vh::fnvs(c.param("seedgroup", c.stage)), (uint64_t)idx));
    c.rng = vh::Rng(c.caseSeed);
    c.violationsThisCase = 0;
    c.emit(vh::J().s("t", "begin").i("idx", idx).str());
    vh_case(c);
    c.casesDone++;
    c.emit(vh::J().s("t", "end").i("idx", idx).str());
    time_t now = time(nullptr);
    if (now - c.lastStats >= 2) {
      c.stats(false);
      c.lastStats = now;
    }
  }
  if (vh_finish) vh_finish(c);
  c.stats();
  if (c.fd >= 0) ::close(c.fd);
  // skip static destructors of the library under test: nothing to observe there
  fflush(nullptr);
  _exit(0);
}
#endif
