// C13 — parallel primitives of src/parallel.h (instantiated with
// ExecutionPolicy::Par) versus the sequential std:: algorithms; concurrent
// DisjointSets / HashTableD versus their sequential specification.
//
// Stages (selected by --stage / params):
//   algo   : every template of parallel.h, Par policy, compared with std::.
//            Under the `shim` variants each comparison is repeated for several
//            adversarial schedules (tbb::vshim::reseed); under `tbb` the real
//            scheduler runs at varying arena concurrency.
//   conc   : 2-3 real threads on DisjointSets / HashTableD (asan, tsan).
#include <atomic>
#include <numeric>
#include <thread>

#include "common/vh.h"
#include "disjoint_sets.h"
#include "hashtable.h"
#include "parallel.h"
#include "vec.h"

#if defined(VSHIM_ADVERSARIAL)
#define HAVE_SHIM 1
#else
#define HAVE_SHIM 0
#endif
#if (MANIFOLD_PAR == 1) && !HAVE_SHIM && !defined(VSHIM_THREADED)
#define HAVE_REAL_TBB 1
#include <tbb/global_control.h>
#include <tbb/task_arena.h>
#endif

using namespace manifold;

namespace {

struct KV {
  int key;
  int idx;
  bool operator==(const KV& o) const { return key == o.key && idx == o.idx; }
  bool operator!=(const KV& o) const { return !(*this == o); }
};
struct KeyLess {
  bool operator()(const KV& a, const KV& b) const { return a.key < b.key; }
};

const size_t kLens[] = {0, 1, 2, 3, 7, 100, 1023, 1024, 1025, 4999, 9999, 10000, 10001, 10007, 19999, 20000,
                        20001, 20011, 39999, 40000, 40001, 65535, 65536, 65537, 80021, 131071, 131072, 131073,
                        200003, 300007};

size_t pickLen(vh::Rng& r, size_t cap) {
  size_t n;
  if (r.chance(0.7))
    n = kLens[r.below(sizeof kLens / sizeof kLens[0])];
  else
    n = (size_t)r.below(cap + 1);
  return std::min(n, cap);
}

template <class T>
std::string head(const std::vector<T>& v) {
  return vh::jarr(v, 12);
}
std::string headKV(const std::vector<KV>& v) {
  std::string s = "[";
  for (size_t i = 0; i < v.size() && i < 12; i++) s += (i ? "," : "") + std::string("[") + std::to_string(v[i].key) + "," + std::to_string(v[i].idx) + "]";
  return s + "]";
}

// number of schedules tried per comparison
int gSchedules = 1;
uint64_t gSchedSeed = 0;
std::string gSchedDesc;

// run `f` under `gSchedules` schedules; f returns "" if equal to the oracle,
// otherwise a description of the first difference.
template <class F>
void underSchedules(vh::Ctx& c, const std::string& algo, size_t n, const std::string& inputDesc, F f) {
  for (int s = 0; s < gSchedules; s++) {
    uint64_t seed = vh::mix2(c.caseSeed, 1000 + s);
#if HAVE_SHIM
    tbb::vshim::reseed(seed);
    uint64_t leaves0 = tbb::vshim::st().leaves, steals0 = tbb::vshim::st().steals;
#endif
    std::string diff;
#if defined(HAVE_REAL_TBB)
    {
      static const int conc[] = {1, 2, 3, 4, 8, 16};
      int k = conc[seed % 6];
      tbb::task_arena arena(k);
      arena.execute([&] { diff = f(); });
      c.count("tbb_runs_conc_" + std::to_string(k));
    }
#else
    diff = f();
#endif
    c.count("comparisons");
#if HAVE_SHIM
    c.count("shim_leaves", (long long)(tbb::vshim::st().leaves - leaves0));
    c.count("shim_steals", (long long)(tbb::vshim::st().steals - steals0));
    c.sig(tbb::vshim::st().trace ^ vh::fnvs(algo));  // distinct (algorithm, schedule trace)
#else
    c.sig(algo + "#" + std::to_string(n));
#endif
    if (!diff.empty()) {
      c.violation("par-vs-std:" + algo,
                  vh::J().s("algo", algo).u("n", n).s("input", inputDesc).s("diff", diff).u("schedule_seed", seed).s("variant", VERIF_VARIANT).str());
      return;
    }
  }
}

template <class T>
std::string diffVec(const std::vector<T>& got, const std::vector<T>& want) {
  if (got.size() != want.size()) return "size " + std::to_string(got.size()) + " vs " + std::to_string(want.size());
  for (size_t i = 0; i < got.size(); i++)
    if (!(got[i] == want[i])) return "first difference at index " + std::to_string(i);
  return "";
}

template <class T>
std::vector<T> genInts(vh::Rng& r, size_t n, int mode) {
  std::vector<T> v(n);
  for (size_t i = 0; i < n; i++) {
    uint64_t x;
    switch (mode) {
      case 0: x = r.next(); break;                       // full width
      case 1: x = r.below(4); break;                     // few distinct
      case 2: x = i; break;                              // sorted
      case 3: x = n - i; break;                          // reversed
      case 4: x = r.below(256) << 8; break;              // one byte varies (radix canSkip)
      case 5: x = (r.next() & 0xff) | (r.next() << 56); break;
      case 6: x = i / 3; break;                          // runs of equal
      default: x = r.below(1000); break;
    }
    v[i] = (T)x;
  }
  return v;
}

void caseAlgo(vh::Ctx& c) {
  vh::Rng& r = c.rng;
  size_t cap = (size_t)c.iparam("maxLen", 300007);
  size_t n = pickLen(r, cap);
  int algo = (int)r.below(24);
  int mode = (int)r.below(8);
  std::string in = "n=" + std::to_string(n) + ",mode=" + std::to_string(mode);
  const auto Par = ExecutionPolicy::Par;
  switch (algo) {
    case 0: {  // for_each
      std::vector<int> a = genInts<int>(r, n, mode);
      underSchedules(c, "for_each", n, in, [&] {
        std::vector<int> out(n, -1), want(n);
        for_each(Par, countAt(0_uz), countAt(n), [&](size_t i) { out[i] = (int)((unsigned)a[i] * 2u + 1u); });
        for (size_t i = 0; i < n; i++) want[i] = (int)((unsigned)a[i] * 2u + 1u);
        return diffVec(out, want);
      });
      break;
    }
    case 1: {  // transform
      std::vector<int> a = genInts<int>(r, n, mode);
      underSchedules(c, "transform", n, in, [&] {
        std::vector<int64_t> out(n, -1), want(n);
        transform(Par, a.begin(), a.end(), out.begin(), [](int x) { return (int64_t)x * 3 - 7; });
        std::transform(a.begin(), a.end(), want.begin(), [](int x) { return (int64_t)x * 3 - 7; });
        return diffVec(out, want);
      });
      break;
    }
    case 2: {  // copy / copy_n
      std::vector<uint64_t> a = genInts<uint64_t>(r, n, mode);
      underSchedules(c, "copy", n, in, [&] {
        std::vector<uint64_t> out(n + 2, 77), want(n + 2, 77);
        copy(Par, a.begin(), a.end(), out.begin() + 1);
        std::copy(a.begin(), a.end(), want.begin() + 1);
        std::string d = diffVec(out, want);
        if (!d.empty()) return d;
        std::vector<uint64_t> out2(n + 2, 77);
        copy_n(Par, a.begin(), n, out2.begin() + 1);
        return diffVec(out2, want);
      });
      break;
    }
    case 3: {  // fill
      underSchedules(c, "fill", n, in, [&] {
        std::vector<int> out(n + 2, 5), want(n + 2, 5);
        fill(Par, out.begin() + 1, out.begin() + 1 + n, 42);
        std::fill(want.begin() + 1, want.begin() + 1 + n, 42);
        return diffVec(out, want);
      });
      break;
    }
    case 4: {  // reduce (int plus)
      std::vector<int64_t> a = genInts<int64_t>(r, n, 7);
      underSchedules(c, "reduce:plus", n, in, [&] {
        int64_t got = reduce(Par, a.begin(), a.end(), (int64_t)5, std::plus<int64_t>());
        int64_t want = std::accumulate(a.begin(), a.end(), (int64_t)5);
        return got == want ? std::string() : "got " + std::to_string(got) + " want " + std::to_string(want);
      });
      break;
    }
    case 5: {  // reduce (double min / max: associative + commutative, exact)
      std::vector<double> a(n);
      for (auto& x : a) x = r.uni(-1e6, 1e6);
      underSchedules(c, "reduce:minmax", n, in, [&] {
        double got = reduce(Par, a.begin(), a.end(), 1e300, [](double x, double y) { return std::min(x, y); });
        double want = 1e300;
        for (double x : a) want = std::min(want, x);
        double got2 = reduce(Par, a.begin(), a.end(), -1e300, [](double x, double y) { return std::max(x, y); });
        double want2 = -1e300;
        for (double x : a) want2 = std::max(want2, x);
        return (got == want && got2 == want2) ? std::string() : std::string("min/max differ");
      });
      break;
    }
    case 6: {  // transform_reduce
      std::vector<int> a = genInts<int>(r, n, 7);
      underSchedules(c, "transform_reduce", n, in, [&] {
        int64_t got = transform_reduce(Par, a.begin(), a.end(), (int64_t)0, std::plus<int64_t>(), [](int x) { return (int64_t)x * x; });
        int64_t want = 0;
        for (int x : a) want += (int64_t)x * x;
        return got == want ? std::string() : "got " + std::to_string(got) + " want " + std::to_string(want);
      });
      break;
    }
    case 7: {  // inclusive_scan
      std::vector<int64_t> a = genInts<int64_t>(r, n, 7);
      underSchedules(c, "inclusive_scan", n, in, [&] {
        std::vector<int64_t> out(n, -9), want(n);
        inclusive_scan(Par, a.begin(), a.end(), out.begin());
        std::inclusive_scan(a.begin(), a.end(), want.begin());
        return diffVec(out, want);
      });
      break;
    }
    case 8: {  // inclusive_scan in place
      std::vector<int64_t> a = genInts<int64_t>(r, n, 7);
      underSchedules(c, "inclusive_scan:inplace", n, in, [&] {
        std::vector<int64_t> out = a, want(n);
        inclusive_scan(Par, out.begin(), out.end(), out.begin());
        std::inclusive_scan(a.begin(), a.end(), want.begin());
        return diffVec(out, want);
      });
      break;
    }
    case 9: {  // exclusive_scan with init
      std::vector<int> a = genInts<int>(r, n, 7);
      int init = (int)r.below(100);
      underSchedules(c, "exclusive_scan", n, in, [&] {
        std::vector<int> out(n, -9), want(n);
        exclusive_scan(Par, a.begin(), a.end(), out.begin(), init);
        std::exclusive_scan(a.begin(), a.end(), want.begin(), init);
        std::string d = diffVec(out, want);
        if (!d.empty()) return d;
        // in place (the library uses it that way in face_op.cpp)
        std::vector<int> io = a;
        exclusive_scan(Par, io.begin(), io.end(), io.begin(), init);
        return diffVec(io, want);
      });
      break;
    }
    case 10: {  // exclusive_scan with max operator (identity = lowest)
      std::vector<int> a = genInts<int>(r, n, 0);
      underSchedules(c, "exclusive_scan:max", n, in, [&] {
        std::vector<int> out(n, -9), want(n);
        auto mx = [](int x, int y) { return std::max(x, y); };
        exclusive_scan(Par, a.begin(), a.end(), out.begin(), -5, mx, std::numeric_limits<int>::lowest());
        std::exclusive_scan(a.begin(), a.end(), want.begin(), -5, mx);
        return diffVec(out, want);
      });
      break;
    }
    case 11: {  // copy_if
      std::vector<int> a = genInts<int>(r, n, mode);
      int m = 2 + (int)r.below(5);
      underSchedules(c, "copy_if", n, in, [&] {
        std::vector<int> out(n + 1, -9), want(n + 1, -9);
        auto p = [m](int x) { return x % m == 0; };
        auto e1 = copy_if(Par, a.begin(), a.end(), out.begin(), p);
        auto e2 = std::copy_if(a.begin(), a.end(), want.begin(), p);
        if (e1 - out.begin() != e2 - want.begin()) return std::string("returned end differs: ") + std::to_string(e1 - out.begin()) + " vs " + std::to_string(e2 - want.begin());
        return diffVec(out, want);
      });
      break;
    }
    case 12: {  // remove_if
      std::vector<int> a = genInts<int>(r, n, mode);
      int m = 2 + (int)r.below(5);
      underSchedules(c, "remove_if", n, in, [&] {
        std::vector<int> out = a, want = a;
        auto p = [m](int x) { return x % m == 1; };
        auto e1 = remove_if(Par, out.begin(), out.end(), p);
        auto e2 = std::remove_if(want.begin(), want.end(), p);
        out.resize(e1 - out.begin());
        want.resize(e2 - want.begin());
        return diffVec(out, want);
      });
      break;
    }
    case 13: {  // remove
      std::vector<int> a = genInts<int>(r, n, 1);
      underSchedules(c, "remove", n, in, [&] {
        std::vector<int> out = a, want = a;
        auto e1 = remove(Par, out.begin(), out.end(), 2);
        auto e2 = std::remove(want.begin(), want.end(), 2);
        out.resize(e1 - out.begin());
        want.resize(e2 - want.begin());
        return diffVec(out, want);
      });
      break;
    }
    case 14: {  // unique
      std::vector<int> a = genInts<int>(r, n, r.chance(0.5) ? 6 : 1);
      underSchedules(c, "unique", n, in, [&] {
        std::vector<int> out = a, want = a;
        auto e1 = unique(Par, out.begin(), out.end());
        auto e2 = std::unique(want.begin(), want.end());
        out.resize(e1 - out.begin());
        want.resize(e2 - want.begin());
        return diffVec(out, want);
      });
      break;
    }
    case 15: {  // count_if / all_of
      std::vector<int> a = genInts<int>(r, n, mode);
      bool plant = r.chance(0.5);
      size_t where = n ? r.below(n) : 0;
      underSchedules(c, "count_if/all_of", n, in, [&] {
        auto p = [](int x) { return (x & 1) == 0; };
        size_t got = count_if(Par, a.begin(), a.end(), p);
        size_t want = std::count_if(a.begin(), a.end(), p);
        if (got != want) return "count_if got " + std::to_string(got) + " want " + std::to_string(want);
        std::vector<int> b(n, 2);
        if (plant && n) b[where] = 3;
        bool g2 = all_of(Par, b.begin(), b.end(), p), w2 = std::all_of(b.begin(), b.end(), p);
        return g2 == w2 ? std::string() : std::string("all_of differs");
      });
      break;
    }
    case 16: {  // gather / scatter
      std::vector<int> a = genInts<int>(r, n, mode);
      std::vector<int> perm(n);
      std::iota(perm.begin(), perm.end(), 0);
      for (size_t i = n; i > 1; i--) std::swap(perm[i - 1], perm[r.below(i)]);
      underSchedules(c, "gather/scatter", n, in, [&] {
        std::vector<int> out(n, -9), want(n);
        gather(Par, perm.begin(), perm.end(), a.begin(), out.begin());
        for (size_t i = 0; i < n; i++) want[i] = a[perm[i]];
        std::string d = diffVec(out, want);
        if (!d.empty()) return "gather " + d;
        std::vector<int> out2(n, -9), want2(n);
        scatter(Par, a.begin(), a.end(), perm.begin(), out2.begin());
        for (size_t i = 0; i < n; i++) want2[perm[i]] = a[i];
        d = diffVec(out2, want2);
        return d.empty() ? d : "scatter " + d;
      });
      break;
    }
    case 17: {  // sequence
      underSchedules(c, "sequence", n, in, [&] {
        std::vector<int> out(n, -9), want(n);
        sequence(Par, out.begin(), out.end());
        std::iota(want.begin(), want.end(), 0);
        return diffVec(out, want);
      });
      break;
    }
    case 18: case 19: {  // stable_sort with comparator (merge path), stability via payload
      int keys = r.chance(0.5) ? 3 : (r.chance(0.5) ? 40 : 100000);
      std::vector<KV> a(n);
      for (size_t i = 0; i < n; i++) a[i] = {(int)r.below((uint64_t)keys), (int)i};
      if (mode == 2) std::stable_sort(a.begin(), a.end(), KeyLess());
      if (mode == 3) { std::stable_sort(a.begin(), a.end(), KeyLess()); std::reverse(a.begin(), a.end()); }
      underSchedules(c, "stable_sort:comp", n, in + ",keys=" + std::to_string(keys), [&] {
        std::vector<KV> out = a, want = a;
        stable_sort(Par, out.begin(), out.end(), KeyLess());
        std::stable_sort(want.begin(), want.end(), KeyLess());
        return diffVec(out, want);
      });
      break;
    }
    case 20: {  // stable_sort, no comparator, unsigned 32 (radix path)
      std::vector<uint32_t> a = genInts<uint32_t>(r, n, mode);
      underSchedules(c, "stable_sort:radix:u32", n, in, [&] {
        std::vector<uint32_t> out = a, want = a;
        stable_sort(Par, out.begin(), out.end());
        std::stable_sort(want.begin(), want.end());
        return diffVec(out, want);
      });
      break;
    }
    case 21: {  // stable_sort, no comparator, unsigned 64 (radix path; Morton codes are uint32, keys uint64)
      std::vector<uint64_t> a = genInts<uint64_t>(r, n, mode);
      underSchedules(c, "stable_sort:radix:u64", n, in, [&] {
        std::vector<uint64_t> out = a, want = a;
        stable_sort(Par, out.begin(), out.end());
        std::stable_sort(want.begin(), want.end());
        return diffVec(out, want);
      });
      break;
    }
    case 22: {  // stable_sort, no comparator, signed int with negative values
      std::vector<int> a = genInts<int>(r, n, mode);
      for (size_t i = 0; i < n; i++)
        if (r.chance(0.4)) a[i] = (int)(0u - (unsigned)a[i]);
      underSchedules(c, "stable_sort:radix:i32", n, in + ",signed", [&] {
        std::vector<int> out = a, want = a;
        stable_sort(Par, out.begin(), out.end());
        std::stable_sort(want.begin(), want.end());
        return diffVec(out, want);
      });
      break;
    }
    default: {  // stable_sort, no comparator, non-integral (merge path with std::less): doubles
      std::vector<double> a(n);
      for (auto& x : a) x = (double)r.below(1000) - 500;
      underSchedules(c, "stable_sort:less:double", n, in, [&] {
        std::vector<double> out = a, want = a;
        stable_sort(Par, out.begin(), out.end());
        std::stable_sort(want.begin(), want.end());
        return diffVec(out, want);
      });
      break;
    }
  }
  if (c.idx % 53 == 0) c.sample(vh::J().i("idx", c.idx).i("algo", algo).u("n", n).i("mode", mode).i("schedules", gSchedules).str());
}

// ---------------------------------------------------------------- containers
void caseConc(vh::Ctx& c) {
  vh::Rng& r = c.rng;
  int T = 2 + (int)r.below(2);
  if (r.chance(0.5)) {
    // DisjointSets: random pair list with duplicates and chains, partitioned arbitrarily
    size_t n = 2 + r.below(r.chance(0.8) ? 40 : 2000);
    size_t m = r.below(3 * n + 1);
    std::vector<std::pair<uint32_t, uint32_t>> pairs(m);
    for (auto& p : pairs) {
      p.first = (uint32_t)r.below(n);
      p.second = r.chance(0.3) ? (p.first + 1) % n : (uint32_t)r.below(n);
    }
    for (size_t i = 0; i < m / 4; i++) pairs.push_back(pairs[r.below(pairs.size())]);
    // sequential spec: own union-find
    std::vector<uint32_t> par(n);
    std::iota(par.begin(), par.end(), 0u);
    std::function<uint32_t(uint32_t)> find = [&](uint32_t x) { while (par[x] != x) x = par[x] = par[par[x]]; return x; };
    for (auto& p : pairs) { uint32_t a = find(p.first), b = find(p.second); if (a != b) par[std::max(a, b)] = std::min(a, b); }
    std::vector<uint32_t> label(n);
    for (size_t i = 0; i < n; i++) label[i] = find((uint32_t)i);
    DisjointSets ds(n);
    std::vector<int> owner(pairs.size());
    for (auto& o : owner) o = (int)r.below((uint64_t)T);
    std::vector<uint64_t> yseed(T);
    for (auto& y : yseed) y = r.next();
    std::atomic<int> go{0};
    std::atomic<long> badFind{0};
    std::vector<std::thread> th;
    for (int t = 0; t < T; t++)
      th.emplace_back([&, t] {
        vh::Rng yr(yseed[t]);
        go.fetch_add(1);
        while (go.load() < T) {}
        for (size_t i = 0; i < pairs.size(); i++) {
          if (owner[i] != t) continue;
          ds.unite(pairs[i].first, pairs[i].second);
          if (yr.chance(0.2)) std::this_thread::yield();
          // find during the run must return a member of the right class
          size_t q = yr.below(n);
          size_t f = ds.find(q);
          if (f >= n || label[f] != label[q]) badFind.fetch_add(1);
        }
      });
    for (auto& t : th) t.join();
    c.count("ds_histories");
    c.count("ds_unites", (long long)pairs.size());
    if (badFind.load()) {
      c.violation("disjointsets:find-outside-class", vh::J().u("n", n).u("pairs", pairs.size()).i("threads", T).i("bad", badFind.load()).str());
      return;
    }
    // final partition must equal the sequential one
    std::map<uint32_t, uint32_t> m1, m2;
    for (size_t i = 0; i < n; i++) {
      uint32_t a = (uint32_t)ds.find(i), b = label[i];
      auto i1 = m1.emplace(a, b);
      auto i2 = m2.emplace(b, a);
      if (i1.first->second != b || i2.first->second != a) {
        c.violation("disjointsets:partition-differs", vh::J().u("n", n).u("pairs", pairs.size()).i("threads", T).u("elem", i).str());
        return;
      }
    }
    std::vector<int> comp;
    int nc = ds.connectedComponents(comp);
    if ((size_t)nc != m2.size()) {
      c.violation("disjointsets:component-count", vh::J().i("got", nc).u("want", m2.size()).str());
      return;
    }
    for (size_t i = 0; i < n; i++)
      for (size_t j : {(size_t)r.below(n)})
        if ((comp[i] == comp[j]) != (label[i] == label[j])) {
          c.violation("disjointsets:connectedComponents-labels", vh::J().u("i", i).u("j", j).str());
          return;
        }
    c.sig("ds#" + std::to_string(n > 40) + "#" + std::to_string(T) + "#" + std::to_string(m2.size() % 64) + "#" + std::to_string(pairs.size() % 64));
  } else {
    // HashTableD: concurrent inserts of unique and duplicate keys
    size_t cap = 4 + r.below(r.chance(0.8) ? 60 : 4000);
    uint32_t step = r.chance(0.5) ? 1 : (uint32_t)(1 + 2 * r.below(8));
    HashTable<uint64_t> table(cap, step);
    size_t nk = r.below(table.Size() + 1);  // may exceed half => Full
    std::vector<uint64_t> keys(nk);
    for (auto& k : keys) k = r.chance(0.3) ? r.below(16) : r.next() >> 1;  // kOpen is max uint64
    for (size_t i = 0; i < nk / 3; i++) keys.push_back(keys[r.below(keys.size())]);
    auto val = [](uint64_t k) { return k * 0x9e3779b97f4a7c15ull + 17; };
    std::vector<int> owner(keys.size());
    for (auto& o : owner) o = (int)r.below((uint64_t)T);
    std::atomic<int> go{0};
    std::vector<uint64_t> yseed(T);
    for (auto& y : yseed) y = r.next();
    std::vector<std::thread> th;
    for (int t = 0; t < T; t++)
      th.emplace_back([&, t] {
        vh::Rng yr(yseed[t]);
        HashTableD<uint64_t> d = table.D();
        go.fetch_add(1);
        while (go.load() < T) {}
        for (size_t i = 0; i < keys.size(); i++) {
          if (owner[i] != t) continue;
          d.Insert(keys[i], val(keys[i]));
          if (yr.chance(0.2)) std::this_thread::yield();
        }
      });
    for (auto& t : th) t.join();
    c.count("ht_histories");
    c.count("ht_inserts", (long long)keys.size());
    if (table.Full()) {
      c.count("ht_full_observed");
      c.sig("ht-full#" + std::to_string(T));
      return;
    }
    HashTableD<uint64_t> d = table.D();
    std::set<uint64_t> distinct(keys.begin(), keys.end());
    for (uint64_t k : distinct) {
      // retrieve by scanning like operator[] does, but verify key presence ourselves
      bool found = false;
      for (int i = 0; i < d.Size(); i++)
        if (d.KeyAt(i) == k) {
          if (found) { c.violation("hashtable:key-stored-twice", vh::J().u("key", k).str()); return; }
          found = true;
          if (d.At(i) != val(k)) { c.violation("hashtable:wrong-value", vh::J().u("key", k).str()); return; }
        }
      if (!found) { c.violation("hashtable:key-lost", vh::J().u("key", k).u("size", d.Size()).u("keys", keys.size()).i("threads", T).str()); return; }
      if (d[k] != val(k)) { c.violation("hashtable:lookup-wrong-value", vh::J().u("key", k).str()); return; }
    }
    if ((size_t)table.Entries() != distinct.size()) {
      c.violation("hashtable:entry-count", vh::J().i("entries", table.Entries()).u("distinct", distinct.size()).str());
      return;
    }
    c.sig("ht#" + std::to_string(T) + "#" + std::to_string(step) + "#" + std::to_string(distinct.size() % 128));
  }
}

}  // namespace

void vh_init(vh::Ctx& c) { gSchedules = (int)c.iparam("schedules", 1); }

void vh_case(vh::Ctx& c) {
  if (c.param("mode", "algo") == "conc")
    caseConc(c);
  else
    caseAlgo(c);
}
