// C20 — the C binding is a faithful, memory-safe image of the C++ API
// (DESIGN.md §4 C20).
//
// Table-driven mirror. Every value lives twice: a C twin, built and queried
// ONLY through manifoldc.h, and a C++ twin, built by the C++ call the C
// function names, from the same generated arguments. After every step the two
// are compared field by field (meshes through the C accessors into exact-size
// heap buffers, scalars bit-equal, polygons point by point). Opaque C handles
// are never reinterpret_cast by the harness.
//
// Original IDs: the global ID counter advances with every construction, so a
// C twin and its C++ twin never carry the same IDs. Within one step all C-side
// work happens before all C++-side work, and steps are sequential, so for any
// two originals i,j:  id_C(i) < id_C(j)  <=>  id_C++(i) < id_C++(j).
// runOriginalID is therefore compared by dense rank (exported meshes) and
// exactly where both twins were built from the same caller-supplied IDs.
//
// Storage: every C object is constructed into one of
//   ALLOC  : manifold_alloc_X()                      -> manifold_delete_X
//   EXACT  : malloc(manifold_X_size()) (ASan redzone) -> manifold_destruct_X, free
//   FRAMED : [64B canary][X_size bytes][64B canary]   -> manifold_destruct_X, canary check, free
// each exactly once; LeakSanitizer runs (recoverably) after every case.
//
// Array accessors are only called for non-empty arrays in the main stage
// (memcpy(dst, NULL, 0) inside copy_data is UB that UBSan aborts on); the
// "emptyacc" stage exercises exactly that call and nothing else.
#include <sys/mman.h>
#include <unistd.h>

#include <deque>
#include <functional>
#include <memory>
#include <sstream>

#include "common/oracles.h"
#include "common/vh.h"
#include "manifold/cross_section.h"
#include "manifold/manifold.h"
#include "manifold/manifoldc.h"
#include "manifold/polygon.h"

#if defined(__SANITIZE_ADDRESS__)
#include <sanitizer/common_interface_defs.h>
#include <sanitizer/lsan_interface.h>
#define C20_HAVE_LSAN 1
#else
#define C20_HAVE_LSAN 0
#endif

using namespace manifold;

// White-box supplement (weak: skipped when the symbols are absent): the enum
// switch tables of conv.cpp, tested directly against the independent tables
// below for EVERY enumerator, including the ones no C program can reach.
__attribute__((weak)) ManifoldError to_c(manifold::Manifold::Error error);
__attribute__((weak)) manifold::OpType from_c(ManifoldOpType op);
__attribute__((weak)) manifold::CrossSection::JoinType from_c(ManifoldJoinType jt);

// ---------------------------------------------------------------- registry
static std::map<std::string, long long> g_calls;  // C function -> #calls (this process)
static const char* g_lastFn = "";
#define CF(fn)                                                   \
  (++*([]() -> long long* {                                      \
     static long long* p_ = &g_calls[#fn];                       \
     return p_;                                                  \
   }()),                                                         \
   g_lastFn = #fn, fn)

static std::set<std::string> g_exportedHdr, g_exportedNm;
static bool g_trace = false;

static std::string fmt(double v) {
  char t[40];
  snprintf(t, sizeof t, "%.17g", v);
  return t;
}
template <class T>
static std::string fmtv(const std::vector<T>& v, size_t cap = 24) {
  std::string s = "[";
  for (size_t i = 0; i < v.size() && i < cap; i++) {
    if (i) s += ",";
    s += fmt((double)v[i]);
  }
  if (v.size() > cap) s += ",...(" + std::to_string(v.size()) + ")";
  return s + "]";
}

// ------------------------------------------------- independent enum tables
// Written from the declarations in types.h (C side) and manifold.h/common.h
// (C++ side), matched BY NAME. Not derived from conv.cpp.
struct ErrRow { Manifold::Error p; ManifoldError c; const char* name; };
static const ErrRow kErr[] = {
    {Manifold::Error::NoError, MANIFOLD_NO_ERROR, "NoError"},
    {Manifold::Error::NonFiniteVertex, MANIFOLD_NON_FINITE_VERTEX, "NonFiniteVertex"},
    {Manifold::Error::NotManifold, MANIFOLD_NOT_MANIFOLD, "NotManifold"},
    {Manifold::Error::VertexOutOfBounds, MANIFOLD_VERTEX_INDEX_OUT_OF_BOUNDS, "VertexOutOfBounds"},
    {Manifold::Error::PropertiesWrongLength, MANIFOLD_PROPERTIES_WRONG_LENGTH, "PropertiesWrongLength"},
    {Manifold::Error::MissingPositionProperties, MANIFOLD_MISSING_POSITION_PROPERTIES, "MissingPositionProperties"},
    {Manifold::Error::MergeVectorsDifferentLengths, MANIFOLD_MERGE_VECTORS_DIFFERENT_LENGTHS, "MergeVectorsDifferentLengths"},
    {Manifold::Error::MergeIndexOutOfBounds, MANIFOLD_MERGE_INDEX_OUT_OF_BOUNDS, "MergeIndexOutOfBounds"},
    {Manifold::Error::TransformWrongLength, MANIFOLD_TRANSFORM_WRONG_LENGTH, "TransformWrongLength"},
    {Manifold::Error::RunIndexWrongLength, MANIFOLD_RUN_INDEX_WRONG_LENGTH, "RunIndexWrongLength"},
    {Manifold::Error::FaceIDWrongLength, MANIFOLD_FACE_ID_WRONG_LENGTH, "FaceIDWrongLength"},
    {Manifold::Error::InvalidConstruction, MANIFOLD_INVALID_CONSTRUCTION, "InvalidConstruction"},
    {Manifold::Error::ResultTooLarge, MANIFOLD_RESULT_TOO_LARGE, "ResultTooLarge"},
    {Manifold::Error::InvalidTangents, MANIFOLD_INVALID_TANGENTS, "InvalidTangents"},
    {Manifold::Error::Cancelled, MANIFOLD_CANCELLED, "Cancelled"},
};
static const ErrRow* errRow(Manifold::Error e) {
  for (auto& r : kErr)
    if (r.p == e) return &r;
  return nullptr;
}
struct OpRow { OpType p; ManifoldOpType c; const char* name; };
static const OpRow kOp[] = {{OpType::Add, MANIFOLD_ADD, "Add"},
                            {OpType::Subtract, MANIFOLD_SUBTRACT, "Subtract"},
                            {OpType::Intersect, MANIFOLD_INTERSECT, "Intersect"}};
struct JtRow { CrossSection::JoinType p; ManifoldJoinType c; const char* name; };
static const JtRow kJt[] = {{CrossSection::JoinType::Square, MANIFOLD_JOIN_TYPE_SQUARE, "Square"},
                            {CrossSection::JoinType::Round, MANIFOLD_JOIN_TYPE_ROUND, "Round"},
                            {CrossSection::JoinType::Miter, MANIFOLD_JOIN_TYPE_MITER, "Miter"},
                            {CrossSection::JoinType::Bevel, MANIFOLD_JOIN_TYPE_BEVEL, "Bevel"}};

// ---------------------------------------------------------------- storage
enum TypeId { T_MAN, T_MANVEC, T_CS, T_CSVEC, T_RAYVEC, T_SP, T_POLYS, T_MESH, T_MESH64, T_BOX, T_RECT, T_TRI, T_EC, T_COUNT };
struct TypeOps {
  const char* name;
  size_t (*size)();
  void* (*alloc)();
  void (*destruct)(void*);
  void (*del)(void*);
  size_t cppSize;
  const char *sizeFn, *allocFn, *destructFn, *delFn;
};
#define TYPEOPS(CT, nm, CPPT)                                                            \
  {#nm, []() -> size_t { return CF(manifold_##nm##_size)(); },                           \
   []() -> void* { return CF(manifold_alloc_##nm)(); },                                  \
   [](void* p) { CF(manifold_destruct_##nm)((CT*)p); },                                  \
   [](void* p) { CF(manifold_delete_##nm)((CT*)p); }, sizeof(CPPT), "manifold_" #nm "_size", \
   "manifold_alloc_" #nm, "manifold_destruct_" #nm, "manifold_delete_" #nm}
static const TypeOps kTypes[T_COUNT] = {
    TYPEOPS(ManifoldManifold, manifold, Manifold),
    TYPEOPS(ManifoldManifoldVec, manifold_vec, std::vector<Manifold>),
    TYPEOPS(ManifoldCrossSection, cross_section, CrossSection),
    TYPEOPS(ManifoldCrossSectionVec, cross_section_vec, std::vector<CrossSection>),
    TYPEOPS(ManifoldRayHitVec, ray_hit_vec, std::vector<RayHit>),
    TYPEOPS(ManifoldSimplePolygon, simple_polygon, SimplePolygon),
    TYPEOPS(ManifoldPolygons, polygons, Polygons),
    TYPEOPS(ManifoldMeshGL, meshgl, MeshGL),
    TYPEOPS(ManifoldMeshGL64, meshgl64, MeshGL64),
    TYPEOPS(ManifoldBox, box, Box),
    TYPEOPS(ManifoldRect, rect, Rect),
    TYPEOPS(ManifoldTriangulation, triangulation, std::vector<ivec3>),
    TYPEOPS(ManifoldExecutionContext, execution_context, ExecutionContext),
};

static const size_t kCan = 64;
static const unsigned char kPat = 0xC5;
enum Mode { M_ALLOC, M_EXACT, M_FRAMED };
struct Slot {
  TypeId t = T_MAN;
  Mode mode = M_EXACT;
  std::shared_ptr<unsigned char> hold;  // malloc'ed block (EXACT/FRAMED); freed when last slot drops it
  void* mem = nullptr;                  // where the object is to be / was constructed
  size_t size = 0;
  bool live = false;                    // an object is constructed in mem
  bool canaryOK() const {
    if (mode != M_FRAMED) return true;
    const unsigned char* m = (const unsigned char*)mem;
    for (size_t i = 0; i < kCan; i++)
      if (m[-(long)kCan + (long)i] != kPat || m[size + i] != kPat) return false;
    return true;
  }
};

// callback bookkeeping
static void* g_expectCtx = nullptr;
static long g_ctxBad = 0;
static long g_cbCalls = 0;

struct Env;
typedef void (*EntryFn)(Env&);
struct Entry { const char* name; EntryFn run; };

// ---------------------------------------------------------------- twins
// simple: a primitive or a non-degenerate affine image / copy of one (the only operands handed to the smoothing/refine family,
// whose core implementation is fragile on general geometry - that is C01/C19's subject, not the binding's)
struct ManT { Slot s; ManifoldManifold* c = nullptr; Manifold p; size_t ntri = 0; long nprop = 0; bool ok = false; bool tangents = false; bool simple = false; std::string how; };
struct CsT { Slot s; ManifoldCrossSection* c = nullptr; CrossSection p; size_t nvert = 0; bool ok = false; std::string how; };
struct PolyT { Slot s; ManifoldPolygons* c = nullptr; Polygons p; bool valid = false; std::string how; };
struct MeshT { Slot s; ManifoldMeshGL* c = nullptr; MeshGL p; bool valid = false; bool exact = true; std::string how; };
struct Mesh64T { Slot s; ManifoldMeshGL64* c = nullptr; MeshGL64 p; bool valid = false; bool exact = true; std::string how; };

struct Env {
  vh::Ctx& c;
  vh::Rng& r;
  bool stop = false;
  std::string entry;
  std::vector<std::string> log;
  std::deque<ManT> mans;
  std::deque<CsT> css;
  std::deque<PolyT> polys;
  std::deque<MeshT> meshes;
  std::deque<Mesh64T> meshes64;
  std::vector<void*> arena;  // exact-size input arrays and callback contexts, freed at case end
  size_t maxTri = 1500;
  Env(vh::Ctx& c_) : c(c_), r(c_.rng) {}

  void note(const std::string& s) {
    log.push_back(s);
    if (g_trace) fprintf(stderr, "[c20 %ld] %s\n", c.idx, s.c_str());
  }
  std::string logTail(size_t n = 40) const {
    std::string s = "[";
    size_t b = log.size() > n ? log.size() - n : 0;
    for (size_t i = b; i < log.size(); i++) {
      if (i > b) s += ",";
      s += "\"" + vh::jesc(log[i]) + "\"";
    }
    return s + "]";
  }
  void fail(const std::string& key, vh::J d) {
    if (stop) return;
    stop = true;
    d.s("entry", entry).i("steps", (long long)log.size()).raw("program_tail", logTail());
    c.violation(key, d.str());
  }
  // ---- numbers
  double uni(double a, double b) { return r.uni(a, b); }
  double len() { return r.uni(0.3, 2.5); }
  double coord() { return r.uni(-2.0, 2.0); }
  vec3 v3() { return vec3(coord(), coord(), coord()); }

  // ---- exact-size input arrays (ASan red zones catch a wrapper reading past them)
  template <class T>
  T* exact(const std::vector<T>& v) {
    T* p = (T*)malloc(v.size() * sizeof(T) + (v.empty() ? 1 : 0));
    if (!v.empty()) memcpy(p, v.data(), v.size() * sizeof(T));
    arena.push_back(p);
    return p;
  }
  template <class T>
  T* obj() {  // callback context object
    T* p = (T*)calloc(1, sizeof(T));
    arena.push_back(p);
    return p;
  }
  void freeArena() {
    for (void* p : arena) free(p);
    arena.clear();
  }

  // ---- storage
  Slot getMem(TypeId t, int forceMode = -1) {
    Slot s;
    s.t = t;
    s.size = kTypes[t].size();
    if (s.size != kTypes[t].cppSize)
      fail(std::string("size:") + kTypes[t].sizeFn,
           vh::J().u("c", s.size).u("sizeof_cpp_type", kTypes[t].cppSize));
    int m = forceMode >= 0 ? forceMode : (int)r.below(10);
    if (forceMode < 0) m = m < 4 ? M_EXACT : (m < 7 ? M_ALLOC : M_FRAMED);
    s.mode = (Mode)m;
    if (s.mode == M_ALLOC) {
      s.mem = kTypes[t].alloc();
      c.count("storage_alloc");
    } else if (s.mode == M_EXACT) {
      unsigned char* b = (unsigned char*)malloc(s.size);
      s.hold = std::shared_ptr<unsigned char>(b, free);
      s.mem = b;
      c.count("storage_exact_malloc");
    } else {
      unsigned char* b = (unsigned char*)malloc(s.size + 2 * kCan);
      memset(b, kPat, s.size + 2 * kCan);
      s.hold = std::shared_ptr<unsigned char>(b, free);
      s.mem = b + kCan;
      c.count("storage_canary_framed");
    }
    return s;
  }
  // two objects in ONE aggregate: [canary][obj][canary][obj][canary]
  std::pair<Slot, Slot> getPairMem(TypeId t) {
    Slot a, b;
    a.t = b.t = t;
    a.size = b.size = kTypes[t].size();
    a.mode = b.mode = M_FRAMED;
    size_t tot = 3 * kCan + 2 * a.size;
    unsigned char* blk = (unsigned char*)malloc(tot);
    memset(blk, kPat, tot);
    a.hold = std::shared_ptr<unsigned char>(blk, free);
    b.hold = a.hold;
    a.mem = blk + kCan;
    b.mem = blk + 2 * kCan + a.size;
    c.count("storage_pair_aggregate");
    return {a, b};
  }
  // the constructor returned `ret` for storage `s`
  template <class CT>
  CT* adopt(Slot& s, CT* ret, const char* fn) {
    s.live = true;
    if ((void*)ret != s.mem)
      fail(std::string("storage:returned-pointer-differs:") + fn, vh::J().s("fn", fn).s("type", kTypes[s.t].name));
    if (!s.canaryOK())
      fail(std::string("storage:canary-overwritten:") + fn,
           vh::J().s("fn", fn).s("type", kTypes[s.t].name).u("advertised_size", s.size));
    c.count("objects_constructed");
    return (CT*)s.mem;
  }
  void release(Slot& s) {
    if (!s.mem) return;
    if (s.live) {
      if (s.mode == M_ALLOC) {
        kTypes[s.t].del(s.mem);
        c.count("objects_deleted");
      } else {
        kTypes[s.t].destruct(s.mem);
        c.count("objects_destructed");
        if (!s.canaryOK())
          fail(std::string("storage:canary-overwritten:") + kTypes[s.t].destructFn,
               vh::J().s("type", kTypes[s.t].name).u("advertised_size", s.size));
      }
    } else if (s.mode == M_ALLOC) {
      // raw storage that never received an object: give it back the way
      // alloc_raw obtained it
      ::operator delete(s.mem);
    }
    s.hold.reset();
    s.mem = nullptr;
    s.live = false;
  }
  void releaseAll() {
    for (auto& m : mans) release(m.s);
    for (auto& m : css) release(m.s);
    for (auto& m : polys) release(m.s);
    for (auto& m : meshes) release(m.s);
    for (auto& m : meshes64) release(m.s);
    mans.clear();
    css.clear();
    polys.clear();
    meshes.clear();
    meshes64.clear();
  }
  template <class D>
  void evict(D& d, size_t cap) {
    while (d.size() > cap) {
      size_t k = r.below(d.size() - 1);  // never the newest
      release(d[k].s);
      d.erase(d.begin() + (long)k);
    }
  }
  void beginEntry() {
    evict(mans, 9);
    evict(css, 7);
    evict(polys, 6);
    evict(meshes, 4);
    evict(meshes64, 4);
  }
};

// ---------------------------------------------------------------- comparing
template <class T>
static bool bitsEq(const T& a, const T& b) { return memcmp(&a, &b, sizeof(T)) == 0; }
template <class T>
static bool vecEq(const std::vector<T>& a, const std::vector<T>& b) {
  return a.size() == b.size() && (a.empty() || memcmp(a.data(), b.data(), a.size() * sizeof(T)) == 0);
}
static std::vector<uint32_t> rankIDs(const std::vector<uint32_t>& ids) {
  std::vector<uint32_t> s = ids, out = ids;
  std::sort(s.begin(), s.end());
  s.erase(std::unique(s.begin(), s.end()), s.end());
  for (auto& x : out) x = (uint32_t)(std::lower_bound(s.begin(), s.end(), x) - s.begin());
  return out;
}

static bool cmpD(Env& e, const char* fn, const char* what, double a, double b) {
  e.c.count("scalars_compared");
  if (bitsEq(a, b)) return true;
  e.fail(std::string("mismatch:") + fn + ":" + what, vh::J().s("fn", fn).s("what", what).d("c", a).d("cpp", b));
  return false;
}
static bool cmpI(Env& e, const char* fn, const char* what, long long a, long long b) {
  e.c.count("scalars_compared");
  if (a == b) return true;
  e.fail(std::string("mismatch:") + fn + ":" + what, vh::J().s("fn", fn).s("what", what).i("c", a).i("cpp", b));
  return false;
}
static bool cmpV2(Env& e, const char* fn, const char* what, ManifoldVec2 a, vec2 b) {
  return cmpD(e, fn, (std::string(what) + ".x").c_str(), a.x, b.x) && cmpD(e, fn, (std::string(what) + ".y").c_str(), a.y, b.y);
}
static bool cmpV3(Env& e, const char* fn, const char* what, ManifoldVec3 a, vec3 b) {
  return cmpD(e, fn, (std::string(what) + ".x").c_str(), a.x, b.x) && cmpD(e, fn, (std::string(what) + ".y").c_str(), a.y, b.y) &&
         cmpD(e, fn, (std::string(what) + ".z").c_str(), a.z, b.z);
}

// Copy an array out of a C object through its accessor into a heap buffer of
// EXACTLY n elements. Accessors are not called for n == 0 (see file header).
template <class T, class Get>
static std::vector<T> pull(Env& e, const char* fn, size_t n, Get get) {
  std::vector<T> out;
  if (n == 0) {
    e.c.count("accessor_skipped_empty_array");
    return out;
  }
  if (n > (size_t)1 << 28) {
    e.fail(std::string("mismatch:") + fn + ":absurd-length", vh::J().u("n", n));
    return out;
  }
  T* buf = (T*)malloc(n * sizeof(T));
  T* ret = get((void*)buf);
  if (ret != buf) e.fail(std::string("storage:returned-pointer-differs:") + fn, vh::J().s("fn", fn));
  out.assign(buf, buf + n);
  free(buf);
  e.c.count("arrays_pulled");
  return out;
}

// accessor families of the two mesh types
#define MESH_ACC(S, CT, PT, FT, IT)                                                                       \
  struct Acc##S {                                                                                         \
    typedef CT C;                                                                                         \
    typedef PT P;                                                                                         \
    typedef FT F;                                                                                         \
    typedef IT I;                                                                                         \
    static const char* tag() { return "meshgl" #S; }                                                      \
    static P extract(Env& e, C* m, long long* numVert, long long* numTri, long long* numRun) {            \
      P o;                                                                                                \
      o.numProp = (IT)CF(manifold_meshgl##S##_num_prop)(m);                                               \
      o.vertProperties = pull<FT>(e, "manifold_meshgl" #S "_vert_properties",                             \
                                  CF(manifold_meshgl##S##_vert_properties_length)(m),                     \
                                  [&](void* b) { return CF(manifold_meshgl##S##_vert_properties)(b, m); }); \
      o.triVerts = pull<IT>(e, "manifold_meshgl" #S "_tri_verts", CF(manifold_meshgl##S##_tri_length)(m), \
                            [&](void* b) { return CF(manifold_meshgl##S##_tri_verts)(b, m); });           \
      size_t ml = CF(manifold_meshgl##S##_merge_length)(m);                                               \
      o.mergeFromVert = pull<IT>(e, "manifold_meshgl" #S "_merge_from_vert", ml,                          \
                                 [&](void* b) { return CF(manifold_meshgl##S##_merge_from_vert)(b, m); }); \
      o.mergeToVert = pull<IT>(e, "manifold_meshgl" #S "_merge_to_vert", ml,                              \
                               [&](void* b) { return CF(manifold_meshgl##S##_merge_to_vert)(b, m); });    \
      o.runIndex = pull<IT>(e, "manifold_meshgl" #S "_run_index", CF(manifold_meshgl##S##_run_index_length)(m), \
                            [&](void* b) { return CF(manifold_meshgl##S##_run_index)(b, m); });           \
      o.runOriginalID = pull<uint32_t>(e, "manifold_meshgl" #S "_run_original_id",                        \
                                       CF(manifold_meshgl##S##_run_original_id_length)(m),                \
                                       [&](void* b) { return CF(manifold_meshgl##S##_run_original_id)(b, m); }); \
      o.runTransform = pull<FT>(e, "manifold_meshgl" #S "_run_transform",                                 \
                                CF(manifold_meshgl##S##_run_transform_length)(m),                         \
                                [&](void* b) { return CF(manifold_meshgl##S##_run_transform)(b, m); });   \
      o.runFlags = pull<uint8_t>(e, "manifold_meshgl" #S "_run_flags", CF(manifold_meshgl##S##_run_flags_length)(m), \
                                 [&](void* b) { return CF(manifold_meshgl##S##_run_flags)(b, m); });      \
      o.faceID = pull<IT>(e, "manifold_meshgl" #S "_face_id", CF(manifold_meshgl##S##_face_id_length)(m), \
                          [&](void* b) { return CF(manifold_meshgl##S##_face_id)(b, m); });               \
      o.halfedgeTangent = pull<FT>(e, "manifold_meshgl" #S "_halfedge_tangent",                           \
                                   CF(manifold_meshgl##S##_tangent_length)(m),                            \
                                   [&](void* b) { return CF(manifold_meshgl##S##_halfedge_tangent)(b, m); }); \
      o.tolerance = CF(manifold_meshgl##S##_tolerance)(m);                                                \
      *numVert = o.numProp ? (long long)CF(manifold_meshgl##S##_num_vert)(m) : -1;                        \
      *numTri = (long long)CF(manifold_meshgl##S##_num_tri)(m);                                           \
      *numRun = (long long)CF(manifold_meshgl##S##_num_run)(m);                                           \
      return o;                                                                                           \
    }                                                                                                     \
    static int backside(C* m, size_t r) { return CF(manifold_meshgl##S##_backside)(m, r); }               \
    static int hasNormals(C* m, size_t r) { return CF(manifold_meshgl##S##_has_normals)(m, r); }          \
  };
MESH_ACC(, ManifoldMeshGL, MeshGL, float, uint32_t)
MESH_ACC(64, ManifoldMeshGL64, MeshGL64, double, uint64_t)

// compare a C mesh (through its accessors) with the C++ mesh `p`.
// exactIDs: both were built from the same caller-supplied IDs.
template <class A>
static bool cmpMesh(Env& e, const char* fn, typename A::C* cm, const typename A::P& p, bool exactIDs,
                    typename A::P* outC = nullptr) {
  long long nv, nt, nr;
  typename A::P c = A::extract(e, cm, &nv, &nt, &nr);
  if (e.stop) return false;
  e.c.count(std::string("meshes_compared_") + A::tag());
  const char* bad = nullptr;
  if (c.numProp != p.numProp) bad = "numProp";
  else if (!vecEq(c.vertProperties, p.vertProperties)) bad = "vertProperties";
  else if (!vecEq(c.triVerts, p.triVerts)) bad = "triVerts";
  else if (!vecEq(c.mergeFromVert, p.mergeFromVert)) bad = "mergeFromVert";
  else if (!vecEq(c.mergeToVert, p.mergeToVert)) bad = "mergeToVert";
  else if (!vecEq(c.runIndex, p.runIndex)) bad = "runIndex";
  else if (exactIDs ? !vecEq(c.runOriginalID, p.runOriginalID) : !vecEq(rankIDs(c.runOriginalID), rankIDs(p.runOriginalID)))
    bad = "runOriginalID";
  else if (!vecEq(c.runTransform, p.runTransform)) bad = "runTransform";
  else if (!vecEq(c.runFlags, p.runFlags)) bad = "runFlags";
  else if (!vecEq(c.faceID, p.faceID)) bad = "faceID";
  else if (!vecEq(c.halfedgeTangent, p.halfedgeTangent)) bad = "halfedgeTangent";
  else if (!bitsEq(c.tolerance, p.tolerance)) bad = "tolerance";
  if (bad) {
    e.fail(std::string("mismatch:") + fn + ":" + bad,
           vh::J().s("fn", fn).s("field", bad).s("mesh_type", A::tag())
               .u("c_numProp", c.numProp).u("cpp_numProp", p.numProp)
               .u("c_vertProperties", c.vertProperties.size()).u("cpp_vertProperties", p.vertProperties.size())
               .u("c_triVerts", c.triVerts.size()).u("cpp_triVerts", p.triVerts.size())
               .s("c_runOriginalID", fmtv(c.runOriginalID)).s("cpp_runOriginalID", fmtv(p.runOriginalID))
               .s("c_head", fmtv(c.vertProperties, 12)).s("cpp_head", fmtv(p.vertProperties, 12))
               .d("c_tolerance", c.tolerance).d("cpp_tolerance", p.tolerance));
    return false;
  }
  std::string tag = A::tag();
  if (p.numProp && !cmpI(e, ("manifold_" + tag + "_num_vert").c_str(), "value", nv, (long long)p.NumVert())) return false;
  if (!cmpI(e, ("manifold_" + tag + "_num_tri").c_str(), "value", nt, (long long)p.NumTri())) return false;
  if (!cmpI(e, ("manifold_" + tag + "_num_run").c_str(), "value", nr, (long long)p.NumRun())) return false;
  for (size_t r = 0; r <= (size_t)p.NumRun() && r < 6; r++) {  // r == NumRun: documented out-of-range -> false
    if (!cmpI(e, ("manifold_" + tag + "_backside").c_str(), "value", A::backside(cm, r), p.Backside(r) ? 1 : 0)) return false;
    if (!cmpI(e, ("manifold_" + tag + "_has_normals").c_str(), "value", A::hasNormals(cm, r), p.HasNormals(r) ? 1 : 0)) return false;
  }
  if (outC) *outC = std::move(c);
  return true;
}

// ---- polygons through the C accessors
static Polygons pullPolygons(Env& e, ManifoldPolygons* c, bool viaSimple) {
  Polygons out(CF(manifold_polygons_length)(c));
  for (size_t i = 0; i < out.size(); i++) {
    size_t n = CF(manifold_polygons_simple_length)(c, i);
    if (viaSimple) {
      Slot s = e.getMem(T_SP);
      ManifoldSimplePolygon* sp = e.adopt(s, CF(manifold_polygons_get_simple)(s.mem, c, i), "manifold_polygons_get_simple");
      size_t n2 = CF(manifold_simple_polygon_length)(sp);
      if (n2 != n) e.fail("mismatch:manifold_simple_polygon_length:value", vh::J().u("simple_length", n).u("after_get_simple", n2));
      for (size_t j = 0; j < n2 && !e.stop; j++) {
        ManifoldVec2 v = CF(manifold_simple_polygon_get_point)(sp, j);
        out[i].push_back({v.x, v.y});
      }
      e.release(s);
    } else {
      for (size_t j = 0; j < n; j++) {
        ManifoldVec2 v = CF(manifold_polygons_get_point)(c, i, j);
        out[i].push_back({v.x, v.y});
      }
    }
  }
  return out;
}
static bool polysEq(const Polygons& a, const Polygons& b) {
  if (a.size() != b.size()) return false;
  for (size_t i = 0; i < a.size(); i++) {
    if (a[i].size() != b[i].size()) return false;
    for (size_t j = 0; j < a[i].size(); j++)
      if (!bitsEq(a[i][j].x, b[i][j].x) || !bitsEq(a[i][j].y, b[i][j].y)) return false;
  }
  return true;
}
static std::string polyBrief(const Polygons& p) {
  std::string s = std::to_string(p.size()) + " contours:";
  for (size_t i = 0; i < p.size() && i < 6; i++) s += " " + std::to_string(p[i].size());
  if (!p.empty() && !p[0].empty()) s += " first=(" + fmt(p[0][0].x) + "," + fmt(p[0][0].y) + ")";
  return s;
}
static bool cmpPolys(Env& e, const char* fn, ManifoldPolygons* c, const Polygons& p) {
  bool viaSimple = e.r.chance(0.3);
  Polygons cp = pullPolygons(e, c, viaSimple);
  if (e.stop) return false;
  e.c.count("polygons_compared");
  if (polysEq(cp, p) && vo::HashPolygons(cp) == vo::HashPolygons(p)) return true;
  // blame: if the other read path agrees with the C++ value, the read path is at fault, not `fn`
  Polygons other = pullPolygons(e, c, !viaSimple);
  if (e.stop) return false;
  std::string key = std::string("mismatch:") + fn + ":polygons";
  if (polysEq(other, p)) key = viaSimple ? "mismatch:manifold_polygons_get_simple:polygons" : "mismatch:manifold_polygons_get_point:polygons";
  e.fail(key, vh::J().s("fn", fn).s("c", polyBrief(cp)).s("c_other_read_path", polyBrief(other)).s("cpp", polyBrief(p)));
  return false;
}

// ---- rect / box through the C accessors
static bool cmpRect(Env& e, const char* fn, ManifoldRect* c, const Rect& p) {
  return cmpV2(e, fn, "rect.min", CF(manifold_rect_min)(c), p.min) && cmpV2(e, fn, "rect.max", CF(manifold_rect_max)(c), p.max);
}
static bool cmpBox(Env& e, const char* fn, ManifoldBox* c, const Box& p) {
  return cmpV3(e, fn, "box.min", CF(manifold_box_min)(c), p.min) && cmpV3(e, fn, "box.max", CF(manifold_box_max)(c), p.max);
}

// ---- cross-sections
static bool cmpCs(Env& e, const char* fn, ManifoldCrossSection* c, const CrossSection& p, size_t* nvert = nullptr) {
  {
    Slot s = e.getMem(T_POLYS);
    ManifoldPolygons* cp = e.adopt(s, CF(manifold_cross_section_to_polygons)(s.mem, c), "manifold_cross_section_to_polygons");
    Polygons pp = p.ToPolygons();
    bool ok = cmpPolys(e, fn, cp, pp);
    e.release(s);
    if (!ok) return false;
  }
  e.c.count("cross_sections_compared");
  if (!cmpI(e, "manifold_cross_section_is_empty", "value", CF(manifold_cross_section_is_empty)(c), p.IsEmpty() ? 1 : 0)) return false;
  size_t nv = CF(manifold_cross_section_num_vert)(c);
  if (!cmpI(e, "manifold_cross_section_num_vert", "value", (long long)nv, (long long)p.NumVert())) return false;
  if (!cmpI(e, "manifold_cross_section_num_contour", "value", (long long)CF(manifold_cross_section_num_contour)(c), (long long)p.NumContour())) return false;
  if (!cmpD(e, "manifold_cross_section_area", "value", CF(manifold_cross_section_area)(c), p.Area())) return false;
  if (!cmpD(e, "manifold_cross_section_get_tolerance", "value", CF(manifold_cross_section_get_tolerance)(c), p.GetTolerance())) return false;
  if (e.r.chance(0.4)) {
    Slot s = e.getMem(T_RECT);
    ManifoldRect* cr = e.adopt(s, CF(manifold_cross_section_bounds)(s.mem, c), "manifold_cross_section_bounds");
    bool ok = cmpRect(e, "manifold_cross_section_bounds", cr, p.Bounds());
    e.release(s);
    if (!ok) return false;
  }
  if (nvert) *nvert = nv;
  e.c.sig(std::string(fn) + (nv ? ":cs-nonempty" : ":cs-empty"));
  return true;
}

// ---- manifolds
struct ManInfo { size_t ntri = 0; long nprop = 0; bool ok = false; bool tangents = false; };
static bool cmpMan(Env& e, const char* fn, ManifoldManifold* c, const Manifold& p, ManInfo* info = nullptr) {
  e.c.count("manifolds_compared");
  ManifoldError ce = CF(manifold_status)(c);
  Manifold::Error pe = p.Status();
  // geometry first (so that a wrong mesh is blamed on `fn`, a wrong query on the query)
  MeshGL64 pm = p.GetMeshGL64();
  MeshGL64 cmv;
  {
    Slot s = e.getMem(T_MESH64);
    ManifoldMeshGL64* cm = e.adopt(s, CF(manifold_get_meshgl64)(s.mem, c), "manifold_get_meshgl64");
    bool ok = !e.stop && cmpMesh<Acc64>(e, fn, cm, pm, false, &cmv);
    e.release(s);
    if (!ok) return false;
  }
  if (e.r.chance(0.25)) {
    MeshGL pm32 = p.GetMeshGL();
    Slot s = e.getMem(T_MESH);
    ManifoldMeshGL* cm = e.adopt(s, CF(manifold_get_meshgl)(s.mem, c), "manifold_get_meshgl");
    bool ok = !e.stop && cmpMesh<Acc>(e, "manifold_get_meshgl", cm, pm32, false);
    e.release(s);
    if (!ok) return false;
  }
  const ErrRow* row = errRow(pe);
  if (!row || row->c != ce) {
    e.fail(std::string("enum:manifold_status:") + (row ? row->name : "?"),
           vh::J().s("fn", fn).s("cpp_status", row ? row->name : "?").i("c_status", (int)ce).i("expected_c_status", row ? (int)row->c : -1));
    return false;
  }
  e.c.count(std::string("status_seen_") + row->name);
  if (!cmpI(e, "manifold_is_empty", "value", CF(manifold_is_empty)(c), p.IsEmpty() ? 1 : 0)) return false;
  if (!cmpI(e, "manifold_num_vert", "value", (long long)CF(manifold_num_vert)(c), (long long)p.NumVert())) return false;
  if (!cmpI(e, "manifold_num_edge", "value", (long long)CF(manifold_num_edge)(c), (long long)p.NumEdge())) return false;
  if (!cmpI(e, "manifold_num_tri", "value", (long long)CF(manifold_num_tri)(c), (long long)p.NumTri())) return false;
  long np = (long)CF(manifold_num_prop)(c);
  if (!cmpI(e, "manifold_num_prop", "value", np, (long long)p.NumProp())) return false;
  if (!cmpI(e, "manifold_num_prop_vert", "value", (long long)CF(manifold_num_prop_vert)(c), (long long)p.NumPropVert())) return false;
  // original id: equal up to the renaming of IDs between the twins
  {
    int cid = CF(manifold_original_id)(c), pid = p.OriginalID();
    bool cSelf = cid >= 0 && cmv.runOriginalID.size() == 1 && cmv.runOriginalID[0] == (uint32_t)cid;
    bool pSelf = pid >= 0 && pm.runOriginalID.size() == 1 && pm.runOriginalID[0] == (uint32_t)pid;
    if ((cid < 0) != (pid < 0) || cSelf != pSelf) {
      e.fail("mismatch:manifold_original_id:value",
             vh::J().i("c", cid).i("cpp", pid).s("c_runs", fmtv(cmv.runOriginalID)).s("cpp_runs", fmtv(pm.runOriginalID)));
      return false;
    }
  }
  if (e.r.chance(0.5)) {
    if (!cmpD(e, "manifold_epsilon", "value", CF(manifold_epsilon)(c), p.GetEpsilon())) return false;
    if (!cmpD(e, "manifold_get_tolerance", "value", CF(manifold_get_tolerance)(c), p.GetTolerance())) return false;
    if (!cmpI(e, "manifold_genus", "value", CF(manifold_genus)(c), p.Genus())) return false;
    if (!cmpD(e, "manifold_surface_area", "value", CF(manifold_surface_area)(c), p.SurfaceArea())) return false;
    if (!cmpD(e, "manifold_volume", "value", CF(manifold_volume)(c), p.Volume())) return false;
    Slot s = e.getMem(T_BOX);
    ManifoldBox* cb = e.adopt(s, CF(manifold_bounding_box)(s.mem, c), "manifold_bounding_box");
    bool ok = cmpBox(e, "manifold_bounding_box", cb, p.BoundingBox());
    e.release(s);
    if (!ok) return false;
  }
  size_t nt = pm.triVerts.size() / 3;
  if (info) {
    info->ntri = nt;
    info->nprop = np;
    info->ok = pe == Manifold::Error::NoError && nt > 0;
    info->tangents = !pm.halfedgeTangent.empty();
  }
  e.c.maxi("max_tris", (long long)nt);
  e.c.sig(std::string(fn) + (pe != Manifold::Error::NoError ? std::string(":err-") + row->name : (nt ? ":nonempty" : ":empty")));
  return !e.stop;
}

// ---- pool insertion
static int addMan(Env& e, const char* fn, Slot s, ManifoldManifold* ret, Manifold p, const std::string& how, bool doNote = true) {
  ManT t;
  t.s = s;
  t.c = e.adopt(t.s, ret, fn);
  t.p = std::move(p);
  t.how = how;
  if (doNote) e.note(how);
  ManInfo inf;
  bool ok = !e.stop && cmpMan(e, fn, t.c, t.p, &inf);
  t.ntri = inf.ntri;
  t.nprop = inf.nprop;
  t.ok = inf.ok;
  t.tangents = inf.tangents;
  e.mans.push_back(std::move(t));
  return ok ? (int)e.mans.size() - 1 : -1;
}
template <class FC, class FP>
static int mkMan(Env& e, const char* fn, FC fc, FP fp, const std::string& how) {
  Slot s = e.getMem(T_MAN);
  e.note(how);  // before the call: a crash inside it still shows the step in the replay trace
  ManifoldManifold* c = fc(s.mem);
  Manifold p = fp();
  return addMan(e, fn, s, c, std::move(p), how, false);
}
static int addCs(Env& e, const char* fn, Slot s, ManifoldCrossSection* ret, CrossSection p, const std::string& how, bool doNote = true) {
  CsT t;
  t.s = s;
  t.c = e.adopt(t.s, ret, fn);
  t.p = std::move(p);
  t.how = how;
  if (doNote) e.note(how);
  bool ok = !e.stop && cmpCs(e, fn, t.c, t.p, &t.nvert);
  t.ok = ok && t.nvert > 0;
  e.css.push_back(std::move(t));
  return ok ? (int)e.css.size() - 1 : -1;
}
template <class FC, class FP>
static int mkCs(Env& e, const char* fn, FC fc, FP fp, const std::string& how) {
  Slot s = e.getMem(T_CS);
  e.note(how);
  ManifoldCrossSection* c = fc(s.mem);
  CrossSection p = fp();
  return addCs(e, fn, s, c, std::move(p), how, false);
}

// ---------------------------------------------------------------- generators
static SimplePolygon genStar(Env& e, int n, double rad, vec2 ctr, bool cw) {
  SimplePolygon p;
  for (int i = 0; i < n; i++) {
    double a = 2 * kPi * i / n, rr = rad * e.uni(0.6, 1.3);
    p.push_back({ctr.x + rr * cos(a), ctr.y + rr * sin(a)});
  }
  if (cw) std::reverse(p.begin(), p.end());
  return p;
}
// valid (simple, non-overlapping, CCW outer / CW holes) polygon sets
static Polygons genValidPolys(Env& e, std::string* how) {
  Polygons ps;
  int k = e.r.range(0, 3);
  double rad = e.uni(0.5, 1.5);
  if (k == 0) {
    ps.push_back(genStar(e, e.r.range(3, 9), rad, {0, 0}, false));
    *how = "star";
  } else if (k == 1) {
    ps.push_back(genStar(e, e.r.range(5, 9), rad, {0, 0}, false));
    ps.push_back(genStar(e, e.r.range(3, 5), rad * 0.2, {0, 0}, true));
    *how = "star+hole";
  } else if (k == 2) {
    double w = e.len(), h = e.len();
    ps.push_back({{0, 0}, {w, 0}, {w, h}, {0, h}});
    *how = "rect";
  } else {
    ps.push_back(genStar(e, e.r.range(3, 7), rad, {0, 0}, false));
    ps.push_back(genStar(e, e.r.range(3, 7), rad, {4 * rad, 0.5}, false));
    *how = "two-stars";
  }
  return ps;
}
// contours that overlap (fill rule matters): only for CrossSection constructors / hulls
static Polygons genOverlapPolys(Env& e) {
  double w = e.len();
  Polygons ps;
  ps.push_back({{0, 0}, {w, 0}, {w, w}, {0, w}});
  double o = w * e.uni(0.2, 0.7);
  ps.push_back({{o, o}, {o + w, o}, {o + w, o + w}, {o, o + w}});
  return ps;
}

struct Raw {
  size_t nProp = 3;
  std::vector<double> vp;
  std::vector<uint64_t> tri, mFrom, mTo, runIndex;
  std::vector<uint32_t> runID;
  std::vector<double> tangents;
  bool valid = true;     // a closed manifold the library must accept
  std::string kind;
  size_t nVert() const { return nProp ? vp.size() / nProp : 0; }
  size_t nTri() const { return tri.size() / 3; }
};
static void rawFromPos(Raw& r, const std::vector<vec3>& pos, const std::vector<std::array<int, 3>>& tris) {
  r.nProp = 3;
  for (auto& p : pos) { r.vp.push_back(p.x); r.vp.push_back(p.y); r.vp.push_back(p.z); }
  for (auto& t : tris) for (int k : t) r.tri.push_back((uint64_t)k);
}
// f32: values must survive the float round trip identically on both sides -> quantise first
static Raw genRaw(Env& e, bool wantValid, bool f32, bool allowTangents, int mergeMode = 0 /*0 never, 1 maybe, 2 always*/) {
  Raw r;
  int shape = e.r.range(0, mergeMode == 2 ? 2 : (allowTangents ? 4 : 3));
  if (shape == 0) {
    rawFromPos(r, {{0, 0, 0}, {1, 0, 0}, {0, 1, 0}, {0, 0, 1}}, {{0, 2, 1}, {0, 1, 3}, {1, 2, 3}, {0, 3, 2}});
    r.kind = "tetra";
  } else if (shape == 1) {
    std::vector<vec3> pos;
    for (int i = 0; i < 8; i++) pos.push_back({(double)(i & 1), (double)((i >> 1) & 1), (double)((i >> 2) & 1)});
    rawFromPos(r, pos, {{0, 2, 3}, {0, 3, 1}, {4, 5, 7}, {4, 7, 6}, {0, 1, 5}, {0, 5, 4}, {2, 6, 7}, {2, 7, 3}, {0, 4, 6}, {0, 6, 2}, {1, 3, 7}, {1, 7, 5}});
    r.kind = "cube";
  } else if (shape == 2) {
    rawFromPos(r, {{1, 0, 0}, {-1, 0, 0}, {0, 1, 0}, {0, -1, 0}, {0, 0, 1}, {0, 0, -1}},
               {{0, 2, 4}, {2, 1, 4}, {1, 3, 4}, {3, 0, 4}, {2, 0, 5}, {1, 2, 5}, {3, 1, 5}, {0, 3, 5}});
    r.kind = "octa";
  } else {
    // arrays exported from a harness-side C++ solid (just data from here on)
    Manifold src;
    if (shape == 3) {
      src = e.r.chance(0.5) ? Manifold::Sphere(e.len(), 4 * e.r.range(1, 3)) : Manifold::Cylinder(e.len(), e.len(), e.len(), e.r.range(3, 9));
      r.kind = "export";
    } else {
      src = Manifold::Cube(vec3(e.len(), e.len(), e.len())).SmoothOut(e.uni(20, 80), e.uni(0, 0.5));
      r.kind = "export+tangents";
    }
    MeshGL64 m = src.GetMeshGL64();
    r.nProp = m.numProp;
    r.vp = m.vertProperties;
    r.tri = m.triVerts;
    r.mFrom = m.mergeFromVert;
    r.mTo = m.mergeToVert;
    if (shape == 4) r.tangents = m.halfedgeTangent;
  }
  // generic affine map of the positions
  {
    vec3 t = e.v3();
    double sx = e.uni(0.5, 2), sy = e.uni(0.5, 2), sz = e.uni(0.5, 2), sh = e.uni(-0.3, 0.3);
    for (size_t v = 0; v < r.nVert(); v++) {
      double* q = &r.vp[v * r.nProp];
      double x = q[0], y = q[1], z = q[2];
      q[0] = sx * x + sh * y + t.x;
      q[1] = sy * y + t.y;
      q[2] = sz * z + sh * x + t.z;
    }
    if (!r.tangents.empty()) r.kind += "(affine)";
  }
  // extra property channels
  if (r.nProp == 3 && e.r.chance(0.5)) {
    size_t np = 3 + (size_t)e.r.range(1, 3), nv = r.nVert();
    std::vector<double> vp2;
    for (size_t v = 0; v < nv; v++) {
      for (int k = 0; k < 3; k++) vp2.push_back(r.vp[3 * v + k]);
      for (size_t k = 3; k < np; k++) vp2.push_back(e.uni(-1, 1));
    }
    r.vp = vp2;
    r.nProp = np;
    r.kind += "+props" + std::to_string(np);
  }
  // a duplicated vertex joined by a merge pair
  if (mergeMode && r.mFrom.empty() && r.tangents.empty() && (mergeMode == 2 || e.r.chance(0.4))) {
    size_t nv = r.nVert();
    uint64_t v = r.tri[0];
    for (size_t k = 0; k < r.nProp; k++) r.vp.push_back(r.vp[v * r.nProp + k]);
    r.tri[0] = nv;
    r.mFrom.push_back(nv);
    r.mTo.push_back(v);
    r.kind += "+merge";
  }
  // two runs with caller-reserved IDs (reserved HERE so both twins use the same numbers)
  if (e.r.chance(0.4) && r.nTri() >= 2) {
    uint32_t id = Manifold::ReserveIDs(2);
    size_t cut = (size_t)e.r.range(1, (int)r.nTri() - 1);
    r.runIndex = {0, 3 * cut, 3 * r.nTri()};
    r.runID = {id, id + 1};
    r.kind += "+2runs";
  }
  if (!wantValid) {
    r.valid = false;
    int bad = e.r.range(0, 5);
    if (bad == 0) { r.vp[e.r.below(r.vp.size() / r.nProp) * r.nProp + 1] = NAN; r.kind += "!nan"; }
    else if (bad == 1) { r.tri.resize(r.tri.size() - 3); r.runIndex.clear(); r.runID.clear(); r.tangents.clear(); r.kind += "!open"; }
    else if (bad == 2) { r.tri[e.r.below(r.tri.size())] = r.nVert() + 5; r.kind += "!index-oob"; }
    else if (bad == 3) {
      size_t nv = r.nVert();
      r.nProp = 2; r.vp.resize(nv * 2); r.mFrom.clear(); r.mTo.clear(); r.tangents.clear();
      r.kind += "!numProp2";
    }
    else if (bad == 4) { r.mFrom.push_back(r.nVert() + 3); r.mTo.push_back(0); r.kind += "!merge-oob"; }
    else {
      uint32_t id = Manifold::ReserveIDs(3);  // 3 IDs, 2 run indices: neither n+1 nor n (both are accepted)
      r.runIndex = {0, 3 * r.nTri()};
      r.runID = {id, id + 1, id + 2};
      r.kind += "!runIndex-length";
    }
  }
  if (f32) {
    for (auto& x : r.vp) x = (double)(float)x;
    for (auto& x : r.tangents) x = (double)(float)x;
  }
  return r;
}
template <class T, class S>
static std::vector<T> conv(const std::vector<S>& v) {
  std::vector<T> o(v.size());
  for (size_t i = 0; i < v.size(); i++) o[i] = (T)v[i];
  return o;
}
template <class P>
static P rawToCpp(const Raw& r, bool withTangents, bool withOptions) {
  typedef typename std::remove_reference<decltype(P().vertProperties[0])>::type F;
  typedef typename std::remove_reference<decltype(P().triVerts[0])>::type I;
  P m;
  m.numProp = (I)r.nProp;
  m.vertProperties = conv<F>(r.vp);
  m.triVerts = conv<I>(r.tri);
  if (withTangents) m.halfedgeTangent = conv<F>(r.tangents);
  if (withOptions) {
    m.mergeFromVert = conv<I>(r.mFrom);
    m.mergeToVert = conv<I>(r.mTo);
    m.runIndex = conv<I>(r.runIndex);
    m.runOriginalID = r.runID;
  }
  return m;
}

// ---------------------------------------------------------------- pool picking
static void e_cube(Env& e);
static void e_square(Env& e);
static void e_polygons(Env& e);
static void e_meshgl(Env& e);
static void e_meshgl64(Env& e);

static int pickMan(Env& e, size_t maxTri = 1500, bool needOk = false, bool noTangents = false, bool needSimple = false) {
  for (int tries = 0; tries < 2; tries++) {
    std::vector<int> cand;
    for (size_t i = 0; i < e.mans.size(); i++)
      if (e.mans[i].ntri <= maxTri && (!needOk || e.mans[i].ok) && (!noTangents || !e.mans[i].tangents) && (!needSimple || (e.mans[i].simple && e.mans[i].ok)))
        cand.push_back((int)i);
    if (!cand.empty()) return e.r.pick(cand);
    std::string keep = e.entry;
    e_cube(e);  // guarantees a small, valid solid (sizes are forced positive on this path)
    e.entry = keep;
    if (e.stop) return -1;
  }
  return -1;
}
static int pickCs(Env& e, bool needOk = false) {
  for (int tries = 0; tries < 2; tries++) {
    std::vector<int> cand;
    for (size_t i = 0; i < e.css.size(); i++)
      if ((!needOk || e.css[i].ok) && e.css[i].nvert <= 400) cand.push_back((int)i);
    if (!cand.empty()) return e.r.pick(cand);
    e_square(e);
    if (e.stop) return -1;
  }
  return -1;
}
static int pickPolys(Env& e) {
  for (int tries = 0; tries < 2; tries++) {
    std::vector<int> cand;
    for (size_t i = 0; i < e.polys.size(); i++)
      if (e.polys[i].valid) cand.push_back((int)i);
    if (!cand.empty()) return e.r.pick(cand);
    e_polygons(e);
    if (e.stop) return -1;
  }
  return -1;
}
static int pickMesh(Env& e) {
  for (int tries = 0; tries < 3; tries++) {
    std::vector<int> cand;
    for (size_t i = 0; i < e.meshes.size(); i++)
      if (e.meshes[i].valid) cand.push_back((int)i);
    if (!cand.empty()) return e.r.pick(cand);
    e_meshgl(e);
    if (e.stop) return -1;
  }
  return -1;
}
static int pickMesh64(Env& e) {
  for (int tries = 0; tries < 3; tries++) {
    std::vector<int> cand;
    for (size_t i = 0; i < e.meshes64.size(); i++)
      if (e.meshes64[i].valid) cand.push_back((int)i);
    if (!cand.empty()) return e.r.pick(cand);
    e_meshgl64(e);
    if (e.stop) return -1;
  }
  return -1;
}
#define PICK_MAN(i, ...)              \
  int i = pickMan(e, ##__VA_ARGS__);  \
  if (i < 0) return;                  \
  ManifoldManifold* i##c = e.mans[i].c; \
  const Manifold& i##p = e.mans[i].p;   \
  std::string i##n = "m" + std::to_string(i) + "{" + e.mans[i].how.substr(0, 40) + "}"
#define PICK_CS(i, ...)              \
  int i = pickCs(e, ##__VA_ARGS__);  \
  if (i < 0) return;                 \
  ManifoldCrossSection* i##c = e.css[i].c; \
  const CrossSection& i##p = e.css[i].p;   \
  std::string i##n = "cs" + std::to_string(i) + "{" + e.css[i].how.substr(0, 40) + "}"

// ---------------------------------------------------------------- entries: leaves
static bool g_forceValid = false;
static int cint(Env& e) { return e.r.chance(0.5) ? 0 : (e.r.chance(0.8) ? 1 : 7); }  // C "bool": any non-zero is true

static void e_empty(Env& e) {
  mkMan(e, "manifold_empty", [&](void* m) { return CF(manifold_empty)(m); }, [&] { return Manifold(); }, "empty()");
}
static void e_tetrahedron(Env& e) {
  int ni_ = mkMan(e, "manifold_tetrahedron", [&](void* m) { return CF(manifold_tetrahedron)(m); }, [&] { return Manifold::Tetrahedron(); }, "tetrahedron()");
  if (ni_ >= 0) e.mans[ni_].simple = e.mans[ni_].ok;
}
static void e_cube(Env& e) {
  bool force = g_forceValid || e.entry != "cube";
  double x = e.len(), y = e.len(), z = e.len();
  if (!force && e.r.chance(0.12)) (e.r.chance(0.5) ? x : z) = e.r.chance(0.5) ? -1.0 : 0.0;
  int ctr = cint(e);
  int ni_ = mkMan(e, "manifold_cube", [&](void* m) { return CF(manifold_cube)(m, x, y, z, ctr); },
        [&] { return Manifold::Cube(vec3(x, y, z), ctr != 0); },
        "cube(" + fmt(x) + "," + fmt(y) + "," + fmt(z) + "," + std::to_string(ctr) + ")");
  if (ni_ >= 0) e.mans[ni_].simple = e.mans[ni_].ok;
}
static void e_cylinder(Env& e) {
  double h = e.len(), rl = e.len(), rh = e.r.chance(0.3) ? -1.0 : e.len();
  if (e.r.chance(0.08)) h = -h;
  int seg = e.r.chance(0.3) ? 0 : e.r.range(3, 14), ctr = cint(e);
  int ni_ = mkMan(e, "manifold_cylinder", [&](void* m) { return CF(manifold_cylinder)(m, h, rl, rh, seg, ctr); },
        [&] { return Manifold::Cylinder(h, rl, rh, seg, ctr != 0); },
        "cylinder(" + fmt(h) + "," + fmt(rl) + "," + fmt(rh) + "," + std::to_string(seg) + "," + std::to_string(ctr) + ")");
  if (ni_ >= 0) e.mans[ni_].simple = e.mans[ni_].ok;
}
static void e_sphere(Env& e) {
  double rad = e.r.chance(0.08) ? -1.0 : e.len();
  int seg = e.r.chance(0.3) ? 0 : e.r.range(3, 20);
  int ni_ = mkMan(e, "manifold_sphere", [&](void* m) { return CF(manifold_sphere)(m, rad, seg); }, [&] { return Manifold::Sphere(rad, seg); },
        "sphere(" + fmt(rad) + "," + std::to_string(seg) + ")");
  if (ni_ >= 0) e.mans[ni_].simple = e.mans[ni_].ok;
}
static void e_hull_pts(Env& e) {
  int n = e.r.chance(0.1) ? e.r.range(0, 3) : e.r.range(4, 24);
  std::vector<ManifoldVec3> cp;
  std::vector<vec3> pp;
  for (int i = 0; i < n; i++) {
    vec3 v = e.v3();
    cp.push_back({v.x, v.y, v.z});
    pp.push_back(v);
  }
  ManifoldVec3* arr = e.exact(cp);
  mkMan(e, "manifold_hull_pts", [&](void* m) { return CF(manifold_hull_pts)(m, arr, (size_t)n); }, [&] { return Manifold::Hull(pp); },
        "hull_pts(n=" + std::to_string(n) + ")");
}

// ---- polygons (constructors + accessors); valid sets go to the pool
static PolyT buildPolys(Env& e, const Polygons& p, const std::string& how) {
  // simple polygons first, each through manifold_simple_polygon
  std::vector<Slot> ss;
  std::vector<ManifoldSimplePolygon*> sps;
  for (auto& ring : p) {
    std::vector<ManifoldVec2> pts;
    for (auto& v : ring) pts.push_back({v.x, v.y});
    ManifoldVec2* arr = e.exact(pts);
    Slot s = e.getMem(T_SP);
    ManifoldSimplePolygon* sp = e.adopt(s, CF(manifold_simple_polygon)(s.mem, arr, pts.size()), "manifold_simple_polygon");
    cmpI(e, "manifold_simple_polygon_length", "value", (long long)CF(manifold_simple_polygon_length)(sp), (long long)ring.size());
    if (!ring.empty() && !e.stop) {
      size_t j = e.r.below(ring.size());
      cmpV2(e, "manifold_simple_polygon_get_point", "point", CF(manifold_simple_polygon_get_point)(sp, j), ring[j]);
    }
    ss.push_back(s);
    sps.push_back(sp);
  }
  PolyT t;
  t.s = e.getMem(T_POLYS);
  ManifoldSimplePolygon** arr = e.exact(sps);
  t.c = e.adopt(t.s, CF(manifold_polygons)(t.s.mem, arr, sps.size()), "manifold_polygons");
  t.p = p;
  t.how = how;
  for (auto& s : ss) e.release(s);  // manifold_polygons copies: the parts may go first
  if (!e.stop) cmpPolys(e, "manifold_polygons", t.c, t.p);
  return t;
}
static void e_polygons(Env& e) {
  std::string how;
  Polygons p = genValidPolys(e, &how);
  e.note("polygons(" + how + ")");
  PolyT t = buildPolys(e, p, how);
  t.valid = true;
  e.polys.push_back(std::move(t));
}
static void e_polygons_odd(Env& e) {  // empty set, empty ring, single point: marshalling only
  Polygons p;
  int k = e.r.range(0, 2);
  if (k == 1) p = {{}, {{1, 2}}};
  if (k == 2) p = {{{0, 0}, {1, 0}}, {}, {{3, 4}, {5, 6}, {7, 8}}};
  e.note("polygons(odd " + std::to_string(k) + ")");
  PolyT t = buildPolys(e, p, "odd");
  e.release(t.s);
}

static void e_extrude(Env& e) {
  int i = pickPolys(e);
  if (i < 0) return;
  ManifoldPolygons* pc = e.polys[i].c;
  const Polygons& pp = e.polys[i].p;
  double h = e.r.chance(0.07) ? -1.0 : e.len(), tw = e.r.chance(0.5) ? 0.0 : e.uni(-120, 120);
  int sl = e.r.range(0, 3);
  double sx = e.r.chance(0.5) ? 1.0 : e.uni(0.2, 1.6), sy = e.r.chance(0.5) ? 1.0 : e.uni(0.2, 1.6);
  if (e.r.chance(0.08)) sx = sy = 0.0;
  mkMan(e, "manifold_extrude", [&](void* m) { return CF(manifold_extrude)(m, pc, h, sl, tw, sx, sy); },
        [&] { return Manifold::Extrude(pp, h, sl, tw, vec2(sx, sy)); },
        "extrude(" + e.polys[i].how + "," + fmt(h) + "," + std::to_string(sl) + "," + fmt(tw) + "," + fmt(sx) + "," + fmt(sy) + ")");
}
static void e_revolve(Env& e) {
  int i = pickPolys(e);
  if (i < 0) return;
  ManifoldPolygons* pc = e.polys[i].c;
  const Polygons& pp = e.polys[i].p;
  int seg = e.r.chance(0.3) ? 0 : e.r.range(3, 12);
  double deg = e.r.chance(0.4) ? 360.0 : e.uni(20, 340);
  mkMan(e, "manifold_revolve", [&](void* m) { return CF(manifold_revolve)(m, pc, seg, deg); }, [&] { return Manifold::Revolve(pp, seg, deg); },
        "revolve(" + e.polys[i].how + "," + std::to_string(seg) + "," + fmt(deg) + ")");
}

// ---- level sets (callback + user context)
struct SdfCtx { uint64_t magic; double r, ax, ay, az, ox, oy, oz; long calls; };
static double sdfEval(const SdfCtx* s, double x, double y, double z) {
  double dx = (x - s->ox) * s->ax, dy = (y - s->oy) * s->ay, dz = (z - s->oz) * s->az;
  return s->r - std::sqrt(dx * dx + dy * dy + dz * dz);
}
static double c_sdf(double x, double y, double z, void* ctx) {
  g_cbCalls++;
  if (ctx != g_expectCtx) { g_ctxBad++; ctx = g_expectCtx; }
  SdfCtx* s = (SdfCtx*)ctx;
  s->calls++;
  return sdfEval(s, x, y, z);
}
static bool checkCb(Env& e, const char* fn, long cCalls, long pCalls) {
  if (g_ctxBad) {
    e.fail(std::string("callback-ctx:") + fn, vh::J().s("fn", fn).i("calls_with_wrong_ctx", g_ctxBad));
    g_ctxBad = 0;
    return false;
  }
  e.c.count("callback_invocations_ctx_checked", cCalls);
  if (cCalls != pCalls) {
    e.fail(std::string("callback-calls:") + fn, vh::J().s("fn", fn).i("c_calls", cCalls).i("cpp_calls", pCalls));
    return false;
  }
  return true;
}
struct EcT { Slot s; ManifoldExecutionContext* c = nullptr; std::unique_ptr<ExecutionContext> p; };
static EcT newEc(Env& e) {
  EcT t;
  t.s = e.getMem(T_EC);
  t.c = e.adopt(t.s, CF(manifold_execution_context)(t.s.mem), "manifold_execution_context");
  t.p.reset(new ExecutionContext());
  return t;
}
static bool cmpEc(Env& e, EcT& t) {
  return cmpI(e, "manifold_execution_context_cancelled", "value", CF(manifold_execution_context_cancelled)(t.c), t.p->Cancelled() ? 1 : 0) &&
         cmpD(e, "manifold_execution_context_progress", "value", CF(manifold_execution_context_progress)(t.c), t.p->Progress());
}
static void cancelBoth(Env& e, EcT& t) {
  CF(manifold_execution_context_cancel)(t.c);
  t.p->Cancel();
  cmpI(e, "manifold_execution_context_cancel", "cancelled-afterwards", CF(manifold_execution_context_cancelled)(t.c), t.p->Cancelled() ? 1 : 0);
}
static void levelSet(Env& e, int variant) {  // 0 plain, 1 seq, 2 ec, 3 ec seq
  static const char* names[] = {"manifold_level_set", "manifold_level_set_seq", "manifold_execution_context_level_set",
                                "manifold_execution_context_level_set_seq"};
  const char* fn = names[variant];
  SdfCtx* sc = e.obj<SdfCtx>();
  sc->magic = 0x5df5df;
  sc->r = e.uni(0.6, 1.4);
  sc->ax = e.uni(0.7, 1.4); sc->ay = e.uni(0.7, 1.4); sc->az = e.uni(0.7, 1.4);
  sc->ox = e.uni(-0.2, 0.2); sc->oy = e.uni(-0.2, 0.2); sc->oz = e.uni(-0.2, 0.2);
  SdfCtx pc = *sc;
  double b = sc->r / 0.7 + 0.4;
  double x1 = -b * e.uni(0.8, 1.1), y1 = -b * e.uni(0.8, 1.1), z1 = -b * e.uni(0.8, 1.1), x2 = b * e.uni(0.8, 1.1), y2 = b * e.uni(0.8, 1.1), z2 = b * e.uni(0.8, 1.1);
  double edge = sc->r / e.uni(1.6, 3.0), level = e.uni(-0.1, 0.1), tol = e.r.chance(0.5) ? -1.0 : e.uni(0.001, 0.05);
  Slot bs = e.getMem(T_BOX);
  ManifoldBox* cb = e.adopt(bs, CF(manifold_box)(bs.mem, x1, y1, z1, x2, y2, z2), "manifold_box");
  Box pb(vec3(x1, y1, z1), vec3(x2, y2, z2));
  EcT ec;
  bool cancel = false;
  if (variant >= 2) {
    ec = newEc(e);
    cancel = e.r.chance(0.25);
    if (cancel) cancelBoth(e, ec);
  }
  g_expectCtx = sc;
  g_ctxBad = 0;
  long pCalls = 0;
  auto psdf = [&pc, &pCalls](vec3 v) { pCalls++; return sdfEval(&pc, v.x, v.y, v.z); };
  mkMan(e, fn,
        [&](void* m) {
          switch (variant) {
            case 0: return CF(manifold_level_set)(m, c_sdf, cb, edge, level, tol, sc);
            case 1: return CF(manifold_level_set_seq)(m, c_sdf, cb, edge, level, tol, sc);
            case 2: return CF(manifold_execution_context_level_set)(m, ec.c, c_sdf, cb, edge, level, tol, sc);
            default: return CF(manifold_execution_context_level_set_seq)(m, ec.c, c_sdf, cb, edge, level, tol, sc);
          }
        },
        [&] {
          switch (variant) {
            case 0: return Manifold::LevelSet(psdf, pb, edge, level, tol, true);
            case 1: return Manifold::LevelSet(psdf, pb, edge, level, tol, false);
            case 2: return ec.p->LevelSet(psdf, pb, edge, level, tol, true);
            default: return ec.p->LevelSet(psdf, pb, edge, level, tol, false);
          }
        },
        std::string(fn + 9) + "(r=" + fmt(sc->r) + ",edge=" + fmt(edge) + ",level=" + fmt(level) + ",tol=" + fmt(tol) + (cancel ? ",cancelled" : "") + ")");
  if (!e.stop) checkCb(e, fn, sc->calls, pCalls);
  if (variant >= 2) {
    if (!e.stop) cmpEc(e, ec);
    e.release(ec.s);
  }
  g_expectCtx = nullptr;
  e.release(bs);
}
static void e_level_set(Env& e) { levelSet(e, 0); }
static void e_level_set_seq(Env& e) { levelSet(e, 1); }
static void e_ec_level_set(Env& e) { levelSet(e, 2); }
static void e_ec_level_set_seq(Env& e) { levelSet(e, 3); }

// ---------------------------------------------------------------- entries: meshes
template <class A>
static void pushMesh(Env& e, Slot s, typename A::C* c, typename A::P p, bool valid, const std::string& how, bool exact = true);
template <>
void pushMesh<Acc>(Env& e, Slot s, ManifoldMeshGL* c, MeshGL p, bool valid, const std::string& how, bool exact) {
  MeshT t; t.s = s; t.c = c; t.p = std::move(p); t.valid = valid; t.how = how; t.exact = exact;
  e.meshes.push_back(std::move(t));
}
template <>
void pushMesh<Acc64>(Env& e, Slot s, ManifoldMeshGL64* c, MeshGL64 p, bool valid, const std::string& how, bool exact) {
  Mesh64T t; t.s = s; t.c = c; t.p = std::move(p); t.valid = valid; t.how = how; t.exact = exact;
  e.meshes64.push_back(std::move(t));
}

// variant 0: manifold_meshglS, 1: _w_tangents, 2: _w_options
template <class A>
static void meshCtor(Env& e, int variant, bool wantValid, bool forceMerge = false) {
  typedef typename A::F F;
  typedef typename A::I I;
  const bool is64 = sizeof(I) == 8;
  Raw r = genRaw(e, wantValid, !is64, variant >= 1, variant == 2 ? (forceMerge ? 2 : 1) : 0);
  if (variant == 1 && r.tangents.empty()) {  // tangents are mandatory for w_tangents: 4 per halfedge
    r.tangents.assign(12 * r.nTri(), 0.0);
    for (auto& t : r.tangents) t = (double)(float)e.uni(-0.2, 0.2);
  }
  std::vector<F> vp = conv<F>(r.vp), tg = conv<F>(r.tangents);
  std::vector<I> tri = conv<I>(r.tri), mf = conv<I>(r.mFrom), mt = conv<I>(r.mTo), ri = conv<I>(r.runIndex);
  F* avp = e.exact(vp);
  I* atri = e.exact(tri);
  Slot s = e.getMem(is64 ? T_MESH64 : T_MESH);
  typename A::C* c = nullptr;
  typename A::P p;
  std::string fn;
  size_t nv = r.nVert(), nt = r.nTri();
  bool optTang = false, optRuns = false, optMerge = false;
  if (variant == 0) {
    p = rawToCpp<typename A::P>(r, false, false);
    if constexpr (sizeof(I) == 8) { fn = "manifold_meshgl64"; c = CF(manifold_meshgl64)(s.mem, avp, nv, r.nProp, atri, nt); }
    else { fn = "manifold_meshgl"; c = CF(manifold_meshgl)(s.mem, avp, nv, r.nProp, atri, nt); }
  } else if (variant == 1) {
    p = rawToCpp<typename A::P>(r, true, false);
    F* atg = e.exact(tg);
    if constexpr (sizeof(I) == 8) { fn = "manifold_meshgl64_w_tangents"; c = CF(manifold_meshgl64_w_tangents)(s.mem, avp, nv, r.nProp, atri, nt, atg); }
    else { fn = "manifold_meshgl_w_tangents"; c = CF(manifold_meshgl_w_tangents)(s.mem, avp, nv, r.nProp, atri, nt, atg); }
  } else {
    // each option group independently present or NULL
    optTang = !r.tangents.empty() && e.r.chance(0.8);
    optRuns = !r.runID.empty() && (e.r.chance(0.85) || !wantValid);
    optMerge = !r.mFrom.empty() && (e.r.chance(0.85) || !wantValid || true);  // dropping the merge of a split vertex would open the mesh
    p = rawToCpp<typename A::P>(r, optTang, false);
    if (optRuns) { p.runIndex = ri; p.runOriginalID = r.runID; }
    if (optMerge) { p.mergeFromVert = mf; p.mergeToVert = mt; }
    if constexpr (sizeof(I) == 8) {
      ManifoldMeshGL64Options* o = e.obj<ManifoldMeshGL64Options>();
      if (optTang) o->halfedge_tangents = e.exact(tg);
      if (optRuns) { o->run_indices = e.exact(ri); o->run_indices_length = ri.size(); o->run_original_ids = e.exact(r.runID); o->run_original_ids_length = r.runID.size(); }
      if (optMerge) { o->merge_from_vert = e.exact(mf); o->merge_to_vert = e.exact(mt); o->merge_verts_length = mf.size(); }
      fn = "manifold_meshgl64_w_options";
      c = CF(manifold_meshgl64_w_options)(s.mem, avp, nv, r.nProp, atri, nt, o);
    } else {
      ManifoldMeshGLOptions* o = e.obj<ManifoldMeshGLOptions>();
      if (optTang) o->halfedge_tangents = e.exact(tg);
      if (optRuns) { o->run_indices = e.exact(ri); o->run_indices_length = ri.size(); o->run_original_ids = e.exact(r.runID); o->run_original_ids_length = r.runID.size(); }
      if (optMerge) { o->merge_from_vert = e.exact(mf); o->merge_to_vert = e.exact(mt); o->merge_verts_length = mf.size(); }
      fn = "manifold_meshgl_w_options";
      c = CF(manifold_meshgl_w_options)(s.mem, avp, nv, r.nProp, atri, nt, o);
    }
  }
  std::string how = fn.substr(9) + "(" + r.kind + ",nv=" + std::to_string(nv) + ",nt=" + std::to_string(nt) + ",np=" + std::to_string(r.nProp) +
                    (variant == 2 ? std::string(",opts=") + (optTang ? "T" : "-") + (optRuns ? "R" : "-") + (optMerge ? "M" : "-") : "") + ")";
  e.note(how);
  c = e.adopt(s, c, fn.c_str());
  bool ok = !e.stop && cmpMesh<A>(e, fn.c_str(), c, p, true);
  // a mesh whose merge pair was not passed is open: not usable as a valid solid
  bool valid = ok && r.valid && (r.mFrom.empty() || variant == 2) && r.nProp >= 3;
  pushMesh<A>(e, s, c, std::move(p), valid, how);
  // the error statuses of malformed meshes through manifold_of_meshgl*
  if (ok && !r.valid) {
    auto& back = [&]() -> auto& { if constexpr (sizeof(I) == 8) return e.meshes64.back(); else return e.meshes.back(); }();
    auto* mc = back.c;
    const auto& mp = back.p;
    if constexpr (sizeof(I) == 8)
      mkMan(e, "manifold_of_meshgl64", [&](void* m) { return CF(manifold_of_meshgl64)(m, mc); }, [&] { return Manifold(mp); }, "of_meshgl64(" + how + ")");
    else
      mkMan(e, "manifold_of_meshgl", [&](void* m) { return CF(manifold_of_meshgl)(m, mc); }, [&] { return Manifold(mp); }, "of_meshgl(" + how + ")");
  }
}
static void e_meshgl(Env& e) { meshCtor<Acc>(e, 0, true); }
static void e_meshgl64(Env& e) { meshCtor<Acc64>(e, 0, true); }
static void e_meshgl_w_tangents(Env& e) { meshCtor<Acc>(e, 1, true); }
static void e_meshgl64_w_tangents(Env& e) { meshCtor<Acc64>(e, 1, true); }
static void e_meshgl_w_options(Env& e) { meshCtor<Acc>(e, 2, true); }
static void e_meshgl64_w_options(Env& e) { meshCtor<Acc64>(e, 2, true); }
static void e_meshgl_w_options_merge(Env& e) { meshCtor<Acc>(e, 2, true, true); }
static void e_meshgl64_w_options_merge(Env& e) { meshCtor<Acc64>(e, 2, true, true); }
static void e_meshgl_bad(Env& e) { meshCtor<Acc>(e, e.r.chance(0.5) ? 2 : 0, false); }
static void e_meshgl64_bad(Env& e) { meshCtor<Acc64>(e, e.r.chance(0.5) ? 2 : 0, false); }

void getMesh(Env& e, bool is64, bool wn) {  // exported meshes join the mesh pools
  int a;
  {
    PICK_MAN(src, 800, true);
    double x = e.coord(), y = e.coord(), z = e.coord();
    a = mkMan(e, "manifold_translate", [&](void* m) { return CF(manifold_translate)(m, srcc, x, y, z); }, [&] { return srcp.Translate(vec3(x, y, z)); },
              "translate(" + srcn + "," + fmt(x) + "," + fmt(y) + "," + fmt(z) + ")");
    if (a < 0) return;
  }
  ManifoldManifold* ac = e.mans[a].c;
  const Manifold& ap = e.mans[a].p;
  std::string an = "m" + std::to_string(a);
  // normalIdx >= 0 only where the channels exist (anything else is outside the C++ API's own domain)
  int nIdx = (e.mans[a].nprop >= 3 && e.r.chance(0.7)) ? e.r.range(0, (int)e.mans[a].nprop - 3) : -1;
  if (!wn) nIdx = -1;
  if (is64) {
    Slot s = e.getMem(T_MESH64);
    MeshGL64 p = wn ? ap.GetMeshGL64(nIdx) : ap.GetMeshGL64();
    const char* fn = wn ? "manifold_get_meshgl64_w_normals" : "manifold_get_meshgl64";
    ManifoldMeshGL64* c = e.adopt(s, wn ? CF(manifold_get_meshgl64_w_normals)(s.mem, ac, nIdx) : CF(manifold_get_meshgl64)(s.mem, ac), fn);
    e.note(std::string(fn + 9) + "(" + an + "," + std::to_string(nIdx) + ")");
    bool ok = !e.stop && cmpMesh<Acc64>(e, fn, c, p, false);
    pushMesh<Acc64>(e, s, c, std::move(p), ok, "export64", false);
  } else {
    Slot s = e.getMem(T_MESH);
    MeshGL p = wn ? ap.GetMeshGL(nIdx) : ap.GetMeshGL();
    const char* fn = wn ? "manifold_get_meshgl_w_normals" : "manifold_get_meshgl";
    ManifoldMeshGL* c = e.adopt(s, wn ? CF(manifold_get_meshgl_w_normals)(s.mem, ac, nIdx) : CF(manifold_get_meshgl)(s.mem, ac), fn);
    e.note(std::string(fn + 9) + "(" + an + "," + std::to_string(nIdx) + ")");
    bool ok = !e.stop && cmpMesh<Acc>(e, fn, c, p, false);
    pushMesh<Acc>(e, s, c, std::move(p), ok, "export32", false);
  }
}
void copyMerge(Env& e, bool is64, bool merge) {
  if (!is64) {
    int i = pickMesh(e);
    if (i < 0) return;
    ManifoldMeshGL* mc = e.meshes[i].c;
    MeshGL p = e.meshes[i].p;
    if (merge) p.Merge();
    const char* fn = merge ? "manifold_meshgl_merge" : "manifold_meshgl_copy";
    Slot s = e.getMem(T_MESH);
    ManifoldMeshGL* c = e.adopt(s, merge ? CF(manifold_meshgl_merge)(s.mem, mc) : CF(manifold_meshgl_copy)(s.mem, mc), fn);
    e.note(std::string(fn + 9) + "(" + e.meshes[i].how + ")");
    bool ok = !e.stop && cmpMesh<Acc>(e, fn, c, p, e.meshes[i].exact);
    pushMesh<Acc>(e, s, c, std::move(p), ok && e.meshes[i].valid, e.meshes[i].how + (merge ? ".merge" : ".copy"), e.meshes[i].exact);
  } else {
    int i = pickMesh64(e);
    if (i < 0) return;
    ManifoldMeshGL64* mc = e.meshes64[i].c;
    MeshGL64 p = e.meshes64[i].p;
    if (merge) p.Merge();
    const char* fn = merge ? "manifold_meshgl64_merge" : "manifold_meshgl64_copy";
    Slot s = e.getMem(T_MESH64);
    ManifoldMeshGL64* c = e.adopt(s, merge ? CF(manifold_meshgl64_merge)(s.mem, mc) : CF(manifold_meshgl64_copy)(s.mem, mc), fn);
    e.note(std::string(fn + 9) + "(" + e.meshes64[i].how + ")");
    bool ok = !e.stop && cmpMesh<Acc64>(e, fn, c, p, e.meshes64[i].exact);
    pushMesh<Acc64>(e, s, c, std::move(p), ok && e.meshes64[i].valid, e.meshes64[i].how + (merge ? ".merge" : ".copy"), e.meshes64[i].exact);
  }
}
// a mesh that needs merging: the same solid with every triangle's vertices split (Merge() must re-join them)
static void e_meshgl_merge_split(Env& e) {
  Raw r = genRaw(e, true, false, false);
  if (r.nProp != 3) return;
  Raw sp;
  sp.nProp = 3;
  for (size_t t = 0; t < r.nTri(); t++)
    for (int k = 0; k < 3; k++) {
      uint64_t v = r.tri[3 * t + k];
      for (int q = 0; q < 3; q++) sp.vp.push_back(r.vp[3 * v + q]);
      sp.tri.push_back(3 * t + k);
    }
  MeshGL64 p = rawToCpp<MeshGL64>(sp, false, false);
  Slot s0 = e.getMem(T_MESH64);
  ManifoldMeshGL64* c0 = e.adopt(s0, CF(manifold_meshgl64)(s0.mem, e.exact(p.vertProperties), sp.nVert(), 3, e.exact(p.triVerts), sp.nTri()), "manifold_meshgl64");
  p.Merge();
  Slot s = e.getMem(T_MESH64);
  ManifoldMeshGL64* c = e.adopt(s, CF(manifold_meshgl64_merge)(s.mem, c0), "manifold_meshgl64_merge");
  e.note("meshgl64_merge(split " + r.kind + ")");
  e.release(s0);
  bool ok = !e.stop && cmpMesh<Acc64>(e, "manifold_meshgl64_merge", c, p, true);
  pushMesh<Acc64>(e, s, c, std::move(p), ok, "split-merged " + r.kind);
}

static void ofMesh(Env& e, int variant) {  // 0 of_meshgl 1 of_meshgl64 2 ec_of_meshgl 3 ec_of_meshgl64
  bool is64 = variant & 1, useEc = variant >= 2;
  EcT ec;
  bool cancel = false;
  if (useEc) {
    ec = newEc(e);
    cancel = e.r.chance(0.3);
    if (cancel) cancelBoth(e, ec);
  }
  if (!is64) {
    int i = pickMesh(e);
    if (i >= 0) {
      ManifoldMeshGL* mc = e.meshes[i].c;
      const MeshGL& mp = e.meshes[i].p;
      if (useEc)
        mkMan(e, "manifold_execution_context_of_meshgl", [&](void* m) { return CF(manifold_execution_context_of_meshgl)(m, ec.c, mc); },
              [&] { return ec.p->FromMeshGL(mp); }, "ec_of_meshgl(" + e.meshes[i].how + (cancel ? ",cancelled" : "") + ")");
      else
        mkMan(e, "manifold_of_meshgl", [&](void* m) { return CF(manifold_of_meshgl)(m, mc); }, [&] { return Manifold(mp); }, "of_meshgl(" + e.meshes[i].how + ")");
    }
  } else {
    int i = pickMesh64(e);
    if (i >= 0) {
      ManifoldMeshGL64* mc = e.meshes64[i].c;
      const MeshGL64& mp = e.meshes64[i].p;
      if (useEc)
        mkMan(e, "manifold_execution_context_of_meshgl64", [&](void* m) { return CF(manifold_execution_context_of_meshgl64)(m, ec.c, mc); },
              [&] { return ec.p->FromMeshGL(mp); }, "ec_of_meshgl64(" + e.meshes64[i].how + (cancel ? ",cancelled" : "") + ")");
      else
        mkMan(e, "manifold_of_meshgl64", [&](void* m) { return CF(manifold_of_meshgl64)(m, mc); }, [&] { return Manifold(mp); }, "of_meshgl64(" + e.meshes64[i].how + ")");
    }
  }
  if (useEc) {
    if (!e.stop) cmpEc(e, ec);
    e.release(ec.s);
  }
}
static void e_of_meshgl(Env& e) { ofMesh(e, 0); }
static void e_of_meshgl64(Env& e) { ofMesh(e, 1); }
static void e_ec_of_meshgl(Env& e) { ofMesh(e, 2); }
static void e_ec_of_meshgl64(Env& e) { ofMesh(e, 3); }

static void smoothMesh(Env& e, int variant) {  // 0 smooth 1 smooth64 2 ec_smooth 3 ec_smooth64
  bool is64 = variant & 1, useEc = variant >= 2;
  size_t nTri = 0;
  int i = -1;
  for (int tries = 0; tries < 3 && i < 0 && !e.stop; tries++) {
    std::vector<int> cand;
    size_t n = is64 ? e.meshes64.size() : e.meshes.size();
    for (size_t k = 0; k < n; k++) {
      bool v = is64 ? (e.meshes64[k].valid && e.meshes64[k].exact) : (e.meshes[k].valid && e.meshes[k].exact);  // caller-built primitives only
      size_t nt = is64 ? e.meshes64[k].p.triVerts.size() / 3 : e.meshes[k].p.triVerts.size() / 3;
      if (v && nt > 0 && nt <= 300) cand.push_back((int)k);
    }
    if (!cand.empty()) i = e.r.pick(cand);
    else if (is64) e_meshgl64(e);
    else e_meshgl(e);
  }
  if (i < 0 || e.stop) return;
  nTri = is64 ? e.meshes64[i].p.triVerts.size() / 3 : e.meshes[i].p.triVerts.size() / 3;
  int n = e.r.range(0, 4);
  std::vector<size_t> he;
  std::vector<double> sm;
  std::vector<Smoothness> ps;
  for (int k = 0; k < n; k++) {
    he.push_back(e.r.below(3 * nTri));
    sm.push_back(e.r.chance(0.3) ? 0.0 : e.uni(0, 1));
    ps.push_back({he.back(), sm.back()});
  }
  size_t* ahe = e.exact(he);
  double* asm_ = e.exact(sm);
  EcT ec;
  bool cancel = false;
  if (useEc) {
    ec = newEc(e);
    cancel = e.r.chance(0.3);
    if (cancel) cancelBoth(e, ec);
  }
  std::string args = "(" + (is64 ? e.meshes64[i].how : e.meshes[i].how) + ",he=" + fmtv(he) + ",s=" + fmtv(sm) + (cancel ? ",cancelled" : "") + ")";
  if (!is64) {
    ManifoldMeshGL* mc = e.meshes[i].c;
    const MeshGL& mp = e.meshes[i].p;
    if (useEc)
      mkMan(e, "manifold_execution_context_smooth", [&](void* m) { return CF(manifold_execution_context_smooth)(m, ec.c, mc, ahe, asm_, (size_t)n); },
            [&] { return ec.p->Smooth(mp, ps); }, "ec_smooth" + args);
    else
      mkMan(e, "manifold_smooth", [&](void* m) { return CF(manifold_smooth)(m, mc, ahe, asm_, (size_t)n); }, [&] { return Manifold::Smooth(mp, ps); }, "smooth" + args);
  } else {
    ManifoldMeshGL64* mc = e.meshes64[i].c;
    const MeshGL64& mp = e.meshes64[i].p;
    if (useEc)
      mkMan(e, "manifold_execution_context_smooth64", [&](void* m) { return CF(manifold_execution_context_smooth64)(m, ec.c, mc, ahe, asm_, (size_t)n); },
            [&] { return ec.p->Smooth(mp, ps); }, "ec_smooth64" + args);
    else
      mkMan(e, "manifold_smooth64", [&](void* m) { return CF(manifold_smooth64)(m, mc, ahe, asm_, (size_t)n); }, [&] { return Manifold::Smooth(mp, ps); }, "smooth64" + args);
  }
  if (useEc) {
    if (!e.stop) cmpEc(e, ec);
    e.release(ec.s);
  }
}
static void e_smooth(Env& e) { smoothMesh(e, 0); }
static void e_smooth64(Env& e) { smoothMesh(e, 1); }
static void e_ec_smooth(Env& e) { smoothMesh(e, 2); }
static void e_ec_smooth64(Env& e) { smoothMesh(e, 3); }

// ---------------------------------------------------------------- entries: manifold -> manifold
static void e_copy(Env& e) {
  PICK_MAN(a);
  int ni_ = mkMan(e, "manifold_copy", [&](void* m) { return CF(manifold_copy)(m, ac); }, [&] { return Manifold(ap); }, "copy(" + an + ")");
  if (ni_ >= 0) e.mans[ni_].simple = e.mans[a].simple && e.mans[ni_].ok && (true);
}
static void e_as_original(Env& e) {
  PICK_MAN(a);
  int ni_ = mkMan(e, "manifold_as_original", [&](void* m) { return CF(manifold_as_original)(m, ac); }, [&] { return ap.AsOriginal(); }, "as_original(" + an + ")");
  if (ni_ >= 0) e.mans[ni_].simple = e.mans[a].simple && e.mans[ni_].ok && (true);
}
static void e_hull(Env& e) {
  PICK_MAN(a, 600);
  mkMan(e, "manifold_hull", [&](void* m) { return CF(manifold_hull)(m, ac); }, [&] { return ap.Hull(); }, "hull(" + an + ")");
}
static double maybeNaN(Env& e, double v) { return e.r.chance(0.02) ? (e.r.chance(0.5) ? NAN : INFINITY) : v; }
static void e_translate(Env& e) {
  PICK_MAN(a);
  double x = maybeNaN(e, e.coord()), y = e.coord(), z = e.coord();
  int ni_ = mkMan(e, "manifold_translate", [&](void* m) { return CF(manifold_translate)(m, ac, x, y, z); }, [&] { return ap.Translate(vec3(x, y, z)); },
        "translate(" + an + "," + fmt(x) + "," + fmt(y) + "," + fmt(z) + ")");
  if (ni_ >= 0) e.mans[ni_].simple = e.mans[a].simple && e.mans[ni_].ok && (true);
}
static void e_rotate(Env& e) {
  PICK_MAN(a);
  double x = e.r.chance(0.3) ? 90.0 * e.r.range(-2, 2) : e.uni(-180, 180), y = e.uni(-90, 90), z = e.uni(-180, 180);
  int ni_ = mkMan(e, "manifold_rotate", [&](void* m) { return CF(manifold_rotate)(m, ac, x, y, z); }, [&] { return ap.Rotate(x, y, z); },
        "rotate(" + an + "," + fmt(x) + "," + fmt(y) + "," + fmt(z) + ")");
  if (ni_ >= 0) e.mans[ni_].simple = e.mans[a].simple && e.mans[ni_].ok && (true);
}
static void e_scale(Env& e) {
  PICK_MAN(a);
  double x = e.uni(0.4, 2), y = e.uni(0.4, 2), z = maybeNaN(e, e.uni(0.4, 2));
  if (e.r.chance(0.15)) y = -y;
  int ni_ = mkMan(e, "manifold_scale", [&](void* m) { return CF(manifold_scale)(m, ac, x, y, z); }, [&] { return ap.Scale(vec3(x, y, z)); },
        "scale(" + an + "," + fmt(x) + "," + fmt(y) + "," + fmt(z) + ")");
  if (ni_ >= 0) e.mans[ni_].simple = e.mans[a].simple && e.mans[ni_].ok && (true);
}
static void e_transform(Env& e) {
  PICK_MAN(a);
  double v[12];
  for (int k = 0; k < 12; k++) v[k] = e.uni(-0.4, 0.4) + ((k % 4 == k / 3 && k < 9) ? 0 : 0);
  // columns (x1,y1,z1) (x2,y2,z2) (x3,y3,z3) = linear part, (x4,y4,z4) = translation
  v[0] += 1; v[4] += 1; v[8] += 1;
  mat3x4 M;
  for (int col = 0; col < 4; col++) M[col] = vec3(v[3 * col], v[3 * col + 1], v[3 * col + 2]);
  int ni_ = mkMan(e, "manifold_transform",
        [&](void* m) { return CF(manifold_transform)(m, ac, v[0], v[1], v[2], v[3], v[4], v[5], v[6], v[7], v[8], v[9], v[10], v[11]); },
        [&] { return ap.Transform(M); }, "transform(" + an + "," + fmtv(std::vector<double>(v, v + 12)) + ")");
  if (ni_ >= 0) e.mans[ni_].simple = e.mans[a].simple && e.mans[ni_].ok && (true);
}
static void e_mirror(Env& e) {
  PICK_MAN(a);
  double x = e.coord(), y = e.coord(), z = e.coord();
  if (e.r.chance(0.05)) x = y = z = 0;
  int ni_ = mkMan(e, "manifold_mirror", [&](void* m) { return CF(manifold_mirror)(m, ac, x, y, z); }, [&] { return ap.Mirror(vec3(x, y, z)); },
        "mirror(" + an + "," + fmt(x) + "," + fmt(y) + "," + fmt(z) + ")");
  if (ni_ >= 0) e.mans[ni_].simple = e.mans[a].simple && e.mans[ni_].ok && (true);
}
struct WarpCtx { uint64_t magic; double a, b, c; long calls; };
static vec3 warpEval(const WarpCtx* w, double x, double y, double z) {  // not symmetric in any pair of arguments
  return vec3(x + w->a * y * y, y + w->b * z, z + w->c * x * y);
}
static ManifoldVec3 c_warp(double x, double y, double z, void* ctx) {
  g_cbCalls++;
  if (ctx != g_expectCtx) { g_ctxBad++; ctx = g_expectCtx; }
  WarpCtx* w = (WarpCtx*)ctx;
  w->calls++;
  vec3 o = warpEval(w, x, y, z);
  return {o.x, o.y, o.z};
}
static void e_warp(Env& e) {
  PICK_MAN(a, 800);
  WarpCtx* w = e.obj<WarpCtx>();
  w->a = e.uni(-0.15, 0.15); w->b = e.uni(-0.2, 0.2); w->c = e.uni(-0.15, 0.15);
  WarpCtx pw = *w;
  long pCalls = 0;
  g_expectCtx = w;
  g_ctxBad = 0;
  mkMan(e, "manifold_warp", [&](void* m) { return CF(manifold_warp)(m, ac, c_warp, w); },
        [&] { return ap.Warp([&pw, &pCalls](vec3& v) { pCalls++; v = warpEval(&pw, v.x, v.y, v.z); }); },
        "warp(" + an + "," + fmt(w->a) + "," + fmt(w->b) + "," + fmt(w->c) + ")");
  if (!e.stop) checkCb(e, "manifold_warp", w->calls, pCalls);
  g_expectCtx = nullptr;
}
struct PropCtx { uint64_t magic; int newN, oldN; double k; long calls; };
static void propEval(const PropCtx* q, double* np, vec3 pos, const double* op) {
  for (int i = 0; i < q->newN; i++) {
    double base = i == 0 ? pos.x : (i == 1 ? pos.y * 2 : (i == 2 ? pos.z * 3 : pos.x - pos.z));
    np[i] = q->k * base + (i < q->oldN ? 0.5 * op[i] : (double)i);
  }
}
static void c_setprop(double* np, ManifoldVec3 pos, const double* op, void* ctx) {
  g_cbCalls++;
  if (ctx != g_expectCtx) { g_ctxBad++; ctx = g_expectCtx; }
  PropCtx* q = (PropCtx*)ctx;
  q->calls++;
  propEval(q, np, vec3(pos.x, pos.y, pos.z), op);
}
static void e_set_properties(Env& e) {
  PICK_MAN(a, 800);
  PropCtx* q = e.obj<PropCtx>();
  q->newN = e.r.range(0, 5);
  q->oldN = (int)e.mans[a].nprop;
  q->k = e.uni(0.5, 2);
  PropCtx pq = *q;
  long pCalls = 0;
  g_expectCtx = q;
  g_ctxBad = 0;
  int n = q->newN;
  mkMan(e, "manifold_set_properties", [&](void* m) { return CF(manifold_set_properties)(m, ac, n, c_setprop, q); },
        [&] { return ap.SetProperties(n, [&pq, &pCalls](double* np, vec3 pos, const double* op) { pCalls++; propEval(&pq, np, pos, op); }); },
        "set_properties(" + an + "," + std::to_string(n) + ",k=" + fmt(q->k) + ")");
  if (!e.stop) checkCb(e, "manifold_set_properties", q->calls, pCalls);
  g_expectCtx = nullptr;
}
static void e_calculate_curvature(Env& e) {
  PICK_MAN(a, 800);
  int g = e.r.range(-1, 3), mn = e.r.range(-1, 3);
  if (g == mn && g >= 0) mn = g + 1;
  mkMan(e, "manifold_calculate_curvature", [&](void* m) { return CF(manifold_calculate_curvature)(m, ac, g, mn); },
        [&] { return ap.CalculateCurvature(g, mn); }, "calculate_curvature(" + an + "," + std::to_string(g) + "," + std::to_string(mn) + ")");
}
static void e_calculate_normals(Env& e) {
  PICK_MAN(a, 800);
  int idx = e.r.range(0, 2);
  double ang = e.uni(0, 100);
  mkMan(e, "manifold_calculate_normals", [&](void* m) { return CF(manifold_calculate_normals)(m, ac, idx, ang); },
        [&] { return ap.CalculateNormals(idx, ang); }, "calculate_normals(" + an + "," + std::to_string(idx) + "," + fmt(ang) + ")");
}
static void e_smooth_by_normals(Env& e) {
  PICK_MAN(a, 300, true, true, true);
  double ang = e.uni(20, 80);
  int idx = e.r.range(0, 1);
  int i = mkMan(e, "manifold_calculate_normals", [&](void* m) { return CF(manifold_calculate_normals)(m, ac, idx, ang); },
                [&] { return ap.CalculateNormals(idx, ang); }, "calculate_normals(" + an + "," + std::to_string(idx) + "," + fmt(ang) + ")");
  if (i < 0) return;
  ManifoldManifold* nc = e.mans[i].c;
  const Manifold& np = e.mans[i].p;
  mkMan(e, "manifold_smooth_by_normals", [&](void* m) { return CF(manifold_smooth_by_normals)(m, nc, idx); }, [&] { return np.SmoothByNormals(idx); },
        "smooth_by_normals(m" + std::to_string(i) + "," + std::to_string(idx) + ")");
}
static void e_smooth_out(Env& e) {
  PICK_MAN(a, 300, true, true, true);
  double ang = e.uni(10, 120), sm = e.r.chance(0.4) ? 0.0 : e.uni(0, 1);
  mkMan(e, "manifold_smooth_out", [&](void* m) { return CF(manifold_smooth_out)(m, ac, ang, sm); }, [&] { return ap.SmoothOut(ang, sm); },
        "smooth_out(" + an + "," + fmt(ang) + "," + fmt(sm) + ")");
}
static void e_refine(Env& e) {
  PICK_MAN(a, 150, true, false, true);
  int n = e.r.range(1, 3);
  mkMan(e, "manifold_refine", [&](void* m) { return CF(manifold_refine)(m, ac, n); }, [&] { return ap.Refine(n); }, "refine(" + an + "," + std::to_string(n) + ")");
}
static double scaleOf(const Manifold& m) {
  Box b = m.BoundingBox();
  double s = la::length(b.Size());
  return (std::isfinite(s) && s > 0) ? s : 1.0;
}
static void e_refine_to_length(Env& e) {
  PICK_MAN(a, 150, true, false, true);
  double len = scaleOf(ap) / e.uni(1.5, 5);
  mkMan(e, "manifold_refine_to_length", [&](void* m) { return CF(manifold_refine_to_length)(m, ac, len); }, [&] { return ap.RefineToLength(len); },
        "refine_to_length(" + an + "," + fmt(len) + ")");
}
static void e_refine_to_tolerance(Env& e) {
  PICK_MAN(a, 150, true, false, true);
  double tol = scaleOf(ap) / e.uni(15, 150);
  mkMan(e, "manifold_refine_to_tolerance", [&](void* m) { return CF(manifold_refine_to_tolerance)(m, ac, tol); }, [&] { return ap.RefineToTolerance(tol); },
        "refine_to_tolerance(" + an + "," + fmt(tol) + ")");
}
static void e_set_tolerance(Env& e) {
  PICK_MAN(a);
  double tol = e.r.chance(0.2) ? 0.0 : e.uni(0, 0.05);
  mkMan(e, "manifold_set_tolerance", [&](void* m) { return CF(manifold_set_tolerance)(m, ac, tol); }, [&] { return ap.SetTolerance(tol); },
        "set_tolerance(" + an + "," + fmt(tol) + ")");
}
static void e_simplify(Env& e) {
  PICK_MAN(a);
  double tol = e.r.chance(0.3) ? 0.0 : e.uni(0, 0.08);
  mkMan(e, "manifold_simplify", [&](void* m) { return CF(manifold_simplify)(m, ac, tol); }, [&] { return ap.Simplify(tol); },
        "simplify(" + an + "," + fmt(tol) + ")");
}
static void e_trim_by_plane(Env& e) {
  PICK_MAN(a);
  double x = e.coord(), y = e.coord(), z = e.coord(), off = e.uni(-0.5, 0.8);
  mkMan(e, "manifold_trim_by_plane", [&](void* m) { return CF(manifold_trim_by_plane)(m, ac, x, y, z, off); }, [&] { return ap.TrimByPlane(vec3(x, y, z), off); },
        "trim_by_plane(" + an + "," + fmt(x) + "," + fmt(y) + "," + fmt(z) + "," + fmt(off) + ")");
}

// ---- pair-returning functions: two storages, sometimes one aggregate with canaries between
static void addPair(Env& e, const char* fn, Slot s1, Slot s2, ManifoldManifoldPair pr, std::pair<Manifold, Manifold> pp, const std::string& how) {
  int i = addMan(e, fn, s1, pr.first, std::move(pp.first), how + ".first");
  (void)i;
  if (e.stop) {  // still own the second storage
    ManT t; t.s = s2; t.s.live = true; t.c = pr.second; e.mans.push_back(std::move(t));
    return;
  }
  addMan(e, fn, s2, pr.second, std::move(pp.second), how + ".second");
}
static void e_split(Env& e) {
  PICK_MAN(a);
  PICK_MAN(b);
  Slot s1, s2;
  if (e.r.chance(0.5)) { auto pr = e.getPairMem(T_MAN); s1 = pr.first; s2 = pr.second; }
  else { s1 = e.getMem(T_MAN); s2 = e.getMem(T_MAN); }
  ManifoldManifoldPair pr = CF(manifold_split)(s1.mem, s2.mem, ac, bc);
  auto pp = ap.Split(bp);
  addPair(e, "manifold_split", s1, s2, pr, std::move(pp), "split(" + an + "," + bn + ")");
}
static void e_split_by_plane(Env& e) {
  PICK_MAN(a);
  double x = e.coord(), y = e.coord(), z = e.coord(), off = e.uni(-0.5, 0.8);
  Slot s1, s2;
  if (e.r.chance(0.5)) { auto pr = e.getPairMem(T_MAN); s1 = pr.first; s2 = pr.second; }
  else { s1 = e.getMem(T_MAN); s2 = e.getMem(T_MAN); }
  ManifoldManifoldPair pr = CF(manifold_split_by_plane)(s1.mem, s2.mem, ac, x, y, z, off);
  auto pp = ap.SplitByPlane(vec3(x, y, z), off);
  addPair(e, "manifold_split_by_plane", s1, s2, pr, std::move(pp), "split_by_plane(" + an + "," + fmt(x) + "," + fmt(y) + "," + fmt(z) + "," + fmt(off) + ")");
}

// ---- Booleans
static void e_boolean(Env& e) {
  PICK_MAN(a);
  PICK_MAN(b);
  const OpRow& op = kOp[e.r.below(3)];
  mkMan(e, "manifold_boolean", [&](void* m) { return CF(manifold_boolean)(m, ac, bc, op.c); }, [&] { return ap.Boolean(bp, op.p); },
        std::string("boolean(") + an + "," + bn + "," + op.name + ")");
}
static void e_union(Env& e) {
  PICK_MAN(a);
  PICK_MAN(b);
  mkMan(e, "manifold_union", [&](void* m) { return CF(manifold_union)(m, ac, bc); }, [&] { return ap + bp; }, "union(" + an + "," + bn + ")");
}
static void e_difference(Env& e) {
  PICK_MAN(a);
  PICK_MAN(b);
  mkMan(e, "manifold_difference", [&](void* m) { return CF(manifold_difference)(m, ac, bc); }, [&] { return ap - bp; }, "difference(" + an + "," + bn + ")");
}
static void e_intersection(Env& e) {
  PICK_MAN(a);
  PICK_MAN(b);
  mkMan(e, "manifold_intersection", [&](void* m) { return CF(manifold_intersection)(m, ac, bc); }, [&] { return ap ^ bp; }, "intersection(" + an + "," + bn + ")");
}
static void minkowski(Env& e, bool diff) {
  PICK_MAN(a, 24, true);
  // second operand: a small convex solid made on the spot
  double s = e.uni(0.1, 0.4);
  int bi = mkMan(e, "manifold_cube", [&](void* m) { return CF(manifold_cube)(m, s, s * 1.5, s * 0.7, 1); },
                 [&] { return Manifold::Cube(vec3(s, s * 1.5, s * 0.7), true); }, "cube(" + fmt(s) + ",*1.5,*0.7,1)");
  if (bi < 0) return;
  ManifoldManifold* bc = e.mans[bi].c;
  const Manifold& bp = e.mans[bi].p;
  if (diff)
    mkMan(e, "manifold_minkowski_difference", [&](void* m) { return CF(manifold_minkowski_difference)(m, ac, bc); }, [&] { return ap.MinkowskiDifference(bp); },
          "minkowski_difference(" + an + ",m" + std::to_string(bi) + ")");
  else
    mkMan(e, "manifold_minkowski_sum", [&](void* m) { return CF(manifold_minkowski_sum)(m, ac, bc); }, [&] { return ap.MinkowskiSum(bp); },
          "minkowski_sum(" + an + ",m" + std::to_string(bi) + ")");
}
static void e_minkowski_sum(Env& e) { minkowski(e, false); }
static void e_minkowski_difference(Env& e) { minkowski(e, true); }

// ---- vectors of manifolds
struct MVecT { Slot s; ManifoldManifoldVec* c = nullptr; std::vector<Manifold> p; std::string how; };
static bool cmpMVec(Env& e, const char* fn, MVecT& v) {
  if (!cmpI(e, "manifold_manifold_vec_length", "value", (long long)CF(manifold_manifold_vec_length)(v.c), (long long)v.p.size())) return false;
  for (size_t i = 0; i < v.p.size() && i < 6; i++) {
    Slot s = e.getMem(T_MAN);
    ManifoldManifold* g = e.adopt(s, CF(manifold_manifold_vec_get)(s.mem, v.c, i), "manifold_manifold_vec_get");
    bool ok = !e.stop && cmpMan(e, fn, g, v.p[i]);
    e.release(s);
    if (!ok) return false;
  }
  return true;
}
static MVecT buildMVec(Env& e, int n, size_t maxTri, int style = -1) {
  MVecT v;
  v.s = e.getMem(T_MANVEC);
  bool sized = style < 0 ? e.r.chance(0.4) : style == 1;
  if (sized) {
    v.c = e.adopt(v.s, CF(manifold_manifold_vec)(v.s.mem, (size_t)n), "manifold_manifold_vec");
    v.p = std::vector<Manifold>((size_t)n);
    v.how = "vec(" + std::to_string(n) + ")";
  } else {
    v.c = e.adopt(v.s, CF(manifold_manifold_empty_vec)(v.s.mem), "manifold_manifold_empty_vec");
    v.how = "empty_vec()";
    if (style >= 0 || e.r.chance(0.6)) {
      size_t rs = (size_t)e.r.range(0, 8);
      CF(manifold_manifold_vec_reserve)(v.c, rs);
      v.p.reserve(rs);
      v.how += ".reserve(" + std::to_string(rs) + ")";
    }
  }
  for (int k = 0; k < n && !e.stop; k++) {
    int i = pickMan(e, maxTri);
    if (i < 0) break;
    if (sized) {
      CF(manifold_manifold_vec_set)(v.c, (size_t)k, e.mans[i].c);
      v.p[(size_t)k] = e.mans[i].p;
      v.how += ".set(" + std::to_string(k) + ",m" + std::to_string(i) + ")";
    } else {
      CF(manifold_manifold_vec_push_back)(v.c, e.mans[i].c);
      v.p.push_back(e.mans[i].p);
      v.how += ".push_back(m" + std::to_string(i) + ")";
    }
  }
  e.note(v.how);
  return v;
}
static void e_manifold_vec(Env& e) {
  for (int style = 0; style < 2 && !e.stop; style++) {
    MVecT v = buildMVec(e, e.r.range(1, 4), 1500, style);
    if (!e.stop) cmpMVec(e, "manifold_manifold_vec_get", v);
    e.release(v.s);
  }
}
static void e_batch_boolean(Env& e) {
  MVecT v = buildMVec(e, e.r.range(0, 4), 600);
  const OpRow& op = kOp[e.r.below(3)];
  if (!e.stop)
    mkMan(e, "manifold_batch_boolean", [&](void* m) { return CF(manifold_batch_boolean)(m, v.c, op.c); }, [&] { return Manifold::BatchBoolean(v.p, op.p); },
          std::string("batch_boolean(") + v.how + "," + op.name + ")");
  e.release(v.s);
}
static void e_batch_hull(Env& e) {
  MVecT v = buildMVec(e, e.r.range(0, 4), 600);
  if (!e.stop) mkMan(e, "manifold_batch_hull", [&](void* m) { return CF(manifold_batch_hull)(m, v.c); }, [&] { return Manifold::Hull(v.p); }, "batch_hull(" + v.how + ")");
  e.release(v.s);
}
static void e_compose(Env& e) {
  MVecT v = buildMVec(e, e.r.range(0, 4), 600);
  if (!e.stop) mkMan(e, "manifold_compose", [&](void* m) { return CF(manifold_compose)(m, v.c); }, [&] { return Manifold::Compose(v.p); }, "compose(" + v.how + ")");
  e.release(v.s);
}
static void e_decompose(Env& e) {
  PICK_MAN(a, 800);
  MVecT v;
  v.s = e.getMem(T_MANVEC);
  v.c = e.adopt(v.s, CF(manifold_decompose)(v.s.mem, ac), "manifold_decompose");
  v.p = ap.Decompose();
  e.note("decompose(" + an + ") -> " + std::to_string(v.p.size()));
  if (!e.stop) cmpMVec(e, "manifold_decompose", v);
  e.release(v.s);
}

// ---- 3D -> 2D
static void sliceProject(Env& e, bool slice) {
  PICK_MAN(a, 800);
  Box bb = ap.BoundingBox();
  double h = bb.IsFinite() ? e.uni(bb.min.z - 0.1, bb.max.z + 0.1) : 0.0;
  Slot s = e.getMem(T_POLYS);
  ManifoldPolygons* c = e.adopt(s, slice ? CF(manifold_slice)(s.mem, ac, h) : CF(manifold_project)(s.mem, ac), slice ? "manifold_slice" : "manifold_project");
  Polygons p = slice ? ap.Slice(h) : ap.Project();
  e.note(slice ? "slice(" + an + "," + fmt(h) + ")" : "project(" + an + ")");
  if (!e.stop) cmpPolys(e, slice ? "manifold_slice" : "manifold_project", c, p);
  if (!e.stop) e.c.sig(std::string(slice ? "manifold_slice" : "manifold_project") + (p.empty() ? ":empty" : ":nonempty"));
  e.release(s);
}
static void e_slice(Env& e) { sliceProject(e, true); }
static void e_project(Env& e) { sliceProject(e, false); }

// ---- queries with arguments
static void e_min_gap(Env& e) {
  PICK_MAN(a, 600);
  PICK_MAN(b, 600);
  double sl = e.uni(0.1, 5);
  e.note("min_gap(" + an + "," + bn + "," + fmt(sl) + ")");
  cmpD(e, "manifold_min_gap", "value", CF(manifold_min_gap)(ac, bc, sl), ap.MinGap(bp, sl));
}
static void e_winding_number(Env& e) {
  PICK_MAN(a, 1500);
  Box bb = ap.BoundingBox();
  for (int k = 0; k < 4 && !e.stop; k++) {
    vec3 q = bb.IsFinite() ? vec3(e.uni(bb.min.x - 0.2, bb.max.x + 0.2), e.uni(bb.min.y - 0.2, bb.max.y + 0.2), e.uni(bb.min.z - 0.2, bb.max.z + 0.2)) : e.v3();
    int cw = CF(manifold_winding_number)(ac, q.x, q.y, q.z);
    std::vector<int> pw = ap.WindingNumber({q});
    e.note("winding_number(" + an + "," + fmt(q.x) + "," + fmt(q.y) + "," + fmt(q.z) + ")");
    // an empty C++ result has no element to mirror; the header gives no value for it, so nothing is compared
    if (pw.empty()) { e.c.count("winding_number_cpp_empty_result"); continue; }
    cmpI(e, "manifold_winding_number", "value", cw, pw[0]);
    if (!e.stop) e.c.sig(std::string("manifold_winding_number:") + std::to_string(pw[0]));
  }
}
static void rayCast(Env& e, bool aimed) {
  PICK_MAN(a, 1500, aimed);
  Box bb = ap.BoundingBox();
  vec3 lo = bb.IsFinite() ? bb.min : vec3(-1), hi = bb.IsFinite() ? bb.max : vec3(1), ext = hi - lo + vec3(0.5);
  vec3 o = lo - ext * vec3(e.uni(0.1, 0.6), e.uni(0.1, 0.6), e.uni(0.1, 0.6));
  vec3 t = lo + (hi - lo) * vec3(e.uni(0, 1), e.uni(0, 1), e.uni(0, 1));
  if (aimed) {
    MeshGL64 m = ap.GetMeshGL64();
    size_t nt = m.triVerts.size() / 3;
    if (nt) {
      size_t k = e.r.below(nt);
      vec3 q[3];
      for (int j = 0; j < 3; j++) {
        size_t v = m.triVerts[3 * k + j];
        q[j] = vec3(m.vertProperties[v * m.numProp], m.vertProperties[v * m.numProp + 1], m.vertProperties[v * m.numProp + 2]);
      }
      t = (q[0] + q[1] + q[2]) / 3.0;
    }
  }
  vec3 end = o + (t - o) * (aimed ? e.uni(1.5, 3.0) : e.uni(0.5, 3.0));
  Slot s = e.getMem(T_RAYVEC);
  ManifoldRayHitVec* c = e.adopt(s, CF(manifold_ray_cast)(s.mem, ac, o.x, o.y, o.z, end.x, end.y, end.z), "manifold_ray_cast");
  std::vector<RayHit> p = ap.RayCast(o, end);
  e.note("ray_cast(" + an + ",o=(" + fmt(o.x) + "," + fmt(o.y) + "," + fmt(o.z) + "),end=(" + fmt(end.x) + "," + fmt(end.y) + "," + fmt(end.z) + ")) -> " + std::to_string(p.size()));
  if (cmpI(e, "manifold_ray_hit_vec_length", "value", (long long)CF(manifold_ray_hit_vec_length)(c), (long long)p.size()))
    for (size_t i = 0; i < p.size() && !e.stop; i++) {
      ManifoldRayHit h = CF(manifold_ray_hit_vec_get)(c, i);
      cmpI(e, "manifold_ray_hit_vec_get", "face_id", (long long)h.face_id, (long long)p[i].faceID) &&
          cmpD(e, "manifold_ray_hit_vec_get", "distance", h.distance, p[i].distance) &&
          cmpV3(e, "manifold_ray_hit_vec_get", "position", h.position, p[i].position) && cmpV3(e, "manifold_ray_hit_vec_get", "normal", h.normal, p[i].normal);
    }
  if (!e.stop) e.c.sig(std::string("manifold_ray_cast:") + (p.empty() ? "miss" : "hit"));
  e.release(s);
}
static void e_ray_cast(Env& e) { rayCast(e, false); }
static void e_ray_cast_aimed(Env& e) { rayCast(e, true); }
static void e_reserve_ids(Env& e) {
  uint32_t n = (uint32_t)e.r.range(0, 9);
  // ReserveIDs(n) returns the first of n fresh consecutive IDs: two back-to-back calls differ by the first call's n
  uint32_t c1 = CF(manifold_reserve_ids)(n);
  uint32_t p1 = Manifold::ReserveIDs(n);
  uint32_t c2 = CF(manifold_reserve_ids)(1);
  e.note("reserve_ids(" + std::to_string(n) + ")");
  cmpI(e, "manifold_reserve_ids", "consecutive(c,cpp)", (long long)p1 - (long long)c1, n) &&
      cmpI(e, "manifold_reserve_ids", "consecutive(cpp,c)", (long long)c2 - (long long)p1, n);
}

// ---- OBJ text
struct ObjCtx { uint64_t magic; std::string* out; long calls; };
static void c_objcb(char* text, void* args) {
  g_cbCalls++;
  if (args != g_expectCtx) { g_ctxBad++; args = g_expectCtx; }
  ObjCtx* o = (ObjCtx*)args;
  o->calls++;
  o->out->assign(text);
}
static void e_obj(Env& e) {
  PICK_MAN(a, 400);
  // write
  std::string ctext, ptext;
  ObjCtx oc{0xb1, &ctext, 0};
  g_expectCtx = &oc;
  g_ctxBad = 0;
  CF(manifold_write_obj)(ac, c_objcb, &oc);
  std::ostringstream ss;
  ap.WriteOBJ(ss);
  ptext = ss.str();
  e.note("write_obj(" + an + ") -> " + std::to_string(ptext.size()) + " bytes");
  if (!checkCb(e, "manifold_write_obj", oc.calls, 1)) { g_expectCtx = nullptr; return; }
  if (ctext != ptext) { e.fail("mismatch:manifold_write_obj:text", vh::J().u("c_len", ctext.size()).u("cpp_len", ptext.size())); g_expectCtx = nullptr; return; }
  e.c.count("obj_texts_compared");
  // mesh write
  {
    MeshGL64 pm = ap.GetMeshGL64();
    Slot s = e.getMem(T_MESH64);
    ManifoldMeshGL64* cm = e.adopt(s, CF(manifold_get_meshgl64)(s.mem, ac), "manifold_get_meshgl64");
    std::string ct2;
    ObjCtx oc2{0xb2, &ct2, 0};
    g_expectCtx = &oc2;
    CF(manifold_meshgl64_write_obj)(cm, c_objcb, &oc2);
    std::ostringstream s2;
    WriteOBJ(s2, pm);
    e.release(s);
    if (!checkCb(e, "manifold_meshgl64_write_obj", oc2.calls, 1)) { g_expectCtx = nullptr; return; }
    if (ct2 != s2.str()) { e.fail("mismatch:manifold_meshgl64_write_obj:text", vh::J().u("c_len", ct2.size()).u("cpp_len", s2.str().size())); g_expectCtx = nullptr; return; }
    e.c.count("obj_texts_compared");
  }
  g_expectCtx = nullptr;
  // read: the text is an exact-size heap string (NUL included)
  std::string text = e.r.chance(0.75) ? ptext : std::string("# hand written\nv 0 0 0\nv 1 0 0\nv 0 1 0\nv 0 0 1\nf 1 3 2\nf 1 2 4\nf 2 3 4\nf 1 4 3\n");
  std::vector<char> tv(text.begin(), text.end());
  tv.push_back('\0');
  char* ctxt = e.exact(tv);
  mkMan(e, "manifold_read_obj", [&](void* m) { return CF(manifold_read_obj)(m, ctxt); }, [&] { std::istringstream is(text); return Manifold::ReadOBJ(is); },
        "read_obj(" + std::to_string(text.size()) + " bytes)");
  if (e.stop) return;
  Slot s = e.getMem(T_MESH64);
  ManifoldMeshGL64* cm = e.adopt(s, CF(manifold_meshgl64_read_obj)(s.mem, ctxt), "manifold_meshgl64_read_obj");
  std::istringstream is(text);
  MeshGL64 pm = ReadOBJ(is);
  e.note("meshgl64_read_obj(" + std::to_string(text.size()) + " bytes)");
  if (!e.stop) cmpMesh<Acc64>(e, "manifold_meshgl64_read_obj", cm, pm, true);
  e.release(s);
}

// ---- execution contexts: progress / cancel observed through a deferred tree
static void execCtx(Env& e, bool cancel) {
  PICK_MAN(a, 600);
  PICK_MAN(b, 600);
  EcT ec = newEc(e);
  if (!cmpEc(e, ec)) { e.release(ec.s); return; }
  if (cancel) {
    cancelBoth(e, ec);
    if (e.stop || !cmpEc(e, ec)) { e.release(ec.s); return; }
  }
  // (a op b).with_context(ec) — the tree is NOT evaluated before the context is attached
  const OpRow& op = kOp[e.r.below(3)];
  Slot su = e.getMem(T_MAN);
  ManifoldManifold* cu = e.adopt(su, CF(manifold_boolean)(su.mem, ac, bc, op.c), "manifold_boolean");
  Manifold pu = ap.Boolean(bp, op.p);
  int w = mkMan(e, "manifold_with_context", [&](void* m) { return CF(manifold_with_context)(m, cu, ec.c); }, [&] { return pu.WithContext(*ec.p); },
                std::string("with_context(boolean(") + an + "," + bn + "," + op.name + ")" + (cancel ? ",cancelled ctx" : ",ctx") + ")");
  if (w >= 0) cmpEc(e, ec);
  // an eager op under the context
  if (!e.stop && e.mans[(size_t)a].ntri <= 150 && e.mans[(size_t)a].ok && e.mans[(size_t)a].simple) {
    Slot sw = e.getMem(T_MAN);
    ManifoldManifold* cw = e.adopt(sw, CF(manifold_with_context)(sw.mem, ac, ec.c), "manifold_with_context");
    Manifold pw = ap.WithContext(*ec.p);
    mkMan(e, "manifold_refine", [&](void* m) { return CF(manifold_refine)(m, cw, 2); }, [&] { return pw.Refine(2); }, "refine(with_context(" + an + "),2)");
    if (!e.stop) cmpEc(e, ec);
    e.release(sw);
  }
  e.release(su);
  e.release(ec.s);
}
static void e_exec_ctx(Env& e) { execCtx(e, false); }
static void e_exec_ctx_cancelled(Env& e) { execCtx(e, true); }

// ---------------------------------------------------------------- entries: cross-sections
static void e_cs_empty(Env& e) {
  mkCs(e, "manifold_cross_section_empty", [&](void* m) { return CF(manifold_cross_section_empty)(m); }, [&] { return CrossSection(); }, "cs_empty()");
}
static void e_square(Env& e) {
  bool force = e.entry != "cs_square";
  double x = e.len(), y = e.len();
  if (!force && e.r.chance(0.1)) x = -x;
  int ctr = cint(e);
  mkCs(e, "manifold_cross_section_square", [&](void* m) { return CF(manifold_cross_section_square)(m, x, y, ctr); },
       [&] { return CrossSection::Square(vec2(x, y), ctr != 0); }, "cs_square(" + fmt(x) + "," + fmt(y) + "," + std::to_string(ctr) + ")");
}
static void e_circle(Env& e) {
  double rad = e.r.chance(0.08) ? -1.0 : e.len();
  int seg = e.r.chance(0.3) ? 0 : e.r.range(3, 24);
  mkCs(e, "manifold_cross_section_circle", [&](void* m) { return CF(manifold_cross_section_circle)(m, rad, seg); }, [&] { return CrossSection::Circle(rad, seg); },
       "cs_circle(" + fmt(rad) + "," + std::to_string(seg) + ")");
}
static void e_cs_copy(Env& e) {
  PICK_CS(a);
  mkCs(e, "manifold_cross_section_copy", [&](void* m) { return CF(manifold_cross_section_copy)(m, ac); }, [&] { return CrossSection(ap); }, "cs_copy(" + an + ")");
}
// the four polygon constructors + the two polygon hulls; overlapping contours make the fill rule observable
static void csFromPolys(Env& e, int which) {
  std::string how;
  Polygons p = e.r.chance(0.5) ? genOverlapPolys(e) : genValidPolys(e, &how);
  if (how.empty()) how = "overlap";
  if (e.r.chance(0.2))
    for (auto& ring : p) std::reverse(ring.begin(), ring.end());  // clockwise input
  PolyT t = buildPolys(e, p, how);
  if (e.stop) { e.release(t.s); return; }
  const SimplePolygon& sp0 = p[0];
  Slot ss = e.getMem(T_SP);
  ManifoldSimplePolygon* spc = e.adopt(ss, CF(manifold_polygons_get_simple)(ss.mem, t.c, 0), "manifold_polygons_get_simple");
  switch (which) {
    case 0: mkCs(e, "manifold_cross_section_of_simple_polygon", [&](void* m) { return CF(manifold_cross_section_of_simple_polygon)(m, spc); },
                 [&] { return CrossSection(sp0); }, "cs_of_simple_polygon(" + how + ")"); break;
    case 1: mkCs(e, "manifold_cross_section_of_polygons", [&](void* m) { return CF(manifold_cross_section_of_polygons)(m, t.c); },
                 [&] { return CrossSection(p); }, "cs_of_polygons(" + how + ")"); break;
    case 2: mkCs(e, "manifold_cross_section_even_odd_simple_polygon", [&](void* m) { return CF(manifold_cross_section_even_odd_simple_polygon)(m, spc); },
                 [&] { return CrossSection::EvenOdd(sp0); }, "cs_even_odd_simple_polygon(" + how + ")"); break;
    case 3: mkCs(e, "manifold_cross_section_even_odd_polygons", [&](void* m) { return CF(manifold_cross_section_even_odd_polygons)(m, t.c); },
                 [&] { return CrossSection::EvenOdd(p); }, "cs_even_odd_polygons(" + how + ")"); break;
    case 4: mkCs(e, "manifold_cross_section_hull_simple_polygon", [&](void* m) { return CF(manifold_cross_section_hull_simple_polygon)(m, spc); },
                 [&] { return CrossSection::Hull(sp0); }, "cs_hull_simple_polygon(" + how + ")"); break;
    default: mkCs(e, "manifold_cross_section_hull_polygons", [&](void* m) { return CF(manifold_cross_section_hull_polygons)(m, t.c); },
                  [&] { return CrossSection::Hull(p); }, "cs_hull_polygons(" + how + ")"); break;
  }
  e.release(ss);
  e.release(t.s);
}
static void e_cs_of_simple_polygon(Env& e) { csFromPolys(e, 0); }
static void e_cs_of_polygons(Env& e) { csFromPolys(e, 1); }
static void e_cs_even_odd_simple(Env& e) { csFromPolys(e, 2); }
static void e_cs_even_odd_polygons(Env& e) { csFromPolys(e, 3); }
static void e_cs_hull_simple(Env& e) { csFromPolys(e, 4); }
static void e_cs_hull_polygons(Env& e) { csFromPolys(e, 5); }

static void e_cs_boolean(Env& e) {
  PICK_CS(a);
  PICK_CS(b);
  const OpRow& op = kOp[e.r.below(3)];
  mkCs(e, "manifold_cross_section_boolean", [&](void* m) { return CF(manifold_cross_section_boolean)(m, ac, bc, op.c); }, [&] { return ap.Boolean(bp, op.p); },
       std::string("cs_boolean(") + an + "," + bn + "," + op.name + ")");
}
static void e_cs_union(Env& e) {
  PICK_CS(a);
  PICK_CS(b);
  mkCs(e, "manifold_cross_section_union", [&](void* m) { return CF(manifold_cross_section_union)(m, ac, bc); }, [&] { return ap + bp; }, "cs_union(" + an + "," + bn + ")");
}
static void e_cs_difference(Env& e) {
  PICK_CS(a);
  PICK_CS(b);
  mkCs(e, "manifold_cross_section_difference", [&](void* m) { return CF(manifold_cross_section_difference)(m, ac, bc); }, [&] { return ap - bp; },
       "cs_difference(" + an + "," + bn + ")");
}
static void e_cs_intersection(Env& e) {
  PICK_CS(a);
  PICK_CS(b);
  mkCs(e, "manifold_cross_section_intersection", [&](void* m) { return CF(manifold_cross_section_intersection)(m, ac, bc); }, [&] { return ap ^ bp; },
       "cs_intersection(" + an + "," + bn + ")");
}
static void e_cs_hull(Env& e) {
  PICK_CS(a);
  mkCs(e, "manifold_cross_section_hull", [&](void* m) { return CF(manifold_cross_section_hull)(m, ac); }, [&] { return ap.Hull(); }, "cs_hull(" + an + ")");
}
static void e_cs_translate(Env& e) {
  PICK_CS(a);
  double x = e.coord(), y = e.coord();
  mkCs(e, "manifold_cross_section_translate", [&](void* m) { return CF(manifold_cross_section_translate)(m, ac, x, y); }, [&] { return ap.Translate(vec2(x, y)); },
       "cs_translate(" + an + "," + fmt(x) + "," + fmt(y) + ")");
}
static void e_cs_rotate(Env& e) {
  PICK_CS(a);
  double d = e.r.chance(0.3) ? 90.0 * e.r.range(-3, 3) : e.uni(-360, 360);
  mkCs(e, "manifold_cross_section_rotate", [&](void* m) { return CF(manifold_cross_section_rotate)(m, ac, d); }, [&] { return ap.Rotate(d); },
       "cs_rotate(" + an + "," + fmt(d) + ")");
}
static void e_cs_scale(Env& e) {
  PICK_CS(a);
  double x = e.uni(0.3, 2), y = e.uni(0.3, 2);
  if (e.r.chance(0.15)) x = -x;
  mkCs(e, "manifold_cross_section_scale", [&](void* m) { return CF(manifold_cross_section_scale)(m, ac, x, y); }, [&] { return ap.Scale(vec2(x, y)); },
       "cs_scale(" + an + "," + fmt(x) + "," + fmt(y) + ")");
}
static void e_cs_mirror(Env& e) {
  PICK_CS(a);
  double x = e.coord(), y = e.coord();
  if (e.r.chance(0.05)) x = y = 0;
  mkCs(e, "manifold_cross_section_mirror", [&](void* m) { return CF(manifold_cross_section_mirror)(m, ac, x, y); }, [&] { return ap.Mirror(vec2(x, y)); },
       "cs_mirror(" + an + "," + fmt(x) + "," + fmt(y) + ")");
}
static void e_cs_transform(Env& e) {
  PICK_CS(a);
  double v[6];
  for (int k = 0; k < 6; k++) v[k] = e.uni(-0.4, 0.4);
  v[0] += 1; v[3] += 1;  // columns (x1,y1) (x2,y2) linear, (x3,y3) translation
  mat2x3 M;
  for (int col = 0; col < 3; col++) M[col] = vec2(v[2 * col], v[2 * col + 1]);
  mkCs(e, "manifold_cross_section_transform", [&](void* m) { return CF(manifold_cross_section_transform)(m, ac, v[0], v[1], v[2], v[3], v[4], v[5]); },
       [&] { return ap.Transform(M); }, "cs_transform(" + an + "," + fmtv(std::vector<double>(v, v + 6)) + ")");
}
struct Warp2Ctx { uint64_t magic; double a, b; long calls; };
static vec2 warp2Eval(const Warp2Ctx* w, double x, double y) { return vec2(x + w->a * y * y, y + w->b * x); }
static ManifoldVec2 c_warp2(double x, double y, void* ctx) {
  g_cbCalls++;
  if (ctx != g_expectCtx) { g_ctxBad++; ctx = g_expectCtx; }
  Warp2Ctx* w = (Warp2Ctx*)ctx;
  w->calls++;
  vec2 o = warp2Eval(w, x, y);
  return {o.x, o.y};
}
static void e_cs_warp(Env& e) {
  PICK_CS(a);
  Warp2Ctx* w = e.obj<Warp2Ctx>();
  w->a = e.uni(-0.1, 0.1);
  w->b = e.uni(-0.2, 0.2);
  Warp2Ctx pw = *w;
  long pCalls = 0;
  g_expectCtx = w;
  g_ctxBad = 0;
  mkCs(e, "manifold_cross_section_warp_context", [&](void* m) { return CF(manifold_cross_section_warp_context)(m, ac, c_warp2, w); },
       [&] { return ap.Warp([&pw, &pCalls](vec2& v) { pCalls++; v = warp2Eval(&pw, v.x, v.y); }); },
       "cs_warp_context(" + an + "," + fmt(w->a) + "," + fmt(w->b) + ")");
  if (!e.stop) checkCb(e, "manifold_cross_section_warp_context", w->calls, pCalls);
  g_expectCtx = nullptr;
}
static void e_cs_simplify(Env& e) {
  PICK_CS(a);
  double tol = e.r.chance(0.3) ? 0.0 : e.uni(0, 0.1);
  mkCs(e, "manifold_cross_section_simplify", [&](void* m) { return CF(manifold_cross_section_simplify)(m, ac, tol); }, [&] { return ap.Simplify(tol); },
       "cs_simplify(" + an + "," + fmt(tol) + ")");
}
static void e_cs_set_tolerance(Env& e) {
  PICK_CS(a);
  double tol = e.r.chance(0.2) ? 0.0 : e.uni(0, 0.05);
  mkCs(e, "manifold_cross_section_set_tolerance", [&](void* m) { return CF(manifold_cross_section_set_tolerance)(m, ac, tol); }, [&] { return ap.SetTolerance(tol); },
       "cs_set_tolerance(" + an + "," + fmt(tol) + ")");
}
static void e_cs_offset(Env& e) {
  PICK_CS(a);
  const JtRow& jt = kJt[e.r.below(4)];
  double delta = e.r.chance(0.35) ? -e.uni(0.02, 0.3) : e.uni(0.02, 0.5), ml = e.uni(1.0, 4.0);
  int seg = e.r.chance(0.4) ? 0 : e.r.range(3, 16);
  mkCs(e, "manifold_cross_section_offset", [&](void* m) { return CF(manifold_cross_section_offset)(m, ac, delta, jt.c, ml, seg); },
       [&] { return ap.Offset(delta, jt.p, ml, seg); },
       std::string("cs_offset(") + an + "," + fmt(delta) + "," + jt.name + "," + fmt(ml) + "," + std::to_string(seg) + ")");
  if (!e.stop) e.c.count(std::string("join_type_seen_") + jt.name);
}
struct CVecT { Slot s; ManifoldCrossSectionVec* c = nullptr; std::vector<CrossSection> p; std::string how; };
static bool cmpCVec(Env& e, const char* fn, CVecT& v) {
  if (!cmpI(e, "manifold_cross_section_vec_length", "value", (long long)CF(manifold_cross_section_vec_length)(v.c), (long long)v.p.size())) return false;
  for (size_t i = 0; i < v.p.size() && i < 6; i++) {
    Slot s = e.getMem(T_CS);
    ManifoldCrossSection* g = e.adopt(s, CF(manifold_cross_section_vec_get)(s.mem, v.c, i), "manifold_cross_section_vec_get");
    bool ok = !e.stop && cmpCs(e, fn, g, v.p[i]);
    e.release(s);
    if (!ok) return false;
  }
  return true;
}
static CVecT buildCVec(Env& e, int n, int style = -1) {
  CVecT v;
  v.s = e.getMem(T_CSVEC);
  bool sized = style < 0 ? e.r.chance(0.4) : style == 1;
  if (sized) {
    v.c = e.adopt(v.s, CF(manifold_cross_section_vec)(v.s.mem, (size_t)n), "manifold_cross_section_vec");
    v.p = std::vector<CrossSection>((size_t)n);
    v.how = "cs_vec(" + std::to_string(n) + ")";
  } else {
    v.c = e.adopt(v.s, CF(manifold_cross_section_empty_vec)(v.s.mem), "manifold_cross_section_empty_vec");
    v.how = "cs_empty_vec()";
    if (style >= 0 || e.r.chance(0.6)) {
      size_t rs = (size_t)e.r.range(0, 8);
      CF(manifold_cross_section_vec_reserve)(v.c, rs);
      v.p.reserve(rs);
      v.how += ".reserve(" + std::to_string(rs) + ")";
    }
  }
  for (int k = 0; k < n && !e.stop; k++) {
    int i = pickCs(e);
    if (i < 0) break;
    if (sized) {
      CF(manifold_cross_section_vec_set)(v.c, (size_t)k, e.css[i].c);
      v.p[(size_t)k] = e.css[i].p;
      v.how += ".set(" + std::to_string(k) + ",cs" + std::to_string(i) + ")";
    } else {
      CF(manifold_cross_section_vec_push_back)(v.c, e.css[i].c);
      v.p.push_back(e.css[i].p);
      v.how += ".push_back(cs" + std::to_string(i) + ")";
    }
  }
  e.note(v.how);
  return v;
}
static void e_cs_vec(Env& e) {
  for (int style = 0; style < 2 && !e.stop; style++) {
    CVecT v = buildCVec(e, e.r.range(1, 4), style);
    if (!e.stop) cmpCVec(e, "manifold_cross_section_vec_get", v);
    e.release(v.s);
  }
}
static void e_cs_batch_boolean(Env& e) {
  CVecT v = buildCVec(e, e.r.range(0, 4));
  const OpRow& op = kOp[e.r.below(3)];
  if (!e.stop)
    mkCs(e, "manifold_cross_section_batch_boolean", [&](void* m) { return CF(manifold_cross_section_batch_boolean)(m, v.c, op.c); },
         [&] { return CrossSection::BatchBoolean(v.p, op.p); }, std::string("cs_batch_boolean(") + v.how + "," + op.name + ")");
  e.release(v.s);
}
static void e_cs_batch_hull(Env& e) {
  CVecT v = buildCVec(e, e.r.range(0, 4));
  if (!e.stop)
    mkCs(e, "manifold_cross_section_batch_hull", [&](void* m) { return CF(manifold_cross_section_batch_hull)(m, v.c); }, [&] { return CrossSection::Hull(v.p); },
         "cs_batch_hull(" + v.how + ")");
  e.release(v.s);
}
static void e_cs_decompose(Env& e) {
  PICK_CS(a);
  CVecT v;
  v.s = e.getMem(T_CSVEC);
  v.c = e.adopt(v.s, CF(manifold_cross_section_decompose)(v.s.mem, ac), "manifold_cross_section_decompose");
  v.p = ap.Decompose();
  e.note("cs_decompose(" + an + ") -> " + std::to_string(v.p.size()));
  if (!e.stop) cmpCVec(e, "manifold_cross_section_decompose", v);
  e.release(v.s);
}
// cross-section -> polygons -> solids (joins the two halves of the API)
static void e_cs_to_polygons(Env& e) {
  PICK_CS(a, true);
  PolyT t;
  t.s = e.getMem(T_POLYS);
  t.c = e.adopt(t.s, CF(manifold_cross_section_to_polygons)(t.s.mem, ac), "manifold_cross_section_to_polygons");
  t.p = ap.ToPolygons();
  t.how = "to_polygons(" + an + ")";
  e.note(t.how);
  bool ok = !e.stop && cmpPolys(e, "manifold_cross_section_to_polygons", t.c, t.p);
  t.valid = ok && !t.p.empty() && e.css[a].nvert <= 60;
  e.polys.push_back(std::move(t));
}

// ---------------------------------------------------------------- entries: rect / box
static void e_rect(Env& e) {
  double v[8];
  for (auto& x : v) x = e.coord();
  if (e.r.chance(0.1)) v[2] = v[0];           // degenerate
  if (e.r.chance(0.05)) v[5] = INFINITY;      // not finite
  Slot sa = e.getMem(T_RECT), sb = e.getMem(T_RECT);
  ManifoldRect* a = e.adopt(sa, CF(manifold_rect)(sa.mem, v[0], v[1], v[2], v[3]), "manifold_rect");
  ManifoldRect* b = e.adopt(sb, CF(manifold_rect)(sb.mem, v[4], v[5], v[6], v[7]), "manifold_rect");
  Rect pa(vec2(v[0], v[1]), vec2(v[2], v[3])), pb(vec2(v[4], v[5]), vec2(v[6], v[7]));
  e.note("rect(" + fmtv(std::vector<double>(v, v + 8)) + ")");
  double x = e.coord(), y = e.coord(), t[6];
  for (auto& q : t) q = e.uni(-1.5, 1.5);
  mat2x3 M;
  for (int col = 0; col < 3; col++) M[col] = vec2(t[2 * col], t[2 * col + 1]);
  bool ok = cmpRect(e, "manifold_rect", a, pa) && cmpRect(e, "manifold_rect", b, pb) &&
            cmpV2(e, "manifold_rect_dimensions", "value", CF(manifold_rect_dimensions)(a), pa.Size()) &&
            cmpV2(e, "manifold_rect_center", "value", CF(manifold_rect_center)(a), pa.Center()) &&
            cmpD(e, "manifold_rect_scale", "value", CF(manifold_rect_scale)(a), pa.Scale()) &&
            cmpI(e, "manifold_rect_contains_pt", "value", CF(manifold_rect_contains_pt)(a, x, y), pa.Contains(vec2(x, y)) ? 1 : 0) &&
            cmpI(e, "manifold_rect_contains_rect", "value", CF(manifold_rect_contains_rect)(a, b), pa.Contains(pb) ? 1 : 0) &&
            cmpI(e, "manifold_rect_does_overlap_rect", "value", CF(manifold_rect_does_overlap_rect)(a, b), pa.DoesOverlap(pb) ? 1 : 0) &&
            cmpI(e, "manifold_rect_is_empty", "value", CF(manifold_rect_is_empty)(a), pa.IsEmpty() ? 1 : 0) &&
            cmpI(e, "manifold_rect_is_finite", "value", CF(manifold_rect_is_finite)(b), pb.IsFinite() ? 1 : 0);
  struct R1 { const char* fn; std::function<ManifoldRect*(void*)> c; Rect p; };
  std::vector<R1> outs = {
      {"manifold_rect_union", [&](void* m) { return CF(manifold_rect_union)(m, a, b); }, pa.Union(pb)},
      {"manifold_rect_transform", [&](void* m) { return CF(manifold_rect_transform)(m, a, t[0], t[1], t[2], t[3], t[4], t[5]); }, pa.Transform(M)},
      {"manifold_rect_translate", [&](void* m) { return CF(manifold_rect_translate)(m, a, x, y); }, pa + vec2(x, y)},
      {"manifold_rect_mul", [&](void* m) { return CF(manifold_rect_mul)(m, a, x, y); }, pa * vec2(x, y)},
  };
  for (auto& o : outs) {
    if (!ok || e.stop) break;
    Slot s = e.getMem(T_RECT);
    ManifoldRect* r = e.adopt(s, o.c(s.mem), o.fn);
    ok = !e.stop && cmpRect(e, o.fn, r, o.p);
    e.release(s);
  }
  if (ok && !e.stop) {
    double px = e.uni(-4, 4), py = e.uni(-4, 4);
    CF(manifold_rect_include_pt)(a, px, py);
    pa.Union(vec2(px, py));
    ok = cmpRect(e, "manifold_rect_include_pt", a, pa) &&
         cmpI(e, "manifold_rect_contains_pt", "value", CF(manifold_rect_contains_pt)(a, px, py), pa.Contains(vec2(px, py)) ? 1 : 0);
  }
  e.release(sa);
  e.release(sb);
}
static void e_box(Env& e) {
  double v[12];
  for (auto& x : v) x = e.coord();
  if (e.r.chance(0.1)) v[3] = v[0];
  if (e.r.chance(0.05)) v[8] = -INFINITY;
  Slot sa = e.getMem(T_BOX), sb = e.getMem(T_BOX);
  ManifoldBox* a = e.adopt(sa, CF(manifold_box)(sa.mem, v[0], v[1], v[2], v[3], v[4], v[5]), "manifold_box");
  ManifoldBox* b = e.adopt(sb, CF(manifold_box)(sb.mem, v[6], v[7], v[8], v[9], v[10], v[11]), "manifold_box");
  Box pa(vec3(v[0], v[1], v[2]), vec3(v[3], v[4], v[5])), pb(vec3(v[6], v[7], v[8]), vec3(v[9], v[10], v[11]));
  e.note("box(" + fmtv(std::vector<double>(v, v + 12)) + ")");
  double x = e.coord(), y = e.coord(), z = e.coord(), t[12];
  for (auto& q : t) q = e.uni(-1.5, 1.5);
  mat3x4 M;
  for (int col = 0; col < 4; col++) M[col] = vec3(t[3 * col], t[3 * col + 1], t[3 * col + 2]);
  bool ok = cmpBox(e, "manifold_box", a, pa) && cmpBox(e, "manifold_box", b, pb) &&
            cmpV3(e, "manifold_box_dimensions", "value", CF(manifold_box_dimensions)(a), pa.Size()) &&
            cmpV3(e, "manifold_box_center", "value", CF(manifold_box_center)(a), pa.Center()) &&
            cmpD(e, "manifold_box_scale", "value", CF(manifold_box_scale)(a), pa.Scale()) &&
            cmpI(e, "manifold_box_contains_pt", "value", CF(manifold_box_contains_pt)(a, x, y, z), pa.Contains(vec3(x, y, z)) ? 1 : 0) &&
            cmpI(e, "manifold_box_contains_box", "value", CF(manifold_box_contains_box)(a, b), pa.Contains(pb) ? 1 : 0) &&
            cmpI(e, "manifold_box_does_overlap_pt", "value", CF(manifold_box_does_overlap_pt)(a, x, y, z), pa.DoesOverlap(vec3(x, y, z)) ? 1 : 0) &&
            cmpI(e, "manifold_box_does_overlap_box", "value", CF(manifold_box_does_overlap_box)(a, b), pa.DoesOverlap(pb) ? 1 : 0) &&
            cmpI(e, "manifold_box_is_finite", "value", CF(manifold_box_is_finite)(b), pb.IsFinite() ? 1 : 0);
  struct B1 { const char* fn; std::function<ManifoldBox*(void*)> c; Box p; };
  std::vector<B1> outs = {
      {"manifold_box_union", [&](void* m) { return CF(manifold_box_union)(m, a, b); }, pa.Union(pb)},
      {"manifold_box_transform",
       [&](void* m) { return CF(manifold_box_transform)(m, a, t[0], t[1], t[2], t[3], t[4], t[5], t[6], t[7], t[8], t[9], t[10], t[11]); }, pa.Transform(M)},
      {"manifold_box_translate", [&](void* m) { return CF(manifold_box_translate)(m, a, x, y, z); }, pa + vec3(x, y, z)},
      {"manifold_box_mul", [&](void* m) { return CF(manifold_box_mul)(m, a, x, y, z); }, pa * vec3(x, y, z)},
  };
  for (auto& o : outs) {
    if (!ok || e.stop) break;
    Slot s = e.getMem(T_BOX);
    ManifoldBox* r = e.adopt(s, o.c(s.mem), o.fn);
    ok = !e.stop && cmpBox(e, o.fn, r, o.p);
    e.release(s);
  }
  if (ok && !e.stop) {
    double px = e.uni(-4, 4), py = e.uni(-4, 4), pz = e.uni(-4, 4);
    CF(manifold_box_include_pt)(a, px, py, pz);
    pa.Union(vec3(px, py, pz));
    cmpBox(e, "manifold_box_include_pt", a, pa);
  }
  e.release(sa);
  e.release(sb);
}

// ---------------------------------------------------------------- entries: globals, triangulation, sizes, lifecycles
static void e_quality(Env& e) {
  // process-global state shared by both APIs: set through one, read through both, then the other way round
  double ang = e.r.chance(0.1) ? -5.0 : e.uni(2, 40), len = e.r.chance(0.1) ? 0.0 : e.uni(0.05, 2), rad = e.uni(0.1, 20);
  // (global segment counts 1..3 make Manifold::Sphere(r, 0) subdivide by -1: a core defect, outside the binding)
  int seg = e.r.chance(0.5) ? 0 : e.r.range(4, 40);
  e.note("quality(angle=" + fmt(ang) + ",length=" + fmt(len) + ",segments=" + std::to_string(seg) + ",radius=" + fmt(rad) + ")");
  CF(manifold_reset_to_circular_defaults)();
  int d0c = CF(manifold_get_circular_segments)(rad);
  int d0p = Quality::GetCircularSegments(rad);
  bool ok = cmpI(e, "manifold_get_circular_segments", "defaults", d0c, d0p);
  // C setters
  CF(manifold_set_min_circular_angle)(ang);
  int a1c = CF(manifold_get_circular_segments)(rad), a1p = Quality::GetCircularSegments(rad);
  CF(manifold_set_min_circular_edge_length)(len);
  int l1c = CF(manifold_get_circular_segments)(rad), l1p = Quality::GetCircularSegments(rad);
  CF(manifold_set_circular_segments)(seg);
  int s1c = CF(manifold_get_circular_segments)(rad), s1p = Quality::GetCircularSegments(rad);
  // a primitive that consults the globals
  if (ok && !e.stop) {
    double r2 = e.len();
    mkMan(e, "manifold_sphere", [&](void* m) { return CF(manifold_sphere)(m, r2, 0); }, [&] { return Manifold::Sphere(r2, 0); }, "sphere(" + fmt(r2) + ",0) under quality globals");
  }
  // the same through the C++ setters from the same starting point
  Quality::ResetToDefaults();
  Quality::SetMinCircularAngle(ang);
  int a2 = Quality::GetCircularSegments(rad);
  Quality::SetMinCircularEdgeLength(len);
  int l2 = Quality::GetCircularSegments(rad);
  Quality::SetCircularSegments(seg);
  int s2 = Quality::GetCircularSegments(rad);
  // reset through C must restore what reset through C++ restores
  CF(manifold_reset_to_circular_defaults)();
  int d1 = Quality::GetCircularSegments(rad);
  Quality::ResetToDefaults();
  ok = ok && !e.stop && cmpI(e, "manifold_set_min_circular_angle", "segments-after", a1p, a2) && cmpI(e, "manifold_get_circular_segments", "after-angle", a1c, a2) &&
       cmpI(e, "manifold_set_min_circular_edge_length", "segments-after", l1p, l2) && cmpI(e, "manifold_get_circular_segments", "after-length", l1c, l2) &&
       cmpI(e, "manifold_set_circular_segments", "segments-after", s1p, s2) && cmpI(e, "manifold_get_circular_segments", "after-segments", s1c, s2) &&
       cmpI(e, "manifold_reset_to_circular_defaults", "segments-after", d1, d0p);
}
static void e_triangulate(Env& e) {
  int i = pickPolys(e);
  if (i < 0) return;
  double eps = e.r.chance(0.6) ? -1.0 : e.uni(0, 1e-6);
  Slot s = e.getMem(T_TRI);
  ManifoldTriangulation* c = e.adopt(s, CF(manifold_triangulate)(s.mem, e.polys[i].c, eps), "manifold_triangulate");
  std::vector<ivec3> p = Triangulate(e.polys[i].p, eps);
  e.note("triangulate(" + e.polys[i].how + "," + fmt(eps) + ") -> " + std::to_string(p.size()));
  size_t n = CF(manifold_triangulation_num_tri)(c);
  if (cmpI(e, "manifold_triangulation_num_tri", "value", (long long)n, (long long)p.size())) {
    std::vector<int> cv = pull<int>(e, "manifold_triangulation_tri_verts", 3 * n, [&](void* b) { return CF(manifold_triangulation_tri_verts)(b, c); });
    std::vector<int> pv;
    for (auto& t : p) { pv.push_back(t.x); pv.push_back(t.y); pv.push_back(t.z); }
    if (!e.stop && cv != pv) e.fail("mismatch:manifold_triangulation_tri_verts:triangles", vh::J().s("c", fmtv(cv)).s("cpp", fmtv(pv)));
    if (!e.stop && n) e.c.sig("manifold_triangulate:nonempty");
  }
  e.release(s);
}
static void e_sizes(Env& e) {
  e.note("sizes()");
  for (int t = 0; t < T_COUNT && !e.stop; t++)
    cmpI(e, kTypes[t].sizeFn, "sizeof", (long long)kTypes[t].size(), (long long)kTypes[t].cppSize);
  if (!e.stop) cmpI(e, "manifold_manifold_pair_size", "sizeof", (long long)CF(manifold_manifold_pair_size)(), (long long)sizeof(ManifoldManifoldPair));
}
// one object of type t into storage s, through some constructor of the C API
static bool construct(Env& e, Slot& s) {
  switch (s.t) {
    case T_MAN: e.adopt(s, CF(manifold_cube)(s.mem, 1.0, 2.0, 3.0, 0), "manifold_cube"); break;
    case T_MANVEC: e.adopt(s, CF(manifold_manifold_vec)(s.mem, 3), "manifold_manifold_vec"); break;
    case T_CS: e.adopt(s, CF(manifold_cross_section_circle)(s.mem, 1.0, 12), "manifold_cross_section_circle"); break;
    case T_CSVEC: e.adopt(s, CF(manifold_cross_section_vec)(s.mem, 2), "manifold_cross_section_vec"); break;
    case T_RAYVEC: {
      int i = pickMan(e, 1500, true);
      if (i < 0) return false;
      e.adopt(s, CF(manifold_ray_cast)(s.mem, e.mans[i].c, -9, -9, -9, 9, 9, 9), "manifold_ray_cast");
      break;
    }
    case T_SP: { ManifoldVec2 pts[3] = {{0, 0}, {1, 0}, {0, 1}}; e.adopt(s, CF(manifold_simple_polygon)(s.mem, pts, 3), "manifold_simple_polygon"); break; }
    case T_POLYS: {
      int i = pickPolys(e);
      if (i < 0) return false;
      ManifoldSimplePolygon* sp[1];
      Slot t = e.getMem(T_SP);
      sp[0] = e.adopt(t, CF(manifold_polygons_get_simple)(t.mem, e.polys[i].c, 0), "manifold_polygons_get_simple");
      e.adopt(s, CF(manifold_polygons)(s.mem, sp, 1), "manifold_polygons");
      e.release(t);
      break;
    }
    case T_MESH: { int i = pickMesh(e); if (i < 0) return false; e.adopt(s, CF(manifold_meshgl_copy)(s.mem, e.meshes[i].c), "manifold_meshgl_copy"); break; }
    case T_MESH64: { int i = pickMesh64(e); if (i < 0) return false; e.adopt(s, CF(manifold_meshgl64_copy)(s.mem, e.meshes64[i].c), "manifold_meshgl64_copy"); break; }
    case T_BOX: e.adopt(s, CF(manifold_box)(s.mem, 0, 0, 0, 1, 2, 3), "manifold_box"); break;
    case T_RECT: e.adopt(s, CF(manifold_rect)(s.mem, 0, 0, 1, 2), "manifold_rect"); break;
    case T_TRI: { int i = pickPolys(e); if (i < 0) return false; e.adopt(s, CF(manifold_triangulate)(s.mem, e.polys[i].c, -1.0), "manifold_triangulate"); break; }
    case T_EC: e.adopt(s, CF(manifold_execution_context)(s.mem), "manifold_execution_context"); break;
    default: return false;
  }
  return !e.stop;
}
// generated alloc / construct / destruct / (re)construct / delete programs, every object ended exactly once
static void e_lifecycle(Env& e) {
  for (int tm = 0; tm < 3 * T_COUNT && !e.stop; tm++) {
    int t = tm / 3, mode = tm % 3;
    Slot s = e.getMem((TypeId)t, mode);
    int rounds = e.r.range(1, 3);
    std::string prog = std::string(kTypes[t].name) + ":" + (mode == M_ALLOC ? "alloc" : mode == M_EXACT ? "malloc" : "framed");
    for (int k = 0; k < rounds && !e.stop; k++) {
      if (!construct(e, s)) break;
      prog += " construct";
      if (k + 1 < rounds) {  // end the object in place, keep the storage, build the next one there
        kTypes[t].destruct(s.mem);
        s.live = false;
        e.c.count("objects_destructed");
        if (!s.canaryOK()) e.fail(std::string("storage:canary-overwritten:") + kTypes[t].destructFn, vh::J().s("type", kTypes[t].name));
        prog += " destruct";
      }
    }
    prog += mode == M_ALLOC ? " delete" : " destruct free";
    e.note("lifecycle(" + prog + ")");
    e.release(s);
    e.c.count("lifecycle_programs");
  }
}
// white-box supplement: conv.cpp's switch tables against the independent tables, every enumerator
static void e_conv_tables(Env& e) {
  ManifoldError (*toErr)(Manifold::Error) = to_c;
  OpType (*fromOp)(ManifoldOpType) = from_c;
  CrossSection::JoinType (*fromJt)(ManifoldJoinType) = from_c;
  if (!toErr || !fromOp || !fromJt) { e.c.count("conv_tables_unavailable"); return; }
  e.note("conv_tables()");
  for (auto& r : kErr) {
    if (e.stop) break;
    e.c.count("enum_rows_checked");
    if (toErr(r.p) != r.c) e.fail(std::string("enum:to_c(Error):") + r.name, vh::J().s("cpp", r.name).i("c", (int)toErr(r.p)).i("expected", (int)r.c));
  }
  for (auto& r : kOp) {
    if (e.stop) break;
    e.c.count("enum_rows_checked");
    if (fromOp(r.c) != r.p) e.fail(std::string("enum:from_c(OpType):") + r.name, vh::J().s("c", r.name).i("cpp", (int)fromOp(r.c)).i("expected", (int)r.p));
  }
  for (auto& r : kJt) {
    if (e.stop) break;
    e.c.count("enum_rows_checked");
    if (fromJt(r.c) != r.p) e.fail(std::string("enum:from_c(JoinType):") + r.name, vh::J().s("c", r.name).i("cpp", (int)fromJt(r.c)).i("expected", (int)r.p));
  }
}
// the information functions, unconditionally, on one value
static void e_info(Env& e) {
  PICK_MAN(a);
  e.note("info(" + an + ")");
  bool ok = cmpD(e, "manifold_epsilon", "value", CF(manifold_epsilon)(ac), ap.GetEpsilon()) &&
            cmpD(e, "manifold_get_tolerance", "value", CF(manifold_get_tolerance)(ac), ap.GetTolerance()) &&
            cmpI(e, "manifold_genus", "value", CF(manifold_genus)(ac), ap.Genus()) &&
            cmpD(e, "manifold_surface_area", "value", CF(manifold_surface_area)(ac), ap.SurfaceArea()) &&
            cmpD(e, "manifold_volume", "value", CF(manifold_volume)(ac), ap.Volume());
  if (!ok) return;
  Slot s = e.getMem(T_BOX);
  ManifoldBox* cb = e.adopt(s, CF(manifold_bounding_box)(s.mem, ac), "manifold_bounding_box");
  cmpBox(e, "manifold_bounding_box", cb, ap.BoundingBox());
  e.release(s);
  double rad = e.uni(0.01, 30);
  if (!e.stop) cmpI(e, "manifold_get_circular_segments", "value", CF(manifold_get_circular_segments)(rad), Quality::GetCircularSegments(rad));
}
static void e_cs_info(Env& e) {
  PICK_CS(a);
  e.note("cs_info(" + an + ")");
  Slot s = e.getMem(T_RECT);
  ManifoldRect* cr = e.adopt(s, CF(manifold_cross_section_bounds)(s.mem, ac), "manifold_cross_section_bounds");
  cmpRect(e, "manifold_cross_section_bounds", cr, ap.Bounds());
  e.release(s);
}

// ---------------------------------------------------------------- stage "emptyacc"
// One array accessor per case, on an object whose array is EMPTY, into a
// 1-byte caller buffer. copy_data() then calls memcpy(dst, NULL, 0).
struct EmptyAcc { const char* fn; void (*run)(Env&, ManifoldMeshGL*, ManifoldMeshGL64*, ManifoldTriangulation*, void*); };
#define EA32(name) {"manifold_meshgl_" #name, [](Env&, ManifoldMeshGL* m, ManifoldMeshGL64*, ManifoldTriangulation*, void* b) { CF(manifold_meshgl_##name)(b, m); }}
#define EA64(name) {"manifold_meshgl64_" #name, [](Env&, ManifoldMeshGL*, ManifoldMeshGL64* m, ManifoldTriangulation*, void* b) { CF(manifold_meshgl64_##name)(b, m); }}
static const EmptyAcc kEmptyAcc[] = {
    EA32(vert_properties), EA32(tri_verts), EA32(merge_from_vert), EA32(merge_to_vert), EA32(run_index), EA32(run_original_id),
    EA32(run_transform), EA32(face_id), EA32(halfedge_tangent), EA32(run_flags),
    EA64(vert_properties), EA64(tri_verts), EA64(merge_from_vert), EA64(merge_to_vert), EA64(run_index), EA64(run_original_id),
    EA64(run_transform), EA64(face_id), EA64(halfedge_tangent), EA64(run_flags),
    {"manifold_triangulation_tri_verts", [](Env&, ManifoldMeshGL*, ManifoldMeshGL64*, ManifoldTriangulation* t, void* b) { CF(manifold_triangulation_tri_verts)(b, t); }},
};
static void caseEmptyAcc(vh::Ctx& c) {
  Env e(c);
  const size_t N = sizeof(kEmptyAcc) / sizeof(kEmptyAcc[0]);
  const EmptyAcc& ea = kEmptyAcc[(size_t)c.idx % N];
  e.entry = ea.fn;
  // objects with every array empty: a mesh of 0 vertices / 0 triangles, a triangulation of no polygons
  float fdummy = 0;
  double ddummy = 0;
  uint32_t i32 = 0;
  uint64_t i64 = 0;
  Slot s32 = e.getMem(T_MESH, M_EXACT), s64 = e.getMem(T_MESH64, M_EXACT), sp = e.getMem(T_POLYS, M_EXACT), st = e.getMem(T_TRI, M_EXACT);
  ManifoldMeshGL* m32 = e.adopt(s32, CF(manifold_meshgl)(s32.mem, &fdummy, 0, 3, &i32, 0), "manifold_meshgl");
  ManifoldMeshGL64* m64 = e.adopt(s64, CF(manifold_meshgl64)(s64.mem, &ddummy, 0, 3, &i64, 0), "manifold_meshgl64");
  ManifoldPolygons* ps = e.adopt(sp, CF(manifold_polygons)(sp.mem, nullptr, 0), "manifold_polygons");
  ManifoldTriangulation* tr = e.adopt(st, CF(manifold_triangulate)(st.mem, ps, -1.0), "manifold_triangulate");
  void* buf = malloc(1);
  c.site(std::string("emptyacc:") + ea.fn);
  ea.run(e, m32, m64, tr, buf);  // UBSan: "null pointer passed as argument 2, which is declared to never be null"
  c.count("empty_array_accessor_calls_survived");
  c.sig(std::string("emptyacc:") + ea.fn);
  free(buf);
  e.release(st);
  e.release(sp);
  e.release(s64);
  e.release(s32);
}

// ---------------------------------------------------------------- the table
static void e_project(Env& e);
static const Entry kTable[] = {
    {"empty", e_empty}, {"tetrahedron", e_tetrahedron}, {"cube", e_cube}, {"cylinder", e_cylinder}, {"sphere", e_sphere},
    {"hull_pts", e_hull_pts}, {"polygons", e_polygons}, {"polygons_odd", e_polygons_odd}, {"extrude", e_extrude}, {"revolve", e_revolve},
    {"level_set", e_level_set}, {"level_set_seq", e_level_set_seq}, {"ec_level_set", e_ec_level_set}, {"ec_level_set_seq", e_ec_level_set_seq},
    {"meshgl", e_meshgl}, {"meshgl64", e_meshgl64}, {"meshgl_w_tangents", e_meshgl_w_tangents}, {"meshgl64_w_tangents", e_meshgl64_w_tangents},
    {"meshgl_w_options", e_meshgl_w_options}, {"meshgl64_w_options", e_meshgl64_w_options},
    {"meshgl_w_options_merge", e_meshgl_w_options_merge}, {"meshgl64_w_options_merge", e_meshgl64_w_options_merge}, {"meshgl_bad", e_meshgl_bad}, {"meshgl64_bad", e_meshgl64_bad},
    {"get_meshgl", [](Env& e) { void getMesh(Env&, bool, bool); getMesh(e, false, false); }},
    {"get_meshgl_w_normals", [](Env& e) { void getMesh(Env&, bool, bool); getMesh(e, false, true); }},
    {"get_meshgl64", [](Env& e) { void getMesh(Env&, bool, bool); getMesh(e, true, false); }},
    {"get_meshgl64_w_normals", [](Env& e) { void getMesh(Env&, bool, bool); getMesh(e, true, true); }},
    {"meshgl_copy", [](Env& e) { void copyMerge(Env&, bool, bool); copyMerge(e, false, false); }},
    {"meshgl_merge", [](Env& e) { void copyMerge(Env&, bool, bool); copyMerge(e, false, true); }},
    {"meshgl64_copy", [](Env& e) { void copyMerge(Env&, bool, bool); copyMerge(e, true, false); }},
    {"meshgl64_merge", [](Env& e) { void copyMerge(Env&, bool, bool); copyMerge(e, true, true); }},
    {"meshgl_merge_split", e_meshgl_merge_split},
    {"of_meshgl", e_of_meshgl}, {"of_meshgl64", e_of_meshgl64}, {"ec_of_meshgl", e_ec_of_meshgl}, {"ec_of_meshgl64", e_ec_of_meshgl64},
    {"smooth", e_smooth}, {"smooth64", e_smooth64}, {"ec_smooth", e_ec_smooth}, {"ec_smooth64", e_ec_smooth64},
    {"copy", e_copy}, {"as_original", e_as_original}, {"hull", e_hull}, {"translate", e_translate}, {"rotate", e_rotate}, {"scale", e_scale},
    {"transform", e_transform}, {"mirror", e_mirror}, {"warp", e_warp}, {"set_properties", e_set_properties},
    {"calculate_curvature", e_calculate_curvature}, {"calculate_normals", e_calculate_normals}, {"smooth_by_normals", e_smooth_by_normals},
    {"smooth_out", e_smooth_out}, {"refine", e_refine}, {"refine_to_length", e_refine_to_length}, {"refine_to_tolerance", e_refine_to_tolerance},
    {"set_tolerance", e_set_tolerance}, {"simplify", e_simplify}, {"trim_by_plane", e_trim_by_plane}, {"split", e_split},
    {"split_by_plane", e_split_by_plane}, {"boolean", e_boolean}, {"union", e_union}, {"difference", e_difference}, {"intersection", e_intersection},
    {"minkowski_sum", e_minkowski_sum}, {"minkowski_difference", e_minkowski_difference}, {"manifold_vec", e_manifold_vec},
    {"batch_boolean", e_batch_boolean}, {"batch_hull", e_batch_hull}, {"compose", e_compose}, {"decompose", e_decompose},
    {"slice", e_slice}, {"project", e_project}, {"min_gap", e_min_gap}, {"winding_number", e_winding_number}, {"ray_cast", e_ray_cast}, {"ray_cast_aimed", e_ray_cast_aimed},
    {"reserve_ids", e_reserve_ids}, {"obj", e_obj}, {"exec_ctx", e_exec_ctx}, {"exec_ctx_cancelled", e_exec_ctx_cancelled}, {"info", e_info},
    {"cs_empty", e_cs_empty}, {"cs_square", e_square}, {"cs_circle", e_circle}, {"cs_copy", e_cs_copy},
    {"cs_of_simple_polygon", e_cs_of_simple_polygon}, {"cs_of_polygons", e_cs_of_polygons}, {"cs_even_odd_simple_polygon", e_cs_even_odd_simple},
    {"cs_even_odd_polygons", e_cs_even_odd_polygons}, {"cs_hull_simple_polygon", e_cs_hull_simple}, {"cs_hull_polygons", e_cs_hull_polygons},
    {"cs_boolean", e_cs_boolean}, {"cs_union", e_cs_union}, {"cs_difference", e_cs_difference}, {"cs_intersection", e_cs_intersection},
    {"cs_hull", e_cs_hull}, {"cs_translate", e_cs_translate}, {"cs_rotate", e_cs_rotate}, {"cs_scale", e_cs_scale}, {"cs_mirror", e_cs_mirror},
    {"cs_transform", e_cs_transform}, {"cs_warp_context", e_cs_warp}, {"cs_simplify", e_cs_simplify}, {"cs_set_tolerance", e_cs_set_tolerance},
    {"cs_offset", e_cs_offset}, {"cs_vec", e_cs_vec}, {"cs_batch_boolean", e_cs_batch_boolean}, {"cs_batch_hull", e_cs_batch_hull},
    {"cs_decompose", e_cs_decompose}, {"cs_to_polygons", e_cs_to_polygons}, {"cs_info", e_cs_info},
    {"rect", e_rect}, {"box", e_box}, {"quality", e_quality}, {"triangulate", e_triangulate}, {"sizes", e_sizes}, {"lifecycle", e_lifecycle},
    {"conv_tables", e_conv_tables},
};
static const size_t kTableN = sizeof(kTable) / sizeof(kTable[0]);

// ---------------------------------------------------------------- leak monitor
static std::map<std::string, long> g_leakSeen;  // allocation-stack signature -> objects already reported
static long g_leakChecks = 0;
static std::string repoPrefix() {
  const char* r = getenv("VERIF_REPO");
  return r ? r : "/repo";
}
// returns number of NEW leaked objects; fills key/summary of the first new leak
static long leakCheck(vh::Ctx& c, std::string* key, std::string* summary, bool* harnessOnly) {
#if C20_HAVE_LSAN
  int fd = memfd_create("c20-lsan", 0);
  if (fd < 0) return 0;
  __sanitizer_set_report_fd((void*)(intptr_t)fd);
  int rc = __lsan_do_recoverable_leak_check();
  __sanitizer_set_report_fd((void*)(intptr_t)2);
  g_leakChecks++;
  c.count("lsan_checks");
  std::string txt;
  if (rc) {
    char buf[8192];
    lseek(fd, 0, SEEK_SET);
    ssize_t k;
    while ((k = read(fd, buf, sizeof buf)) > 0) txt.append(buf, (size_t)k);
  }
  close(fd);
  if (!rc) return 0;
  long fresh = 0;
  size_t pos = 0;
  const std::string repo = repoPrefix();
  while (true) {
    size_t b = txt.find(" leak of ", pos);
    if (b == std::string::npos) break;
    size_t lineStart = txt.rfind('\n', b);
    lineStart = lineStart == std::string::npos ? 0 : lineStart + 1;
    size_t end = txt.find("\n\n", b);
    if (end == std::string::npos) end = txt.size();
    std::string block = txt.substr(lineStart, end - lineStart);
    pos = end;
    long objs = 0;
    {
      size_t q = block.find(" byte(s) in ");
      if (q != std::string::npos) objs = atol(block.c_str() + q + 12);
    }
    // signature: the frames without addresses
    std::string sig, firstC, firstRepo, firstAny;
    std::istringstream is(block);
    std::string line;
    while (std::getline(is, line)) {
      size_t in = line.find(" in ");
      if (line.find("#") == std::string::npos || in == std::string::npos) continue;
      std::string rest = line.substr(in + 4);
      sig += rest + "|";
      std::string fnName = rest.substr(0, rest.find_first_of(" ("));
      if (firstAny.empty() && rest.find("libsanitizer") == std::string::npos && rest.find("operator new") == std::string::npos) firstAny = fnName;
      if (firstC.empty() && fnName.rfind("manifold_", 0) == 0) firstC = fnName;
      if (firstRepo.empty() && rest.find(repo + "/") != std::string::npos) firstRepo = fnName;
    }
    long& seen = g_leakSeen[sig];
    if (objs > seen) {
      if (fresh == 0) {
        bool lib = !firstC.empty() || !firstRepo.empty();
        *harnessOnly = !lib;
        *key = "lsan:leak:" + (!firstC.empty() ? firstC : (!firstRepo.empty() ? firstRepo : firstAny));
        *summary = block.substr(0, 2500);
      }
      fresh += objs - seen;
      seen = objs;
    }
  }
  return fresh;
#else
  (void)c; (void)key; (void)summary; (void)harnessOnly;
  return 0;
#endif
}
static void leakStep(vh::Ctx& c, const std::string& tail) {
  std::string key, summary;
  bool harnessOnly = false;
  long n = leakCheck(c, &key, &summary, &harnessOnly);
  if (n <= 0) return;
  if (harnessOnly) {
    c.inconclusive("C20: LeakSanitizer reported a leak with no frame in the repository (harness leak?): " + summary.substr(0, 600));
    return;
  }
  c.violation(key, vh::J().i("new_leaked_objects", n).s("lsan_report", summary).raw("program_tail", tail).str());
}

// ---------------------------------------------------------------- framework hooks
static bool g_sawViolation = false;
static bool g_prof = false;                    // C20_PROF=1: per-entry wall time to stderr (diagnostics only)
static std::map<std::string, double> g_profT;
static long g_fullSweeps = 0;

static void readExported(vh::Ctx& c) {
  std::string path = repoPrefix() + "/bindings/c/include/manifold/manifoldc.h";
  FILE* f = fopen(path.c_str(), "r");
  if (!f) { c.inconclusive("C20: cannot read " + path); return; }
  std::string txt;
  char buf[4096];
  size_t k;
  while ((k = fread(buf, 1, sizeof buf, f)) > 0) txt.append(buf, k);
  fclose(f);
  // identifiers manifold_[a-z0-9_]+ directly followed by '(' outside // comments
  size_t i = 0;
  while (i < txt.size()) {
    if (txt.compare(i, 2, "//") == 0) { while (i < txt.size() && txt[i] != '\n') i++; continue; }
    if (txt.compare(i, 9, "manifold_") == 0 && (i == 0 || !(isalnum((unsigned char)txt[i - 1]) || txt[i - 1] == '_'))) {
      size_t j = i;
      while (j < txt.size() && (islower((unsigned char)txt[j]) || isdigit((unsigned char)txt[j]) || txt[j] == '_')) j++;
      size_t q = j;
      while (q < txt.size() && (txt[q] == ' ' || txt[q] == '\n')) q++;
      if (q < txt.size() && txt[q] == '(') g_exportedHdr.insert(txt.substr(i, j - i));
      i = j;
      continue;
    }
    i++;
  }
  // cross-check against the symbols of the archive this harness was linked with
  char exe[4096];
  ssize_t n = c.worker == 0 ? readlink("/proc/self/exe", exe, sizeof exe - 1) : -1;
  if (n > 0) {
    exe[n] = 0;
    std::string dir(exe);
    dir = dir.substr(0, dir.rfind('/'));
    std::string cmd = "nm -g --defined-only '" + dir + "/libmanifold.a' 2>/dev/null";
    FILE* p = popen(cmd.c_str(), "r");
    if (p) {
      char line[1024];
      while (fgets(line, sizeof line, p)) {
        char* t = strstr(line, " T manifold_");
        if (!t) continue;
        std::string s(t + 3);
        while (!s.empty() && (s.back() == '\n' || s.back() == ' ')) s.pop_back();
        g_exportedNm.insert(s);
      }
      pclose(p);
    }
  }
}

void vh_init(vh::Ctx& c) {
  g_trace = getenv("VERIF_TRACE") != nullptr;
  g_prof = getenv("C20_PROF") != nullptr;
  readExported(c);
  if (c.stage == "emptyacc") return;
#if !C20_HAVE_LSAN
  c.inconclusive("C20: built without AddressSanitizer/LeakSanitizer");
#endif
  // baseline: anything LSan already considers leaked is not charged to a case
  std::string k, s;
  bool h;
  leakCheck(c, &k, &s, &h);
}

void vh_case(vh::Ctx& c) {
  if (c.stage == "emptyacc") { caseEmptyAcc(c); return; }
  Env e(c);
  // program = every table entry once, in a seeded order, then `extra` more picks
  std::vector<size_t> order(kTableN);
  std::iota(order.begin(), order.end(), (size_t)0);
  for (size_t i = kTableN; i > 1; i--) std::swap(order[i - 1], order[c.rng.below(i)]);
  long extra = c.iparam("extra", 40);
  for (long k = 0; k < extra; k++) order.push_back(c.rng.below(kTableN));
  long done = 0;
  for (size_t idx : order) {
    if (e.stop) break;
    const Entry& en = kTable[idx];
    e.beginEntry();
    e.entry = en.name;
    c.site(en.name);
    if (g_prof) {
      struct timespec t0, t1;
      clock_gettime(CLOCK_PROCESS_CPUTIME_ID, &t0);
      en.run(e);
      clock_gettime(CLOCK_PROCESS_CPUTIME_ID, &t1);
      g_profT[en.name] += (t1.tv_sec - t0.tv_sec) + 1e-9 * (t1.tv_nsec - t0.tv_nsec);
    } else
      en.run(e);
    done++;
    if ((done & 63) == 0) c.heartbeat();
  }
  c.count("entries_executed", done);
  c.count("program_steps", (long long)e.log.size());
  if (e.stop) g_sawViolation = true;
  else g_fullSweeps++;
  std::string tail = e.logTail(12);
  if (c.idx % 53 == 0 && !e.stop) {
    std::string head = "[";
    for (size_t i = 0; i < e.log.size() && i < 14; i++) head += (i ? ",\"" : "\"") + vh::jesc(e.log[i].substr(0, 160)) + "\"";
    head += "]";
    c.sample(vh::J().i("idx", c.idx).i("steps", (long long)e.log.size()).raw("program_head", head).str(), 2);
  }
  // every object ends exactly once
  c.site("release-all");
  e.releaseAll();
  e.freeArena();
  Quality::ResetToDefaults();
  c.site("leak-check");
  leakStep(c, tail);
}

void vh_finish(vh::Ctx& c) {
  if (g_prof) {
    std::vector<std::pair<double, std::string>> v;
    for (auto& kv : g_profT) v.push_back({kv.second, kv.first});
    std::sort(v.rbegin(), v.rend());
    for (size_t i = 0; i < v.size() && i < 25; i++) fprintf(stderr, "[c20 prof] %8.3f s  %s\n", v[i].first, v[i].second.c_str());
  }
  if (c.stage != "emptyacc") leakStep(c, "[\"(end of worker)\"]");
  // coverage: exported (header, nm) vs exercised in this process
  std::vector<std::string> unexercised, nmOnly, hdrOnly;
  long exercised = 0;
  for (auto& f : g_exportedHdr) {
    auto it = g_calls.find(f);
    long long n = it == g_calls.end() ? 0 : it->second;
    c.count("calls/" + f, n);
    if (n) exercised++;
    else unexercised.push_back(f);
  }
  for (auto& f : g_exportedNm) if (!g_exportedHdr.count(f)) nmOnly.push_back(f);
  if (!g_exportedNm.empty())
    for (auto& f : g_exportedHdr) if (!g_exportedNm.count(f)) hdrOnly.push_back(f);
  c.maxi("exported_functions_in_header", (long long)g_exportedHdr.size());
  c.maxi("exported_symbols_in_archive_nm", (long long)g_exportedNm.size());
  if (c.stage == "emptyacc") return;
  c.maxi("functions_exercised_max_per_worker", exercised);
  c.count("callback_invocations_total", g_cbCalls);
  std::string cov = vh::J().s("coverage", "exported C functions vs functions exercised by this worker")
                        .u("exported_header", g_exportedHdr.size()).u("exported_nm", g_exportedNm.size()).i("exercised", exercised)
                        .i("full_sweeps", g_fullSweeps).u("table_entries", kTableN)
                        .raw("unexercised", "[" + [&] { std::string s; for (auto& f : unexercised) s += (s.empty() ? "\"" : ",\"") + f + "\""; return s; }() + "]")
                        .raw("in_archive_not_in_header", "[" + [&] { std::string s; for (auto& f : nmOnly) s += (s.empty() ? "\"" : ",\"") + f + "\""; return s; }() + "]")
                        .raw("in_header_not_in_archive", "[" + [&] { std::string s; for (auto& f : hdrOnly) s += (s.empty() ? "\"" : ",\"") + f + "\""; return s; }() + "]")
                        .str();
  c.samples.insert(c.samples.begin(), cov);
  if (g_fullSweeps >= 3 && !g_sawViolation && c.only < 0) {
    if (!unexercised.empty()) {
      std::string l;
      for (auto& f : unexercised) l += " " + f;
      c.inconclusive("C20: exported functions never exercised by a worker that completed " + std::to_string(g_fullSweeps) + " full sweeps:" + l);
    }
  }
  if (!nmOnly.empty() && c.only < 0) {
    std::string l;
    for (auto& f : nmOnly) l += " " + f;
    c.inconclusive("C20: symbols exported by the archive but not declared in manifoldc.h (not mirrored):" + l);
  }
}
