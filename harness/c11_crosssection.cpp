// C11 — CrossSections are regularised; 2D Booleans compute the set operation
// (DESIGN.md §4 C11).   geom2d-rev: 3
//
// Oracle: integer winding numbers (exact orientation predicate) of the INPUT
// contours, folded through the fill rule / set formula, compared with the
// winding number of ToPolygons() of the result, at sample points that are
// farther than the guard band B from every input edge and every result edge.
//
//   B = 4*E + drift + 64*DBL_EPSILON*scale
//   E = max(result.GetTolerance(), eps(scale)),  eps(L) = 1001*12.37*u*2^ceil(log2 L)
//       (docs/Boolean2.md "Regularization And Epsilon"; cross_section.cpp
//       passes InferEps(a,b) as the operation epsilon and stores
//       max(operand tolerances, eps) as the result tolerance)
//   drift = largest diameter of a chain of input vertices linked by
//       distances <= 1.01*eps (the transitive vertex merge may move a vertex
//       that far: test CrossSectionComplex.MergeVertsTransitiveChainCanDriftPastEps)
//   factor 4: vertex merge (<= eps) + incidence pre-split (<= eps) act on top
//       of each other, and the band must also cover the result's own edges.
//
// Stages (param "mode"): soup, program, lattice, latticepairs, large.
#include <cfloat>

#include "c11_geom2d.h"
#include "common/vh.h"
#include "manifold/cross_section.h"

using namespace manifold;
using g2::ld;
using g2::Seg;

namespace {

const char* opName(OpType op) { return op == OpType::Add ? "add" : op == OpType::Subtract ? "subtract" : "intersect"; }

// ----------------------------------------------------------------- oracle
struct Check {
  std::string kind;                     // coordinate-free key fragment
  std::vector<Polygons> inputs;         // every contour set the operation read
  std::function<bool(vec2)> expected;   // membership demanded by the statement (may be empty)
  std::string log;                      // how the inputs were made (witness text)
  size_t sampleEdges = 40;
  // value handed through unchanged from an operand that is itself exempt (single-operand BatchBoolean)
  bool passThrough = false;
};
struct Outcome {
  bool ok = true;
  long in = 0, out = 0, skipped = 0;
  double band = 0;
  Polygons polys;
};

std::string inputsJson(const Check& k) {
  std::string s = "[";
  for (size_t i = 0; i < k.inputs.size(); i++) s += (i ? "," : "") + g2::polyJson(k.inputs[i], 300);
  return s + "]";
}

Outcome observe(vh::Ctx& c, const Check& k, const CrossSection& res) {
  Outcome o;
  c.site(k.kind);
  o.polys = res.ToPolygons();
  const double tol = res.GetTolerance();
  c.count("values_observed");
  auto fail = [&](const std::string& key, vh::J& j) {
    j.s("op", k.kind).s("how", k.log).d("band", o.band).d("result_tolerance", tol).raw("inputs", inputsJson(k)).raw(
        "result", g2::polyJson(o.polys, 400));
    c.violation(key, j.str());
    o.ok = false;
  };
  if (!g2::allFinite(o.polys)) {
    vh::J j;
    fail("regular:nonfinite-output:" + k.kind, j);
    return o;
  }
  std::vector<Seg> inS;
  std::vector<vec2> inV;
  for (auto& P : k.inputs) {
    g2::appendSegs(inS, P);
    for (auto& r : P) inV.insert(inV.end(), r.begin(), r.end());
  }
  const std::vector<Seg> outS = g2::segsOf(o.polys);
  const double scaleIn = g2::maxAbsSegs(inS);
  const double scale = std::max(scaleIn, g2::maxAbsSegs(outS));
  const double epsOp = g2::epsFromScale(scaleIn);
  double E = g2::epsFromScale(scale);
  if (std::isfinite(tol) && tol > E) E = tol;
  const double drift = g2::mergeDrift(inV, 1.01 * epsOp);
  if (drift > 0) c.count("cases_with_merge_chain");
  o.band = 4 * E + drift + 64 * DBL_EPSILON * scale;
  if (!(o.band > 0)) {
    c.count("degenerate_zero_scale");
    return o;
  }
  c.maxi("max_result_edges", (long long)outS.size());
  c.maxi("max_input_edges", (long long)inS.size());

  // --- simple: no contour passes twice through the same point (exact coordinates). Transform results (and
  // single-operand BatchBoolean, which returns its operand unchanged) are exempt: a singular transform
  // collapses contours without re-regularising; this is only counted.
  for (const auto& ring : o.polys) {
    std::vector<std::pair<double, double>> v;
    for (const vec2& p : ring) v.push_back({p.x, p.y});
    std::sort(v.begin(), v.end());
    auto it = std::adjacent_find(v.begin(), v.end());
    if (it == v.end()) continue;
    if (k.kind.rfind("xform", 0) == 0 || k.passThrough) {
      c.count("xform_results_with_repeated_vertex");
      break;
    }
    vh::J j;
    j.raw("vertex", g2::ptJson(vec2(it->first, it->second)));
    fail("regular:repeated-vertex-in-contour:" + k.kind, j);
    return o;
  }
  // --- simple / non-crossing: no two result edges cross deeper than the band
  {
    g2::Crossing x = g2::deepCrossing(outS, o.band);
    c.count("result_edge_pairs_tested", x.pairsTested);
    if (x.found) {
      vh::J j;
      j.raw("edge1", g2::segJson(x.s)).raw("edge2", g2::segJson(x.t));
      fail("regular:deep-crossing:" + k.kind, j);
      return o;
    }
  }
  // --- sample points
  g2::Sampler sm(c.rng);
  const std::vector<double> mult = {2, 2, 10, 10, 100, 1e3, 1e5, 1e7};
  sm.aroundEdges(inS, o.band, k.sampleEdges, mult);
  sm.aroundEdges(outS, o.band, k.sampleEdges, mult);
  sm.aroundVerts(inS, o.band, k.sampleEdges / 2, mult);
  sm.aroundVerts(outS, o.band, k.sampleEdges / 2, mult);
  {
    double x0, y0, x1, y1;
    std::vector<Seg> all = inS;
    all.insert(all.end(), outS.begin(), outS.end());
    g2::bbox(all, x0, y0, x1, y1);
    sm.stratified(x0, y0, x1, y1, 7);
  }
  for (const vec2& p : sm.pts) {
    if (!std::isfinite(p.x) || !std::isfinite(p.y)) continue;
    if (g2::distToSegs(p, outS) <= o.band || g2::distToSegs(p, inS) <= o.band) {
      o.skipped++;
      continue;
    }
    const int wr = g2::windingSegs(outS, p);
    if (wr != 0 && wr != 1) {
      vh::J j;
      j.raw("point", g2::ptJson(p)).i("result_winding", wr);
      fail("regular:winding-not-0-or-1:" + k.kind, j);
      return o;
    }
    if (k.expected) {
      const bool want = k.expected(p);
      if (want != (wr == 1)) {
        vh::J j;
        j.raw("point", g2::ptJson(p)).bo("expected_inside", want).i("result_winding", wr)
            .d("dist_to_input_edges", (double)g2::distToSegs(p, inS)).d("dist_to_result_edges", (double)g2::distToSegs(p, outS));
        fail(std::string("fill:") + (want ? "missing-point:" : "extra-point:") + k.kind, j);
        return o;
      }
    }
    (wr ? o.in : o.out)++;
  }
  c.count("points_decided_inside", o.in);
  c.count("points_decided_outside", o.out);
  c.count("points_skipped_in_band", o.skipped);
  if (k.expected && !o.polys.empty() && o.in > 0 && o.out > 0) {
    uint64_t h = vh::fnvs(k.kind);
    for (auto& P : k.inputs) h = g2::hashPolys(P, h);
    c.sig(h);
    c.count("nontrivial_values");
  }
  return o;
}

int windAll(const std::vector<Polygons>& v, vec2 p) {
  int w = 0;
  for (auto& P : v) w += g2::winding(P, p);
  return w;
}

// ----------------------------------------------------------------- generators
SimplePolygon reversed(SimplePolygon r) {
  std::reverse(r.begin(), r.end());
  return r;
}
SimplePolygon randomRing(vh::Rng& g, int n) {
  SimplePolygon r;
  for (int i = 0; i < n; i++) r.push_back(vec2(g.uni(-1, 1), g.uni(-1, 1)));
  return r;
}
SimplePolygon starRing(vh::Rng& g, int n, double rmin, double rmax, vec2 ctr) {
  SimplePolygon r;
  const double ph = g.uni(0, 6.283185307179586);
  for (int i = 0; i < n; i++) {
    const double a = ph + 6.283185307179586 * (i + g.uni(-0.3, 0.3)) / n;
    const double rad = g.uni(rmin, rmax);
    r.push_back(vec2(ctr.x + rad * std::cos(a), ctr.y + rad * std::sin(a)));
  }
  return r;
}
SimplePolygon intRing(vh::Rng& g, int n, int N) {
  SimplePolygon r;
  for (int i = 0; i < n; i++) r.push_back(vec2(g.range(0, N), g.range(0, N)));
  return r;
}
SimplePolygon rectRing(double x0, double y0, double x1, double y1, bool cw = false) {
  SimplePolygon r = {{x0, y0}, {x1, y0}, {x1, y1}, {x0, y1}};
  return cw ? reversed(r) : r;
}

struct Soup {
  Polygons polys;
  std::string family;
};

void affine(Polygons& P, double s, double ang, vec2 t) {
  const double cs = std::cos(ang), sn = std::sin(ang);
  for (auto& r : P)
    for (auto& v : r) {
      const double x = v.x, y = v.y;
      v = ang == 0 ? vec2(s * x + t.x, s * y + t.y) : vec2(s * (cs * x - sn * y) + t.x, s * (sn * x + cs * y) + t.y);
    }
}

Soup makeSoup(vh::Rng& g, int forcedFamily = -1) {
  Soup s;
  const int fam = forcedFamily >= 0 ? forcedFamily : g.range(0, 8);
  bool keepAxes = false;
  switch (fam) {
    case 0: {
      s.family = "random";
      int k = g.range(1, 3);
      for (int i = 0; i < k; i++) s.polys.push_back(randomRing(g, g.range(3, 10)));
      break;
    }
    case 1: {
      s.family = "stars";
      int k = g.range(1, 4);
      for (int i = 0; i < k; i++) {
        SimplePolygon r = starRing(g, g.range(3, 12), 0.2, 1.0, vec2(g.uni(-0.8, 0.8), g.uni(-0.8, 0.8)));
        if (g.chance(0.3)) r = reversed(r);
        s.polys.push_back(r);
      }
      break;
    }
    case 2: {
      s.family = "smallint";
      int k = g.range(1, 4), N = g.range(2, 6);
      for (int i = 0; i < k; i++) s.polys.push_back(intRing(g, g.range(3, 8), N));
      keepAxes = g.chance(0.6);
      break;
    }
    case 3: {
      s.family = "dupes";
      SimplePolygon r = g.chance(0.5) ? starRing(g, g.range(3, 9), 0.3, 1.0, vec2(0, 0)) : randomRing(g, g.range(3, 7));
      s.polys.push_back(r);
      int k = g.range(1, 3);
      for (int i = 0; i < k; i++) {
        int what = g.range(0, 3);
        if (what == 0) s.polys.push_back(r);
        else if (what == 1) s.polys.push_back(reversed(r));
        else if (what == 2) {  // shifted by one of its own edge vectors
          size_t e = g.below(r.size());
          vec2 d = r[(e + 1) % r.size()] - r[e];
          SimplePolygon q = r;
          for (auto& v : q) v += d;
          s.polys.push_back(q);
        } else {  // rotated start index (same contour, other vertex order)
          SimplePolygon q = r;
          std::rotate(q.begin(), q.begin() + g.below(q.size()), q.end());
          s.polys.push_back(q);
        }
      }
      keepAxes = true;
      break;
    }
    case 4: {
      s.family = "nearcoincident";
      SimplePolygon r = starRing(g, g.range(3, 9), 0.3, 1.0, vec2(0, 0));
      s.polys.push_back(r);
      static const double ks[] = {0.1, 0.5, 0.9, 1.1, 2, 10, 100, 1e4};
      const double e0 = g2::epsFromScale(1.0);
      int k = g.range(1, 2);
      for (int i = 0; i < k; i++) {
        SimplePolygon q = r;
        const double m = ks[g.below(8)] * e0;
        const double a = g.uni(0, 6.283185307179586);
        for (auto& v : q) v += vec2(m * std::cos(a), m * std::sin(a));
        if (g.chance(0.3)) q = reversed(q);
        s.polys.push_back(q);
      }
      keepAxes = true;  // keep the k*eps offsets meaningful (no rescale below)
      break;
    }
    case 5: {
      s.family = "concurrent";
      // thin rhombi / triangles whose long edges pass within m*eps of one point
      const vec2 ctr(g.uni(-0.3, 0.3), g.uni(-0.3, 0.3));
      static const double ms[] = {0, 0.3, 1, 3, 10, 1000, 1e6};
      const double m = ms[g.below(7)] * g2::epsFromScale(1.0);
      int k = g.range(2, 6);
      for (int i = 0; i < k; i++) {
        const double a = g.uni(0, 3.141592653589793);
        const vec2 d(std::cos(a), std::sin(a)), nrm(-d.y, d.x);
        const vec2 cc = ctr + vec2(g.uni(-1, 1) * m, g.uni(-1, 1) * m);
        const double L = g.uni(0.5, 1.0), w = g.uni(0.01, 0.2);
        if (g.chance(0.5))
          s.polys.push_back({cc + L * d, cc + w * nrm, cc - L * d, cc - w * nrm});
        else
          s.polys.push_back({cc - L * d, cc + L * d, cc + w * nrm + g.uni(-0.5, 0.5) * d});
        if (g.chance(0.2)) s.polys.back() = reversed(s.polys.back());
      }
      keepAxes = true;
      break;
    }
    case 6: {
      s.family = "rects";
      int k = g.range(2, 5);
      std::vector<double> xs, ys;
      for (int i = 0; i < 4; i++) xs.push_back(g.uni(-1, 1)), ys.push_back(g.uni(-1, 1));
      for (int i = 0; i < k; i++) {
        double x0 = xs[g.below(4)], x1 = xs[g.below(4)], y0 = ys[g.below(4)], y1 = ys[g.below(4)];
        if (x0 == x1 || y0 == y1) continue;
        s.polys.push_back(rectRing(std::min(x0, x1), std::min(y0, y1), std::max(x0, x1), std::max(y0, y1), g.chance(0.2)));
      }
      keepAxes = g.chance(0.7);
      break;
    }
    case 7: {
      s.family = "needles";
      int k = g.range(1, 2);
      for (int i = 0; i < k; i++) s.polys.push_back(starRing(g, g.range(4, 10), 1e-3, 1.0, vec2(g.uni(-0.2, 0.2), g.uni(-0.2, 0.2))));
      break;
    }
    default: {
      s.family = "collinear";
      // rings with inserted collinear / duplicated vertices and back-tracking spikes
      SimplePolygon r = starRing(g, g.range(3, 7), 0.3, 1.0, vec2(0, 0));
      SimplePolygon q;
      for (size_t i = 0; i < r.size(); i++) {
        const vec2 a = r[i], b = r[(i + 1) % r.size()];
        q.push_back(a);
        int what = g.range(0, 4);
        if (what == 0) q.push_back(0.5 * (a + b));
        else if (what == 1) q.push_back(a);                       // duplicate vertex
        else if (what == 2) { q.push_back(b); q.push_back(0.5 * (a + b)); }  // back-track along the edge
      }
      s.polys.push_back(q);
      if (g.chance(0.5)) s.polys.push_back(starRing(g, g.range(3, 6), 0.1, 0.6, vec2(g.uni(-0.5, 0.5), g.uni(-0.5, 0.5))));
      break;
    }
  }
  // global placement
  if (fam != 4 && fam != 5) {
    double sc = 1;
    int m = g.range(0, 5);
    if (m == 1) sc = std::pow(10.0, g.uni(-4, 4));
    else if (m == 2) sc = std::ldexp(1.0, g.range(-20, 20));
    const double ang = keepAxes ? (g.chance(0.3) ? 1.5707963267948966 * g.range(1, 3) : 0.0) : (g.chance(0.5) ? g.uni(0, 6.28) : 0.0);
    vec2 t(0, 0);
    if (g.chance(0.35)) {
      const double mag = sc * std::pow(10.0, g.uni(-1, 3));
      t = vec2(g.uni(-1, 1) * mag, g.uni(-1, 1) * mag);
      if (keepAxes && g.chance(0.5)) t = vec2(std::round(t.x), std::round(t.y));
    }
    if (sc != 1 || ang != 0 || t.x != 0 || t.y != 0) affine(s.polys, sc, ang, t);
  } else if (g.chance(0.3)) {
    // translate the eps-structured families: eps grows with the offset, the
    // structure becomes sub-eps (documented: InferEps is position-inclusive)
    const double mag = std::pow(10.0, g.uni(0, 3));
    affine(s.polys, 1, 0, vec2(g.uni(-1, 1) * mag, g.uni(-1, 1) * mag));
  }
  return s;
}

// ----------------------------------------------------------------- soup stage
void caseSoup(vh::Ctx& c) {
  Soup s = makeSoup(c.rng);
  const bool evenOdd = c.rng.chance(0.4);
  const bool single = s.polys.size() == 1 && c.rng.chance(0.5);
  Check k;
  k.kind = evenOdd ? "ctor:evenodd" : "ctor:positive";
  k.inputs = {s.polys};
  k.log = s.family + (single ? " (SimplePolygon overload)" : "");
  const Polygons in = s.polys;
  k.expected = [in, evenOdd](vec2 p) {
    const int w = g2::winding(in, p);
    return evenOdd ? (w % 2 != 0) : (w > 0);
  };
  CrossSection cs = evenOdd ? (single ? CrossSection::EvenOdd(s.polys[0]) : CrossSection::EvenOdd(s.polys))
                            : (single ? CrossSection(s.polys[0]) : CrossSection(s.polys));
  Outcome o = observe(c, k, cs);
  c.count(std::string("family_") + s.family);
  if (!o.ok) return;
  // a regularised value read again by either rule must denote the same set
  if (!o.polys.empty() && c.rng.chance(0.5)) {
    Check k2;
    const bool eo2 = c.rng.chance(0.5);
    k2.kind = eo2 ? "rector:evenodd" : "rector:positive";
    k2.inputs = {o.polys};
    k2.log = "re-construction from ToPolygons() of a " + k.kind + " value; " + s.family;
    const Polygons in2 = o.polys;
    k2.expected = [in2](vec2 p) { return g2::winding(in2, p) > 0; };
    CrossSection again = eo2 ? CrossSection::EvenOdd(o.polys) : CrossSection(o.polys);
    observe(c, k2, again);
  }
  if (c.idx % 499 == 0)
    c.sample(vh::J().i("idx", c.idx).s("family", s.family).s("op", k.kind).raw("input", g2::polyJson(s.polys, 40)).i("result_contours", (long long)o.polys.size())
                 .i("decided_in", o.in).i("decided_out", o.out).i("skipped_in_band", o.skipped).d("band", o.band).str());
}

// ----------------------------------------------------------------- program stage
struct Val {
  CrossSection cs;
  Polygons polys;
  std::string how;
};
struct Prog {
  std::vector<Val> pool;
  std::string log;
  void note(const std::string& s) {
    log += "v" + std::to_string(pool.size()) + " = " + s + "; ";
    if (getenv("VERIF_TRACE")) fprintf(stderr, "v%zu = %s\n", pool.size(), s.c_str());
  }
};

std::function<void(vec2&)> makeWarp(vh::Rng& g, double scale, std::string& name) {
  const int kind = g.range(0, 4);
  const double s = scale > 0 ? scale : 1;
  const double a = g.uni(0.01, 0.6) * s, f = g.uni(1, 8) / s, x0 = g.uni(-0.5, 0.5) * s;
  const double h = s * std::ldexp(1.0, -g.range(1, 4));
  switch (kind) {
    case 0:
      name = "warp:sine";
      return [a, f](vec2& p) {
        const double x = p.x, y = p.y;
        p = vec2(x + a * std::sin(f * y), y + a * std::sin(f * x));
      };
    case 1:
      name = "warp:fold";
      return [x0](vec2& p) { p.x = std::fabs(p.x - x0) + x0; };
    case 2:
      name = "warp:snap";
      return [h](vec2& p) { p = vec2(std::round(p.x / h) * h, std::round(p.y / h) * h); };
    case 3:
      name = "warp:flatten";
      return [x0](vec2& p) { p.y = x0; };
    default:
      name = "warp:swirl";
      return [a, s](vec2& p) {
        const double r = std::hypot(p.x, p.y) / s, th = 3.0 * a / s * r;
        const double x = p.x, y = p.y;
        p = vec2(std::cos(th) * x - std::sin(th) * y, std::sin(th) * x + std::cos(th) * y);
      };
  }
}

// returns false if a violation was reported
bool addChecked(vh::Ctx& c, Prog& pr, Check& k, CrossSection cs, const std::string& how) {
  pr.note(how);
  k.log = pr.log;
  Outcome o = observe(c, k, cs);
  if (!o.ok) return false;
  pr.pool.push_back({std::move(cs), std::move(o.polys), how});
  return true;
}

void caseProgram(vh::Ctx& c) {
  vh::Rng& g = c.rng;
  Prog pr;
  const int steps = (int)c.iparam("steps", 8);
  // leaves: all at a common scale so that operands interact
  const double sc = g.chance(0.7) ? 1.0 : std::pow(10.0, g.uni(-3, 3));
  const int nLeaves = g.range(2, 3);
  for (int i = 0; i < nLeaves; i++) {
    int kind = g.range(0, 5);
    Check k;
    if (kind <= 2) {
      Soup s = makeSoup(g, g.pick(std::vector<int>{0, 1, 1, 2, 6, 6, 8}));
      // re-normalise to the common scale: these families live in [-1,1]^2 before placement
      const double m = g2::maxAbs(s.polys);
      if (m > 0) affine(s.polys, sc / m, 0, vec2(0, 0));
      const bool eo = g.chance(0.3);
      k.kind = eo ? "ctor:evenodd" : "ctor:positive";
      k.inputs = {s.polys};
      const Polygons in = s.polys;
      k.expected = [in, eo](vec2 p) {
        const int w = g2::winding(in, p);
        return eo ? (w % 2 != 0) : (w > 0);
      };
      if (!addChecked(c, pr, k, eo ? CrossSection::EvenOdd(s.polys) : CrossSection(s.polys), k.kind + "(" + s.family + " " + g2::polyJson(s.polys, 60) + ")")) return;
    } else if (kind == 3) {
      const vec2 d(sc * g.uni(0.3, 1.5), sc * g.uni(0.3, 1.5));
      const bool ctr = g.chance(0.5);
      k.kind = "square";
      const Polygons in = {ctr ? rectRing(-d.x / 2, -d.y / 2, d.x / 2, d.y / 2) : rectRing(0, 0, d.x, d.y)};
      k.inputs = {in};
      k.expected = [in](vec2 p) { return g2::winding(in, p) > 0; };
      if (!addChecked(c, pr, k, CrossSection::Square(d, ctr), "Square(" + g2::ptJson(d) + "," + (ctr ? "true" : "false") + ")")) return;
    } else if (kind == 4) {
      const double r = sc * g.uni(0.2, 1.0);
      const int n = g.range(3, 40);
      k.kind = "circle";  // regularity only (its shape is C17's business)
      if (!addChecked(c, pr, k, CrossSection::Circle(r, n), "Circle(" + std::to_string(r) + "," + std::to_string(n) + ")")) return;
    } else {
      const double x0 = sc * g.uni(-1, 0), y0 = sc * g.uni(-1, 0), x1 = sc * g.uni(0.1, 1), y1 = sc * g.uni(0.1, 1);
      k.kind = "rect";
      const Polygons in = {rectRing(x0, y0, x1, y1)};
      k.inputs = {in};
      k.expected = [in](vec2 p) { return g2::winding(in, p) > 0; };
      if (!addChecked(c, pr, k, CrossSection(Rect(vec2(x0, y0), vec2(x1, y1))), "Rect(" + g2::ptJson(vec2(x0, y0)) + "," + g2::ptJson(vec2(x1, y1)) + ")")) return;
    }
  }
  const int n = g.range(std::max(2, steps / 2), steps);
  for (int st = 0; st < n; st++) {
    c.count("program_steps");
    const size_t np = pr.pool.size();
    auto pick = [&]() { return (int)(g.chance(0.5) ? np - 1 - g.below(std::min<size_t>(np, 3)) : g.below(np)); };
    const double u = g.uni();
    Check k;
    if (u < 0.45) {
      const int ia = pick();
      int ib = pick();
      const OpType op = (OpType)g.range(0, 2);
      const int regime = g.range(0, 9);
      CrossSection B = pr.pool[ib].cs;
      Polygons Bp = pr.pool[ib].polys;
      std::string bname = "v" + std::to_string(ib);
      if (regime == 0) {  // the same value twice
        ib = ia;
        B = pr.pool[ia].cs;
        Bp = pr.pool[ia].polys;
        bname = "v" + std::to_string(ia);
      } else if (regime == 1 && !pr.pool[ia].polys.empty()) {
        // coincident: A shifted by one of its own edge vectors (materialised, observed first)
        const auto& P = pr.pool[ia].polys;
        const auto& r = P[g.below(P.size())];
        const size_t e = g.below(r.size());
        const vec2 d = r[(e + 1) % r.size()] - r[e];
        Check kt;
        kt.kind = "xform:translate";
        CrossSection T = pr.pool[ia].cs.Translate(d);
        if (!addChecked(c, pr, kt, T, "v" + std::to_string(ia) + ".Translate(" + g2::ptJson(d) + ")")) return;
        ib = (int)pr.pool.size() - 1;
        B = pr.pool[ib].cs;
        Bp = pr.pool[ib].polys;
        bname = "v" + std::to_string(ib);
      } else if (regime == 2 && !pr.pool[ia].polys.empty()) {
        // near-coincident: A shifted by k*eps
        static const double ks[] = {0.2, 0.9, 1.5, 5, 50, 1e4};
        const double m = ks[g.below(6)] * g2::epsFromScale(g2::maxAbs(pr.pool[ia].polys));
        const double a = g.uni(0, 6.28);
        const vec2 d(m * std::cos(a), m * std::sin(a));
        Check kt;
        kt.kind = "xform:translate";
        CrossSection T = pr.pool[ia].cs.Translate(d);
        if (!addChecked(c, pr, kt, T, "v" + std::to_string(ia) + ".Translate(" + g2::ptJson(d) + ")")) return;
        ib = (int)pr.pool.size() - 1;
        B = pr.pool[ib].cs;
        Bp = pr.pool[ib].polys;
        bname = "v" + std::to_string(ib);
      }
      const Polygons Ap = pr.pool[ia].polys;
      k.kind = std::string("bool:") + opName(op);
      k.inputs = {Ap, Bp};
      k.expected = [Ap, Bp, op](vec2 p) {
        const bool a = g2::winding(Ap, p) > 0, b = g2::winding(Bp, p) > 0;
        return op == OpType::Add ? (a || b) : op == OpType::Subtract ? (a && !b) : (a && b);
      };
      const int form = g.range(0, 3);
      CrossSection R;
      std::string how;
      const std::string an = "v" + std::to_string(ia);
      if (form == 0) {
        R = pr.pool[ia].cs.Boolean(B, op);
        how = an + ".Boolean(" + bname + "," + opName(op) + ")";
      } else if (form == 1) {
        R = op == OpType::Add ? pr.pool[ia].cs + B : op == OpType::Subtract ? pr.pool[ia].cs - B : pr.pool[ia].cs ^ B;
        how = an + " op" + opName(op) + " " + bname;
      } else if (form == 2) {
        R = pr.pool[ia].cs;
        if (op == OpType::Add) R += B;
        else if (op == OpType::Subtract) R -= B;
        else R ^= B;
        how = "copy(" + an + ") op" + opName(op) + "= " + bname;
      } else {
        R = CrossSection::BatchBoolean({pr.pool[ia].cs, B}, op);
        how = "BatchBoolean({" + an + "," + bname + "}," + opName(op) + ")";
      }
      if (!addChecked(c, pr, k, R, how)) return;
    } else if (u < 0.6) {
      const int cnt = g.range(0, 5);
      std::vector<CrossSection> v;
      std::vector<Polygons> ps;
      std::string names;
      for (int i = 0; i < cnt; i++) {
        const int ix = pick();
        v.push_back(pr.pool[ix].cs);
        ps.push_back(pr.pool[ix].polys);
        names += (i ? ",v" : "v") + std::to_string(ix);
      }
      const OpType op = (OpType)g.range(0, 2);
      k.kind = std::string("batch:") + opName(op);
      k.inputs = ps;
      k.passThrough = cnt == 1;
      k.expected = [ps, op](vec2 p) {
        if (ps.empty()) return false;
        bool r = g2::winding(ps[0], p) > 0;
        for (size_t i = 1; i < ps.size(); i++) {
          const bool b = g2::winding(ps[i], p) > 0;
          r = op == OpType::Add ? (r || b) : op == OpType::Subtract ? (r && !b) : (r && b);
        }
        return r;
      };
      if (!addChecked(c, pr, k, CrossSection::BatchBoolean(v, op), "BatchBoolean({" + names + "}," + opName(op) + ")")) return;
    } else if (u < 0.88) {
      // transforms: only the regularity clause is C11's (accuracy is C17's)
      const int ia = pick();
      CrossSection R = pr.pool[ia].cs;
      std::string how = "v" + std::to_string(ia);
      const int chain = g.range(1, 3);
      for (int q = 0; q < chain; q++) {
        const int t = g.range(0, 5);
        if (t == 0) {
          vec2 d(sc * g.uni(-1, 1), sc * g.uni(-1, 1));
          if (g.chance(0.15)) d = d * 1e6;
          R = R.Translate(d);
          how += ".Translate(" + g2::ptJson(d) + ")";
        } else if (t == 1) {
          const double a = g.chance(0.4) ? 90.0 * g.range(-3, 4) : g.uni(-360, 360);
          R = R.Rotate(a);
          how += ".Rotate(" + std::to_string(a) + ")";
        } else if (t == 2) {
          vec2 s2(g.uni(0.2, 3), g.uni(0.2, 3));
          if (g.chance(0.2)) s2.x = -s2.x;
          if (g.chance(0.1)) s2.y = 0;
          if (g.chance(0.1)) s2 = s2 * 1e-6;
          R = R.Scale(s2);
          how += ".Scale(" + g2::ptJson(s2) + ")";
        } else if (t == 3) {
          const vec2 ax(g.uni(-1, 1), g.uni(-1, 1));
          R = R.Mirror(ax);
          how += ".Mirror(" + g2::ptJson(ax) + ")";
        } else {
          mat2x3 m(vec2(g.uni(-2, 2), g.uni(-2, 2)), vec2(g.uni(-2, 2), g.uni(-2, 2)), vec2(sc * g.uni(-1, 1), sc * g.uni(-1, 1)));
          R = R.Transform(m);
          how += ".Transform(shear)";
        }
      }
      k.kind = "xform";
      if (!addChecked(c, pr, k, R, how)) return;
    } else {
      const int ia = pick();
      std::string name;
      auto f = makeWarp(g, g2::maxAbs(pr.pool[ia].polys), name);
      Polygons w = pr.pool[ia].polys;
      for (auto& r : w)
        for (auto& v : r) f(v);
      if (!g2::allFinite(w)) continue;
      k.kind = name;
      k.inputs = {w};
      k.expected = [w](vec2 p) { return g2::winding(w, p) > 0; };
      CrossSection R = g.chance(0.5) ? pr.pool[ia].cs.Warp(f)
                                     : pr.pool[ia].cs.WarpBatch([&f](VecView<vec2> v) {
                                         for (vec2& p : v) f(p);
                                       });
      if (!addChecked(c, pr, k, R, "v" + std::to_string(ia) + "." + name)) return;
    }
  }
  if (c.idx % 211 == 0) c.sample(vh::J().i("idx", c.idx).s("program", pr.log.substr(0, 1500)).str());
}

// ----------------------------------------------------------------- lattice
struct IRect {
  int x0, y0, x1, y1, sign;
};
struct Pix {
  int N;
  std::vector<int> w;
  explicit Pix(int n) : N(n), w((size_t)n * n, 0) {}
  int& at(int i, int j) { return w[(size_t)j * N + i]; }
  int at(int i, int j) const { return w[(size_t)j * N + i]; }
  void add(const IRect& r) {
    for (int j = r.y0; j < r.y1; j++)
      for (int i = r.x0; i < r.x1; i++) at(i, j) += r.sign;
  }
};
typedef std::vector<char> Mask;
Mask maskOf(const Pix& p, bool evenOdd) {
  Mask m(p.w.size());
  for (size_t i = 0; i < p.w.size(); i++) m[i] = evenOdd ? (p.w[i] % 2 != 0) : (p.w[i] > 0);
  return m;
}
Mask combine(const Mask& a, const Mask& b, OpType op) {
  Mask m(a.size());
  for (size_t i = 0; i < a.size(); i++) m[i] = op == OpType::Add ? (a[i] || b[i]) : op == OpType::Subtract ? (a[i] && !b[i]) : (a[i] && b[i]);
  return m;
}

std::string rectsStr(const std::vector<IRect>& v) {
  std::string s = "[";
  for (size_t i = 0; i < v.size(); i++) {
    char t[96];
    snprintf(t, sizeof t, "%s[%d,%d,%d,%d,%d]", i ? "," : "", v[i].x0, v[i].y0, v[i].x1, v[i].y1, v[i].sign);
    s += t;
  }
  return s + "]";
}

// Exact comparison of a result with the pixel set `m` on [0,N]^2 shifted by
// (ox,oy): the directed unit boundary edges must coincide one for one, and
// Area() must equal the pixel count.
bool latticeCompare(vh::Ctx& c, const CrossSection& cs, const Mask& m, int N, double ox, double oy, const std::string& key,
                    const std::string& how, Polygons* keep = nullptr) {
  c.site(key);
  const Polygons P = cs.ToPolygons();
  if (keep) *keep = P;
  const double area = cs.Area();
  long pixels = 0;
  for (char b : m) pixels += b ? 1 : 0;
  auto fail = [&](const std::string& why, const std::string& info) {
    c.violation("lattice:" + why + ":" + key, vh::J().s("why", why).s("info", info).s("how", how).i("N", N).d("ox", ox).d("oy", oy)
                                                  .i("pixel_count", pixels).d("Area", area).raw("result", g2::polyJson(P, 300)).str());
    return false;
  };
  // expected directed unit edges (interior on the left), as a signed count per undirected edge slot
  // slot h(i,j): horizontal edge (i,j)->(i+1,j), +1 if traversed left-to-right; v(i,j): vertical (i,j)->(i,j+1), +1 upward
  const int W = N + 1;
  std::vector<int> H((size_t)W * W, 0), V((size_t)W * W, 0);
  auto in = [&](int i, int j) { return i >= 0 && j >= 0 && i < N && j < N && m[(size_t)j * N + i]; };
  for (int j = 0; j <= N; j++)
    for (int i = 0; i < N; i++) {
      const bool up = in(i, j), dn = in(i, j - 1);
      if (up && !dn) H[(size_t)j * W + i] = 1;    // interior above: left-to-right
      if (!up && dn) H[(size_t)j * W + i] = -1;
    }
  for (int j = 0; j < N; j++)
    for (int i = 0; i <= N; i++) {
      const bool rt = in(i, j), lf = in(i - 1, j);
      if (lf && !rt) V[(size_t)j * W + i] = 1;    // interior on the left of an upward edge
      if (!lf && rt) V[(size_t)j * W + i] = -1;
    }
  std::vector<int> Hg((size_t)W * W, 0), Vg((size_t)W * W, 0);
  std::vector<char> Hboth((size_t)W * W, 0), Vboth((size_t)W * W, 0);
  long units = 0;
  for (const auto& ring : P) {
    const size_t n = ring.size();
    if (n < 3) return fail("ring-with-fewer-than-3-vertices", "");
    {
      std::vector<std::pair<double, double>> v;
      for (const vec2& q : ring) v.push_back({q.x, q.y});
      std::sort(v.begin(), v.end());
      if (std::adjacent_find(v.begin(), v.end()) != v.end()) return fail("repeated-vertex-in-contour", "");
    }
    for (size_t q = 0; q < n; q++) {
      const vec2 a = ring[q] - vec2(ox, oy), b = ring[(q + 1) % n] - vec2(ox, oy);
      if (a.x != std::floor(a.x) || a.y != std::floor(a.y) || a.x < 0 || a.y < 0 || a.x > N || a.y > N)
        return fail("vertex-not-on-lattice", g2::ptJson(ring[q]));
      if (a.x == b.x && a.y == b.y) return fail("zero-length-edge", g2::ptJson(ring[q]));
      if (a.x != b.x && a.y != b.y) return fail("edge-not-axis-aligned", g2::segJson({ring[q], ring[(q + 1) % n]}));
      if (b.x != std::floor(b.x) || b.y != std::floor(b.y) || b.x < 0 || b.y < 0 || b.x > N || b.y > N)
        return fail("vertex-not-on-lattice", g2::ptJson(ring[(q + 1) % n]));
      if (a.y == b.y) {
        const int j = (int)a.y, i0 = (int)std::min(a.x, b.x), i1 = (int)std::max(a.x, b.x), sg = b.x > a.x ? 1 : -1;
        for (int i = i0; i < i1; i++) {
          int& slot = Hg[(size_t)j * W + i];
          if (slot != 0) Hboth[(size_t)j * W + i] = 1;
          slot += sg;
          units++;
        }
      } else {
        const int i = (int)a.x, j0 = (int)std::min(a.y, b.y), j1 = (int)std::max(a.y, b.y), sg = b.y > a.y ? 1 : -1;
        for (int j = j0; j < j1; j++) {
          int& slot = Vg[(size_t)j * W + i];
          if (slot != 0) Vboth[(size_t)j * W + i] = 1;
          slot += sg;
          units++;
        }
      }
    }
  }
  for (size_t s = 0; s < H.size(); s++) {
    if (Hboth[s] || Vboth[s]) return fail("boundary-unit-edge-used-twice", "slot " + std::to_string(s));
    if (H[s] != Hg[s] || V[s] != Vg[s]) {
      char t[160];
      snprintf(t, sizeof t, "slot (i=%zu,j=%zu): expected h=%d v=%d got h=%d v=%d", s % W, s / W, H[s], V[s], Hg[s], Vg[s]);
      return fail("region-differs-from-pixel-set", t);
    }
  }
  if (area != (double)pixels) return fail("area-not-pixel-count", "");
  c.count("lattice_results_compared_exactly");
  c.count("lattice_unit_edges_matched", units);
  return true;
}

// canonical form of a polygon set: each ring rotated to its lexicographically
// smallest vertex, rings sorted
Polygons canonical(Polygons P) {
  for (auto& r : P) {
    size_t best = 0;
    for (size_t i = 1; i < r.size(); i++)
      if (r[i].x < r[best].x || (r[i].x == r[best].x && r[i].y < r[best].y)) best = i;
    std::rotate(r.begin(), r.begin() + best, r.end());
  }
  std::sort(P.begin(), P.end(), [](const SimplePolygon& a, const SimplePolygon& b) {
    const size_t n = std::min(a.size(), b.size());
    for (size_t i = 0; i < n; i++) {
      if (a[i].x != b[i].x) return a[i].x < b[i].x;
      if (a[i].y != b[i].y) return a[i].y < b[i].y;
    }
    return a.size() < b.size();
  });
  return P;
}
bool samePolys(const Polygons& a, const Polygons& b) {
  if (a.size() != b.size()) return false;
  for (size_t i = 0; i < a.size(); i++) {
    if (a[i].size() != b[i].size()) return false;
    for (size_t j = 0; j < a[i].size(); j++)
      if (a[i][j].x != b[i][j].x || a[i][j].y != b[i][j].y) return false;
  }
  return true;
}

Polygons rectsToPolys(const std::vector<IRect>& v, double ox, double oy) {
  Polygons P;
  for (auto& r : v) P.push_back(rectRing(ox + r.x0, oy + r.y0, ox + r.x1, oy + r.y1, r.sign < 0));
  return P;
}

// all three ops on (A,B) with both operand orders and BatchBoolean
bool latticeOps(vh::Ctx& c, const CrossSection& A, const Mask& ma, const CrossSection& B, const Mask& mb, int N, double ox, double oy,
                const std::string& how) {
  for (OpType op : {OpType::Add, OpType::Subtract, OpType::Intersect}) {
    const Mask want = combine(ma, mb, op);
    Polygons pab, pba;
    const std::string key = std::string("bool:") + opName(op);
    if (!latticeCompare(c, A.Boolean(B, op), want, N, ox, oy, key, how + " A" + opName(op) + "B", &pab)) return false;
    if (!latticeCompare(c, CrossSection::BatchBoolean({A, B}, op), want, N, ox, oy, std::string("batch:") + opName(op), how + " Batch{A,B}")) return false;
    if (op == OpType::Subtract) {
      if (!latticeCompare(c, B.Boolean(A, op), combine(mb, ma, op), N, ox, oy, key, how + " B-A")) return false;
      continue;
    }
    const CrossSection ba = B.Boolean(A, op);
    if (!latticeCompare(c, ba, want, N, ox, oy, key + ":swapped", how + " B" + opName(op) + "A", &pba)) return false;
    c.count("operand_order_pairs_compared");
    const double a1 = A.Boolean(B, op).Area(), a2 = ba.Area();
    if (a1 != a2) {
      c.violation(std::string("lattice:operand-order-changes-area:") + opName(op), vh::J().s("how", how).d("AopB", a1).d("BopA", a2).str());
      return false;
    }
    if (samePolys(canonical(pab), canonical(pba))) c.count("operand_order_same_contours_bitwise");
    else c.count("operand_order_same_region_other_vertex_set");
  }
  return true;
}

CrossSection buildLattice(vh::Rng& g, const std::vector<IRect>& rects, double ox, double oy, int mode, std::string& how) {
  switch (mode) {
    case 0:
      how = "CrossSection(contours)";
      return CrossSection(rectsToPolys(rects, ox, oy));
    case 1:
      how = "EvenOdd(contours)";
      return CrossSection::EvenOdd(rectsToPolys(rects, ox, oy));
    case 2: {
      how = "BatchBoolean(Add) of Rect";
      std::vector<CrossSection> v;
      for (auto& r : rects) v.push_back(CrossSection(Rect(vec2(ox + r.x0, oy + r.y0), vec2(ox + r.x1, oy + r.y1))));
      return CrossSection::BatchBoolean(v, OpType::Add);
    }
    case 3: {
      how = "fold += of Square.Translate";
      CrossSection acc;
      for (auto& r : rects) acc += CrossSection::Square(vec2(r.x1 - r.x0, r.y1 - r.y0)).Translate(vec2(ox + r.x0, oy + r.y0));
      return acc;
    }
    default: {
      how = "fold + in random order";
      std::vector<size_t> ord(rects.size());
      for (size_t i = 0; i < ord.size(); i++) ord[i] = i;
      for (size_t i = ord.size(); i > 1; i--) std::swap(ord[i - 1], ord[g.below(i)]);
      CrossSection acc;
      for (size_t i : ord) {
        auto& r = rects[i];
        acc = CrossSection(Rect(vec2(ox + r.x0, oy + r.y0), vec2(ox + r.x1, oy + r.y1))) + acc;
      }
      return acc;
    }
  }
}

std::vector<IRect> randomRects(vh::Rng& g, int N, int k, bool allowNeg) {
  std::vector<IRect> v;
  for (int i = 0; i < k; i++) {
    int x0 = g.range(0, N - 1), x1 = g.range(x0 + 1, N), y0 = g.range(0, N - 1), y1 = g.range(y0 + 1, N);
    v.push_back({x0, y0, x1, y1, (allowNeg && g.chance(0.3)) ? -1 : 1});
  }
  return v;
}

void caseLattice(vh::Ctx& c) {
  vh::Rng& g = c.rng;
  const int N = g.range(2, (int)c.iparam("maxN", 10));
  double ox = 0, oy = 0;
  if (g.chance(0.3)) {
    const int e = g.range(0, 20);
    ox = (double)g.range(-(1 << e), 1 << e);
    oy = (double)g.range(-(1 << e), 1 << e);
  }
  std::vector<IRect> ra, rb;
  Mask ma, mb;
  std::string ha, hb;
  CrossSection A, B;
  for (int side = 0; side < 2; side++) {
    const int mode = g.range(0, 4);
    const bool soup = mode <= 1;
    std::vector<IRect> r = randomRects(g, N, g.range(1, 5), soup);
    Pix px(N);
    for (auto& q : r) px.add(q);
    Mask m = maskOf(px, mode == 1);
    std::string how;
    CrossSection cs = buildLattice(g, r, ox, oy, mode, how);
    how += " " + rectsStr(r);
    if (!latticeCompare(c, cs, m, N, ox, oy, mode == 1 ? "ctor:evenodd" : mode == 0 ? "ctor:positive" : "union-of-rects", how)) return;
    if (side == 0) ra = r, ma = m, ha = how, A = cs;
    else rb = r, mb = m, hb = how, B = cs;
  }
  const std::string how = "A=" + ha + " B=" + hb;
  if (!latticeOps(c, A, ma, B, mb, N, ox, oy, how)) return;
  // n-ary batch with a third operand
  {
    std::vector<IRect> r3 = randomRects(g, N, g.range(1, 3), false);
    Pix px(N);
    for (auto& q : r3) px.add(q);
    const Mask m3 = maskOf(px, false);
    std::string h3;
    CrossSection C3 = buildLattice(g, r3, ox, oy, 2, h3);
    for (OpType op : {OpType::Add, OpType::Subtract, OpType::Intersect}) {
      const Mask want = combine(combine(ma, mb, op), m3, op);
      if (!latticeCompare(c, CrossSection::BatchBoolean({A, B, C3}, op), want, N, ox, oy, std::string("batch3:") + opName(op), how + " C=" + rectsStr(r3))) return;
    }
  }
  long cnt = 0;
  for (char b : combine(ma, mb, OpType::Add)) cnt += b;
  if (cnt > 0) {
    uint64_t h = vh::fnvs(rectsStr(ra) + "|" + rectsStr(rb) + "|" + ha + hb);
    c.sig(h);
    c.count("nontrivial_values");
  }
  if (c.idx % 2999 == 0) c.sample(vh::J().i("idx", c.idx).i("N", N).d("ox", ox).d("oy", oy).s("A", ha).s("B", hb).str());
}

// exhaustive: idx enumerates ordered pairs of integer rectangles on [0,N]^2
void caseLatticePairs(vh::Ctx& c) {
  const int N = (int)c.iparam("N", 4);
  std::vector<IRect> all;
  for (int x0 = 0; x0 < N; x0++)
    for (int x1 = x0 + 1; x1 <= N; x1++)
      for (int y0 = 0; y0 < N; y0++)
        for (int y1 = y0 + 1; y1 <= N; y1++) all.push_back({x0, y0, x1, y1, 1});
  const long R = (long)all.size();
  if (c.idx >= R * R) {
    c.count("latticepairs_idx_beyond_space");
    return;
  }
  const IRect ra = all[c.idx / R], rb = all[c.idx % R];
  Pix pa(N), pb(N);
  pa.add(ra);
  pb.add(rb);
  const Mask ma = maskOf(pa, false), mb = maskOf(pb, false);
  const std::string how = "A=" + rectsStr({ra}) + " B=" + rectsStr({rb});
  const CrossSection A(Rect(vec2(ra.x0, ra.y0), vec2(ra.x1, ra.y1)));
  const CrossSection B(Polygons{rectRing(rb.x0, rb.y0, rb.x1, rb.y1)});
  if (!latticeOps(c, A, ma, B, mb, N, 0, 0, how)) return;
  // the two contours as one soup, every orientation combination, both fill rules
  for (int oa = 0; oa < 2; oa++)
    for (int ob = 0; ob < 2; ob++)
      for (int eo = 0; eo < 2; eo++) {
        IRect a = ra, b = rb;
        a.sign = oa ? -1 : 1;
        b.sign = ob ? -1 : 1;
        Pix px(N);
        px.add(a);
        px.add(b);
        const Polygons soup = rectsToPolys({a, b}, 0, 0);
        const CrossSection cs = eo ? CrossSection::EvenOdd(soup) : CrossSection(soup);
        if (!latticeCompare(c, cs, maskOf(px, eo), N, 0, 0, eo ? "ctor:evenodd" : "ctor:positive", how + " as one soup, signs " + std::to_string(a.sign) + "," + std::to_string(b.sign)))
          return;
      }
  c.count("latticepairs_enumerated");
  c.maxi("latticepairs_space_size", R * R);
  c.sig(vh::fnvs("pair" + std::to_string(N) + ":" + std::to_string(c.idx)));
}

// ----------------------------------------------------------------- large inputs
void caseLarge(vh::Ctx& c) {
  vh::Rng& g = c.rng;
  const long minEdges = c.iparam("minEdges", 1024);
  const int flavour = g.range(0, 3);
  if (flavour == 0) {
    // big lattice: exact pixel oracle on the BVH path
    const int N = minEdges >= 8000 ? 320 : 100;
    const int per = (int)(minEdges / 4) + 8;
    std::vector<IRect> ra, rb;
    for (int i = 0; i < per; i++) {
      for (auto* v : {&ra, &rb}) {
        int x0 = g.range(0, N - 1), y0 = g.range(0, N - 1);
        int x1 = std::min(N, x0 + g.range(1, 4)), y1 = std::min(N, y0 + g.range(1, 4));
        v->push_back({x0, y0, x1, y1, 1});
      }
    }
    Pix pa(N), pb(N);
    for (auto& r : ra) pa.add(r);
    for (auto& r : rb) pb.add(r);
    const Mask ma = maskOf(pa, false), mb = maskOf(pb, false);
    c.heartbeat();
    const CrossSection A(rectsToPolys(ra, 0, 0)), B(rectsToPolys(rb, 0, 0));
    c.maxi("max_large_input_edges", (long long)(ra.size() + rb.size()) * 4);
    Polygons keepA, keepB;
    if (!latticeCompare(c, A, ma, N, 0, 0, "large:ctor:positive", "big lattice A", &keepA)) return;
    if (!latticeCompare(c, B, mb, N, 0, 0, "large:ctor:positive", "big lattice B", &keepB)) return;
    c.maxi("max_large_operand_edges", (long long)(g2::numVerts(keepA) + g2::numVerts(keepB)));
    c.heartbeat();
    // raw soups through BatchBoolean path too: regularised operands, then ops
    for (OpType op : {OpType::Add, OpType::Subtract, OpType::Intersect}) {
      if (!latticeCompare(c, A.Boolean(B, op), combine(ma, mb, op), N, 0, 0, std::string("large:bool:") + opName(op), "big lattice")) return;
      c.heartbeat();
    }
    if (!latticeCompare(c, B + A, combine(ma, mb, OpType::Add), N, 0, 0, "large:bool:add:swapped", "big lattice")) return;
    c.sig(vh::fnvs("largelattice" + std::to_string(c.idx) + ":" + std::to_string(minEdges)));
    c.count("nontrivial_values");
    c.count("large_cases_lattice");
    return;
  }
  // general position: many small polygons on a jittered grid (overlapping neighbours)
  Polygons SA, SB;
  const long nPoly = minEdges / 4 + 16;
  const int side = (int)std::ceil(std::sqrt((double)nPoly));
  const double sc = g.chance(0.5) ? 1.0 : std::pow(10.0, g.uni(-3, 3));
  for (int pass = 0; pass < 2; pass++) {
    Polygons& S = pass ? SB : SA;
    long edges = 0;
    while (edges < minEdges) {
      const vec2 ctr(sc * (g.range(0, side - 1) + g.uni(-0.3, 0.3)), sc * (g.range(0, side - 1) + g.uni(-0.3, 0.3)));
      SimplePolygon r = flavour == 1 ? starRing(g, g.range(3, 7), 0.2 * sc, 0.9 * sc, ctr) : randomRing(g, g.range(3, 5));
      if (flavour != 1) for (auto& v : r) v = ctr + 0.8 * sc * v;
      if (flavour == 3 && g.chance(0.3)) r = reversed(r);
      edges += (long)r.size();
      S.push_back(r);
    }
  }
  c.maxi("max_large_input_edges", (long long)(g2::numVerts(SA) + g2::numVerts(SB)));
  const bool eo = flavour == 3 && g.chance(0.5);
  Check ka;
  ka.kind = eo ? "large:ctor:evenodd" : "large:ctor:positive";
  ka.inputs = {SA};
  ka.log = "jittered grid soup, flavour " + std::to_string(flavour);
  ka.sampleEdges = 60;
  ka.expected = [&SA, eo](vec2 p) {
    const int w = g2::winding(SA, p);
    return eo ? (w % 2 != 0) : (w > 0);
  };
  c.heartbeat();
  CrossSection A = eo ? CrossSection::EvenOdd(SA) : CrossSection(SA);
  Outcome oa = observe(c, ka, A);
  if (!oa.ok) return;
  c.heartbeat();
  Check kb;
  kb.kind = "large:ctor:positive";
  kb.inputs = {SB};
  kb.log = ka.log;
  kb.sampleEdges = 60;
  kb.expected = [&SB](vec2 p) { return g2::winding(SB, p) > 0; };
  CrossSection B(SB);
  Outcome ob = observe(c, kb, B);
  if (!ob.ok) return;
  c.heartbeat();
  const OpType op = (OpType)g.range(0, 2);
  Check kc;
  kc.kind = std::string("large:bool:") + opName(op);
  kc.inputs = {oa.polys, ob.polys};
  kc.log = ka.log;
  kc.sampleEdges = 60;
  const Polygons &Ap = oa.polys, &Bp = ob.polys;
  kc.expected = [&Ap, &Bp, op](vec2 p) {
    const bool a = g2::winding(Ap, p) > 0, b = g2::winding(Bp, p) > 0;
    return op == OpType::Add ? (a || b) : op == OpType::Subtract ? (a && !b) : (a && b);
  };
  c.maxi("max_large_operand_edges", (long long)(g2::numVerts(Ap) + g2::numVerts(Bp)));
  Outcome oc = observe(c, kc, g.chance(0.5) ? A.Boolean(B, op) : CrossSection::BatchBoolean({A, B}, op));
  if (!oc.ok) return;
  c.count("large_cases_general");
}

}  // namespace

void vh_case(vh::Ctx& c) {
  const std::string mode = c.param("mode", "soup");
  if (mode == "soup") caseSoup(c);
  else if (mode == "program") caseProgram(c);
  else if (mode == "lattice") caseLattice(c);
  else if (mode == "latticepairs") caseLatticePairs(c);
  else if (mode == "large") caseLarge(c);
  else c.inconclusive("unknown mode " + mode);
}
