// C09 — malformed input gives an error Status, never undefined behaviour.
// (DESIGN.md §4 C09.)  Structure-aware mutation of VALID exports, polygon
// sets, point sets, OBJ text and numeric arguments; the sanitizers, the
// driver's watchdog and the catch-all below decide "no UB / no throw / no
// hang"; two semantic oracles decide
//   (a) a rejected value (Status != NoError) is empty and its Status survives
//       every consuming operation (stickiness), and
//   (b) an accepted value (Status == NoError) is usable: its export passes
//       vo::CheckClosedManifold (key prefix `accepted-but-broken:`).
//
// Site labels (crash attribution, part of the key):
//   mesh:<field>/<kind>/<variant> (merge:... for MeshGL::Merge)   poly:<kind>/<entry>
//   pts:<kind>/<entry>   obj:<kind>/<entry>  arg:<Op>.<arg>=<class>
//   sticky:<op>   consume:<kind>/<op>
// The variable part is always LAST so that a known finding may prefix-match.
#include <cfloat>
#include <climits>
#include <cxxabi.h>
#include <functional>
#include <sstream>
#include <typeinfo>
#include <sys/wait.h>

#include "common/oracles.h"
#include "common/vh.h"
#include "manifold/cross_section.h"
#include "manifold/manifold.h"
#include "manifold/polygon.h"

using namespace manifold;
using Err = Manifold::Error;

namespace {

const double kNaN = std::numeric_limits<double>::quiet_NaN();
const double kInf = std::numeric_limits<double>::infinity();
bool g_trace = false;

std::set<std::string> g_hot;  // labels (prefixes before '/') known to crash on the pinned tree
bool isHot(const std::string& label) {
  if (g_hot.empty()) return false;
  for (auto& h : g_hot)  // "*<suffix>" entries match the end of the label (entry variants)
    if (h.size() > 1 && h[0] == '*' && label.size() >= h.size() - 1 && label.compare(label.size() - (h.size() - 1), h.size() - 1, h, 1, h.size() - 1) == 0) return true;
  for (size_t p = label.find('/'); ; p = label.find('/', p + 1)) {
    if (g_hot.count(label.substr(0, p))) return true;
    if (p == std::string::npos) break;
  }
  return false;
}

std::string demangle(const char* n) {
  int st = 0;
  char* d = abi::__cxa_demangle(n, nullptr, nullptr, &st);
  std::string s = (st == 0 && d) ? d : n;
  free(d);
  return s;
}

// Run one library call; an escaping exception is a violation of C09 ("never
// throws in a release build"), reported and the case continues.
template <class F>
bool guarded(vh::Ctx& c, const std::string& site, const std::string& detail, F&& f) {
  c.site(site);
  if (g_trace) fprintf(stderr, "TRACE %s\n", site.c_str());
  try {
    f();
    return true;
  } catch (const std::exception& e) {
    c.violation("throw:" + demangle(typeid(e).name()) + "@" + site,
                vh::J().s("what", e.what()).s("site", site).raw("input", detail.empty() ? "{}" : detail).str());
  } catch (...) {
    c.violation("throw:unknown@" + site, vh::J().s("site", site).raw("input", detail.empty() ? "{}" : detail).str());
  }
  return false;
}

Manifold& partner() {
  static Manifold p = Manifold::Cube(vec3(1.0, 1.2, 0.9), true).Translate({0.1, 0.05, 0.02});
  return p;
}

// ------------------------------------------------------------- op table
// Every Manifold-returning method that CONSUMES `a` (with a valid partner on
// the other side where binary). Arguments are ordinary valid values: this
// table serves the stickiness oracle and the "accepted value is consumable"
// monitor, not the argument fuzzer.
const int kNumOps = 44;
const char* const kOpNames[kNumOps] = {"Boolean.lhs.Add", "Boolean.lhs.Subtract", "Boolean.lhs.Intersect", "Boolean.rhs.Add", "Boolean.rhs.Subtract", "Boolean.rhs.Intersect", "BatchBoolean", "HullList", "Hull", "Compose", "Split.lhs", "Split.rhs", "SplitByPlane", "TrimByPlane", "MinkowskiSum.lhs", "MinkowskiSum.rhs", "MinkowskiDifference.lhs", "MinkowskiDifference.rhs", "Decompose", "Translate", "Rotate", "Scale", "Mirror", "Transform", "Warp", "WarpBatch", "SetTolerance", "Simplify", "Refine", "RefineToLength", "RefineToTolerance", "SmoothOut", "SmoothByNormals", "AsOriginal", "CalculateNormals", "CalculateCurvature", "SetProperties", "copy-assign", "WithContext.Refine", "operator+=", "operator-=", "operator^=", "WithContext.Hull", "WithContext.MinkowskiSum"};
// The valid operand on the other side of a binary operation: usually a solid,
// sometimes a valid EMPTY Manifold (default-constructed, or the evaluated empty
// result of an earlier operation) or a still lazy expression. Shortcuts taken
// for empty / unevaluated operands must not swallow the other side's error.
const Manifold& pickPartner(vh::Rng& r) {
  static Manifold emptyDefault;
  static Manifold emptyResult = [] {
    Manifold e = Manifold::Cube(vec3(1.0)) ^ Manifold::Cube(vec3(1.0)).Translate({5, 0, 0});
    (void)e.Status();
    return e;
  }();
  static Manifold lazy = Manifold::Cube(vec3(1.0), true) + Manifold::Sphere(0.7, 8).Translate({0.3, 0, 0});
  double u = r.uni();
  if (u < 0.64) return partner();
  if (u < 0.76) return emptyDefault;
  if (u < 0.88) return emptyResult;
  return lazy;  // NB: shared lazy node; evaluated by the first consumer
}

std::vector<Manifold> applyOpRaw(int k, const Manifold& a, vh::Rng& r, std::string& name) {
  const Manifold& p = pickPartner(r);
  static const char* on[] = {"Add", "Subtract", "Intersect"};
  (void)on;
  switch (k) {
    case 0: case 1: case 2: name = std::string("Boolean.lhs.") + on[k]; return {a.Boolean(p, (OpType)k)};
    case 3: case 4: case 5: name = std::string("Boolean.rhs.") + on[k - 3]; return {p.Boolean(a, (OpType)(k - 3))};
    case 6: {
      int op = r.range(0, 2), pos = r.range(0, 2);
      name = std::string("BatchBoolean.") + on[op];
      std::vector<Manifold> v = {p, p.Translate({0.3, 0, 0}), p.Translate({0, 0.3, 0})};
      v[pos] = a;
      return {Manifold::BatchBoolean(v, (OpType)op)};
    }
    case 7: name = "HullList"; return {r.chance(0.5) ? Manifold::Hull({a, p}) : Manifold::Hull({p, a})};
    case 8: name = "Hull"; return {a.Hull()};
    case 9: name = "Compose"; return {r.chance(0.5) ? Manifold::Compose({a, p.Translate({5, 0, 0})}) : Manifold::Compose({p.Translate({5, 0, 0}), a})};
    case 10: { name = "Split.lhs"; auto pr = a.Split(p); return {pr.first, pr.second}; }
    case 11: { name = "Split.rhs"; auto pr = p.Split(a); return {pr.first, pr.second}; }
    case 12: { name = "SplitByPlane"; auto pr = a.SplitByPlane({0.3, 0.4, 1}, 0.1); return {pr.first, pr.second}; }
    case 13: name = "TrimByPlane"; return {a.TrimByPlane({0.3, 0.4, 1}, 0.1)};
    case 14: name = "MinkowskiSum.lhs"; return {a.MinkowskiSum(p.Scale(vec3(0.2)))};
    case 15: name = "MinkowskiSum.rhs"; return {p.MinkowskiSum(a)};
    case 16: name = "MinkowskiDifference.lhs"; return {a.MinkowskiDifference(p.Scale(vec3(0.2)))};
    case 17: name = "MinkowskiDifference.rhs"; return {p.MinkowskiDifference(a)};
    case 18: { name = "Decompose"; auto v = a.Decompose(); if (v.size() > 4) v.resize(4); return v; }
    case 19: name = "Translate"; return {a.Translate({0.5, -0.25, 1})};
    case 20: name = "Rotate"; return {a.Rotate(10, 20, r.chance(0.5) ? 90 : 30)};
    case 21: name = "Scale"; return {a.Scale({1.5, 0.5, r.chance(0.3) ? -1.0 : 2.0})};
    case 22: name = "Mirror"; return {a.Mirror({1, 1, 0})};
    case 23: name = "Transform"; return {a.Transform(mat3x4({1, 0.1, 0}, {0, 1, 0.2}, {0.3, 0, 1}, {1, 2, 3}))};
    case 24: name = "Warp"; return {a.Warp([](vec3& v) { v.x += 0.1 * v.y; })};
    case 25: name = "WarpBatch"; return {a.WarpBatch([](VecView<vec3> vs) { for (auto& v : vs) v.z *= 1.1; })};
    case 26: name = "SetTolerance"; return {a.SetTolerance(r.chance(0.5) ? 0.01 : 0.0)};
    case 27: name = "Simplify"; return {a.Simplify(r.chance(0.5) ? 0.01 : 0.0)};
    case 28: name = "Refine"; return {a.Refine(2)};
    case 29: name = "RefineToLength"; return {a.RefineToLength(0.7)};
    case 30: name = "RefineToTolerance"; return {a.RefineToTolerance(0.05)};
    case 31: name = "SmoothOut"; return {a.SmoothOut(50, 0.1)};
    case 32: name = "SmoothByNormals"; return {a.CalculateNormals(0).SmoothByNormals(0)};
    case 33: name = "AsOriginal"; return {a.AsOriginal()};
    case 34: name = "CalculateNormals"; return {a.CalculateNormals(0, 40)};
    case 35: name = "CalculateCurvature"; return {a.CalculateCurvature(0, 1)};
    case 36: name = "SetProperties"; return {a.SetProperties(2, [](double* o, vec3 p, const double*) { o[0] = p.x; o[1] = p.y; })};
    case 37: { name = "copy-assign"; Manifold b(a); Manifold d; d = b; Manifold e(std::move(b)); return {d, e}; }
    case 38: { name = "WithContext.Refine"; ExecutionContext ctx; return {a.WithContext(ctx).Refine(2)}; }
    case 39: { name = "operator+="; Manifold b = p; b += a; Manifold d = a; d += p; return {b, d}; }
    case 40: { name = "operator-="; Manifold b = p; b -= a; Manifold d = a; d -= p; return {b, d}; }
    case 41: { name = "operator^="; Manifold b = p; b ^= a; Manifold d = a; d ^= p; return {b, d}; }
    case 42: { name = "WithContext.Hull"; ExecutionContext ctx; return {a.WithContext(ctx).Hull()}; }
    default: { name = "WithContext.MinkowskiSum"; ExecutionContext ctx; return {a.WithContext(ctx).MinkowskiSum(p.Scale(vec3(0.2))), p.WithContext(ctx).MinkowskiSum(a)}; }
  }
}

std::vector<Manifold> applyOp(int k, const Manifold& a, vh::Rng& r, std::string& name) {
  std::string ignored;
  name = kOpNames[k];
  return applyOpRaw(k, a, r, ignored);
}

struct Obs {
  vh::Ctx& c;
  vh::Rng& r;
  std::string label;   // full site label of the producing call
  std::string detail;  // JSON describing the input
  std::string head() const { return label.substr(0, label.find('/')); }
};

// (a) stickiness: every value derived from an error value is an empty error.
void sticky(Obs& o, const Manifold& e, Err st0) {
  Manifold cur = e;
  int steps = o.r.range(1, 3);
  std::string chain;
  for (int s = 0; s < steps; s++) {
    int k = (int)o.r.below(kNumOps);
    std::string name = kOpNames[k];
    std::vector<Manifold> outs;
    std::string site = "sticky:" + name;
    bool ok = guarded(o.c, site, o.detail, [&] { outs = applyOp(k, cur, o.r, name); });
    if (!ok) return;
    chain += (chain.empty() ? "" : " -> ") + name;
    o.c.count("sticky_ops");
    for (auto& out : outs) {
      Err st = Err::NoError;
      bool empty = true;
      size_t nt = 0;
      if (!guarded(o.c, "sticky:status:" + name, o.detail, [&] { st = out.Status(); empty = out.IsEmpty(); nt = out.NumTri(); })) return;
      o.c.count("sticky_values");
      if (st == Err::NoError) {
        o.c.violation("sticky-lost:" + name,
                      vh::J().s("origin", o.label).s("original_status", vo::ErrName(st0)).s("chain", chain)
                          .s("got", "NoError").u("numTri", nt).raw("input", o.detail.empty() ? "{}" : o.detail).str());
        return;
      }
      if (!empty || nt != 0) {
        o.c.violation("error-not-empty:" + name,
                      vh::J().s("origin", o.label).s("status", vo::ErrName(st)).s("chain", chain).u("numTri", nt).str());
        return;
      }
      if (st == st0) o.c.count("sticky_same_code"); else o.c.count("sticky_other_code");
    }
    if (outs.empty()) {
      o.c.violation("sticky-lost:" + name + ":no-output", vh::J().s("origin", o.label).s("chain", chain).str());
      return;
    }
    cur = outs[o.r.below(outs.size())];
  }
}

// accepted value: a short consuming program, sanitizers only.
void consume(Obs& o, const Manifold& m, size_t numTri) {
  Manifold cur = m;
  int steps = o.r.range(1, 2);
  // RefineToLength(0.7) etc. of a solid whose size is 1e300 is a valid request
  // that is merely unsatisfiable (resource bound), not malformed input.
  bool refinable = false;
  guarded(o.c, o.label, o.detail, [&] { Box b = m.BoundingBox(); double sc = b.Scale(); refinable = std::isfinite(sc) && sc < 1e3 && sc > 1e-3; });
  for (int s = 0; s < steps; s++) {
    int k = (int)o.r.below(kNumOps);
    if (k >= 14 && k <= 17 && numTri > 16) k = 0;        // Minkowski scales with the face product
    if (k == 43 && numTri > 16) k = 1;
    if ((k == 28 || k == 29 || k == 30 || k == 38) && (numTri > 600 || !refinable)) k = 2;
    std::string name;
    std::vector<Manifold> outs;
    if (!guarded(o.c, "consume:" + o.head() + "/" + kOpNames[k], o.detail, [&] {
          outs = applyOp(k, cur, o.r, name);
          for (auto& x : outs) { (void)x.Status(); (void)x.NumTri(); }
        }))
      return;
    o.c.count("consume_ops");
    if (outs.empty()) return;
    cur = outs[o.r.below(outs.size())];
    numTri = cur.NumTri();
    if (numTri > 3000) return;
  }
}

// Decide one result of one (possibly malformed) call.
void observe(Obs& o, const Manifold& m, double pConsume = 0.25) {
  vh::Ctx& c = o.c;
  Err st = Err::NoError;
  bool empty = true;
  size_t nt = 0, nv = 0;
  if (!guarded(c, o.label, o.detail, [&] { st = m.Status(); empty = m.IsEmpty(); nt = m.NumTri(); nv = m.NumVert(); })) return;
  c.count("results_observed");
  if (st != Err::NoError) {
    c.count("rejected");
    c.count(std::string("status_") + vo::ErrName(st));
    if (!empty || nt != 0 || nv != 0) {
      c.violation("error-not-empty:" + o.head(), vh::J().s("site", o.label).s("status", vo::ErrName(st)).u("numTri", nt).u("numVert", nv).raw("input", o.detail.empty() ? "{}" : o.detail).str());
      return;
    }
    c.sig("rej|" + o.label + "|" + vo::ErrName(st));
    sticky(o, m, st);
    return;
  }
  MeshGL64 g;
  if (!guarded(c, o.label, o.detail, [&] { g = m.GetMeshGL64(); })) return;
  vo::TopoReport t = vo::CheckClosedManifold(g);
  if (!t.ok) {
    c.violation("accepted-but-broken:" + t.why + ":" + o.head(),
                vh::J().s("site", o.label).s("why", t.why).s("info", t.info).raw("result", vo::MeshBrief(g)).raw("input", o.detail.empty() ? "{}" : o.detail).str());
    return;
  }
  std::string rt = vo::CheckRunTable(g);
  if (rt == "runIndex-does-not-cover-triVerts" || rt == "runIndex-not-monotone" || rt == "runIndex-length" || rt == "runIndex-not-multiple-of-3") {
    c.violation("accepted-but-broken:" + rt + ":" + o.head(),
                vh::J().s("site", o.label).s("why", rt).raw("result", vo::MeshBrief(g)).raw("input", o.detail.empty() ? "{}" : o.detail).str());
    return;
  }
  if ((nt == 0) != empty || nt != g.triVerts.size() / 3) {
    c.violation("accepted-but-broken:counts-disagree:" + o.head(), vh::J().s("site", o.label).u("NumTri", nt).u("exported", g.triVerts.size() / 3).str());
    return;
  }
  if (nt == 0) c.count("accepted_empty"); else c.count("accepted_nonempty");
  c.maxi("max_accepted_tris", (long long)nt);
  c.sig("acc|" + o.label + (nt ? "|nonempty" : "|empty"));
  if (nt > 0 && nt < 3000 && o.r.chance(pConsume)) consume(o, m, nt);
}

// ------------------------------------------------------------- base meshes
struct Base {
  std::string name;
  MeshGL64 m64;
  MeshGL m32;
};
std::vector<Base> g_bases;

void addBase(vh::Ctx& c, const std::string& name, const Manifold& m) {
  Base b;
  b.name = name;
  b.m64 = m.GetMeshGL64();
  b.m32 = m.GetMeshGL();
  // a base must itself be valid, otherwise mutants of it prove nothing
  Manifold r64(b.m64), r32(b.m32);
  if (m.Status() != Err::NoError || r64.Status() != Err::NoError || r32.Status() != Err::NoError || r64.NumTri() == 0 ||
      !vo::CheckClosedManifold(b.m64).ok)
    c.inconclusive("base mesh '" + name + "' is not a valid round-trippable export");
  g_bases.push_back(std::move(b));
  c.heartbeat();
}

void buildBases(vh::Ctx& c) {
  Manifold cube = Manifold::Cube(vec3(1, 1.5, 2), true);
  addBase(c, "cube", cube);
  addBase(c, "tet", Manifold::Tetrahedron());
  Manifold sph = Manifold::Sphere(0.8, 8).SetProperties(2, [](double* o, vec3 p, const double*) { o[0] = p.x; o[1] = p.y; });
  addBase(c, "union-props", cube.SetProperties(1, [](double* o, vec3 p, const double*) { o[0] = p.z; }) + sph.Translate({0.7, 0.2, 0.1}));
  addBase(c, "diff-smooth", (cube - Manifold::Cylinder(3, 0.3, 0.3, 6, true)).SmoothOut(50, 0.2));
  addBase(c, "cube-normals", cube.CalculateNormals(0, 30));
  addBase(c, "sphere-smoothnormals", Manifold::Sphere(1, 8).CalculateNormals(0).SmoothByNormals(0));
  addBase(c, "compose", Manifold::Compose({cube, Manifold::Tetrahedron().Translate({3, 0, 0})}));
  addBase(c, "three-runs", (cube + Manifold::Sphere(0.7, 8).Translate({0.6, 0, 0})) - Manifold::Cube(vec3(0.5), true).Translate({-0.5, -0.7, -1}));
  // plain import without any optional table
  {
    Base b;
    b.name = "bare";
    b.m64 = Manifold::Sphere(1, 8).GetMeshGL64();
    b.m64.runIndex.clear(); b.m64.runOriginalID.clear(); b.m64.runTransform.clear(); b.m64.runFlags.clear(); b.m64.faceID.clear();
    b.m32 = Manifold::Sphere(1, 8).GetMeshGL();
    b.m32.runIndex.clear(); b.m32.runOriginalID.clear(); b.m32.runTransform.clear(); b.m32.runFlags.clear(); b.m32.faceID.clear();
    if (Manifold(b.m64).Status() != Err::NoError || Manifold(b.m32).Status() != Err::NoError) c.inconclusive("base 'bare' invalid");
    g_bases.push_back(std::move(b));
  }
}

// ------------------------------------------------------------- mesh mutators
template <class T>
T allOnes() { return std::numeric_limits<T>::max(); }

template <class P>
P specialFloat(vh::Rng& r, const char** cls = nullptr) {
  static const char* n[] = {"nan", "inf", "-inf", "max", "-max", "denorm", "negzero", "big", "zero"};
  int k = r.range(0, 8);
  if (cls) *cls = n[k];
  switch (k) {
    case 0: return std::numeric_limits<P>::quiet_NaN();
    case 1: return std::numeric_limits<P>::infinity();
    case 2: return -std::numeric_limits<P>::infinity();
    case 3: return std::numeric_limits<P>::max();
    case 4: return -std::numeric_limits<P>::max();
    case 5: return std::numeric_limits<P>::denorm_min();
    case 6: return (P)-0.0;
    case 7: return (P)1e30;
    default: return (P)0;
  }
}

template <class V>
void flipBits(V& v, vh::Rng& r) {
  if (v.empty()) return;
  unsigned char* p = (unsigned char*)v.data();
  size_t n = v.size() * sizeof(v[0]);
  int k = r.range(1, 6);
  for (int i = 0; i < k; i++) p[r.below(n)] ^= (unsigned char)(1u << r.range(0, 7));
}

const char* const kMeshKinds[] = {
    // lengths
    "vp-len+1", "vp-len-1", "vp-empty", "vp-double", "vp-trunc",
    "tv-len+1", "tv-len-1", "tv-remove-tri", "tv-empty", "tv-double", "tv-trunc",
    "numProp-0", "numProp-1or2", "numProp-dec", "numProp-inc", "numProp-huge", "numProp-wide",
    // indices
    "tv-idx-nv", "tv-idx-max", "tv-idx-big", "tv-idx-alias", "tv-idx-rand-valid", "tv-flip-tri", "tv-dup-tri", "tv-degenerate",
    // merge vectors
    "merge-len-from", "merge-len-to", "merge-oob-from", "merge-oob-to", "merge-max", "merge-cycle", "merge-all-to-one", "merge-rand-valid",
    // run tables
    "ri-beyond", "ri-beyond-huge", "ri-mid-beyond", "ri-unsorted", "ri-non3", "ri-first-nonzero", "ri-zeros", "ri-short-cover",
    "ri-drop-last", "ri-single", "ri-empty-with-ids", "ri-extra", "ids-empty-with-ri", "ids-empty-ri-len", "ids-many-ri-empty",
    "ids-huge", "ids-dup", "ids-unsorted",
    "rt-len+1", "rt-len-12", "rt-empty", "rt-nonfinite", "rt-zero", "rt-huge",
    "rf-len", "rf-rand", "rf-hasnormals-lowprop",
    "fid-len+1", "fid-len-1", "fid-empty", "fid-max", "fid-rand",
    // tangents
    "tan-len+1", "tan-len-4", "tan-half", "tan-double", "tan-per-tri", "tan-nonfinite", "tan-zero", "tan-huge", "tan-add", "tan-add-wrong-len",
    // values
    "pos-nonfinite", "pos-huge", "pos-denormal", "pos-all-equal", "prop-nonfinite", "tol-nan", "tol-inf", "tol-neg", "tol-huge", "tol-denormal",
    // byte level
    "bitflip-vp", "bitflip-tv", "bitflip-merge", "bitflip-ri", "bitflip-ids", "bitflip-rt", "bitflip-rf", "bitflip-fid", "bitflip-tan", "bitflip-numProp",
    // sharpened edges (Smooth entry points only)
    "sharp-oob", "sharp-max", "sharp-nan", "sharp-neg", "sharp-dup",
    // control: unmutated
    "none"};
const int kNumMeshKinds = sizeof(kMeshKinds) / sizeof(kMeshKinds[0]);

// Applies mutation `kind` to m (sharp-* kinds fill `sharp`). Returns false if
// the kind is not applicable to this base (caller re-picks).
template <class M>
bool mutateMesh(M& m, const std::string& kind, vh::Rng& r, std::vector<Smoothness>& sharp) {
  using P = typename std::remove_reference<decltype(m.tolerance)>::type;
  using I = typename std::remove_reference<decltype(m.numProp)>::type;
  const size_t np = m.numProp, nv = np ? m.vertProperties.size() / np : 0, ntv = m.triVerts.size(), nt = ntv / 3;
  const size_t nrun = m.runOriginalID.size();
  auto K = [&](const char* s) { return kind == s; };
  auto ensureRuns = [&]() { return nrun >= 1 && m.runIndex.size() == nrun + 1; };
  if (K("none")) return true;
  // ---- lengths
  if (K("vp-len+1")) { m.vertProperties.push_back((P)0.5); return true; }
  if (K("vp-len-1")) { m.vertProperties.pop_back(); return true; }
  if (K("vp-empty")) { m.vertProperties.clear(); return true; }
  if (K("vp-double")) { auto v = m.vertProperties; m.vertProperties.insert(m.vertProperties.end(), v.begin(), v.end()); return true; }
  if (K("vp-trunc")) { m.vertProperties.resize(r.below(m.vertProperties.size())); return true; }
  if (K("tv-len+1")) { m.triVerts.push_back((I)r.below(nv)); return true; }
  if (K("tv-len-1")) { m.triVerts.pop_back(); return true; }
  if (K("tv-remove-tri")) { size_t t = r.below(nt); m.triVerts.erase(m.triVerts.begin() + 3 * t, m.triVerts.begin() + 3 * t + 3); return true; }
  if (K("tv-empty")) { m.triVerts.clear(); return true; }
  if (K("tv-double")) { auto v = m.triVerts; m.triVerts.insert(m.triVerts.end(), v.begin(), v.end()); return true; }
  if (K("tv-trunc")) { m.triVerts.resize(r.below(ntv)); return true; }
  if (K("numProp-0")) { m.numProp = 0; return true; }
  if (K("numProp-1or2")) { m.numProp = (I)r.range(1, 2); return true; }
  if (K("numProp-dec")) { m.numProp = (I)(np - 1); return true; }
  if (K("numProp-inc")) { m.numProp = (I)(np + r.range(1, 3)); return true; }
  if (K("numProp-huge")) {
    switch (r.range(0, 4)) {
      case 0: m.numProp = allOnes<I>(); break;
      case 1: m.numProp = (I)1 << 31; break;
      case 2: m.numProp = (I)(((uint64_t)1 << 32) + 3); break;  // 3 after 32-bit truncation
      case 3: m.numProp = (I)m.vertProperties.size(); break;    // exactly one vertex
      default: m.numProp = (I)(allOnes<I>() / 2 + 1); break;
    }
    return true;
  }
  if (K("numProp-wide")) {  // a VALID wide mesh: 64 channels
    std::vector<P> v(nv * 64, (P)0.25);
    for (size_t i = 0; i < nv; i++) for (size_t j = 0; j < np && j < 64; j++) v[i * 64 + j] = m.vertProperties[i * np + j];
    m.vertProperties = v; m.numProp = 64; return true;
  }
  // ---- indices
  if (K("tv-idx-nv")) { m.triVerts[r.below(ntv)] = (I)nv; return true; }
  if (K("tv-idx-max")) { m.triVerts[r.below(ntv)] = allOnes<I>(); return true; }
  if (K("tv-idx-big")) { m.triVerts[r.below(ntv)] = (I)(nv + 1 + r.below(1000000)); return true; }
  if (K("tv-idx-alias")) { size_t i = r.below(ntv); m.triVerts[i] = sizeof(I) == 8 ? (I)(((uint64_t)1 << 32) + (uint64_t)m.triVerts[i]) : (I)((uint32_t)1 << 31); return true; }
  if (K("tv-idx-rand-valid")) { int k = r.range(1, 3); for (int i = 0; i < k; i++) m.triVerts[r.below(ntv)] = (I)r.below(nv); return true; }
  if (K("tv-flip-tri")) { size_t t = r.below(nt); std::swap(m.triVerts[3 * t], m.triVerts[3 * t + 1]); return true; }
  if (K("tv-dup-tri")) { size_t t = r.below(nt); for (int i = 0; i < 3; i++) m.triVerts.push_back(m.triVerts[3 * t + i]); if (t < m.faceID.size()) { I f = m.faceID[t]; m.faceID.push_back(f); } if (ensureRuns()) m.runIndex.back() += 3; if (!m.halfedgeTangent.empty()) m.halfedgeTangent.resize(m.halfedgeTangent.size() + 12, (P)0.1); return true; }
  if (K("tv-degenerate")) { size_t t = r.below(nt); m.triVerts[3 * t + 1] = m.triVerts[3 * t]; if (r.chance(0.3)) for (size_t i = 0; i < ntv; i++) m.triVerts[i] = m.triVerts[3 * (i / 3)]; return true; }
  // ---- merge vectors
  auto ensureMerge = [&]() { if (m.mergeFromVert.empty() || m.mergeToVert.empty()) { m.mergeFromVert.clear(); m.mergeToVert.clear(); m.mergeFromVert.push_back((I)r.below(nv)); m.mergeToVert.push_back((I)r.below(nv)); } };
  if (K("merge-len-from")) { ensureMerge(); m.mergeFromVert.push_back((I)r.below(nv)); return true; }
  if (K("merge-len-to")) { ensureMerge(); if (r.chance(0.5)) m.mergeToVert.push_back((I)r.below(nv)); else m.mergeToVert.clear(); return true; }
  if (K("merge-oob-from")) { ensureMerge(); m.mergeFromVert[r.below(m.mergeFromVert.size())] = (I)(nv + r.below(3)); return true; }
  if (K("merge-oob-to")) { ensureMerge(); m.mergeToVert[r.below(m.mergeToVert.size())] = (I)(nv + r.below(3)); return true; }
  if (K("merge-max")) { ensureMerge(); (r.chance(0.5) ? m.mergeFromVert : m.mergeToVert)[r.below(std::min(m.mergeFromVert.size(), m.mergeToVert.size()))] = r.chance(0.5) ? allOnes<I>() : (I)((uint64_t)1 << 31); return true; }
  if (K("merge-cycle")) { I a = (I)r.below(nv), b = (I)r.below(nv), d = (I)r.below(nv); for (auto pr : {std::make_pair(a, b), std::make_pair(b, d), std::make_pair(d, a), std::make_pair(a, a)}) { m.mergeFromVert.push_back(pr.first); m.mergeToVert.push_back(pr.second); } return true; }
  if (K("merge-all-to-one")) { m.mergeFromVert.clear(); m.mergeToVert.clear(); for (size_t i = 1; i < nv; i++) { m.mergeFromVert.push_back((I)i); m.mergeToVert.push_back(0); } return true; }
  if (K("merge-rand-valid")) { int k = r.range(1, 4); for (int i = 0; i < k; i++) { m.mergeFromVert.push_back((I)r.below(nv)); m.mergeToVert.push_back((I)r.below(nv)); } return true; }
  // ---- run tables
  if (K("ri-beyond")) { if (!ensureRuns()) return false; m.runIndex.back() += (I)(3 * r.range(1, 4)); return true; }
  if (K("ri-beyond-huge")) { if (!ensureRuns()) return false; m.runIndex.back() = r.chance(0.5) ? allOnes<I>() : (I)(ntv + 3000000); return true; }
  if (K("ri-mid-beyond")) { if (!ensureRuns() || nrun < 2) return false; m.runIndex[1 + r.below(nrun - 1)] = (I)(ntv + 3 * r.range(1, 100)); return true; }
  if (K("ri-unsorted")) { if (!ensureRuns()) return false; if (nrun >= 2 && r.chance(0.6)) std::swap(m.runIndex[r.below(nrun + 1)], m.runIndex[r.below(nrun + 1)]); else std::reverse(m.runIndex.begin(), m.runIndex.end()); return true; }
  if (K("ri-non3")) { if (!ensureRuns()) return false; m.runIndex[r.below(nrun + 1)] += (I)r.range(1, 2); return true; }
  if (K("ri-first-nonzero")) { if (!ensureRuns()) return false; m.runIndex[0] = (I)(3 * r.range(1, 3)); return true; }
  if (K("ri-zeros")) { if (!ensureRuns()) return false; std::fill(m.runIndex.begin(), m.runIndex.end(), (I)0); return true; }
  if (K("ri-short-cover")) { if (!ensureRuns()) return false; m.runIndex.back() = (I)(ntv >= 6 ? ntv - 3 * r.range(1, 2) : 0); return true; }
  if (K("ri-drop-last")) { if (!ensureRuns()) return false; m.runIndex.pop_back(); return true; }
  if (K("ri-single")) { if (!ensureRuns()) return false; m.runIndex.resize(1); if (r.chance(0.5)) m.runIndex[0] = (I)(3 * r.below(nt + 3)); return true; }
  if (K("ri-empty-with-ids")) { if (!ensureRuns()) return false; m.runIndex.clear(); return true; }
  if (K("ri-extra")) { if (!ensureRuns()) return false; m.runIndex.push_back((I)ntv); if (r.chance(0.5)) m.runIndex.push_back((I)ntv); return true; }
  if (K("ids-empty-with-ri")) { if (!ensureRuns()) return false; m.runOriginalID.clear(); m.runTransform.clear(); return true; }
  if (K("ids-empty-ri-len")) { m.runOriginalID.clear(); m.runTransform.clear(); m.runIndex.assign(r.range(1, 6), (I)0); for (auto& x : m.runIndex) x = (I)(3 * r.below(nt + 2)); return true; }
  if (K("ids-many-ri-empty")) { m.runIndex.clear(); m.runTransform.clear(); int k = r.range(2, 40); m.runOriginalID.clear(); for (int i = 0; i < k; i++) m.runOriginalID.push_back(7 + i); return true; }
  if (K("ids-huge")) { if (nrun == 0) return false; m.runOriginalID[r.below(nrun)] = r.chance(0.5) ? 0xFFFFFFFFu : 0x80000000u; return true; }
  if (K("ids-dup")) { if (nrun < 2) return false; m.runOriginalID[1] = m.runOriginalID[0]; return true; }
  if (K("ids-unsorted")) { if (nrun < 2) return false; std::reverse(m.runOriginalID.begin(), m.runOriginalID.end()); return true; }
  auto ensureRT = [&]() { if (m.runTransform.empty() && nrun) { for (size_t i = 0; i < nrun; i++) for (int j = 0; j < 12; j++) m.runTransform.push_back((P)((j % 4 == j / 3 && j < 9) ? 1 : 0)); for (size_t i = 0; i < nrun; i++) { P* t = &m.runTransform[12 * i]; t[0] = 1; t[1] = 0; t[2] = 0; t[3] = 0; t[4] = 1; t[5] = 0; t[6] = 0; t[7] = 0; t[8] = 1; t[9] = 0; t[10] = 0; t[11] = 0; } } return !m.runTransform.empty(); };
  if (K("rt-len+1")) { if (!ensureRT()) return false; m.runTransform.push_back((P)1); return true; }
  if (K("rt-len-12")) { if (!ensureRT() || m.runTransform.size() < 12) return false; m.runTransform.resize(m.runTransform.size() - (r.chance(0.5) ? 12 : 1)); return true; }
  if (K("rt-empty")) { if (m.runTransform.empty()) return false; m.runTransform.clear(); return true; }
  if (K("rt-nonfinite")) { if (!ensureRT()) return false; m.runTransform[r.below(m.runTransform.size())] = r.chance(0.5) ? std::numeric_limits<P>::quiet_NaN() : std::numeric_limits<P>::infinity(); return true; }
  if (K("rt-zero")) { if (!ensureRT()) return false; std::fill(m.runTransform.begin(), m.runTransform.end(), (P)0); return true; }
  if (K("rt-huge")) { if (!ensureRT()) return false; m.runTransform[r.below(m.runTransform.size())] = std::numeric_limits<P>::max(); return true; }
  if (K("rf-len")) { if (r.chance(0.5) && !m.runFlags.empty()) m.runFlags.pop_back(); else m.runFlags.resize(m.runFlags.size() + r.range(1, 5), (uint8_t)r.below(256)); return true; }
  if (K("rf-rand")) { if (m.runFlags.empty()) m.runFlags.resize(std::max<size_t>(1, nrun)); for (auto& f : m.runFlags) f = (uint8_t)r.below(256); return true; }
  if (K("rf-hasnormals-lowprop")) {
    size_t want = 3 + r.range(0, 2);
    if (np != want) { std::vector<P> v(nv * want, (P)0.5); for (size_t i = 0; i < nv; i++) for (size_t j = 0; j < std::min(np, want); j++) v[i * want + j] = m.vertProperties[i * np + j]; m.vertProperties = v; m.numProp = (I)want; }
    m.runFlags.assign(std::max<size_t>(1, nrun), (uint8_t)2);
    return true;
  }
  if (K("fid-len+1")) { if (m.faceID.empty()) m.faceID.assign(nt, 0); m.faceID.push_back(0); return true; }
  if (K("fid-len-1")) { if (m.faceID.empty()) m.faceID.assign(nt, 0); m.faceID.pop_back(); return true; }
  if (K("fid-empty")) { if (m.faceID.empty()) return false; m.faceID.clear(); return true; }
  if (K("fid-max")) { if (m.faceID.empty()) m.faceID.assign(nt, 0); m.faceID[r.below(m.faceID.size())] = r.chance(0.5) ? allOnes<I>() : (I)((uint64_t)1 << 31); return true; }
  if (K("fid-rand")) { if (m.faceID.empty()) m.faceID.assign(nt, 0); for (auto& f : m.faceID) f = (I)r.next(); return true; }
  // ---- tangents
  auto ensureTan = [&]() { if (m.halfedgeTangent.size() < 8) { m.halfedgeTangent.resize(4 * ntv); for (auto& x : m.halfedgeTangent) x = (P)r.uni(-0.3, 0.3); } };
  if (K("tan-len+1")) { ensureTan(); m.halfedgeTangent.push_back((P)0.1); return true; }
  if (K("tan-len-4")) { ensureTan(); m.halfedgeTangent.resize(m.halfedgeTangent.size() - (r.chance(0.5) ? 4 : 1)); return true; }
  if (K("tan-half")) { ensureTan(); m.halfedgeTangent.resize(m.halfedgeTangent.size() / 2); return true; }
  if (K("tan-double")) { ensureTan(); m.halfedgeTangent.resize(m.halfedgeTangent.size() * 2, (P)0.2); return true; }
  if (K("tan-per-tri")) { ensureTan(); m.halfedgeTangent.resize(4 * nt); return true; }
  if (K("tan-nonfinite")) { ensureTan(); m.halfedgeTangent[r.below(m.halfedgeTangent.size())] = r.chance(0.5) ? std::numeric_limits<P>::quiet_NaN() : -std::numeric_limits<P>::infinity(); return true; }
  if (K("tan-zero")) { ensureTan(); std::fill(m.halfedgeTangent.begin(), m.halfedgeTangent.end(), (P)0); return true; }
  if (K("tan-huge")) { ensureTan(); int k = r.range(1, 8); for (int i = 0; i < k; i++) m.halfedgeTangent[r.below(m.halfedgeTangent.size())] = r.chance(0.5) ? std::numeric_limits<P>::max() : std::numeric_limits<P>::denorm_min(); return true; }
  if (K("tan-add")) { if (!m.halfedgeTangent.empty()) return false; ensureTan(); return true; }
  if (K("tan-add-wrong-len")) { m.halfedgeTangent.assign(r.below(4 * ntv + 8), (P)0.1); if (m.halfedgeTangent.size() == 4 * ntv) m.halfedgeTangent.pop_back(); return true; }
  // ---- values
  if (K("pos-nonfinite")) { size_t v = r.below(nv); m.vertProperties[v * np + r.below(3)] = r.chance(0.5) ? std::numeric_limits<P>::quiet_NaN() : (r.chance(0.5) ? 1 : -1) * std::numeric_limits<P>::infinity(); return true; }
  if (K("pos-huge")) { int k = r.range(1, 4); for (int i = 0; i < k; i++) m.vertProperties[r.below(nv) * np + r.below(3)] = (r.chance(0.5) ? 1 : -1) * std::numeric_limits<P>::max(); return true; }
  if (K("pos-denormal")) { if (r.chance(0.5)) { for (size_t v = 0; v < nv; v++) for (int j = 0; j < 3; j++) m.vertProperties[v * np + j] *= std::numeric_limits<P>::denorm_min() * 8; } else m.vertProperties[r.below(nv) * np + r.below(3)] = std::numeric_limits<P>::denorm_min(); return true; }
  if (K("pos-all-equal")) { for (size_t v = 0; v < nv; v++) for (int j = 0; j < 3; j++) m.vertProperties[v * np + j] = (P)(r.chance(0.0) ? 0 : 1.25); return true; }
  if (K("prop-nonfinite")) { if (np <= 3) return false; m.vertProperties[r.below(nv) * np + 3 + r.below(np - 3)] = r.chance(0.5) ? std::numeric_limits<P>::quiet_NaN() : std::numeric_limits<P>::infinity(); return true; }
  if (K("tol-nan")) { m.tolerance = std::numeric_limits<P>::quiet_NaN(); return true; }
  if (K("tol-inf")) { m.tolerance = (r.chance(0.7) ? 1 : -1) * std::numeric_limits<P>::infinity(); return true; }
  if (K("tol-neg")) { m.tolerance = (P)-r.uni(1e-6, 10); return true; }
  if (K("tol-huge")) { m.tolerance = r.chance(0.5) ? std::numeric_limits<P>::max() : (P)r.uni(1, 1e6); return true; }
  if (K("tol-denormal")) { m.tolerance = std::numeric_limits<P>::denorm_min(); return true; }
  // ---- byte level
  if (K("bitflip-vp")) { flipBits(m.vertProperties, r); return true; }
  if (K("bitflip-tv")) { flipBits(m.triVerts, r); return true; }
  if (K("bitflip-merge")) { ensureMerge(); flipBits(r.chance(0.5) ? m.mergeFromVert : m.mergeToVert, r); return true; }
  if (K("bitflip-ri")) { if (m.runIndex.empty()) return false; flipBits(m.runIndex, r); return true; }
  if (K("bitflip-ids")) { if (nrun == 0) return false; flipBits(m.runOriginalID, r); return true; }
  if (K("bitflip-rt")) { if (m.runTransform.empty()) return false; flipBits(m.runTransform, r); return true; }
  if (K("bitflip-rf")) { if (m.runFlags.empty()) return false; flipBits(m.runFlags, r); return true; }
  if (K("bitflip-fid")) { if (m.faceID.empty()) return false; flipBits(m.faceID, r); return true; }
  if (K("bitflip-tan")) { if (m.halfedgeTangent.empty()) return false; flipBits(m.halfedgeTangent, r); return true; }
  if (K("bitflip-numProp")) { m.numProp ^= (I)((I)1 << r.below(sizeof(I) * 8)); return true; }
  // ---- sharpened edges
  if (K("sharp-oob")) { int k = r.range(1, 4); for (int i = 0; i < k; i++) sharp.push_back({ntv + r.below(10), r.uni(0, 1)}); return true; }
  if (K("sharp-max")) { sharp.push_back({r.chance(0.5) ? (size_t)-1 : (size_t)1 << 31, 0.5}); sharp.push_back({(size_t)1 << 32, 0.0}); return true; }
  if (K("sharp-nan")) { sharp.push_back({r.below(ntv), r.chance(0.5) ? kNaN : (r.chance(0.5) ? kInf : -kInf)}); return true; }
  if (K("sharp-neg")) { sharp.push_back({r.below(ntv), r.chance(0.5) ? -r.uni(0, 5) : r.uni(1, 1e300)}); return true; }
  if (K("sharp-dup")) { size_t h = r.below(ntv); for (int i = 0; i < 5; i++) sharp.push_back({h, r.uni(0, 1)}); return true; }
  return false;
}

// The mesh field a mutation kind attacks: it is the head of the site label
// ("mesh:<field>/<kind>/<variant>") so that witnesses of one unvalidated field
// share a key prefix whatever the concrete mutation and entry point.
std::string fieldOf(const std::string& kind) {
  auto has = [&](const char* p) { return kind.rfind(p, 0) == 0; };
  if (has("vp-") || has("bitflip-vp")) return "vertProperties";
  if (has("tv-len") || has("tv-remove") || has("tv-empty") || has("tv-double") || has("tv-trunc")) return "triVerts-length";
  if (has("tv-") || has("bitflip-tv")) return "triVerts-index";
  if (has("numProp") || has("bitflip-numProp")) return "numProp";
  if (has("merge") || has("bitflip-merge")) return "merge";
  if (has("ri-") || has("bitflip-ri") || has("ids-empty") || has("ids-many")) return "runIndex";
  if (has("ids-") || has("bitflip-ids")) return "runOriginalID";
  if (has("rt-") || has("bitflip-rt")) return "runTransform";
  if (has("rf-") || has("bitflip-rf")) return "runFlags";
  if (has("fid-") || has("bitflip-fid")) return "faceID";
  if (has("tan-len") || has("tan-half") || has("tan-double") || has("tan-per-tri") || has("tan-add-wrong-len")) return "tangent-length";
  if (has("tan-") || has("bitflip-tan")) return "tangent-value";
  if (has("pos-")) return "position";
  if (has("prop-")) return "property";
  if (has("tol-")) return "tolerance";
  if (has("sharp-")) return "sharpenedEdges";
  return "none";
}
std::string meshLabel(const std::string& kinds) {  // "a" or "a+b"
  size_t plus = kinds.find('+');
  if (plus == std::string::npos) return "mesh:" + fieldOf(kinds) + "/" + kinds;
  return "mesh:" + fieldOf(kinds.substr(0, plus)) + "+" + fieldOf(kinds.substr(plus + 1)) + "/" + kinds;
}

template <class M>
std::string meshJson(const M& m) {
  vh::J j;
  j.u("numProp", (unsigned long long)m.numProp).u("nVertProperties", m.vertProperties.size()).u("nTriVerts", m.triVerts.size())
      .raw("mergeFromVert", vh::jarr(m.mergeFromVert, 24)).raw("mergeToVert", vh::jarr(m.mergeToVert, 24))
      .raw("runIndex", vh::jarr(m.runIndex, 24)).raw("runOriginalID", vh::jarr(m.runOriginalID, 24))
      .u("nRunTransform", m.runTransform.size()).u("nRunFlags", m.runFlags.size()).u("nFaceID", m.faceID.size())
      .u("nHalfedgeTangent", m.halfedgeTangent.size()).d("tolerance", (double)m.tolerance);
  return j.str();
}

const char* const kMeshVariants[] = {"ctor64", "ctor32", "from64", "from32", "smooth64", "smooth32", "ctxsmooth64", "ctxsmooth32", "merge64", "merge32"};

template <class M>
void runMeshVariant(vh::Ctx& c, vh::Rng& r, M m, const std::string& kind, int variant, const std::string& baseName,
                    std::vector<Smoothness> sharp) {
  std::string label = meshLabel(kind) + "/" + kMeshVariants[variant];
  if (variant >= 8) label = "merge" + label.substr(4);  // MeshGL::Merge() is an entry point of its own: "merge:<field>/<kind>/merge64"
  std::string detail = vh::J().s("base", baseName).s("kind", kind).s("variant", kMeshVariants[variant]).raw("mesh", meshJson(m))
                           .u("nSharpened", sharp.size()).str();
  Obs o{c, r, label, detail};
  if (g_trace) {  // full input, for writing standalone reproducers
    fprintf(stderr, "MESH %s base=%s numProp=%llu tol=%.17g\n", label.c_str(), baseName.c_str(), (unsigned long long)m.numProp, (double)m.tolerance);
    auto dump = [](const char* n, const auto& v) { std::ostringstream os; os.precision(17); os << "  " << n << "={"; for (size_t i = 0; i < v.size(); i++) os << (i ? "," : "") << +v[i]; os << "}"; fprintf(stderr, "%s\n", os.str().c_str()); };
    dump("vertProperties", m.vertProperties); dump("triVerts", m.triVerts); dump("mergeFromVert", m.mergeFromVert); dump("mergeToVert", m.mergeToVert);
    dump("runIndex", m.runIndex); dump("runOriginalID", m.runOriginalID); dump("runTransform", m.runTransform); dump("runFlags", m.runFlags);
    dump("faceID", m.faceID); dump("halfedgeTangent", m.halfedgeTangent);
    for (auto& s : sharp) fprintf(stderr, "  sharp {%zu, %.17g}\n", s.halfedge, s.smoothness);
  }
  Manifold out;
  bool ok = true;
  const int fam = variant / 2;
  if (fam >= 2 && fam <= 3 && sharp.empty() && r.chance(0.5)) {
    // ordinary valid sharpened edges alongside the mutated mesh
    size_t n = m.triVerts.size();
    if (n) for (int i = 0; i < 3; i++) sharp.push_back({(size_t)r.below(n), r.uni(0, 1)});
  }
  switch (fam) {
    case 0: ok = guarded(c, label, detail, [&] { out = Manifold(m); }); break;
    case 1: ok = guarded(c, label, detail, [&] { ExecutionContext ctx; out = ctx.FromMeshGL(m); (void)ctx.Progress(); }); break;
    case 2: ok = guarded(c, label, detail, [&] { out = Manifold::Smooth(m, sharp); }); break;
    case 3: ok = guarded(c, label, detail, [&] { ExecutionContext ctx; out = ctx.Smooth(m, sharp); (void)ctx.Progress(); }); break;
    default:
      ok = guarded(c, label, detail, [&] { bool changed = m.Merge(); c.count(changed ? "merge_changed" : "merge_unchanged"); out = Manifold(m); });
      break;
  }
  c.count("mesh_mutants");
  if (!ok) return;
  observe(o, out);
}

// One mesh mutant: returns a deferred closure if the label is hot.
struct Deferred {
  std::string label;
  std::function<void()> run;
};

void meshMutant(vh::Ctx& c, vh::Rng r, std::vector<Deferred>& hot) {
  const Base& b = g_bases[r.below(g_bases.size())];
  for (int attempt = 0; attempt < 20; attempt++) {
    std::string kind = kMeshKinds[r.below(kNumMeshKinds)];
    std::string kind2;
    int variant = (int)r.below(10);
    if (r.chance(0.35)) variant = (int)r.below(2);  // the plain constructors get the most
    if (kind.rfind("sharp-", 0) == 0) variant = 4 + (int)r.below(4);
    bool is64 = variant % 2 == 0;
    MeshGL64 m64 = b.m64;
    MeshGL m32 = b.m32;
    std::vector<Smoothness> sharp;
    vh::Rng rm = r.fork();
    bool ok = is64 ? mutateMesh(m64, kind, rm, sharp) : mutateMesh(m32, kind, rm, sharp);
    if (!ok) continue;
    std::string lab = kind;
    if (!isHot(meshLabel(kind)) && !isHot(std::string("x/") + kMeshVariants[variant]) && r.chance(0.15)) {  // stack a second, non-hot mutation
      kind2 = kMeshKinds[r.below(kNumMeshKinds)];
      if (kind2 != kind && kind2 != "none" && !isHot(meshLabel(kind2)) && kind2.rfind("sharp-", 0) != 0) {
        // the first mutation may have emptied a vector the second indexes into
        bool sane = is64 ? (m64.numProp >= 3 && m64.vertProperties.size() >= m64.numProp && m64.triVerts.size() >= 3)
                         : (m32.numProp >= 3 && m32.vertProperties.size() >= m32.numProp && m32.triVerts.size() >= 3);
        if (sane && (is64 ? mutateMesh(m64, kind2, rm, sharp) : mutateMesh(m32, kind2, rm, sharp))) lab = kind + "+" + kind2;
      }
    }
    vh::Rng rr = r.fork();
    auto run = [&c, rr, m64, m32, lab, variant, is64, name = b.name, sharp]() mutable {
      if (is64) runMeshVariant(c, rr, m64, lab, variant, name, sharp);
      else runMeshVariant(c, rr, m32, lab, variant, name, sharp);
    };
    std::string label = meshLabel(lab) + "/" + kMeshVariants[variant];
    if (variant >= 8) label = "merge" + label.substr(4);
    if (isHot(label)) { hot.push_back({label, run}); return; }
    run();
    return;
  }
}

// ------------------------------------------------------------- polygons
std::string polysJson(const Polygons& p) {
  std::ostringstream o;
  o.precision(17);
  o << "[";
  size_t shown = 0;
  for (size_t i = 0; i < p.size(); i++) {
    o << (i ? "," : "") << "[";
    for (size_t k = 0; k < p[i].size() && shown < 80; k++, shown++) {
      auto f = [&](double x) { if (std::isfinite(x)) o << x; else o << (std::isnan(x) ? "\"nan\"" : (x > 0 ? "\"inf\"" : "\"-inf\"")); };
      o << (k ? "," : "") << "[";
      f(p[i][k].x); o << ","; f(p[i][k].y);
      o << "]";
    }
    o << "]";
  }
  o << "]";
  return o.str();
}

Polygons basePolys(vh::Rng& r, std::string& name) {
  switch (r.range(0, 4)) {
    case 0: name = "square"; return {{{0, 0}, {1, 0}, {1, 1}, {0, 1}}};
    case 1: name = "tri"; return {{{0.2, 0}, {1.5, 0.1}, {0.7, 1.2}}};
    case 2: {
      name = "star";
      Polygons p(1);
      int n = r.range(5, 12);
      for (int i = 0; i < n; i++) { double a = 2 * kPi * i / n, rad = (i % 2 ? 1.0 : 0.45) * r.uni(0.9, 1.1); p[0].push_back({2 + rad * cos(a), rad * sin(a)}); }
      return p;
    }
    case 3: name = "square-hole"; return {{{0, 0}, {3, 0}, {3, 3}, {0, 3}}, {{1, 1}, {1, 2}, {2, 2}, {2, 1}}};
    default: name = "two-squares"; return {{{0, 0}, {1, 0}, {1, 1}, {0, 1}}, {{2, 0}, {3, 0}, {3, 1}, {2, 1}}};
  }
}

const char* const kPolyKinds[] = {"none", "empty-set", "empty-ring", "all-rings-empty", "ring-1pt", "ring-2pt", "only-1pt", "only-2pt", "nan-pt", "inf-pt",
                                  "all-nan", "dup-consecutive", "dup-all", "collinear", "reversed", "bowtie", "huge", "denormal", "dup-ring",
                                  "neg-x", "on-axis", "spike", "many-rings"};
const int kNumPolyKinds = sizeof(kPolyKinds) / sizeof(kPolyKinds[0]);

bool mutatePolys(Polygons& p, const std::string& kind, vh::Rng& r) {
  auto K = [&](const char* s) { return kind == s; };
  size_t ri = r.below(p.size());
  SimplePolygon& ring = p[ri];
  if (K("none")) return true;
  if (K("empty-set")) { p.clear(); return true; }
  if (K("empty-ring")) { if (r.chance(0.5)) ring.clear(); else p.insert(p.begin() + r.below(p.size() + 1), SimplePolygon()); return true; }
  if (K("all-rings-empty")) { for (auto& q : p) q.clear(); return true; }
  if (K("ring-1pt")) { p.insert(p.begin() + r.below(p.size() + 1), SimplePolygon{{0.5, 0.5}}); return true; }
  if (K("ring-2pt")) { p.insert(p.begin() + r.below(p.size() + 1), SimplePolygon{{0.25, 0.25}, {0.75, 0.5}}); return true; }
  if (K("only-1pt")) { p = {{{r.uni(0, 2), r.uni(0, 2)}}}; return true; }
  if (K("only-2pt")) { p = {{{0.1, 0.2}, {1.3, 0.4}}}; return true; }
  if (K("nan-pt")) { ring[r.below(ring.size())][r.range(0, 1)] = kNaN; return true; }
  if (K("inf-pt")) { ring[r.below(ring.size())][r.range(0, 1)] = r.chance(0.5) ? kInf : -kInf; return true; }
  if (K("all-nan")) { for (auto& q : p) for (auto& v : q) v = vec2(kNaN, kNaN); return true; }
  if (K("dup-consecutive")) { size_t i = r.below(ring.size()); int k = r.range(1, 3); for (int j = 0; j < k; j++) ring.insert(ring.begin() + i, ring[i]); return true; }
  if (K("dup-all")) { for (auto& v : ring) v = ring[0]; return true; }
  if (K("collinear")) { for (size_t i = 0; i < ring.size(); i++) ring[i] = {0.5 + (double)i, 0.25 + 2.0 * (double)i}; return true; }
  if (K("reversed")) { std::reverse(ring.begin(), ring.end()); return true; }
  if (K("bowtie")) { if (ring.size() < 4) return false; std::swap(ring[1], ring[2]); return true; }
  if (K("huge")) { ring[r.below(ring.size())] = {r.chance(0.5) ? 1e308 : 1e200, r.chance(0.5) ? -1e308 : 1e155}; return true; }
  if (K("denormal")) { if (r.chance(0.5)) { for (auto& q : p) for (auto& v : q) v *= 1e-320; } else ring[r.below(ring.size())] = {5e-324, -5e-324}; return true; }
  if (K("dup-ring")) { SimplePolygon base = ring; p.push_back(base); return true; }
  if (K("neg-x")) { for (auto& q : p) for (auto& v : q) v.x -= r.chance(0.5) ? 100.0 : 0.5; return true; }
  if (K("on-axis")) { for (auto& v : ring) v.x = 0; return true; }
  if (K("spike")) { size_t i = r.below(ring.size()); vec2 a = ring[i]; ring.insert(ring.begin() + i, {a.x + 5, a.y}); ring.insert(ring.begin() + i, a); return true; }
  if (K("many-rings")) { SimplePolygon base = ring; for (int i = 0; i < 12; i++) { SimplePolygon q; for (auto v : base) q.push_back(v * (1.0 / (i + 2))); p.push_back(q); } return true; }
  return false;
}

const char* const kPolyEntries[] = {"Extrude", "Revolve", "RevolvePartial", "Triangulate", "TriangulateIdx", "CrossSection", "CrossSectionEvenOdd", "CrossSectionSimple", "CSHullPolys"};

void checkTriIndices(vh::Ctx& c, const std::string& label, const std::string& detail, const std::vector<ivec3>& tris, const std::set<int>& valid) {
  for (auto& t : tris)
    for (int k = 0; k < 3; k++)
      if (!valid.count(t[k])) {
        c.violation("accepted-but-broken:triangle-index-not-an-input-index:" + label.substr(0, label.find('/')),
                    vh::J().s("site", label).i("index", t[k]).raw("input", detail).str());
        return;
      }
}

// CrossSection results carry no Status: only "returns normally" is decided,
// plus that what comes out can be fed back in (ToPolygons -> Extrude).
void observeCS(vh::Ctx& c, vh::Rng& r, const std::string& label, const std::string& detail, const CrossSection& cs) {
  Polygons out;
  if (!guarded(c, label, detail, [&] { (void)cs.IsEmpty(); (void)cs.Area(); (void)cs.NumVert(); (void)cs.NumContour(); (void)cs.Bounds(); out = cs.ToPolygons(); })) return;
  c.count("crosssection_results");
  c.sig("cs|" + label + (out.empty() ? "|empty" : "|nonempty"));
  size_t nv = 0;
  for (auto& q : out) nv += q.size();
  if (nv > 5000) return;
  Obs o{c, r, label, detail};
  Manifold m;
  if (guarded(c, label, detail, [&] { m = Manifold::Extrude(out, 1.0); })) observe(o, m, 0.1);
}

void polyMutant(vh::Ctx& c, vh::Rng r, std::vector<Deferred>& hot) {
  std::string baseName;
  Polygons p = basePolys(r, baseName);
  std::string kind;
  for (int a = 0; a < 10; a++) {
    kind = kPolyKinds[r.below(kNumPolyKinds)];
    Polygons q = p;
    if (mutatePolys(q, kind, r)) { p = q; break; }
    kind = "none";
  }
  int entry = (int)r.below(9);
  std::string label = "poly:" + kind + "/" + kPolyEntries[entry];
  vh::Rng rr = r.fork();
  auto run = [&c, rr, p, label, entry, baseName, kind]() mutable {
    vh::Rng& r = rr;
    std::string detail = vh::J().s("base", baseName).s("kind", kind).s("entry", kPolyEntries[entry]).raw("polygons", polysJson(p)).str();
    Obs o{c, r, label, detail};
    c.count("poly_mutants");
    Manifold m;
    switch (entry) {
      case 0: {
        double h = r.uni(0.5, 2);
        int div = r.range(0, 2);
        double tw = r.chance(0.5) ? 0 : 30;
        vec2 st = r.chance(0.6) ? vec2(1.0) : (r.chance(0.5) ? vec2(0.0) : vec2(0.5, 0.7));
        if (guarded(c, label, detail, [&] { m = Manifold::Extrude(p, h, div, tw, st); })) observe(o, m);
        break;
      }
      case 1: if (guarded(c, label, detail, [&] { m = Manifold::Revolve(p, r.range(3, 8), 360); })) observe(o, m); break;
      case 2: if (guarded(c, label, detail, [&] { m = Manifold::Revolve(p, r.range(3, 8), r.uni(10, 350)); })) observe(o, m); break;
      case 3: {
        double eps = r.chance(0.6) ? -1.0 : (r.chance(0.5) ? 1e-6 : 0.0);
        bool conv = r.chance(0.5);
        std::vector<ivec3> t;
        std::set<int> valid;
        int n = 0;
        for (auto& q : p) for (size_t i = 0; i < q.size(); i++) valid.insert(n++);
        if (guarded(c, label, detail, [&] { t = Triangulate(p, eps, conv); })) {
          c.count("triangulations");
          c.sig("tri|" + label + (t.empty() ? "|empty" : "|nonempty"));
          checkTriIndices(c, label, detail, t, valid);
        }
        break;
      }
      case 4: {
        PolygonsIdx pi;
        std::set<int> valid;
        int n = 0;
        int mode = r.range(0, 3);  // 0 sequential, 1 offset, 2 duplicates, 3 negative / huge ids
        for (auto& q : p) {
          SimplePolygonIdx s;
          for (auto& v : q) {
            int id = mode == 0 ? n : mode == 1 ? n + 1000 : mode == 2 ? n / 2 : (n % 2 ? -n - 1 : INT_MAX - n);
            n++;
            valid.insert(id);
            s.push_back({v, id});
          }
          pi.push_back(s);
        }
        std::vector<ivec3> t;
        if (guarded(c, label, detail, [&] { t = TriangulateIdx(pi, r.chance(0.5) ? -1.0 : 1e-9, r.chance(0.5)); })) {
          c.count("triangulations");
          c.sig("tri|" + label + (t.empty() ? "|empty" : "|nonempty"));
          checkTriIndices(c, label, detail, t, valid);
        }
        break;
      }
      case 5: { CrossSection cs; if (guarded(c, label, detail, [&] { cs = CrossSection(p); })) observeCS(c, r, label, detail, cs); break; }
      case 6: { CrossSection cs; if (guarded(c, label, detail, [&] { cs = CrossSection::EvenOdd(p); })) observeCS(c, r, label, detail, cs); break; }
      case 7: { CrossSection cs; if (guarded(c, label, detail, [&] { cs = p.empty() ? CrossSection(SimplePolygon()) : CrossSection(p[0]); })) observeCS(c, r, label, detail, cs); break; }
      default: { CrossSection cs; if (guarded(c, label, detail, [&] { cs = CrossSection::Hull(p); })) observeCS(c, r, label, detail, cs); break; }
    }
  };
  if (isHot(label)) { hot.push_back({label, run}); return; }
  run();
}

// ------------------------------------------------------------- point sets
const char* const kPtsKinds[] = {"empty", "one", "two", "three", "four-coplanar", "collinear", "all-equal", "nan", "inf", "all-nan", "duplicates", "huge", "denormal", "typical", "coplanar-many"};
const int kNumPtsKinds = sizeof(kPtsKinds) / sizeof(kPtsKinds[0]);

void ptsMutant(vh::Ctx& c, vh::Rng r, std::vector<Deferred>& hot) {
  std::string kind = kPtsKinds[r.below(kNumPtsKinds)];
  auto K = [&](const char* s) { return kind == s; };
  std::vector<vec3> pts;
  int n = r.range(5, 30);
  for (int i = 0; i < n; i++) pts.push_back({r.uni(-1, 1), r.uni(-1, 1), r.uni(-1, 1)});
  if (K("empty")) pts.clear();
  else if (K("one")) pts.resize(1);
  else if (K("two")) pts.resize(2);
  else if (K("three")) pts.resize(3);
  else if (K("four-coplanar")) { pts.resize(4); for (auto& p : pts) p.z = 0.5; }
  else if (K("collinear")) { for (size_t i = 0; i < pts.size(); i++) pts[i] = vec3(1, 2, 3) * (double)i; }
  else if (K("all-equal")) { for (auto& p : pts) p = pts[0]; }
  else if (K("nan")) pts[r.below(pts.size())][r.range(0, 2)] = kNaN;
  else if (K("inf")) pts[r.below(pts.size())][r.range(0, 2)] = r.chance(0.5) ? kInf : -kInf;
  else if (K("all-nan")) { for (auto& p : pts) p = vec3(kNaN); }
  else if (K("duplicates")) { size_t k = pts.size(); for (size_t i = 0; i < k; i++) pts.push_back(pts[i % 3]); }
  else if (K("huge")) { pts[0] = vec3(1e308, -1e308, 1e308); pts[1] = vec3(-1e308, 1e308, 1e200); }
  else if (K("denormal")) { for (auto& p : pts) p *= 1e-318; }
  else if (K("coplanar-many")) { for (auto& p : pts) p.z = 0.25 * p.x; }
  int entry = r.range(0, 2);
  static const char* en[] = {"Hull3D", "CSHull2D", "HullOfManifolds"};
  std::string label = "pts:" + kind + "/" + en[entry];
  vh::Rng rr = r.fork();
  auto run = [&c, rr, pts, label, entry, kind]() mutable {
    std::ostringstream os;
    os.precision(17);
    os << "[";
    for (size_t i = 0; i < pts.size() && i < 40; i++) os << (i ? "," : "") << "\"" << pts[i].x << " " << pts[i].y << " " << pts[i].z << "\"";
    os << "]";
    std::string detail = vh::J().s("kind", kind).raw("points", os.str()).str();
    Obs o{c, rr, label, detail};
    c.count("pts_mutants");
    if (entry == 0) {
      Manifold m;
      if (guarded(c, label, detail, [&] { m = Manifold::Hull(pts); })) observe(o, m);
    } else if (entry == 1) {
      SimplePolygon sp;
      for (auto& p : pts) sp.push_back({p.x, p.y});
      CrossSection cs;
      if (guarded(c, label, detail, [&] { cs = CrossSection::Hull(sp); })) observeCS(c, rr, label, detail, cs);
    } else {
      // Hull of several manifolds one of which is built from the odd point set
      Manifold m;
      if (guarded(c, label, detail, [&] { m = Manifold::Hull({Manifold::Hull(pts), partner()}); })) observe(o, m);
    }
  };
  if (isHot(label)) { hot.push_back({label, run}); return; }
  run();
}

// ------------------------------------------------------------- OBJ text
std::vector<std::string> g_objBases;
void buildObjBases(vh::Ctx& c) {
  for (Manifold m : {Manifold::Cube(vec3(1, 2, 3)), Manifold::Tetrahedron(), Manifold::Sphere(1, 4).Translate({0.001, 1000, -3})}) {
    std::ostringstream os;
    if (!m.WriteOBJ(os)) c.inconclusive("WriteOBJ failed for a base");
    std::istringstream is(os.str());
    if (Manifold::ReadOBJ(is).Status() != Err::NoError) c.inconclusive("OBJ base does not read back");
    g_objBases.push_back(os.str());
  }
}

const char* const kObjKinds[] = {"none", "truncate", "idx-huge", "idx-overflow-int", "idx-zero", "idx-negative", "idx-beyond", "num-1e999", "num-garbage", "garbage-token",
                                 "long-line", "very-long-line", "crlf", "binary", "dup-lines", "drop-line", "empty", "only-faces", "only-verts", "tolerance-odd", "epsilon-odd", "bad-stream", "slashes"};
const int kNumObjKinds = sizeof(kObjKinds) / sizeof(kObjKinds[0]);

std::vector<std::string> splitLines(const std::string& s) {
  std::vector<std::string> v;
  std::string cur;
  for (char ch : s) { if (ch == '\n') { v.push_back(cur); cur.clear(); } else cur += ch; }
  if (!cur.empty()) v.push_back(cur);
  return v;
}

void objMutant(vh::Ctx& c, vh::Rng r, std::vector<Deferred>& hot) {
  std::string text = g_objBases[r.below(g_objBases.size())];
  std::string kind = kObjKinds[r.below(kNumObjKinds)];
  auto K = [&](const char* s) { return kind == s; };
  auto lines = splitLines(text);
  auto faceLine = [&]() { std::vector<size_t> f; for (size_t i = 0; i < lines.size(); i++) if (lines[i].rfind("f ", 0) == 0) f.push_back(i); return f[r.below(f.size())]; };
  auto vertLine = [&]() { std::vector<size_t> f; for (size_t i = 0; i < lines.size(); i++) if (lines[i].rfind("v ", 0) == 0) f.push_back(i); return f[r.below(f.size())]; };
  auto join = [&]() { std::string s; for (auto& l : lines) s += l + "\n"; return s; };
  bool badStream = false;
  if (K("truncate")) text = text.substr(0, r.below(text.size()));
  else if (K("idx-huge")) { lines[faceLine()] = "f 1 2 99999999"; text = join(); }
  else if (K("idx-overflow-int")) { static const char* v[] = {"f 1 2 2147483648", "f 4294967296 1 2", "f 1 99999999999999999999 2", "f 2147483647 1 2"}; lines[faceLine()] = v[r.below(4)]; text = join(); }
  else if (K("idx-zero")) { lines[faceLine()] = "f 0 1 2"; text = join(); }
  else if (K("idx-negative")) { lines[faceLine()] = r.chance(0.5) ? "f -1 -2 -3" : "f 1 -2 3"; text = join(); }
  else if (K("idx-beyond")) { size_t nv = 0; for (auto& l : lines) if (l.rfind("v ", 0) == 0) nv++; lines[faceLine()] = "f 1 2 " + std::to_string(nv + 1); text = join(); }
  else if (K("num-1e999")) { static const char* v[] = {"v 1e999 0 0", "v 0 -1e999 0", "v 1e-999 1 1", "v 1E+400 2 3", "v 0.0000000000000000000000000000000001e400 1 1"}; lines[vertLine()] = v[r.below(5)]; text = join(); }
  else if (K("num-garbage")) { static const char* v[] = {"v nan 0 0", "v inf 0 0", "v 1..2 0 0", "v 1e 2 3", "v - 1 2", "v 0x1p3 1 2", "v 1,5 2 3", "v 1 2", "v 1 2 3 4 5"}; lines[vertLine()] = v[r.below(9)]; text = join(); }
  else if (K("garbage-token")) { static const char* v[] = {"g group", "vn 0 0 1", "vt 0.5 0.5", "usemtl x", "f", "v", "f a b c", "f 1 2", "#", "# tolerance = ", "# tolerance = abc", "\t", "ffff 1 2 3", "f 1 2 3 4"}; lines.insert(lines.begin() + r.below(lines.size() + 1), v[r.below(14)]); text = join(); }
  else if (K("long-line")) { std::string l = "v "; while (l.size() < 999 + (size_t)r.range(0, 2)) l += "1"; l += " 2 3"; lines.insert(lines.begin() + r.below(lines.size() + 1), l); text = join(); }
  else if (K("very-long-line")) { std::string l = r.chance(0.5) ? "v " : "f "; size_t n = 5000 + r.below(60000); for (size_t i = 0; i < n; i++) l += (char)('0' + (i % 10)); lines.insert(lines.begin() + r.below(lines.size() + 1), l); text = join(); }
  else if (K("crlf")) { text.clear(); for (auto& l : lines) text += l + "\r\n"; }
  else if (K("binary")) { int k = r.range(1, 30); for (int i = 0; i < k; i++) text[r.below(text.size())] = (char)r.below(256); }
  else if (K("dup-lines")) { size_t i = r.below(lines.size()); lines.insert(lines.begin() + i, lines[i]); text = join(); }
  else if (K("drop-line")) { lines.erase(lines.begin() + r.below(lines.size())); text = join(); }
  else if (K("empty")) text = r.chance(0.5) ? "" : "\n\n\n";
  else if (K("only-faces")) { text.clear(); for (auto& l : lines) if (l.rfind("f ", 0) == 0) text += l + "\n"; }
  else if (K("only-verts")) { text.clear(); for (auto& l : lines) if (l.rfind("v ", 0) == 0) text += l + "\n"; }
  else if (K("tolerance-odd")) { static const char* v[] = {"# tolerance = -1", "# tolerance = 1e999", "# tolerance = 0", "# tolerance = 1e-999", "# tolerance = 1e30"}; lines.insert(lines.begin(), v[r.below(5)]); text = join(); }
  else if (K("epsilon-odd")) { static const char* v[] = {"# epsilon = -1", "# epsilon = 1e999", "# epsilon = 0", "# epsilon = 1e-999", "# epsilon = 1e30"}; lines.insert(lines.begin(), v[r.below(5)]); text = join(); }
  else if (K("bad-stream")) badStream = true;
  else if (K("slashes")) { lines[faceLine()] = r.chance(0.5) ? "f 1/1/1 2/2/2 3/3/3" : "f 1// 2// 3//"; text = join(); }
  int entry = r.range(0, 1);
  std::string label = "obj:" + kind + (entry ? "/ReadOBJ-mesh" : "/ReadOBJ-manifold");
  vh::Rng rr = r.fork();
  auto run = [&c, rr, text, label, entry, kind, badStream]() mutable {
    std::string detail = vh::J().s("kind", kind).s("text_head", text.substr(0, 600)).u("text_len", text.size()).str();
    Obs o{c, rr, label, detail};
    c.count("obj_mutants");
    std::istringstream is(text);
    if (badStream) is.setstate(rr.chance(0.5) ? std::ios::failbit : std::ios::badbit);
    Manifold m;
    if (entry == 0) {
      if (guarded(c, label, detail, [&] { m = Manifold::ReadOBJ(is); })) observe(o, m);
    } else {
      if (guarded(c, label, detail, [&] { MeshGL64 g = ReadOBJ(is); m = Manifold(g); })) observe(o, m);
    }
  };
  if (isHot(label)) { hot.push_back({label, run}); return; }
  run();
}

// ------------------------------------------------------------- numeric arguments
struct ArgDef {
  const char* name;
  char type;  // 'd' double, 'i' int
  double typical;
};
struct ArgCtx {
  vh::Ctx& c;
  vh::Rng& r;
  std::string label, detail;
  void M(const Manifold& m, double pConsume = 0.15) { Obs o{c, r, label, detail}; observe(o, m, pConsume); }
  void CS(const CrossSection& cs) { observeCS(c, r, label, detail, cs); }
  template <class F> bool run(F&& f) { return guarded(c, label, detail, f); }
};
struct ArgOp {
  const char* name;
  std::vector<ArgDef> args;
  std::function<bool(const std::vector<double>&)> resourceBound;  // valid-but-unsatisfiable: counted, NOT executed
  std::function<void(ArgCtx&, const std::vector<double>&)> exec;
};
std::vector<ArgOp> g_ops;

struct DSpec { const char* cls; double v; };
const DSpec kD[] = {{"neg", -1.5}, {"negsmall", -1e-9}, {"zero", 0.0}, {"negzero", -0.0}, {"denorm", 5e-324}, {"tiny", 1e-300}, {"nan", 0}, {"inf", 0}, {"-inf", 0},
                    {"huge", 1e300}, {"-huge", -1e300}, {"max", DBL_MAX}, {"big", 1e6}, {"small", 1e-6}};
struct ISpec { const char* cls; int v; };
const ISpec kI[] = {{"intmin", INT_MIN}, {"neg", -7}, {"minus1", -1}, {"zero", 0}, {"one", 1}, {"two", 2}, {"three", 3}, {"intmax", INT_MAX}, {"big", 100000}, {"intmax-1", INT_MAX - 1}, {"mid", 1000}};

bool fin(double x) { return std::isfinite(x); }
int toInt(double x) { return (int)x; }  // only ever applied to values that came from ints

Manifold& subjCube() { static Manifold m = Manifold::Cube(vec3(1, 1.5, 2), true).SetProperties(1, [](double* o, vec3 p, const double*) { o[0] = p.z; }); return m; }
Manifold& subjSmooth() { static Manifold m = Manifold::Cube(vec3(1, 1.5, 2), true).SmoothOut(80, 0.3); return m; }
Manifold& subjNormals() { static Manifold m = Manifold::Sphere(1, 8).CalculateNormals(0); return m; }
Manifold& subjTwo() { static Manifold m = Manifold::Cube(vec3(1), true) + Manifold::Sphere(0.6, 8).Translate({0.5, 0, 0}); return m; }
const Manifold& pickSubj(vh::Rng& r) { switch (r.range(0, 3)) { case 0: return subjCube(); case 1: return subjSmooth(); case 2: return subjNormals(); default: return subjTwo(); } }
Polygons argPoly() { return {{{1, 0}, {2, 0}, {2, 1}, {1.5, 1.4}, {1, 1}}}; }
CrossSection& subjCS() { static CrossSection cs = CrossSection(Polygons{{{0, 0}, {2, 0}, {2, 1}, {1, 1}, {1, 2}, {0, 2}}, {{0.2, 0.2}, {0.2, 0.6}, {0.6, 0.6}, {0.6, 0.2}}}); return cs; }

void buildArgOps() {
  auto never = [](const std::vector<double>&) { return false; };
  g_ops.push_back({"Cube", {{"x", 'd', 1}, {"y", 'd', 2}, {"z", 'd', 0.5}}, never,
                   [](ArgCtx& k, const std::vector<double>& a) { Manifold m; bool ctr = k.r.chance(0.5); if (k.run([&] { m = Manifold::Cube({a[0], a[1], a[2]}, ctr); })) k.M(m); }});
  g_ops.push_back({"Sphere", {{"radius", 'd', 1}, {"segments", 'i', 8}}, [](const std::vector<double>& a) { return a[1] > 64; },
                   [](ArgCtx& k, const std::vector<double>& a) { Manifold m; if (k.run([&] { m = Manifold::Sphere(a[0], toInt(a[1])); })) k.M(m); }});
  g_ops.push_back({"Cylinder", {{"height", 'd', 1}, {"radiusLow", 'd', 0.5}, {"radiusHigh", 'd', 0.3}, {"segments", 'i', 6}}, [](const std::vector<double>& a) { return a[3] > 512; },
                   [](ArgCtx& k, const std::vector<double>& a) { Manifold m; bool ctr = k.r.chance(0.5); if (k.run([&] { m = Manifold::Cylinder(a[0], a[1], a[2], toInt(a[3]), ctr); })) k.M(m); }});
  g_ops.push_back({"Extrude", {{"height", 'd', 1}, {"nDivisions", 'i', 1}, {"twist", 'd', 20}, {"scaleTopX", 'd', 0.8}, {"scaleTopY", 'd', 0.6}}, [](const std::vector<double>& a) { return a[1] > 256; },
                   [](ArgCtx& k, const std::vector<double>& a) { Manifold m; if (k.run([&] { m = Manifold::Extrude(argPoly(), a[0], toInt(a[1]), a[2], {a[3], a[4]}); })) k.M(m); }});
  g_ops.push_back({"Revolve", {{"segments", 'i', 6}, {"degrees", 'd', 200}}, [](const std::vector<double>& a) { return a[0] > 512; },
                   [](ArgCtx& k, const std::vector<double>& a) { Manifold m; if (k.run([&] { m = Manifold::Revolve(argPoly(), toInt(a[0]), a[1]); })) k.M(m); }});
  g_ops.push_back({"LevelSet", {{"min.x", 'd', -1.2}, {"max.x", 'd', 1.2}, {"min.z", 'd', -1.2}, {"edgeLength", 'd', 0.4}, {"level", 'd', 0}, {"tolerance", 'd', -1}},
                   [](const std::vector<double>& a) {
                     // all finite, positive edge, but more than ~40^3 cells: valid request that is merely large
                     if (!(fin(a[0]) && fin(a[1]) && fin(a[2]) && fin(a[3])) || !(a[3] > 0)) return false;
                     double nx = std::abs(a[1] - a[0]) / a[3], ny = 2.4 / a[3], nz = std::abs(1.2 - a[2]) / a[3];
                     return nx > 40 || ny > 40 || nz > 40 || nx * ny * nz > 30000;
                   },
                   [](ArgCtx& k, const std::vector<double>& a) {
                     Manifold m;
                     bool viaCtx = k.r.chance(0.3), par = k.r.chance(0.5);
                     auto sdf = [](vec3 p) { return 1.0 - la::length(p); };
                     Box b(vec3(a[0], -1.2, a[2]), vec3(a[1], 1.2, 1.2));
                     if (!fin(a[0]) || !fin(a[1]) || !fin(a[2])) { b.min = vec3(a[0], -1.2, a[2]); b.max = vec3(a[1], 1.2, 1.2); }  // Box ctor would min/max NaN away
                     if (k.run([&] { if (viaCtx) { ExecutionContext ctx; m = ctx.LevelSet(sdf, b, a[3], a[4], a[5], par); } else m = Manifold::LevelSet(sdf, b, a[3], a[4], a[5], par); })) k.M(m);
                   }});
  g_ops.push_back({"LevelSetSdf", {{"sdfValue", 'd', 0.3}}, never,
                   [](ArgCtx& k, const std::vector<double>& a) {
                     Manifold m;
                     double v = a[0];
                     int mode = k.r.range(0, 2);  // everywhere / only outside the unit ball / only at one octant
                     auto sdf = [v, mode](vec3 p) { double s = 1.0 - la::length(p); if (mode == 0) return v; if (mode == 1) return s < 0 ? v : s; return (p.x > 0 && p.y > 0 && p.z > 0) ? v : s; };
                     if (k.run([&] { m = Manifold::LevelSet(sdf, Box(vec3(-1.3), vec3(1.3)), 0.45, 0, -1, false); })) k.M(m);
                   }});
  g_ops.push_back({"Refine", {{"n", 'i', 2}}, [](const std::vector<double>& a) { return a[0] > 12; },
                   [](ArgCtx& k, const std::vector<double>& a) { Manifold m; const Manifold& s = pickSubj(k.r); if (k.run([&] { m = s.Refine(toInt(a[0])); })) k.M(m); }});
  g_ops.push_back({"RefineToLength", {{"length", 'd', 0.6}}, [](const std::vector<double>& a) { return fin(a[0]) && a[0] != 0 && std::abs(a[0]) < 0.15; },
                   [](ArgCtx& k, const std::vector<double>& a) { Manifold m; const Manifold& s = pickSubj(k.r); if (k.run([&] { m = s.RefineToLength(a[0]); })) k.M(m); }});
  g_ops.push_back({"RefineToTolerance", {{"tolerance", 'd', 0.05}}, [](const std::vector<double>& a) { return fin(a[0]) && a[0] != 0 && std::abs(a[0]) < 2e-3; },
                   [](ArgCtx& k, const std::vector<double>& a) { Manifold m; const Manifold& s = k.r.chance(0.7) ? subjSmooth() : pickSubj(k.r); if (k.run([&] { m = s.RefineToTolerance(a[0]); })) k.M(m); }});
  g_ops.push_back({"SmoothOut", {{"minSharpAngle", 'd', 50}, {"minSmoothness", 'd', 0.2}}, never,
                   [](ArgCtx& k, const std::vector<double>& a) {
                     Manifold m; const Manifold& s = pickSubj(k.r);
                     if (k.run([&] { m = s.SmoothOut(a[0], a[1]); })) { k.M(m); Manifold m2; if (k.run([&] { m2 = m.Refine(2); })) k.M(m2, 0.0); }
                   }});
  g_ops.push_back({"SmoothByNormals", {{"normalIdx", 'i', 0}}, never,
                   [](ArgCtx& k, const std::vector<double>& a) {
                     Manifold m; const Manifold& s = k.r.chance(0.6) ? subjNormals() : pickSubj(k.r);
                     if (k.run([&] { m = s.SmoothByNormals(toInt(a[0])); })) { k.M(m); Manifold m2; if (k.run([&] { m2 = m.Refine(2); })) k.M(m2, 0.0); }
                   }});
  g_ops.push_back({"Simplify", {{"tolerance", 'd', 0.01}}, never, [](ArgCtx& k, const std::vector<double>& a) { Manifold m; const Manifold& s = pickSubj(k.r); if (k.run([&] { m = s.Simplify(a[0]); })) k.M(m); }});
  g_ops.push_back({"SetTolerance", {{"tolerance", 'd', 0.01}}, never, [](ArgCtx& k, const std::vector<double>& a) { Manifold m; const Manifold& s = pickSubj(k.r); if (k.run([&] { m = s.SetTolerance(a[0]); })) k.M(m); }});
  g_ops.push_back({"Scale", {{"x", 'd', 2}, {"y", 'd', 0.5}, {"z", 'd', 1}}, never, [](ArgCtx& k, const std::vector<double>& a) { Manifold m; const Manifold& s = pickSubj(k.r); if (k.run([&] { m = s.Scale({a[0], a[1], a[2]}); })) k.M(m); }});
  g_ops.push_back({"Translate", {{"x", 'd', 2}, {"y", 'd', 0.5}, {"z", 'd', 1}}, never, [](ArgCtx& k, const std::vector<double>& a) { Manifold m; const Manifold& s = pickSubj(k.r); if (k.run([&] { m = s.Translate({a[0], a[1], a[2]}); })) k.M(m); }});
  g_ops.push_back({"Rotate", {{"x", 'd', 20}, {"y", 'd', 90}, {"z", 'd', -45}}, never, [](ArgCtx& k, const std::vector<double>& a) { Manifold m; const Manifold& s = pickSubj(k.r); if (k.run([&] { m = s.Rotate(a[0], a[1], a[2]); })) k.M(m); }});
  g_ops.push_back({"Mirror", {{"x", 'd', 1}, {"y", 'd', 0}, {"z", 'd', 0}}, never, [](ArgCtx& k, const std::vector<double>& a) { Manifold m; const Manifold& s = pickSubj(k.r); if (k.run([&] { m = s.Mirror({a[0], a[1], a[2]}); })) k.M(m); }});
  g_ops.push_back({"Transform", {{"m00", 'd', 1}, {"m11", 'd', 1}, {"m21", 'd', 0.2}, {"t.x", 'd', 1}}, never,
                   [](ArgCtx& k, const std::vector<double>& a) { Manifold m; const Manifold& s = pickSubj(k.r); mat3x4 t({a[0], 0.1, 0}, {0, a[1], a[2]}, {0.3, 0, 1}, {a[3], 2, 3}); if (k.run([&] { m = s.Transform(t); })) k.M(m); }});
  g_ops.push_back({"Warp", {{"out", 'd', 0.5}}, never,
                   [](ArgCtx& k, const std::vector<double>& a) {
                     Manifold m; const Manifold& s = pickSubj(k.r); double v = a[0]; int mode = k.r.range(0, 2); bool batch = k.r.chance(0.5);
                     auto f = [v, mode](vec3& p) { if (mode == 0) p = vec3(v); else if (mode == 1) { if (p.x > 0) p.y = v; } else p.z += v; };
                     if (k.run([&] { m = batch ? s.WarpBatch([f](VecView<vec3> vs) { for (auto& p : vs) f(p); }) : s.Warp(f); })) k.M(m);
                   }});
  g_ops.push_back({"SetProperties", {{"numProp", 'i', 2}, {"out", 'd', 0.5}}, [](const std::vector<double>& a) { return a[0] > 2000; },
                   [](ArgCtx& k, const std::vector<double>& a) {
                     Manifold m; const Manifold& s = pickSubj(k.r); int np = toInt(a[0]); double v = a[1]; bool nullf = k.r.chance(0.2);
                     auto f = [np, v](double* o, vec3 p, const double*) { for (int i = 0; i < np && i < 4; i++) o[i] = i == 0 ? v : p.x; };
                     if (k.run([&] { m = nullf ? s.SetProperties(np, nullptr) : s.SetProperties(np, f); })) k.M(m);
                   }});
  g_ops.push_back({"CalculateNormals", {{"normalIdx", 'i', 0}, {"minSharpAngle", 'd', 50}}, [](const std::vector<double>& a) { return a[0] > 2000; },
                   [](ArgCtx& k, const std::vector<double>& a) { Manifold m; const Manifold& s = pickSubj(k.r); if (k.run([&] { m = s.CalculateNormals(toInt(a[0]), a[1]); })) k.M(m); }});
  g_ops.push_back({"CalculateCurvature", {{"gaussianIdx", 'i', 0}, {"meanIdx", 'i', 1}}, [](const std::vector<double>& a) { return a[0] > 2000 || a[1] > 2000; },
                   [](ArgCtx& k, const std::vector<double>& a) { Manifold m; const Manifold& s = pickSubj(k.r); if (k.run([&] { m = s.CalculateCurvature(toInt(a[0]), toInt(a[1])); })) k.M(m); }});
  g_ops.push_back({"GetMeshGL", {{"normalIdx", 'i', -1}}, never,
                   [](ArgCtx& k, const std::vector<double>& a) {
                     const Manifold& s = pickSubj(k.r); Manifold m; bool f32 = k.r.chance(0.5);
                     if (k.run([&] { if (f32) m = Manifold(s.GetMeshGL(toInt(a[0]))); else m = Manifold(s.GetMeshGL64(toInt(a[0]))); })) k.M(m);
                   }});
  g_ops.push_back({"TrimByPlane", {{"n.x", 'd', 0.3}, {"n.y", 'd', 0.4}, {"n.z", 'd', 1}, {"offset", 'd', 0.1}}, never,
                   [](ArgCtx& k, const std::vector<double>& a) { Manifold m; const Manifold& s = pickSubj(k.r); if (k.run([&] { m = s.TrimByPlane({a[0], a[1], a[2]}, a[3]); })) k.M(m); }});
  g_ops.push_back({"SplitByPlane", {{"n.x", 'd', 0.3}, {"n.y", 'd', 0.4}, {"n.z", 'd', 1}, {"offset", 'd', 0.1}}, never,
                   [](ArgCtx& k, const std::vector<double>& a) { std::pair<Manifold, Manifold> pr; const Manifold& s = pickSubj(k.r); if (k.run([&] { pr = s.SplitByPlane({a[0], a[1], a[2]}, a[3]); })) { k.M(pr.first); k.M(pr.second); } }});
  g_ops.push_back({"MinGap", {{"searchLength", 'd', 2}}, never,
                   [](ArgCtx& k, const std::vector<double>& a) { const Manifold& s = pickSubj(k.r); Manifold o = partner().Translate({3, 0, 0}); double g = 0; if (k.run([&] { g = s.MinGap(o, a[0]); })) { k.c.count("query_results"); k.c.sig("q|" + k.label); } }});
  g_ops.push_back({"RayCast", {{"origin.x", 'd', -3}, {"origin.z", 'd', 0.1}, {"end.x", 'd', 3}, {"end.y", 'd', 0.2}}, never,
                   [](ArgCtx& k, const std::vector<double>& a) { const Manifold& s = pickSubj(k.r); std::vector<RayHit> h; if (k.run([&] { h = s.RayCast({a[0], 0.05, a[1]}, {a[2], a[3], 0.1}); })) { k.c.count("query_results"); k.c.sig("q|" + k.label); } }});
  g_ops.push_back({"WindingNumber", {{"p.x", 'd', 0.1}, {"p.y", 'd', 0.2}, {"p.z", 'd', 5}}, never,
                   [](ArgCtx& k, const std::vector<double>& a) { const Manifold& s = pickSubj(k.r); std::vector<int> w; if (k.run([&] { w = s.WindingNumber({{a[0], a[1], a[2]}, {0.1, 0.1, 0.1}}); })) { k.c.count("query_results"); k.c.sig("q|" + k.label); } }});
  g_ops.push_back({"Slice", {{"height", 'd', 0.1}}, never,
                   [](ArgCtx& k, const std::vector<double>& a) { const Manifold& s = pickSubj(k.r); Polygons p; if (k.run([&] { p = s.Slice(a[0]); (void)s.Project(); })) { k.c.count("query_results"); k.c.sig("q|" + k.label); } }});
  g_ops.push_back({"GetCircularSegments", {{"radius", 'd', 2}}, never,
                   [](ArgCtx& k, const std::vector<double>& a) { int n = 0; if (k.run([&] { n = Quality::GetCircularSegments(a[0]); })) { k.c.count("query_results"); if (n < 3) k.c.violation("accepted-but-broken:GetCircularSegments<3:" + k.label.substr(0, k.label.find('/')), vh::J().i("n", n).d("radius", a[0]).str()); } }});
  // 2D
  g_ops.push_back({"CS.Square", {{"x", 'd', 1}, {"y", 'd', 2}}, never, [](ArgCtx& k, const std::vector<double>& a) { CrossSection cs; bool ctr = k.r.chance(0.5); if (k.run([&] { cs = CrossSection::Square({a[0], a[1]}, ctr); })) k.CS(cs); }});
  g_ops.push_back({"CS.Circle", {{"radius", 'd', 1}, {"segments", 'i', 8}}, [](const std::vector<double>& a) { return a[1] > 4096; },
                   [](ArgCtx& k, const std::vector<double>& a) { CrossSection cs; if (k.run([&] { cs = CrossSection::Circle(a[0], toInt(a[1])); })) k.CS(cs); }});
  g_ops.push_back({"CS.Offset", {{"delta", 'd', 0.1}, {"joinType", 'i', 1}, {"miterLimit", 'd', 2}, {"segments", 'i', 8}}, [](const std::vector<double>& a) { return a[3] > 4096; },
                   [](ArgCtx& k, const std::vector<double>& a) { CrossSection cs; if (k.run([&] { cs = subjCS().Offset(a[0], (JoinType)toInt(a[1]), a[2], toInt(a[3])); })) k.CS(cs); }});
  g_ops.push_back({"CS.Transforms", {{"tx", 'd', 1}, {"rot", 'd', 30}, {"sx", 'd', 2}, {"mx", 'd', 1}}, never,
                   [](ArgCtx& k, const std::vector<double>& a) { CrossSection cs; if (k.run([&] { cs = subjCS().Translate({a[0], 0.5}).Rotate(a[1]).Scale({a[2], 1.5}).Mirror({a[3], 0.5}); })) k.CS(cs); }});
  g_ops.push_back({"CS.Transform", {{"m00", 'd', 1}, {"m10", 'd', 0.2}, {"t.y", 'd', 1}}, never,
                   [](ArgCtx& k, const std::vector<double>& a) { CrossSection cs; mat2x3 t({a[0], 0.1}, {a[1], 1}, {0.5, a[2]}); if (k.run([&] { cs = subjCS().Transform(t); })) k.CS(cs); }});
  g_ops.push_back({"CS.Simplify", {{"epsilon", 'd', 1e-3}}, never, [](ArgCtx& k, const std::vector<double>& a) { CrossSection cs; if (k.run([&] { cs = subjCS().Simplify(a[0]); })) k.CS(cs); }});
  g_ops.push_back({"CS.SetTolerance", {{"tolerance", 'd', 1e-3}}, never, [](ArgCtx& k, const std::vector<double>& a) { CrossSection cs; if (k.run([&] { cs = subjCS().SetTolerance(a[0]); (void)cs.GetTolerance(); })) k.CS(cs); }});
  g_ops.push_back({"CS.Warp", {{"out", 'd', 0.5}}, never,
                   [](ArgCtx& k, const std::vector<double>& a) {
                     CrossSection cs; double v = a[0]; int mode = k.r.range(0, 2); bool batch = k.r.chance(0.5);
                     auto f = [v, mode](vec2& p) { if (mode == 0) p = vec2(v); else if (mode == 1) { if (p.x > 0.5) p.y = v; } else p.x += v; };
                     if (k.run([&] { cs = batch ? subjCS().WarpBatch([f](VecView<vec2> vs) { for (auto& p : vs) f(p); }) : subjCS().Warp(f); })) k.CS(cs);
                   }});
  g_ops.push_back({"CS.BooleanAfterOddScale", {{"s", 'd', 1.5}}, never,
                   [](ArgCtx& k, const std::vector<double>& a) { CrossSection cs; int op = k.r.range(0, 2); if (k.run([&] { cs = subjCS().Boolean(subjCS().Scale({a[0], a[0]}).Translate({0.3, 0.3}), (OpType)op); })) k.CS(cs); }});
  g_ops.push_back({"Triangulate.epsilon", {{"epsilon", 'd', 1e-6}}, never,
                   [](ArgCtx& k, const std::vector<double>& a) { std::vector<ivec3> t; Polygons p = {{{0, 0}, {3, 0}, {3, 3}, {1.5, 1}, {0, 3}}, {{1, 0.3}, {1, 0.8}, {2, 0.8}, {2, 0.3}}}; bool conv = k.r.chance(0.5); if (k.run([&] { t = Triangulate(p, a[0], conv); })) { k.c.count("triangulations"); k.c.sig("q|" + k.label); std::set<int> valid; for (int i = 0; i < 9; i++) valid.insert(i); checkTriIndices(k.c, k.label, k.detail, t, valid); } }});
}

void argMutant(vh::Ctx& c, vh::Rng r, std::vector<Deferred>& hot) {
  const ArgOp& op = g_ops[r.below(g_ops.size())];
  std::vector<double> a;
  for (auto& d : op.args) a.push_back(d.typical);
  int nSpecial = r.chance(0.8) ? 1 : (r.chance(0.7) ? 2 : 0);
  std::map<size_t, std::string> clsOf;  // argument index -> value class
  for (int s = 0; s < nSpecial && clsOf.size() < op.args.size(); s++) {
    size_t i = r.below(op.args.size());
    if (clsOf.count(i)) continue;
    std::string cls;
    if (op.args[i].type == 'd') {
      const DSpec& d = kD[r.below(sizeof(kD) / sizeof(kD[0]))];
      cls = d.cls;
      a[i] = cls == "nan" ? kNaN : cls == "inf" ? kInf : cls == "-inf" ? -kInf : d.v;
    } else {
      const ISpec& d = kI[r.below(sizeof(kI) / sizeof(kI[0]))];
      cls = d.cls;
      a[i] = d.v;
    }
    clsOf[i] = cls;
  }
  if (clsOf.size() > 1) {
    // a known-defect argument is never combined with another special value
    for (auto& kv : clsOf)
      if (isHot(std::string("arg:") + op.name + "." + op.args[kv.first].name)) {
        std::pair<size_t, std::string> keep = kv;
        for (auto& o : clsOf) if (o.first != keep.first) a[o.first] = op.args[o.first].typical;
        clsOf.clear();
        clsOf.insert(keep);
        break;
      }
  }
  std::string what, whatCls;
  std::set<size_t> used;
  for (auto& kv : clsOf) {
    used.insert(kv.first);
    what += (what.empty() ? "" : "&") + std::string(op.args[kv.first].name);
    whatCls += (whatCls.empty() ? "" : "&") + kv.second;
  }
  if (what.empty()) { what = "all"; whatCls = "typical"; }
  // "arg:<Op>.<arg>/<class>": the head names the argument, the tail the value class
  std::string label = std::string("arg:") + op.name + "." + what + "/" + whatCls;
  c.count("arg_mutants_generated");
  if (op.resourceBound(a)) {  // valid request that is merely too large: not what C09 is about
    c.count("resource_bound_not_executed");
    return;
  }
  vh::Rng rr = r.fork();
  auto run = [&c, rr, &op, a, label]() mutable {
    vh::J j;
    for (size_t i = 0; i < a.size(); i++) j.d(op.args[i].name, a[i]);
    std::string detail = vh::J().s("op", op.name).raw("args", j.str()).str();
    ArgCtx k{c, rr, label, detail};
    c.count("arg_mutants");
    op.exec(k, a);
  };
  bool anyHot = isHot(label);
  for (size_t i : used) anyHot = anyHot || isHot(std::string("arg:") + op.name + "." + op.args[i].name);
  if (anyHot) { hot.push_back({label, run}); return; }
  run();
}

}  // namespace

// ------------------------------------------------------------- driver glue
void vh_init(vh::Ctx& c) {
  g_trace = getenv("VERIF_TRACE") != nullptr;
  std::string hot = c.param("hot", "");
  std::string cur;
  for (char ch : hot + ",") {
    if (ch == ',' || ch == ';') { if (!cur.empty()) g_hot.insert(cur); cur.clear(); }
    else cur += ch;
  }
  // only what this stage needs: a crashing mutant costs a process restart
  const std::string mode = c.param("mode", "mesh");
  c.heartbeat();  // the watchdog also covers start-up; on a loaded machine that is not instantaneous
  if (mode == "mesh") buildBases(c);
  else if (mode == "poly") buildObjBases(c);
  else buildArgOps();
  (void)partner();
  c.heartbeat();
}

void vh_case(vh::Ctx& c) {
  const std::string mode = c.param("mode", "mesh");
  const int n = (int)c.iparam("mutants", 40);
  const double hotPerCase = c.dparam("hotPerCase", 0.25);
  std::vector<Deferred> hot;
  // Triage mode (development aid, never used by the spec): every mutant runs
  // in a forked child so that one run lists every crashing label.
  const bool triage = c.iparam("triage", 0) != 0;
  for (int i = 0; i < n; i++) {
    vh::Rng r = c.rng.fork();
    if (triage) {
      g_trace = true;
      fflush(nullptr);
      pid_t pid = fork();
      if (pid == 0) {
        alarm(30);
        if (mode == "mesh") meshMutant(c, r, hot);
        else if (mode == "poly") { int k = (int)r.below(10); if (k < 6) polyMutant(c, r, hot); else if (k < 8) ptsMutant(c, r, hot); else objMutant(c, r, hot); }
        else argMutant(c, r, hot);
        for (auto& h : hot) h.run();
        fflush(nullptr);
        _exit(0);
      }
      int st = 0;
      waitpid(pid, &st, 0);
      if (!(WIFEXITED(st) && WEXITSTATUS(st) == 0)) fprintf(stderr, "CHILD-DIED case=%ld mutant=%d status=%d sig=%d\n", c.idx, i, WIFEXITED(st) ? WEXITSTATUS(st) : -1, WIFSIGNALED(st) ? WTERMSIG(st) : 0);
      continue;
    }
    if (mode == "mesh") meshMutant(c, r, hot);
    else if (mode == "poly") {
      int k = (int)r.below(10);
      if (k < 6) polyMutant(c, r, hot);
      else if (k < 8) ptsMutant(c, r, hot);
      else objMutant(c, r, hot);
    } else argMutant(c, r, hot);
    if (i % 8 == 7) c.heartbeat();
  }
  // Mutants whose label is listed in `hot` (known to crash the pinned tree) run
  // LAST and at most one per case, so that the crash costs no other mutant.
  c.count("hot_deferred", (long long)hot.size());
  if (!hot.empty() && c.rng.chance(hotPerCase)) {
    c.count("hot_executed");
    hot[c.rng.below(hot.size())].run();
  }
}
