// c11_geom2d.h — independent 2D oracles shared by the C11 and C12 harnesses.
// Nothing here calls into the library's algorithms: it only reads
// manifold::Polygons (vectors of vec2) produced by the public API.
//
//   * orient()      exact sign of the 2x2 orientation determinant (double
//                   filter with Shewchuk's error bound, then an exact
//                   floating-point expansion of the six products)
//   * winding()     integer winding number of a point w.r.t. a contour soup
//                   (crossing rule, decided by orient(): exact whenever the
//                   point is not on an edge)
//   * distSeg()...  point-segment / point-line distance in long double
//   * epsFromScale  the epsilon docs/Boolean2.md derives from the input
//                   bounding box: (k+1)*alpha, alpha = 12.37*u*L, k = 1000,
//                   L rounded up to a power of two
//   * mergeDrift()  largest diameter of a cluster of input vertices chained
//                   by distances <= thr (the documented transitive vertex
//                   merge can move a vertex that far)
//   * deepCrossing  proper crossing of two segments whose four endpoints are
//                   all farther than `band` from the other segment's line
//   * Sampler       adversarial sample points around edges and vertices
//
// NOTE for maintainers: vcheck hashes only the harness .cpp and common/*, so
// after editing this header bump the "geom2d-rev" comment in c11_crosssection.cpp
// and c12_offset.cpp (or delete the cached harness executables).
#pragma once
#include <algorithm>
#include <array>
#include <cfloat>
#include <cmath>
#include <cstdint>
#include <cstdio>
#include <functional>
#include <limits>
#include <string>
#include <unordered_map>
#include <vector>

#include "common/vh.h"
#include "manifold/cross_section.h"

namespace g2 {
using manifold::Polygons;
using manifold::SimplePolygon;
using manifold::vec2;
typedef long double ld;

// ------------------------------------------------------------ exact orient
namespace detail {
inline void twoSum(double a, double b, double& s, double& e) {
  s = a + b;
  double bb = s - a;
  e = (a - (s - bb)) + (b - bb);
}
inline void twoProd(double a, double b, double& p, double& e) {
  p = a * b;
  e = std::fma(a, b, -p);
}
// grow a non-overlapping expansion (increasing magnitude) by one double
inline void grow(std::vector<double>& ex, double b) {
  double q = b;
  std::vector<double> out;
  out.reserve(ex.size() + 1);
  for (double e : ex) {
    double s, h;
    twoSum(q, e, s, h);
    if (h != 0) out.push_back(h);
    q = s;
  }
  if (q != 0) out.push_back(q);
  ex.swap(out);
}
inline int exactOrient(vec2 a, vec2 b, vec2 c) {
  // ax*by - ax*cy - cx*by - ay*bx + ay*cx + cy*bx   (cx*cy cancels)
  const double f[6][2] = {{a.x, b.y}, {-a.x, c.y}, {-c.x, b.y}, {-a.y, b.x}, {a.y, c.x}, {c.y, b.x}};
  std::vector<double> ex;
  for (auto& t : f) {
    double p, e;
    twoProd(t[0], t[1], p, e);
    grow(ex, e);
    grow(ex, p);
  }
  if (ex.empty()) return 0;
  return ex.back() > 0 ? 1 : -1;
}
}  // namespace detail

// sign of (b-a) x (c-a): +1 when a,b,c turn counter-clockwise. Exact for
// finite doubles whose pairwise products neither overflow nor underflow.
inline int orient(vec2 a, vec2 b, vec2 c) {
  const double l = (a.x - c.x) * (b.y - c.y);
  const double r = (a.y - c.y) * (b.x - c.x);
  const double det = l - r;
  const double bound = 3.3306690738754716e-16 * (std::fabs(l) + std::fabs(r));
  if (det > bound) return 1;
  if (-det > bound) return -1;
  return detail::exactOrient(a, b, c);
}

// ------------------------------------------------------------ segments
struct Seg {
  vec2 a, b;
};

inline std::vector<Seg> segsOf(const Polygons& P) {
  std::vector<Seg> s;
  for (const auto& ring : P) {
    const size_t n = ring.size();
    if (n < 2) continue;
    for (size_t i = 0; i < n; i++) {
      vec2 a = ring[i], b = ring[(i + 1) % n];
      if (a.x == b.x && a.y == b.y) continue;
      s.push_back({a, b});
    }
  }
  return s;
}
inline void appendSegs(std::vector<Seg>& s, const Polygons& P) {
  auto t = segsOf(P);
  s.insert(s.end(), t.begin(), t.end());
}

// Integer winding number of p w.r.t. the contour soup P. Exact if p lies on
// no edge (callers keep p outside a guard band around every edge).
inline int winding(const Polygons& P, vec2 p) {
  int w = 0;
  for (const auto& ring : P) {
    const size_t n = ring.size();
    if (n < 3) continue;
    for (size_t i = 0; i < n; i++) {
      const vec2 a = ring[i], b = ring[(i + 1) % n];
      if (a.y <= p.y) {
        if (b.y > p.y && orient(a, b, p) > 0) w++;
      } else {
        if (b.y <= p.y && orient(a, b, p) < 0) w--;
      }
    }
  }
  return w;
}
inline int windingSegs(const std::vector<Seg>& S, vec2 p) {
  int w = 0;
  for (const Seg& s : S) {
    if (s.a.y <= p.y) {
      if (s.b.y > p.y && orient(s.a, s.b, p) > 0) w++;
    } else {
      if (s.b.y <= p.y && orient(s.a, s.b, p) < 0) w--;
    }
  }
  return w;
}

inline ld distPt(vec2 p, vec2 q) { return hypotl((ld)p.x - q.x, (ld)p.y - q.y); }

inline ld distSeg(vec2 p, vec2 a, vec2 b) {
  const ld abx = (ld)b.x - a.x, aby = (ld)b.y - a.y;
  const ld apx = (ld)p.x - a.x, apy = (ld)p.y - a.y;
  const ld l2 = abx * abx + aby * aby;
  if (l2 == 0) return hypotl(apx, apy);
  ld t = (apx * abx + apy * aby) / l2;
  if (t < 0) t = 0;
  if (t > 1) t = 1;
  return hypotl(apx - t * abx, apy - t * aby);
}
// distance from p to the infinite line through a,b (to a if a==b)
inline ld distLine(vec2 p, vec2 a, vec2 b) {
  const ld abx = (ld)b.x - a.x, aby = (ld)b.y - a.y;
  const ld apx = (ld)p.x - a.x, apy = (ld)p.y - a.y;
  const ld l = hypotl(abx, aby);
  if (l == 0) return hypotl(apx, apy);
  return fabsl(apx * aby - apy * abx) / l;
}
inline ld distToSegs(vec2 p, const std::vector<Seg>& S) {
  ld best = std::numeric_limits<ld>::infinity();
  for (const Seg& s : S) {
    // cheap reject on the bounding box
    const double lox = std::min(s.a.x, s.b.x), hix = std::max(s.a.x, s.b.x);
    const double loy = std::min(s.a.y, s.b.y), hiy = std::max(s.a.y, s.b.y);
    ld dx = p.x < lox ? (ld)lox - p.x : (p.x > hix ? (ld)p.x - hix : 0);
    ld dy = p.y < loy ? (ld)loy - p.y : (p.y > hiy ? (ld)p.y - hiy : 0);
    if (dx >= best || dy >= best) continue;
    ld d = distSeg(p, s.a, s.b);
    if (d < best) best = d;
  }
  return best;
}

// ------------------------------------------------------------ scale / eps
inline double maxAbs(const Polygons& P) {
  double m = 0;
  for (const auto& r : P)
    for (const vec2& v : r) m = std::max(m, std::max(std::fabs(v.x), std::fabs(v.y)));
  return m;
}
inline double maxAbsSegs(const std::vector<Seg>& S) {
  double m = 0;
  for (const Seg& s : S)
    m = std::max(m, std::max(std::max(std::fabs(s.a.x), std::fabs(s.a.y)), std::max(std::fabs(s.b.x), std::fabs(s.b.y))));
  return m;
}
// docs/Boolean2.md: alpha = 12.37*u*L, input features use budget k = 1000,
// eps = (k+1)*alpha; L is rounded up to the next power of two (never smaller
// than the un-rounded formula).
inline double epsFromScale(double L, int k = 1000) {
  if (!(L > 0) || !std::isfinite(L)) return 0;
  int e;
  std::frexp(L, &e);
  return std::ldexp((k + 1) * 12.37 * 1.110223024625156540423631668e-16, e);
}

inline bool allFinite(const Polygons& P) {
  for (const auto& r : P)
    for (const vec2& v : r)
      if (!std::isfinite(v.x) || !std::isfinite(v.y)) return false;
  return true;
}

inline ld areaOf(const Polygons& P) {
  ld A = 0;
  for (const auto& r : P) {
    const size_t n = r.size();
    if (n < 3) continue;
    ld s = 0;
    for (size_t i = 0; i < n; i++) {
      const vec2 a = r[i], b = r[(i + 1) % n];
      s += ((ld)a.x - r[0].x) * ((ld)b.y - r[0].y) - ((ld)a.y - r[0].y) * ((ld)b.x - r[0].x);
    }
    A += s / 2;
  }
  return A;
}
inline ld ringArea(const SimplePolygon& r) { return areaOf(Polygons{r}); }

inline size_t numVerts(const Polygons& P) {
  size_t n = 0;
  for (auto& r : P) n += r.size();
  return n;
}

// ------------------------------------------------------------ merge drift
// Union-find over points chained by distance <= thr (hash grid, cell = thr);
// returns the largest cluster diameter (bounding-box diagonal, an upper
// bound). Exactly coincident points give 0.
inline double mergeDrift(const std::vector<vec2>& pts, double thr) {
  const size_t n = pts.size();
  if (n < 2 || !(thr > 0)) return 0;
  std::vector<int> parent(n);
  for (size_t i = 0; i < n; i++) parent[i] = (int)i;
  std::function<int(int)> find = [&](int x) {
    while (parent[x] != x) {
      parent[x] = parent[parent[x]];
      x = parent[x];
    }
    return x;
  };
  struct KeyHash {
    size_t operator()(const std::pair<int64_t, int64_t>& k) const {
      return (size_t)vh::mix2((uint64_t)k.first, (uint64_t)k.second);
    }
  };
  std::unordered_map<std::pair<int64_t, int64_t>, std::vector<int>, KeyHash> grid;
  grid.reserve(n * 2);
  auto cell = [&](double v) { return (int64_t)std::floor(v / thr); };
  bool any = false;
  for (size_t i = 0; i < n; i++) {
    const int64_t cx = cell(pts[i].x), cy = cell(pts[i].y);
    for (int64_t dx = -1; dx <= 1; dx++)
      for (int64_t dy = -1; dy <= 1; dy++) {
        auto it = grid.find({cx + dx, cy + dy});
        if (it == grid.end()) continue;
        for (int j : it->second) {
          if (pts[j].x == pts[i].x && pts[j].y == pts[i].y) {
            parent[find((int)i)] = find(j);
            continue;
          }
          if (distPt(pts[i], pts[j]) <= thr) {
            parent[find((int)i)] = find(j);
            any = true;
          }
        }
      }
    grid[{cx, cy}].push_back((int)i);
  }
  if (!any) return 0;
  std::unordered_map<int, std::array<double, 4>> box;
  for (size_t i = 0; i < n; i++) {
    int r = find((int)i);
    auto it = box.find(r);
    if (it == box.end())
      box[r] = {pts[i].x, pts[i].y, pts[i].x, pts[i].y};
    else {
      auto& b = it->second;
      b[0] = std::min(b[0], pts[i].x);
      b[1] = std::min(b[1], pts[i].y);
      b[2] = std::max(b[2], pts[i].x);
      b[3] = std::max(b[3], pts[i].y);
    }
  }
  double worst = 0;
  for (auto& kv : box) worst = std::max(worst, std::hypot(kv.second[2] - kv.second[0], kv.second[3] - kv.second[1]));
  return worst;
}
inline std::vector<vec2> vertsOf(const Polygons& P) {
  std::vector<vec2> v;
  for (auto& r : P) v.insert(v.end(), r.begin(), r.end());
  return v;
}

// ------------------------------------------------------------ deep crossing
struct Crossing {
  bool found = false;
  Seg s, t;
  long pairsTested = 0;
};
// Two segments cross "deeper than band": they intersect properly (exact
// predicates, interiors only) and each of the four endpoints is farther than
// band from the line through the other segment.
inline Crossing deepCrossing(const std::vector<Seg>& S, ld band) {
  Crossing out;
  const size_t n = S.size();
  std::vector<int> order(n);
  for (size_t i = 0; i < n; i++) order[i] = (int)i;
  auto minx = [&](int i) { return std::min(S[i].a.x, S[i].b.x); };
  auto maxx = [&](int i) { return std::max(S[i].a.x, S[i].b.x); };
  std::sort(order.begin(), order.end(), [&](int a, int b) { return minx(a) < minx(b); });
  for (size_t oi = 0; oi < n; oi++) {
    const Seg& s = S[order[oi]];
    const double sxhi = maxx(order[oi]);
    const double sylo = std::min(s.a.y, s.b.y), syhi = std::max(s.a.y, s.b.y);
    for (size_t oj = oi + 1; oj < n; oj++) {
      const Seg& t = S[order[oj]];
      if (minx(order[oj]) > sxhi) break;
      if (std::min(t.a.y, t.b.y) > syhi || std::max(t.a.y, t.b.y) < sylo) continue;
      out.pairsTested++;
      const int o1 = orient(s.a, s.b, t.a), o2 = orient(s.a, s.b, t.b);
      if (o1 * o2 >= 0) continue;
      const int o3 = orient(t.a, t.b, s.a), o4 = orient(t.a, t.b, s.b);
      if (o3 * o4 >= 0) continue;
      if (distLine(t.a, s.a, s.b) > band && distLine(t.b, s.a, s.b) > band && distLine(s.a, t.a, t.b) > band &&
          distLine(s.b, t.a, t.b) > band) {
        out.found = true;
        out.s = s;
        out.t = t;
        return out;
      }
    }
  }
  return out;
}

// ------------------------------------------------------------ printing
inline std::string polyJson(const Polygons& P, size_t capVerts = 600) {
  std::string o = "[";
  size_t used = 0;
  bool firstRing = true;
  for (const auto& r : P) {
    if (!firstRing) o += ",";
    firstRing = false;
    o += "[";
    for (size_t i = 0; i < r.size(); i++) {
      if (used++ >= capVerts) {
        o += (i ? ",\"...\"" : "\"...\"");
        break;
      }
      char t[80];
      snprintf(t, sizeof t, "%s[%.17g,%.17g]", i ? "," : "", r[i].x, r[i].y);
      o += t;
    }
    o += "]";
    if (used >= capVerts) break;
  }
  o += "]";
  if (used >= capVerts) {
    // keep valid JSON: append a marker ring
    o.insert(o.size() - 1, ",\"truncated(" + std::to_string(numVerts(P)) + " verts)\"");
  }
  return o;
}
inline std::string ptJson(vec2 p) {
  char t[80];
  snprintf(t, sizeof t, "[%.17g,%.17g]", p.x, p.y);
  return t;
}
inline std::string segJson(const Seg& s) { return "[" + ptJson(s.a) + "," + ptJson(s.b) + "]"; }

inline uint64_t hashPolys(const Polygons& P, uint64_t h = 0xcbf29ce484222325ull) {
  for (const auto& r : P) {
    uint64_t n = r.size();
    h = vh::fnv(&n, sizeof n, h);
    for (const vec2& v : r) {
      double c[2] = {v.x, v.y};
      h = vh::fnv(c, sizeof c, h);
    }
  }
  return h;
}

// ------------------------------------------------------------ sampler
// Adversarial sample points: along normals of edges at multiples of the band,
// around vertices, plus stratified random points over the bounding box.
struct Sampler {
  vh::Rng& rng;
  std::vector<vec2> pts;
  explicit Sampler(vh::Rng& r) : rng(r) {}

  void aroundEdges(const std::vector<Seg>& S, double band, size_t maxEdges, const std::vector<double>& mult) {
    if (S.empty() || !(band > 0)) return;
    const size_t n = S.size();
    const size_t take = std::min(n, maxEdges);
    for (size_t k = 0; k < take; k++) {
      const Seg& s = (take == n) ? S[k] : S[rng.below(n)];
      const double ex = s.b.x - s.a.x, ey = s.b.y - s.a.y;
      const double len = std::hypot(ex, ey);
      if (!(len > 0) || !std::isfinite(len)) continue;
      const double nx = ey / len, ny = -ex / len;
      double ts[3] = {0.5, rng.uni(0.02, 0.98), std::min(0.5, 3.0 * band / len)};
      if (rng.chance(0.5)) ts[2] = 1.0 - ts[2];
      for (double t : ts) {
        const double mx = s.a.x + t * ex, my = s.a.y + t * ey;
        const double m = mult[rng.below(mult.size())] * band;
        pts.push_back(vec2(mx + nx * m, my + ny * m));
        pts.push_back(vec2(mx - nx * m, my - ny * m));
      }
    }
  }
  void aroundVerts(const std::vector<Seg>& S, double band, size_t maxVerts, const std::vector<double>& mult) {
    if (S.empty() || !(band > 0)) return;
    const size_t n = S.size();
    const size_t take = std::min(n, maxVerts);
    for (size_t k = 0; k < take; k++) {
      const vec2 v = (take == n) ? S[k].a : S[rng.below(n)].a;
      for (int d = 0; d < 3; d++) {
        const double ang = rng.uni(0, 6.283185307179586);
        const double m = mult[rng.below(mult.size())] * band;
        pts.push_back(vec2(v.x + std::cos(ang) * m, v.y + std::sin(ang) * m));
      }
    }
  }
  void stratified(double x0, double y0, double x1, double y1, int grid) {
    if (!(x1 > x0) || !(y1 > y0)) return;
    const double mx = 0.05 * (x1 - x0), my = 0.05 * (y1 - y0);
    x0 -= mx, x1 += mx, y0 -= my, y1 += my;
    for (int i = 0; i < grid; i++)
      for (int j = 0; j < grid; j++)
        pts.push_back(vec2(x0 + (x1 - x0) * (i + rng.uni()) / grid, y0 + (y1 - y0) * (j + rng.uni()) / grid));
  }
};

inline void bbox(const std::vector<Seg>& S, double& x0, double& y0, double& x1, double& y1) {
  x0 = y0 = std::numeric_limits<double>::infinity();
  x1 = y1 = -std::numeric_limits<double>::infinity();
  for (const Seg& s : S) {
    x0 = std::min(x0, std::min(s.a.x, s.b.x));
    x1 = std::max(x1, std::max(s.a.x, s.b.x));
    y0 = std::min(y0, std::min(s.a.y, s.b.y));
    y1 = std::max(y1, std::max(s.a.y, s.b.y));
  }
}

}  // namespace g2
