// C04 — results are bit-identical across schedules, thread counts and
// backends. One case = one program (generated from the case seed, identical
// in every stage through the shared "seedgroup"); it is executed
//   * once in the serial build (stage `ser`),
//   * under `schedules` adversarial schedules of the TBB shim, each with its
//     own virtual worker count 1..16 (stage `shim`),
//   * `schedules` times on real oneTBB inside arenas of concurrency
//     1,2,3,4,8,16 (stage `tbb`),
// all executions inside one stage must give identical canonical hashes, and
// the driver compares the hashes of the same case across stages
// (cross_stage_equal). Hashes cover every MeshGL64 field (original IDs by
// rank: the global ID counter legitimately differs between processes).
#include "common/dsl.h"
#include "common/oracles.h"
#include "common/vh.h"
#include "manifold/cross_section.h"
#include "manifold/polygon.h"

#if defined(VSHIM_ADVERSARIAL)
#include "tbb/vshim.h"
#define HAVE_SHIM 1
#else
#define HAVE_SHIM 0
#endif
#if (MANIFOLD_PAR == 1) && !HAVE_SHIM && !defined(VSHIM_THREADED)
#define HAVE_REAL_TBB 1
#include <tbb/task_arena.h>
#endif

using namespace manifold;

namespace {

struct Out {
  std::vector<std::pair<std::string, std::string>> vals;  // name -> hash
  void mesh(const std::string& n, const Manifold& m) {
    MeshGL64 g = m.GetMeshGL64();
    vals.push_back({n, vo::HashMesh(g, false).hex() + ":" + std::to_string(g.triVerts.size() / 3) + ":" + vo::ErrName(m.Status())});
  }
  void polys(const std::string& n, const Polygons& p) { vals.push_back({n, vo::HashPolygons(p).hex()}); }
  void tris(const std::string& n, const std::vector<ivec3>& t) {
    vo::Hash128 h;
    h.vec(t);
    vals.push_back({n, h.hex()});
  }
  void num(const std::string& n, double v) {
    vo::Hash128 h;
    h.pod(v);
    vals.push_back({n, h.hex()});
  }
};

Polygons circleish(vh::Rng& r, int n, double rad, vec2 c) {
  Polygons p(1);
  for (int i = 0; i < n; i++) {
    double a = 2 * kPi * i / n;
    double rr = rad * (1 + 0.2 * sin(7 * a) + 0.05 * r.uni(-1, 1));
    p[0].push_back({c.x + rr * cos(a), c.y + rr * sin(a)});
  }
  return p;
}

// The program is a deterministic function of the seed; `scale` selects sizes
// (0 = small/quick, 1 = above the 1e4/1e5 thresholds, 2 = above 1e6 halfedges).
void program(uint64_t seed, int profile, int scale, Out& out) {
  vh::Rng r(seed);
  const int segBig = scale == 0 ? 48 : (scale == 1 ? 4 * (int)r.range(30, 50) : 840);
  switch (profile) {
    case 0: {  // Boolean of two curved solids, all three ops
      Manifold a = Manifold::Sphere(1.0, segBig);
      Manifold b = r.chance(0.5) ? Manifold::Sphere(0.8, segBig).Translate(vec3(r.uni(0.2, 0.7), r.uni(-0.3, 0.3), r.uni(-0.3, 0.3)))
                                 : Manifold::Cylinder(3, 0.5, 0.4, segBig, true).Rotate(r.uni(0, 90), r.uni(0, 90), 0);
      out.mesh("add", a + b);
      out.mesh("sub", a - b);
      out.mesh("int", a ^ b);
      break;
    }
    case 1: {  // dense coplanar / duplicate geometry: ties and equal Morton codes
      int n = scale == 0 ? 8 : 36;
      Manifold a = Manifold::Cube(vec3(1.0)).Refine(n);
      double cell = 1.0 / n;
      Manifold b = a.Translate(vec3(cell * r.range(1, n - 1), cell * r.range(0, n - 1), r.chance(0.5) ? 0.0 : cell * r.range(1, n - 1)));
      out.mesh("coplanar-add", a + b);
      out.mesh("coplanar-sub", a - b);
      out.mesh("self-add", a + a);
      break;
    }
    case 2: {  // BatchBoolean (heap + task_group) and Compose of disjoint parts
      int n = scale == 0 ? 6 : (int)r.range(10, 24);
      std::vector<Manifold> ms;
      for (int i = 0; i < n; i++) {
        Manifold m = r.chance(0.5) ? Manifold::Sphere(r.uni(0.3, 0.6), scale == 0 ? 12 : 40) : Manifold::Cube(vec3(r.uni(0.3, 0.8)), true).Rotate(r.uni(0, 90), r.uni(0, 90), r.uni(0, 90));
        ms.push_back(m.Translate(vec3(r.uni(-1, 1), r.uni(-1, 1), r.uni(-1, 1))));
      }
      out.mesh("batch-add", Manifold::BatchBoolean(ms, OpType::Add));
      out.mesh("batch-sub", Manifold::BatchBoolean(ms, OpType::Subtract));
      out.mesh("batch-int", Manifold::BatchBoolean({ms[0], ms[0].Translate(vec3(0.1)), ms[0].Translate(vec3(-0.1, 0.05, 0))}, OpType::Intersect));
      std::vector<Manifold> far;
      for (int i = 0; i < n; i++) far.push_back(ms[i].Translate(vec3(5.0 * i, 0, 0)));
      Manifold comp = Manifold::BatchBoolean(far, OpType::Add);
      out.mesh("disjoint-union", comp);
      auto parts = comp.Decompose();
      out.num("decompose-count", (double)parts.size());
      if (!parts.empty()) out.mesh("decompose-0", parts[0]);
      if (parts.size() > 1) out.mesh("decompose-last", parts.back());
      break;
    }
    case 3: {  // Refine / Subdivide / SmoothOut
      Manifold a = Manifold::Sphere(1.0, scale == 0 ? 16 : 64) - Manifold::Cube(vec3(1.2), true).Translate(vec3(0.7, 0.2, 0.1));
      out.mesh("refine", a.Refine(scale == 0 ? 2 : 4));
      out.mesh("refine-to-length", a.RefineToLength(scale == 0 ? 0.2 : 0.03));
      Manifold s = a.SmoothOut(r.uni(30, 70), r.chance(0.5) ? 0 : 0.3);
      out.mesh("smoothout", s);
      out.mesh("smooth-refine", s.Refine(scale == 0 ? 2 : 4));
      out.mesh("smooth-refine-tol", s.RefineToTolerance(scale == 0 ? 0.02 : 0.002));
      break;
    }
    case 4: {  // Simplify / SetTolerance (FlagStore::run_par), noisy mesh
      Manifold a = Manifold::Sphere(1.0, scale == 0 ? 24 : 4 * (int)r.range(24, 40));
      double amp = r.uni(1e-4, 1e-2);
      Manifold w = a.Warp([amp](vec3& p) { p += amp * vec3(sin(37 * p.y), sin(41 * p.z), sin(43 * p.x)); });
      out.mesh("simplify", w.Simplify(amp * r.uni(0.5, 4)));
      out.mesh("settolerance", w.SetTolerance(amp * r.uni(0.5, 4)));
      Manifold c = Manifold::Cube(vec3(1.0)).Refine(scale == 0 ? 6 : 30);
      out.mesh("simplify-flat", c.Simplify(1e-6));
      out.mesh("asoriginal", (a - c).AsOriginal().Simplify(0));
      break;
    }
    case 5: {  // properties: normals, curvature
      Manifold a = Manifold::Sphere(1.0, scale == 0 ? 24 : 4 * (int)r.range(24, 40)) + Manifold::Cube(vec3(1.4), true).Rotate(r.uni(0, 45), r.uni(0, 45), 0);
      out.mesh("normals", a.CalculateNormals(0, r.uni(20, 80)));
      out.mesh("curvature", a.CalculateCurvature(0, 1));
      out.mesh("setprops", a.SetProperties(3, [](double* o, vec3 p, const double*) { o[0] = p.x * 2; o[1] = p.y + p.z; o[2] = 1; }));
      break;
    }
    case 6: {  // LevelSet, both canParallel settings
      double edge = scale == 0 ? 0.25 : r.uni(0.035, 0.06);
      auto gyroid = [](vec3 p) {
        p = p * 3.0;
        return cos(p.x) * sin(p.y) + cos(p.y) * sin(p.z) + cos(p.z) * sin(p.x) - 0.2 * (la::dot(p, p) / 20);
      };
      out.mesh("levelset-par", Manifold::LevelSet(gyroid, Box(vec3(-1.5), vec3(1.5)), edge, 0.0, -1, true));
      out.mesh("levelset-seq", Manifold::LevelSet(gyroid, Box(vec3(-1.5), vec3(1.5)), edge, 0.0, -1, false));
      out.mesh("levelset-tol", Manifold::LevelSet([](vec3 p) { return 1.0 - la::length(p); }, Box(vec3(-1.3), vec3(1.3)), edge * 1.5, 0.0, edge * 0.01, true));
      break;
    }
    case 7: {  // Hull
      int n = scale == 0 ? 500 : 120000;
      std::vector<vec3> pts(n);
      for (auto& p : pts) {
        vec3 v(r.uni(-1, 1), r.uni(-1, 1), r.uni(-1, 1));
        p = r.chance(0.5) ? la::normalize(v) : v;
      }
      out.mesh("hull-points", Manifold::Hull(pts));
      Manifold a = Manifold::Sphere(1.0, scale == 0 ? 16 : 100) - Manifold::Cube(vec3(1.0));
      out.mesh("hull-manifold", a.Hull());
      out.mesh("hull-pair", Manifold::Hull({a, a.Translate(vec3(2, 0.3, 0))}));
      break;
    }
    case 8: {  // Minkowski (small: expensive)
      Manifold a = Manifold::Cube(vec3(1.0), true) - Manifold::Cube(vec3(1.0), true).Translate(vec3(0.5));
      Manifold b = Manifold::Sphere(0.2, scale == 0 ? 8 : 12);
      out.mesh("minkowski-sum", a.MinkowskiSum(b));
      out.mesh("minkowski-diff", a.MinkowskiDifference(Manifold::Cube(vec3(0.2), true)));
      break;
    }
    case 9: {  // MeshGL import (float and double), Merge
      Manifold a = Manifold::Sphere(1.0, scale == 0 ? 24 : 4 * (int)r.range(30, 50)).CalculateNormals(0, 30) - Manifold::Cube(vec3(1.0)).SetProperties(3, [](double* o, vec3 p, const double*) { o[0] = p.x; o[1] = p.y; o[2] = p.z; });
      MeshGL64 g = a.GetMeshGL64();
      out.mesh("reimport64", Manifold(g));
      out.mesh("reimport32", Manifold(a.GetMeshGL()));
      MeshGL64 stripped = g;
      stripped.mergeFromVert.clear();
      stripped.mergeToVert.clear();
      bool merged = stripped.Merge();
      out.num("merge-returned", merged ? 1 : 0);
      out.mesh("merged-import", Manifold(stripped));
      break;
    }
    case 10: {  // CrossSection Booleans above the BVH / PAR thresholds, Offset, Triangulate
      int n = scale == 0 ? 200 : (int)r.range(6000, 14000);
      CrossSection a(circleish(r, n, 1.0, {0, 0}));
      CrossSection b(circleish(r, n, 0.9, {r.uni(0.2, 0.6), r.uni(-0.3, 0.3)}));
      out.polys("cs-add", (a + b).ToPolygons());
      out.polys("cs-sub", (a - b).ToPolygons());
      out.polys("cs-int", (a ^ b).ToPolygons());
      std::vector<CrossSection> many;
      for (int i = 0; i < (scale == 0 ? 5 : 30); i++) many.push_back(CrossSection::Circle(r.uni(0.2, 0.5), scale == 0 ? 16 : 400).Translate({r.uni(-1, 1), r.uni(-1, 1)}));
      CrossSection u = CrossSection::BatchBoolean(many, OpType::Add);
      out.polys("cs-batch", u.ToPolygons());
      out.polys("cs-offset", u.Offset(r.uni(0.01, 0.1), CrossSection::JoinType::Round, 2.0, scale == 0 ? 8 : 64).ToPolygons());
      out.polys("cs-inset", u.Offset(-r.uni(0.01, 0.05), CrossSection::JoinType::Miter).ToPolygons());
      out.polys("cs-simplify", (a - b).Simplify(1e-3).ToPolygons());
      out.polys("cs-hull", u.Hull().ToPolygons());
      Polygons tp = (a - u).ToPolygons();
      out.tris("triangulate", Triangulate(tp));
      out.mesh("extrude", Manifold::Extrude(tp, 1.0, 2, 30));
      break;
    }
    case 11: {  // Slice / Project / Split / plane cuts on a big mesh
      Manifold a = Manifold::Sphere(1.0, scale == 0 ? 24 : 4 * (int)r.range(24, 40)) - Manifold::Cylinder(3, 0.3, 0.3, scale == 0 ? 12 : 64, true);
      out.polys("slice", a.Slice(r.uni(-0.5, 0.5)));
      out.polys("project", a.Project());
      auto sp = a.SplitByPlane(vec3(r.uni(-1, 1), r.uni(-1, 1), 1), r.uni(-0.3, 0.3));
      out.mesh("splitplane-1", sp.first);
      out.mesh("splitplane-2", sp.second);
      auto ss = a.Split(Manifold::Cube(vec3(1.0)).Rotate(10, 20, 30));
      out.mesh("split-1", ss.first);
      out.mesh("split-2", ss.second);
      out.mesh("mirror", a.Mirror(vec3(1, 1, 0)) + a);
      break;
    }
    default: {  // random DSL program
      vd::Config cfg;
      cfg.maxTris = scale == 0 ? 3000 : 40000;
      cfg.allowMinkowski = false;
      vd::Gen g(r, cfg);
      int steps = r.range(6, 14);
      for (int s = 0; s < steps; s++) g.step();
      for (size_t i = 0; i < g.pool.size(); i++)
        if (i + 4 >= g.pool.size()) out.mesh("dsl-v" + std::to_string(i), g.pool[i].m);
      break;
    }
  }
}

}  // namespace

void vh_case(vh::Ctx& c) {
  int nProfiles = 13;
  int profile = (int)(c.idx % nProfiles);
  int scale = (int)c.iparam("scale", 0);
  if (scale == 2 && profile != 0 && profile != 3) scale = 1;
  int schedules = (int)c.iparam("schedules", 1);
  uint64_t pseed = c.caseSeed;
  c.site("profile" + std::to_string(profile));
  Out first;
  for (int s = 0; s < schedules; s++) {
    Out o;
#if HAVE_SHIM
    tbb::vshim::reseed(vh::mix2(c.caseSeed, 77 + s));
    uint64_t leaves0 = tbb::vshim::st().leaves, regions0 = tbb::vshim::st().regions, slots0 = tbb::vshim::st().combSlots;
    program(pseed, profile, scale, o);
    c.count("shim_regions", (long long)(tbb::vshim::st().regions - regions0));
    c.count("shim_leaves", (long long)(tbb::vshim::st().leaves - leaves0));
    c.count("shim_combinable_slots", (long long)(tbb::vshim::st().combSlots - slots0));
    c.sig(tbb::vshim::st().trace);
    c.maxi("shim_max_workers", tbb::vshim::st().W);
#elif defined(HAVE_REAL_TBB)
    static const int conc[] = {1, 2, 3, 4, 8, 16};
    int k = conc[(c.idx + s) % 6];
    tbb::task_arena arena(k);
    arena.execute([&] { program(pseed, profile, scale, o); });
    c.count("tbb_runs_conc_" + std::to_string(k));
    c.sig("p" + std::to_string(profile) + "#" + std::to_string(c.idx) + "#" + std::to_string(k));
#else
    program(pseed, profile, scale, o);
    c.sig("p" + std::to_string(profile) + "#" + std::to_string(c.idx));
#endif
    c.count("executions");
    c.count("values_hashed", (long long)o.vals.size());
    if (s == 0) {
      first = o;
      for (auto& kv : o.vals) c.value(kv.first, kv.second);
    } else {
      for (size_t i = 0; i < o.vals.size() && i < first.vals.size(); i++)
        if (o.vals[i].second != first.vals[i].second) {
          c.violation("schedule-dependent:profile" + std::to_string(profile) + ":" + o.vals[i].first,
                      vh::J().i("profile", profile).i("scale", scale).s("value", o.vals[i].first).s("first", first.vals[i].second).s("other", o.vals[i].second)
                          .i("schedule_index", s).s("variant", VERIF_VARIANT).str());
          return;
        }
    }
  }
  if (c.idx < 13) {
    std::string names = "[";
    for (size_t i = 0; i < first.vals.size(); i++) names += (i ? ",\"" : "\"") + first.vals[i].first + "=" + first.vals[i].second.substr(0, 12) + "\"";
    c.sample(vh::J().i("idx", c.idx).i("profile", profile).i("scale", scale).raw("values", names + "]").str());
  }
}
